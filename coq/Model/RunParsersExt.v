(** Replay of implementation observations (harness domain c14par) on the checked parser models. *)
From Acra Require Import Lib.Bytes Lib.Outcome Lib.GoSlice Gen.AuditLogConsts Gen.ParsersConsts Model.AuditLog.
From Acra Require Export Model.ParsersExt Model.HashExt.
Local Open Scope Z_scope.

Inductive expected := XOk (vals : list bytes) | XErr | XPanic.

(** long byte strings are written in chunks (a Coq number literal parses in quadratic time) *)
Definition hbs (l : list N) : bytes := flat_map hb l.

Inductive op :=
| ParseText (cef : bool) (line : bytes)        (* XOk [[0]] skip | XErr | XOk [[1]; raw; integrity; [new]; [end]] *)
| ScanRep (pre : bytes) (fill : bytes) (count : N) (post : bytes)   (* processLogFile on pre ++ fill^count ++ post *)
| LastIndex (tok s : bytes)                    (* strings.LastIndex *)
| HexDecode (s : bytes)                        (* hex.DecodeString *)
| DescribeKeyFile (name : bytes)
| CtxFromFilename (hist : bool) (name : bytes)
| DescribeKeyRing (path : bytes)
| SniOrHostname (sni host : bytes)
| TrimToN (q : bytes) (neg : bool) (n : N)
| TlsConvert (id digest : bytes)
| BinUnmarshal (raw decoded : bytes)
(* searchable-hash extractor: [HxSweep k base] runs every prefix [base[:n]], n = 0..len(base):
   k = 0 ExtractHash (one entry per n: the hash, empty = nil), k = 1 ExtractHashAndData (two entries per n: hash, rest) *)
| HxSweep (kind : N) (base : bytes)
| HxOnColumn (matched : bool) (data : bytes)   (* Processor.OnColumn: [out; hashData; rawData] *)
| HxStrip (data : bytes).                      (* NewHashProcessor with a recording inner processor: [received; hash] *)

Definition z8 (z : Z) : bytes := le_enc 8 (Z.to_N (z mod 18446744073709551616)).
Definition flag (b : bool) : bytes := [if b then x01 else x00].

Definition canon_pres (r : res pres) : expected :=
  match r with
  | Ok PSkip => XOk [[x00]]
  | Ok PErr => XErr
  | Ok (POk p) => XOk [[x01]; le_enc 8 (N.of_nat (length (p_raw p))); p_integ p; flag (p_new p); flag (p_end p)]
  | Err _ => XErr
  | Panic => XPanic
  end.
Definition canon3 (r : res (bytes * bytes * bytes)) : expected :=
  match r with Ok (a, b, c) => XOk [a; b; c] | Err _ => XErr | Panic => XPanic end.
Definition canon1 (r : res bytes) : expected :=
  match r with Ok a => XOk [a] | Err _ => XErr | Panic => XPanic end.

(** signature of a (possibly very long) line: length, first and last 8 bytes *)
Definition line_sig (l : bytes) : bytes :=
  le_enc 8 (N.of_nat (length l)) ++ firstn 8 l ++ rev (firstn 8 (rev_append l [])).

Fixpoint rep_bytes (fill : bytes) (n : nat) : bytes := match n with O => [] | S k => fill ++ rep_bytes fill k end.

Definition n8 (n : nat) : bytes := le_enc 8 (N.of_nat n).
Fixpoint chunks32 (fuel : nat) (b : bytes) : list bytes :=
  match fuel, b with
  | _, [] => []
  | O, _ => [b]
  | S f, _ => firstn 32 b :: chunks32 f (skipn 32 b)
  end.

(** sweep over all prefixes [base[:n]], n = 0..len(base).  Canonical result: one mask byte per length (0 = nil,
    1 = hash found), the hash found last, and for ExtractHashAndData one byte per length with len(rest)
    (that hash ++ rest is the value is the harness oracle's job).  [None] = some prefix panicked *)
Definition hx_one (kind : N) (d : bytes) : option (byte * bytes * byte) :=
  if (kind =? 0)%N then
    match hx_extract_hash HX_REGISTRY d with
    | Ok (Some h) => Some (x01, h, x00) | Ok None => Some (x00, [], x00) | _ => None end
  else
    match hx_extract_hash_and_data HX_REGISTRY d with
    | Ok (Some (h, r)) => Some (x01, h, n2b (N.of_nat (length r))) | Ok None => Some (x00, [], x00) | _ => None end.
Fixpoint hx_sweep (kind : N) (base : bytes) (n : nat) (mask : bytes) (hash : bytes) (rests : bytes) : option (list bytes) :=
  match hx_one kind (firstn (length base - n) base) with
  | None => None
  | Some (m, h, r) =>
      let hash' := match h with [] => hash | _ => h end in
      match n with
      | O => Some [rev_append (m :: mask) []; hash'; rev_append (r :: rests) []]
      | S k => hx_sweep kind base k (m :: mask) hash' (r :: rests)
      end
  end.

(** linear-time twins of [split_lines] / [scan_file] for the replay of very long lines
    ([List.rev] is quadratic); Proofs/ParsersExt.v: [scan_file_fast_eq] *)
Definition rev' (l : bytes) : bytes := rev_append l [].
Definition drop_cr' (l : bytes) : bytes := match rev' l with x0d :: r => rev' r | _ => l end.
Fixpoint split_lines_acc' (cur : bytes) (s : bytes) : list bytes :=
  match s with
  | [] => match cur with [] => [] | _ => [drop_cr' (rev' cur)] end
  | b :: s' => if byte_eqb b x0a then drop_cr' (rev' cur) :: split_lines_acc' [] s'
               else split_lines_acc' (b :: cur) s'
  end.
Definition scan_file_fast (file : bytes) : res (list bytes) :=
  let ls := split_lines_acc' [] file in
  if forallb (fun l => len l + 2 <=? PAR_MAX_LOG_LINE) ls then Ok ls else Err E_TOO_LONG.

Definition run (o : op) : expected :=
  match o with
  | ParseText cef line => canon_pres (c_line_pres cef line)
  | ScanRep pre fill count post =>
      match scan_file_fast (pre ++ rep_bytes fill (N.to_nat count) ++ post) with
      | Ok ls => XOk (map line_sig ls) | Err _ => XErr | Panic => XPanic end
  | LastIndex tok s => match c_last_index tok s with Ok i => XOk [z8 i] | Err _ => XErr | Panic => XPanic end
  | HexDecode s => match c_hex_decode s with Ok (Some b) => XOk [b] | Ok None => XErr | Err _ => XErr | Panic => XPanic end
  | DescribeKeyFile name => canon3 (c_describe_key_file name)
  | CtxFromFilename hist name => canon3 (c_ctx_from_filename hist name)
  | DescribeKeyRing path => canon3 (c_describe_key_ring path)
  | SniOrHostname sni host => canon1 (c_sni_or_hostname sni host)
  | TrimToN q neg n => canon1 (c_trim_to_n q (if neg then - Z.of_N n else Z.of_N n))
  | TlsConvert id digest => XOk (chunks32 (S (length digest)) (tls_convert (fun _ => digest) id))
  | BinUnmarshal raw decoded =>
      match c_binary_unmarshal (fun _ => decoded) raw with
      | Ok (Some b) => XOk [b] | Ok None => XErr | Err _ => XErr | Panic => XPanic end
  | HxSweep kind base =>
      match hx_sweep kind base (length base) [] [] [] with Some l => XOk l | None => XPanic end
  | HxOnColumn matched data =>
      match hx_on_column HX_REGISTRY (fun _ => matched) data with
      | Ok (out, None) => XOk [n8 (length out); []; n8 0]
      | Ok (out, Some (hd, raw)) => XOk [n8 (length out); hd; n8 (length raw)]
      | Err _ => XErr | Panic => XPanic end
  | HxStrip data =>
      match hx_strip_then HX_REGISTRY (fun x => Ok x) data with
      | Ok (got, None) => XOk [n8 (length got); []]
      | Ok (got, Some h) => XOk [n8 (length got); h]
      | Err _ => XErr | Panic => XPanic end
  end.

Fixpoint list_bytes_eqb (a b : list bytes) : bool :=
  match a, b with
  | [], [] => true
  | x :: a', y :: b' => bytes_eqb x y && list_bytes_eqb a' b'
  | _, _ => false
  end.

Definition expected_eqb (a b : expected) : bool :=
  match a, b with
  | XOk x, XOk y => list_bytes_eqb x y
  | XErr, XErr => true
  | XPanic, XPanic => true
  | _, _ => false
  end.

Fixpoint mismatches_from (i : nat) (cs : list (op * expected)) : list (nat * expected) :=
  match cs with
  | [] => []
  | (o, e) :: rest =>
      let m := run o in
      if expected_eqb m e then mismatches_from (S i) rest else (i, m) :: mismatches_from (S i) rest
  end.
Definition mismatches := mismatches_from 0.
