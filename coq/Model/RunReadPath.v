(** Replay of implementation observations on the identity model of the write / read path (Model/ReadPath.v),
    instantiated with the stand-in crypto ([Stub]).  Domain c02rp (property C02). *)
From Acra Require Import Lib.Bytes Lib.Outcome Lib.Sha256 Crypto.Interface Crypto.Stub Gen.Consts Gen.MaskConsts
  Model.Envelope Model.RunEnvelope Model.Masking Model.FullChain Model.IsoTokens Model.ReadPath.
Export RunEnvelope(expected, XOk, XErr, XPanic, mk_ks).
Definition RpTok := ReadPath.RpTok.
Definition RpEnc := ReadPath.RpEnc.

(* long byte strings arrive in chunks: [hbs [0x1<hex>; ...]] *)
Definition hbs (l : list N) : bytes := flat_map hb l.
Definition mk_ms := Build_mask_setting.
Definition mk_sch := Build_fc_schema.
Definition mk_fs := Build_fc_setting.
Definition mk_rps := Build_rp_setting.
Definition mk_rpw := Build_rp_w.

Inductive op :=
(* QueryDataEncryptor.encryptWithColumnSettings of a connection of identity [w_conn w], after the writes [hist]
   on the same token store: [stored value] *)
| RpWrite (sch : fc_schema) (K : rp_keys) (hist : list rp_w) (w : rp_w)
(* the column subscribers between decoder and encoder of a connection of identity [conn]: [delivered; decrypted mark] *)
| RpCore (sch : fc_schema) (K : rp_keys) (hist : list rp_w) (s : option rp_setting) (conn col : bytes)
(* PgProxy.onColumnDecryption of a connection of identity [conn]: [delivered] *)
| RpPg (sch : fc_schema) (K : rp_keys) (hist : list rp_w) (s : option rp_setting) (conn : bytes) (binary : bool) (data : bytes).

Definition run (o : op) : expected :=
  match o with
  | RpWrite sch K hist w =>
      canon1 (snd (rp_write Stub sch K (rp_store Stub sch K hist) (w_setting w) (w_conn w) (w_tape w) (w_data w)))
  | RpCore sch K hist s conn col =>
      match rp_read_core Stub sch K (rp_store Stub sch K hist) s conn col with
      | Ok (out, d) => XOk [out; flag d] | Err _ => XErr | Panic => XPanic end
  | RpPg sch K hist s conn binary data =>
      canon1 (rp_read_pg Stub sch K (rp_store Stub sch K hist) s conn binary data)
  end.

Fixpoint mismatches_from (i : nat) (cs : list (op * expected)) : list (nat * expected) :=
  match cs with
  | [] => []
  | (o, e) :: rest =>
      let m := run o in
      if expected_eqb m e then mismatches_from (S i) rest else (i, m) :: mismatches_from (S i) rest
  end.
Definition mismatches := mismatches_from 0.
