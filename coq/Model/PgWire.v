(** PostgreSQL wire codec of the proxy: byte-exact model of
    decryptor/postgresql/packet_handler.go (ReadPacket / ReadClientPacket framing, Marshal,
    parseColumns, ColumnData.SetData/Length, updateDataFromColumns, ReplaceQuery, ReplaceBind)
    and decryptor/postgresql/utils.go (NewBindPacket / BindPacket.MarshalInto and their array
    readers/writers), AFTER the fixes "reject length fields below 4", "reject data rows shorter
    than the column count", "validate the declared column length before allocating".
    Readers over io.Reader give [Err] on short input; Go slice expressions give [Panic]
    when out of range.  No proofs here. *)
From Acra Require Import Lib.Bytes Lib.Outcome Gen.WireConsts.
Local Open Scope N_scope.

Definition E_IO : N := 30.          (* io.EOF / io.ErrUnexpectedEOF *)
Definition E_TRUNCATED : N := 31.   (* ErrPacketTruncated *)
Definition E_FORMAT : N := 32.      (* ErrUnknownFormat / ErrNotEnoughFormats *)
Definition E_TERMINATOR : N := 33.  (* ErrTerminatorNotFound *)
Definition E_UNSUPPORTED : N := 34. (* ErrUnsupportedPacketType *)
Definition E_TOO_BIG : N := 35.     (* ErrArrayTooBig *)

(** io.ReadFull / io.CopyN of [n] bytes from a stream (n is an int that was checked >= 0) *)
Definition read_n (n : Z) (s : bytes) : res (bytes * bytes) :=
  if (Z.of_nat (length s) <? n)%Z then Err E_IO
  else Ok (firstn (Z.to_nat n) s, skipn (Z.to_nat n) s).

(** Go slice expression s[lo:hi] *)
Definition slice (s : bytes) (lo hi : nat) : res bytes :=
  if ((lo <=? hi) && (hi <=? length s))%nat then Ok (sub lo (hi - lo) s) else Panic.

Definition hd_byte (s : bytes) : byte := match s with b :: _ => b | [] => x00 end.

(** ---------- framing ---------- *)
Record packet := mk_packet { p_type : byte; p_lenbuf : bytes; p_desc : bytes }.

(** dataLength = int(uint32 length) - len(lengthBuf) *)
Definition data_length (lb : bytes) : Z := (Z.of_N (be_dec lb) - Z.of_N PG_LENGTH_BUF_SIZE)%Z.

(** ReadPacket (database side) and readGeneralPacket (client side after start-up):
    type byte, 4-byte length counting itself, payload.  Returns the packet and the unread rest. *)
Definition read_msg (s : bytes) : res (packet * bytes) :=
  do (t, s1) <- read_n 1 s;
  do (lb, s2) <- read_n 4 s1;
  let dl := data_length lb in
  if (dl <? 0)%Z then Err E_TRUNCATED else
  do (d, s3) <- read_n dl s2;
  Ok (mk_packet (hd_byte t) lb d, s3).

(** readStartupPacket: [len:4][tag:4][payload]; kept without a message type *)
Definition read_startup (s : bytes) : res (packet * bytes) :=
  do (h, s1) <- read_n 8 s;
  let lb := firstn 4 h in
  let tag := skipn 4 h in
  if bytes_eqb tag PG_STARTUP_REQUEST || bytes_eqb h PG_SSL_REQUEST_HEADER
     || bytes_eqb h PG_CANCEL_REQUEST_HEADER || bytes_eqb h PG_GSSENC_REQUEST_HEADER
  then
    let dl := (data_length lb - 4)%Z in
    if (dl <? 0)%Z then Err E_TRUNCATED else
    do (d, s2) <- read_n dl s1;
    Ok (mk_packet PG_WITHOUT_MESSAGE_TYPE lb (tag ++ d), s2)
  else Err E_UNSUPPORTED.

(** Marshal *)
Definition marshal (p : packet) : bytes :=
  (if byte_eqb (p_type p) PG_WITHOUT_MESSAGE_TYPE then [] else [p_type p]) ++ p_lenbuf p ++ p_desc p.

(** the proxy's read/send loop over a byte stream, until the first read error *)
Fixpoint relay (fuel : nat) (s : bytes) : bytes :=
  match fuel with
  | O => []
  | S f => match read_msg s with
           | Ok (p, rest) => marshal p ++ relay f rest
           | _ => []
           end
  end.

(** updatePacketLength: uint32(newLength + 4), big endian *)
Definition packet_length_buf (n : N) : bytes := be_enc 4 (n + PG_LENGTH_BUF_SIZE).

(** ---------- DataRow ---------- *)
Record column := mk_col { c_lenbuf : bytes; c_data : bytes; c_changed : bool; c_null : bool }.

Definition check_format (f : N) : res N :=
  if f =? PG_BIND_FORMAT_TEXT then Ok 0 else if f =? PG_BIND_FORMAT_BINARY then Ok 1 else Err E_FORMAT.

(** GetParameterFormatByIndex *)
Definition param_format (i : nat) (fmts : list N) : res N :=
  match fmts with
  | [] => Ok 0
  | [f] => check_format f
  | _ => match nth_error fmts i with Some f => check_format f | None => Err E_FORMAT end
  end.

(** loop of parseColumns: ReadLength, (fix) declared length against the rest, format, readData.
    readData's branches "length == 0" and "length > 0" both yield the next [length] bytes. *)
Fixpoint parse_cols (fmts : list N) (k i : nat) (r : bytes) : res (list column * bytes) :=
  match k with
  | O => Ok ([], r)
  | S k' =>
      do (lb, r1) <- read_n 4 r;
      let len := be_dec lb in
      let isnull := len =? PG_NULL_COLUMN in
      if negb isnull && (N.of_nat (length r1) <? len) then Err E_TRUNCATED else
      do _ <- param_format i fmts;
      if isnull then
        do (cs, r') <- parse_cols fmts k' (S i) r1; Ok (mk_col lb [] false true :: cs, r')
      else
        do (d, r2) <- read_n (Z.of_N len) r1;
        do (cs, r') <- parse_cols fmts k' (S i) r2; Ok (mk_col lb d false false :: cs, r')
  end.

(** parseColumns: (columnCount, Columns) *)
Definition parse_columns (fmts : list N) (desc : bytes) : res (N * list column) :=
  if (length desc <? 2)%nat then Err E_TRUNCATED else
  do cb <- slice desc 0 2;
  let count := be_dec cb in
  if count =? 0 then Ok (0, []) else
  do body <- slice desc 2 (length desc);
  do (cs, _) <- parse_cols fmts (N.to_nat count) 0 body;
  Ok (count, cs).

(** ColumnData.SetData *)
Definition set_data (c : column) (d : bytes) : column :=
  mk_col (be_enc 4 (N.of_nat (length d))) d true (c_null c).

(** ColumnData.Length *)
Definition col_length (c : column) : N := if c_null c then 0 else be_dec (c_lenbuf c).

Definition sum_lengths (cs : list column) : N := fold_right (fun c a => col_length c + a) 0 cs.
Definition cols_bytes (cs : list column) : bytes := concat (map (fun c => c_lenbuf c ++ c_data c) cs).

(** updateDataFromColumns *)
Definition update_data_from_columns (p : packet) (count : N) (cs : list column) : packet :=
  if existsb c_changed cs then
    mk_packet (p_type p)
              (packet_length_buf (count * 4 + 2 + sum_lengths cs))
              (be_enc 2 count ++ cols_bytes cs)
  else p.

(** the column loop of handleQueryDataPacket: NULL columns are skipped, every other column
    gets SetData(tr i data) whatever the transformation returned *)
Fixpoint apply_tr (tr : nat -> bytes -> bytes) (i : nat) (cs : list column) : list column :=
  match cs with
  | [] => []
  | c :: r => (if c_null c then c else set_data c (tr i (c_data c))) :: apply_tr tr (S i) r
  end.

(** parse, transform, re-frame one DataRow packet *)
Definition process_datarow (fmts : list N) (tr : nat -> bytes -> bytes) (p : packet) : res packet :=
  do (count, cs) <- parse_columns fmts (p_desc p);
  if count =? 0 then Ok p else Ok (update_data_from_columns p count (apply_tr tr 0 cs)).

(** transformation given as a table: [Some d] replaces, [None]/missing keeps the bytes *)
Definition tr_of_list (l : list (option bytes)) (i : nat) (old : bytes) : bytes :=
  match nth_error l i with Some (Some d) => d | _ => old end.

(** ---------- simple Query ---------- *)
(** ReplaceQuery on a Query packet (the Parse branch is modelled by [replace_parse_query]) *)
Definition replace_query (p : packet) (q : bytes) : packet :=
  if byte_eqb (p_type p) PG_QUERY_TYPE
  then mk_packet (p_type p) (packet_length_buf (N.of_nat (length q) + 1)) (q ++ [x00])
  else p.

(** ---------- Bind ---------- *)
Record bind := mk_bind { b_portal : bytes; b_stmt : bytes; b_pfmts : list N;
                         b_params : list (option bytes); b_rfmts : list N }.

(** readString *)
Definition read_cstring (data : bytes) : res (bytes * bytes) :=
  match index_of [x00] data with
  | None => Err E_TERMINATOR
  | Some e => do v <- slice data 0 e; do r <- slice data (S e) (length data); Ok (v, r)
  end.

Fixpoint read_u16_items (k : nat) (r : bytes) : res (list N * bytes) :=
  match k with
  | O => Ok ([], r)
  | S k' => do v <- slice r 0 2; do r1 <- slice r 2 (length r);
            do (vs, r') <- read_u16_items k' r1; Ok (be_dec v :: vs, r')
  end.

(** readUint16Array *)
Definition read_u16_array (data : bytes) : res (list N * bytes) :=
  if (length data <? 2)%nat then Err E_TRUNCATED else
  do cb <- slice data 0 2; do r <- slice data 2 (length data);
  let count := be_dec cb in
  if N.of_nat (length r) <? 2 * count then Err E_TRUNCATED else
  read_u16_items (N.to_nat count) r.

Fixpoint read_params (k : nat) (r : bytes) : res (list (option bytes) * bytes) :=
  match k with
  | O => Ok ([], r)
  | S k' =>
      if (length r <? 4)%nat then Err E_TRUNCATED else
      do lb <- slice r 0 4; do r1 <- slice r 4 (length r);
      let len := be_dec lb in
      if len =? 0xFFFFFFFF then do (vs, r') <- read_params k' r1; Ok (None :: vs, r')
      else if N.of_nat (length r1) <? len then Err E_TRUNCATED
      else do v <- slice r1 0 (N.to_nat len); do r2 <- slice r1 (N.to_nat len) (length r1);
           do (vs, r') <- read_params k' r2; Ok (Some v :: vs, r')
  end.

(** readParameterArray *)
Definition read_param_array (data : bytes) : res (list (option bytes) * bytes) :=
  if (length data <? 2)%nat then Err E_TRUNCATED else
  do cb <- slice data 0 2; do r <- slice data 2 (length data);
  read_params (N.to_nat (be_dec cb)) r.

(** NewBindPacket *)
Definition new_bind_packet (data : bytes) : res bind :=
  do (portal, d1) <- read_cstring data;
  do (stmt, d2) <- read_cstring d1;
  do (pf, d3) <- read_u16_array d2;
  do (pv, d4) <- read_param_array d3;
  do (rf, _) <- read_u16_array d4;
  Ok (mk_bind portal stmt pf pv rf).

Definition write_u16_array (vs : list N) : res bytes :=
  if 65535 <? N.of_nat (length vs) then Err E_TOO_BIG
  else Ok (be_enc 2 (N.of_nat (length vs)) ++ concat (map (be_enc 2) vs)).

Definition write_param (v : option bytes) : bytes :=
  match v with None => be_enc 4 0xFFFFFFFF | Some d => be_enc 4 (N.of_nat (length d)) ++ d end.

Definition write_param_array (vs : list (option bytes)) : res bytes :=
  if 65535 <? N.of_nat (length vs) then Err E_TOO_BIG
  else Ok (be_enc 2 (N.of_nat (length vs)) ++ concat (map write_param vs)).

(** BindPacket.MarshalInto *)
Definition marshal_bind (b : bind) : res bytes :=
  do a <- write_u16_array (b_pfmts b);
  do v <- write_param_array (b_params b);
  do r <- write_u16_array (b_rfmts b);
  Ok (b_portal b ++ [x00] ++ b_stmt b ++ [x00] ++ a ++ v ++ r).

(** ReplaceBind *)
Definition replace_bind (p : packet) (b : bind) : res packet :=
  do m <- marshal_bind b;
  Ok (mk_packet (p_type p) (packet_length_buf (N.of_nat (length m))) m).

(** replace parameter values by a table (what SetParameters does to paramValues) *)
Fixpoint set_params (vs : list (option bytes)) (l : list (option bytes)) : list (option bytes) :=
  match vs, l with
  | v :: vs', Some d :: l' => Some d :: set_params vs' l'
  | v :: vs', None :: l' => v :: set_params vs' l'
  | _, [] => vs
  | [], _ => []
  end.
