(** PostgreSQL wire codec of the proxy: byte-exact model of
    decryptor/postgresql/packet_handler.go (ReadPacket / ReadClientPacket framing, Marshal,
    parseColumns, ColumnData.SetData/Length, updateDataFromColumns, ReplaceQuery, ReplaceBind)
    and decryptor/postgresql/utils.go (NewBindPacket / BindPacket.MarshalInto and their array
    readers/writers), AFTER the fixes "reject length fields below 4", "reject data rows shorter
    than the column count", "validate the declared column length before allocating".
    Readers over io.Reader give [Err] on short input; Go slice expressions give [Panic]
    when out of range.  No proofs here. *)
From Acra Require Import Lib.Bytes Lib.Outcome Lib.GoSlice Gen.WireConsts.
Local Open Scope N_scope.

Definition E_IO : N := 30.          (* io.EOF / io.ErrUnexpectedEOF *)
Definition E_TRUNCATED : N := 31.   (* ErrPacketTruncated *)
Definition E_FORMAT : N := 32.      (* ErrUnknownFormat / ErrNotEnoughFormats *)
Definition E_TERMINATOR : N := 33.  (* ErrTerminatorNotFound *)
Definition E_UNSUPPORTED : N := 34. (* ErrUnsupportedPacketType *)
Definition E_TOO_BIG : N := 35.     (* ErrArrayTooBig *)

(** io.ReadFull / io.CopyN of [n] bytes from a stream (n is an int that was checked >= 0) *)
Definition read_n (n : Z) (s : bytes) : res (bytes * bytes) :=
  if (Z.of_nat (length s) <? n)%Z then Err E_IO
  else Ok (firstn (Z.to_nat n) s, skipn (Z.to_nat n) s).

(** Go slice expression s[lo:hi] *)
Definition slice (s : bytes) (lo hi : nat) : res bytes :=
  if ((lo <=? hi) && (hi <=? length s))%nat then Ok (sub lo (hi - lo) s) else Panic.

Definition hd_byte (s : bytes) : byte := match s with b :: _ => b | [] => x00 end.

(** ---------- framing ---------- *)
Record packet := mk_packet { p_type : byte; p_lenbuf : bytes; p_desc : bytes }.

(** dataLength = int(uint32 length) - len(lengthBuf) *)
Definition data_length (lb : bytes) : Z := (Z.of_N (be_dec lb) - Z.of_N PG_LENGTH_BUF_SIZE)%Z.

(** ReadPacket (database side) and readGeneralPacket (client side after start-up):
    type byte, 4-byte length counting itself, payload.  Returns the packet and the unread rest. *)
Definition read_msg (s : bytes) : res (packet * bytes) :=
  do (t, s1) <- read_n 1 s;
  do (lb, s2) <- read_n 4 s1;
  let dl := data_length lb in
  if (dl <? 0)%Z then Err E_TRUNCATED else
  do (d, s3) <- read_n dl s2;
  Ok (mk_packet (hd_byte t) lb d, s3).

(** readStartupPacket: [len:4][tag:4][payload]; kept without a message type *)
Definition read_startup (s : bytes) : res (packet * bytes) :=
  do (h, s1) <- read_n 8 s;
  let lb := firstn 4 h in
  let tag := skipn 4 h in
  if bytes_eqb tag PG_STARTUP_REQUEST || bytes_eqb h PG_SSL_REQUEST_HEADER
     || bytes_eqb h PG_CANCEL_REQUEST_HEADER || bytes_eqb h PG_GSSENC_REQUEST_HEADER
  then
    let dl := (data_length lb - 4)%Z in
    if (dl <? 0)%Z then Err E_TRUNCATED else
    do (d, s2) <- read_n dl s1;
    Ok (mk_packet PG_WITHOUT_MESSAGE_TYPE lb (tag ++ d), s2)
  else Err E_UNSUPPORTED.

(** Marshal *)
Definition marshal (p : packet) : bytes :=
  (if byte_eqb (p_type p) PG_WITHOUT_MESSAGE_TYPE then [] else [p_type p]) ++ p_lenbuf p ++ p_desc p.

(** the proxy's read/send loop over a byte stream, until the first read error *)
Fixpoint relay (fuel : nat) (s : bytes) : bytes :=
  match fuel with
  | O => []
  | S f => match read_msg s with
           | Ok (p, rest) => marshal p ++ relay f rest
           | _ => []
           end
  end.

(** updatePacketLength: uint32(newLength + 4), big endian *)
Definition packet_length_buf (n : N) : bytes := be_enc 4 (n + PG_LENGTH_BUF_SIZE).

(** ---------- DataRow ---------- *)
Record column := mk_col { c_lenbuf : bytes; c_data : bytes; c_changed : bool; c_null : bool }.

Definition check_format (f : N) : res N :=
  if f =? PG_BIND_FORMAT_TEXT then Ok 0 else if f =? PG_BIND_FORMAT_BINARY then Ok 1 else Err E_FORMAT.

(** GetParameterFormatByIndex *)
Definition param_format (i : nat) (fmts : list N) : res N :=
  match fmts with
  | [] => Ok 0
  | [f] => check_format f
  | _ => match nth_error fmts i with Some f => check_format f | None => Err E_FORMAT end
  end.

(** loop of parseColumns: ReadLength, (fix) declared length against the rest, format, readData.
    readData's branches "length == 0" and "length > 0" both yield the next [length] bytes. *)
Fixpoint parse_cols (fmts : list N) (k i : nat) (r : bytes) : res (list column * bytes) :=
  match k with
  | O => Ok ([], r)
  | S k' =>
      do (lb, r1) <- read_n 4 r;
      let len := be_dec lb in
      let isnull := len =? PG_NULL_COLUMN in
      if negb isnull && (N.of_nat (length r1) <? len) then Err E_TRUNCATED else
      do _ <- param_format i fmts;
      if isnull then
        do (cs, r') <- parse_cols fmts k' (S i) r1; Ok (mk_col lb [] false true :: cs, r')
      else
        do (d, r2) <- read_n (Z.of_N len) r1;
        do (cs, r') <- parse_cols fmts k' (S i) r2; Ok (mk_col lb d false false :: cs, r')
  end.

(** parseColumns: (columnCount, Columns) *)
Definition parse_columns (fmts : list N) (desc : bytes) : res (N * list column) :=
  if (length desc <? 2)%nat then Err E_TRUNCATED else
  do cb <- slice desc 0 2;
  let count := be_dec cb in
  if count =? 0 then Ok (0, []) else
  do body <- slice desc 2 (length desc);
  do (cs, _) <- parse_cols fmts (N.to_nat count) 0 body;
  Ok (count, cs).

(** ColumnData.SetData *)
Definition set_data (c : column) (d : bytes) : column :=
  mk_col (be_enc 4 (N.of_nat (length d))) d true (c_null c).

(** ColumnData.Length *)
Definition col_length (c : column) : N := if c_null c then 0 else be_dec (c_lenbuf c).

Definition sum_lengths (cs : list column) : N := fold_right (fun c a => col_length c + a) 0 cs.
Definition cols_bytes (cs : list column) : bytes := concat (map (fun c => c_lenbuf c ++ c_data c) cs).

(** updateDataFromColumns *)
Definition update_data_from_columns (p : packet) (count : N) (cs : list column) : packet :=
  if existsb c_changed cs then
    mk_packet (p_type p)
              (packet_length_buf (count * 4 + 2 + sum_lengths cs))
              (be_enc 2 count ++ cols_bytes cs)
  else p.

(** the column loop of handleQueryDataPacket: NULL columns are skipped, every other column
    gets SetData(tr i data) whatever the transformation returned *)
Fixpoint apply_tr (tr : nat -> bytes -> bytes) (i : nat) (cs : list column) : list column :=
  match cs with
  | [] => []
  | c :: r => (if c_null c then c else set_data c (tr i (c_data c))) :: apply_tr tr (S i) r
  end.

(** parse, transform, re-frame one DataRow packet *)
Definition process_datarow (fmts : list N) (tr : nat -> bytes -> bytes) (p : packet) : res packet :=
  do (count, cs) <- parse_columns fmts (p_desc p);
  if count =? 0 then Ok p else Ok (update_data_from_columns p count (apply_tr tr 0 cs)).

(** transformation given as a table: [Some d] replaces, [None]/missing keeps the bytes *)
Definition tr_of_list (l : list (option bytes)) (i : nat) (old : bytes) : bytes :=
  match nth_error l i with Some (Some d) => d | _ => old end.

(** ---------- simple Query ---------- *)
(** ReplaceQuery on a Query packet (the Parse branch is modelled by [replace_parse_query]) *)
Definition replace_query (p : packet) (q : bytes) : packet :=
  if byte_eqb (p_type p) PG_QUERY_TYPE
  then mk_packet (p_type p) (packet_length_buf (N.of_nat (length q) + 1)) (q ++ [x00])
  else p.

(** ---------- Bind / Parse / Execute / Query text: CHECKED models ----------
    decryptor/postgresql/utils.go.  Every Go slice / index expression goes through
    [Lib/GoSlice.v] ([gslice], [gslice_to], [gslice_from], [gindex], [gmake]: [Panic] when
    out of range), positions and lengths are Go [int]s ([Z]) and every integer conversion the
    code performs is written out, AS THE CODE DOES NOW:
      [int(binary.BigEndian.Uint16(..))], [int(binary.BigEndian.Uint32(..))] = zero extension
      ([int_of_u16], [int_of_u32]); the NULL parameter marker is the literal 0xFFFFFFFF compared
      with that zero-extended [int].
    [int_of_i32] (sign extension, what [int(int32(..))] would be) is defined only to state what
    the other reading does ([Proofs/PgWire.v: bind_signed_length_refuted]). *)
Record bind := mk_bind { b_portal : bytes; b_stmt : bytes; b_pfmts : list N;
                         b_params : list (option bytes); b_rfmts : list N }.

(** binary.BigEndian.Uint16 / Uint32: bounds-check hint [_ = b[1]] / [_ = b[3]] first *)
Definition be_u16 (b : bytes) : res N := do _ <- gindex 1 b; Ok (be_dec (firstn 2 b)).
Definition be_u32 (b : bytes) : res N := do _ <- gindex 3 b; Ok (be_dec (firstn 4 b)).
(** int(uint16), int(uint32) on a 64-bit platform: zero extension *)
Definition int_of_u16 (x : N) : Z := Z.of_N x.
Definition int_of_u32 (x : N) : Z := Z.of_N x.
(** int(int32(uint32)): sign extension (NOT what the code does) *)
Definition int_of_i32 (x : N) : Z := if x <? 2147483648 then Z.of_N x else (Z.of_N x - 4294967296)%Z.

(** [make([]T, n)] for its run-time check only: the condition of [gmake] of Lib/GoSlice.v without building
    the number of bytes as a [nat], which the model never uses ([Proofs/PgWire.v: gmake_chk_gmake]) *)
Definition gmake_chk (n : Z) : res unit := if ((0 <=? n) && (n <=? MAXALLOC))%Z then Ok tt else Panic.

(** bytes.Index(data, terminator): -1 when absent *)
Definition index_nul (data : bytes) : Z :=
  match index_of [x00] data with None => (-1)%Z | Some e => Z.of_nat e end.

(** readString: data[:end], data[end+1:] *)
Definition read_cstring (data : bytes) : res (bytes * bytes) :=
  let e := index_nul data in
  if (e =? -1)%Z then Err E_TERMINATOR else
  do v <- gslice_to e data; do r <- gslice_from (e + 1)%Z data; Ok (v, r).

(** the loop of readUint16Array: items[i] = Uint16(remaining[:2]); remaining = remaining[2:] *)
Fixpoint read_u16_items (k : nat) (r : bytes) : res (list N * bytes) :=
  match k with
  | O => Ok ([], r)
  | S k' => do h <- gslice_to 2 r; do v <- be_u16 h; do r1 <- gslice_from 2 r;
            do (vs, r') <- read_u16_items k' r1; Ok (v :: vs, r')
  end.

(** readUint16Array *)
Definition read_u16_array (data : bytes) : res (list N * bytes) :=
  if (len data <? 2)%Z then Err E_TRUNCATED else
  do h <- gslice_to 2 data; do c <- be_u16 h;
  let count := int_of_u16 c in
  do r <- gslice_from 2 data;
  if (len r <? 2 * count)%Z then Err E_TRUNCATED else
  do _ <- gmake_chk (2 * count)%Z;                       (* make([]uint16, itemCount) *)
  read_u16_items (Z.to_nat count) r.

(** the loop of readParameterArray, parametrised by the integer conversion applied to the
    declared length and by the value compared with it for NULL *)
Fixpoint read_params_with (conv : N -> Z) (null : Z) (k : nat) (r : bytes) : res (list (option bytes) * bytes) :=
  match k with
  | O => Ok ([], r)
  | S k' =>
      if (len r <? 4)%Z then Err E_TRUNCATED else
      do h <- gslice_to 4 r; do n <- be_u32 h;
      let plen := conv n in
      do r1 <- gslice_from 4 r;
      if (plen =? null)%Z then do (vs, r') <- read_params_with conv null k' r1; Ok (None :: vs, r')
      else if (len r1 <? plen)%Z then Err E_TRUNCATED
      else do v <- gslice_to plen r1; do r2 <- gslice_from plen r1;
           do (vs, r') <- read_params_with conv null k' r2; Ok (Some v :: vs, r')
  end.

(** readParameterArray *)
Definition read_param_array_with (conv : N -> Z) (null : Z) (data : bytes) : res (list (option bytes) * bytes) :=
  if (len data <? 2)%Z then Err E_TRUNCATED else
  do h <- gslice_to 2 data; do c <- be_u16 h;
  let count := int_of_u16 c in
  do r <- gslice_from 2 data;
  do _ <- gmake_chk (24 * count)%Z;                      (* make([][]byte, parameterCount) *)
  read_params_with conv null (Z.to_nat count) r.

(** NewBindPacket *)
Definition new_bind_packet_with (conv : N -> Z) (null : Z) (data : bytes) : res bind :=
  do (portal, d1) <- read_cstring data;
  do (stmt, d2) <- read_cstring d1;
  do (pf, d3) <- read_u16_array d2;
  do (pv, d4) <- read_param_array_with conv null d3;
  do (rf, _) <- read_u16_array d4;
  Ok (mk_bind portal stmt pf pv rf).

(** the code as it is: [parameterLen := int(binary.BigEndian.Uint32(..))], [parameterLen == 0xFFFFFFFF] *)
Definition read_params := read_params_with int_of_u32 4294967295%Z.
Definition read_param_array := read_param_array_with int_of_u32 4294967295%Z.
Definition new_bind_packet := new_bind_packet_with int_of_u32 4294967295%Z.
(** the other reading: [int(int32(..))] compared with -1 *)
Definition new_bind_packet_signed := new_bind_packet_with int_of_i32 (-1)%Z.

Definition write_u16_array (vs : list N) : res bytes :=
  if 65535 <? N.of_nat (length vs) then Err E_TOO_BIG
  else Ok (be_enc 2 (N.of_nat (length vs)) ++ concat (map (be_enc 2) vs)).

Definition write_param (v : option bytes) : bytes :=
  match v with None => be_enc 4 0xFFFFFFFF | Some d => be_enc 4 (N.of_nat (length d)) ++ d end.

Definition write_param_array (vs : list (option bytes)) : res bytes :=
  if 65535 <? N.of_nat (length vs) then Err E_TOO_BIG
  else Ok (be_enc 2 (N.of_nat (length vs)) ++ concat (map write_param vs)).

(** BindPacket.MarshalInto *)
Definition marshal_bind (b : bind) : res bytes :=
  do a <- write_u16_array (b_pfmts b);
  do v <- write_param_array (b_params b);
  do r <- write_u16_array (b_rfmts b);
  Ok (b_portal b ++ [x00] ++ b_stmt b ++ [x00] ++ a ++ v ++ r).

(** ReplaceBind *)
Definition replace_bind (p : packet) (b : bind) : res packet :=
  do m <- marshal_bind b;
  Ok (mk_packet (p_type p) (packet_length_buf (N.of_nat (length m))) m).

(** replace parameter values by a table (what SetParameters does to paramValues) *)
Fixpoint set_params (vs : list (option bytes)) (l : list (option bytes)) : list (option bytes) :=
  match vs, l with
  | v :: vs', Some d :: l' => Some d :: set_params vs' l'
  | v :: vs', None :: l' => v :: set_params vs' l'
  | _, [] => vs
  | [], _ => []
  end.

(** ---------- Parse ---------- *)
Record parse := mk_parse { pp_name : bytes; pp_query : bytes; pp_num : bytes; pp_params : list bytes }.

(** the OID loop of NewParsePacket: [len(data) < endIndex+4] then data[endIndex:endIndex+4] *)
Fixpoint read_oids (k : nat) (e : Z) (data : bytes) : res (list bytes) :=
  match k with
  | O => Ok []
  | S k' => if (len data <? e + 4)%Z then Err E_TRUNCATED else
            do p <- gslice e (e + 4)%Z data; do ps <- read_oids k' (e + 4)%Z data; Ok (p :: ps)
  end.

(** NewParsePacket (name and query keep their terminators) *)
Definition new_parse_packet (data : bytes) : res parse :=
  let s0 := index_nul data in
  if (s0 =? -1)%Z then Err E_TERMINATOR else
  let s := (s0 + 1)%Z in
  do name <- gslice_to s data;
  do tail <- gslice_from s data;
  let e0 := index_nul tail in
  if (e0 =? -1)%Z then Err E_TERMINATOR else
  let e := (e0 + (s + 1))%Z in
  do query <- gslice s e data;
  if (len data <? e + 2)%Z then Err E_TRUNCATED else
  do num <- gslice e (e + 2)%Z data;
  let e2 := (e + 2)%Z in
  do params <- (if (e2 <? len data)%Z
                then do n <- be_u16 num; read_oids (Z.to_nat (int_of_u16 n)) e2 data
                else Ok []);
  Ok (mk_parse name query num params).

(** ParsePacket.Marshal; Name() / QueryString() = field[:len-1] *)
Definition marshal_parse (pp : parse) : bytes := pp_name pp ++ pp_query pp ++ pp_num pp ++ concat (pp_params pp).
Definition parse_name (pp : parse) : res bytes := gslice_to (len (pp_name pp) - 1)%Z (pp_name pp).
Definition parse_query_string (pp : parse) : res bytes := gslice_to (len (pp_query pp) - 1)%Z (pp_query pp).

(** ReplaceQuery on a Parse packet: a payload that does not parse is left as it is *)
Definition replace_parse_query (p : packet) (q : bytes) : res packet :=
  match new_parse_packet (p_desc p) with
  | Ok pp => let m := marshal_parse (mk_parse (pp_name pp) (q ++ [x00]) (pp_num pp) (pp_params pp)) in
             Ok (mk_packet (p_type p) (packet_length_buf (N.of_nat (length m))) m)
  | Err _ => Ok p
  | Panic => Panic
  end.

(** ---------- Execute ---------- *)
(** NewExecutePacket: portal, then [len(data) < 4], then Uint32(data) *)
Definition new_execute_packet (data : bytes) : res (bytes * N) :=
  do (portal, d) <- read_cstring data;
  if (len d <? 4)%Z then Err E_TRUNCATED else
  do n <- be_u32 d; Ok (portal, n).

(** ---------- GetSimpleQuery ---------- *)
(** AFTER the fix "a Query message carries at least its terminator": [dataLength < 1] is rejected, then
    descriptionBuf.Bytes()[:dataLength-1]; dataLength = len(payload) after a successful read *)
Definition get_simple_query (p : packet) : res bytes :=
  if (len (p_desc p) <? 1)%Z then Err E_TRUNCATED else gslice_to (len (p_desc p) - 1)%Z (p_desc p).
(** the code as found *)
Definition get_simple_query_old (p : packet) : res bytes := gslice_to (len (p_desc p) - 1)%Z (p_desc p).

(** ---------- several messages through ONE handler object ----------
    The handler keeps its packet buffer between messages (Reset() empties it, the capacity and the old
    bytes stay).  The specification is that this history does not show: every message is read, rewritten
    and marshalled as if the handler were new.  [rw] is what the proxy does to one message:
    nothing, ReplaceQuery (Query and Parse messages; every other type is left alone), GetBindData +
    parameter values replaced + ReplaceBind, or the DataRow path (parseColumns, SetData, updateDataFromColumns). *)
Inductive rw :=
| RwKeep
| RwQuery (q : bytes)
| RwBind (tr : list (option bytes))
| RwRow (fmts : list N) (tr : list (option bytes)).

(** PacketHandler.ReplaceQuery: the Query branch, the Parse branch, no-op otherwise *)
Definition replace_any_query (p : packet) (q : bytes) : res packet :=
  if byte_eqb (p_type p) PG_QUERY_TYPE then Ok (replace_query p q)
  else if byte_eqb (p_type p) PG_PARSE_TYPE then replace_parse_query p q
  else Ok p.

Definition apply_rw (r : rw) (p : packet) : res packet :=
  match r with
  | RwKeep => Ok p
  | RwQuery q => replace_any_query p q
  | RwBind tr =>
      do b <- new_bind_packet (p_desc p);
      replace_bind p (mk_bind (b_portal b) (b_stmt b) (b_pfmts b) (set_params (b_params b) tr) (b_rfmts b))
  | RwRow fmts tr => process_datarow fmts (tr_of_list tr) p
  end.

(** read / rewrite / send, one message per element of [rws]; the first failure ends the session *)
Fixpoint session (rws : list rw) (s : bytes) : res (list bytes) :=
  match rws with
  | [] => Ok []
  | r :: rest =>
      do (p, s') <- read_msg s;
      do p' <- apply_rw r p;
      do outs <- session rest s';
      Ok (marshal p' :: outs)
  end.
