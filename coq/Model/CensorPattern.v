(** Executable model of the STRUCTURAL PATTERN matcher of AcraCensor and of the documented relation
    "statement is an instance of pattern", both over the generic tree form of sqlparser ASTs
    (Model/CensorTree.v; trees exported from the real ASTs by reflection in the harness).

    Anchors: acra-censor/common/matching_logic.go (checkSinglePatternMatch, handle*Statement, areEqual*,
    is*Pattern), acra-censor/common/common.go (CheckPatternsMatching, the placeholder statements, which
    arrive here as Gen/CensorPatterns.v).

    [match_impl p s]  the matcher as the code implements it (after the fix: commit that repaired the
                      inverted/omitted field comparisons); result [res bool], [Panic] = nil dereference.
    [instance_of p s] the documented relation: s equals p up to the placeholder positions, each placeholder
                      standing for what CHANGELOG/tests/code comments say.
    [instance_of_loose] the same with the implemented reading of the WHERE placeholder (it also absorbs the
                      clauses that follow WHERE).
    No proofs in this file. *)
From Coq Require Import List Bool NArith Arith String.
From Acra Require Import Lib.Bytes Lib.Outcome.
From Acra Require Export Model.CensorTree Gen.CensorPatterns.
Import ListNotations.
Local Open Scope nat_scope.

(** * Accessors *)

Definition kid (i : nat) (t : tree) : tree := nth i (tkids t) tnil.
Definition is_k (k : kind) (t : tree) : bool := kind_eqb (tkind t) k.
Definition lab_eqb (a b : tree) : bool := bytes_eqb (tlab a) (tlab b).
Definition is_empty (b : bytes) : bool := match b with [] => true | _ => false end.

(** * Placeholder detectors (isValuePattern, isListOfValuesPattern, isColumnPattern, isSubqueryPattern) *)

(** SQLVal = [Type; Val; CastType; unknown] *)
Definition sqlval_is (c p : tree) : bool := lab_eqb (kid 0 p) (kid 0 c) && lab_eqb (kid 1 p) (kid 1 c).
Definition is_value_ph (p : tree) : bool := sqlval_is PAT_VALUE p.
Definition is_list_ph (p : tree) : bool := sqlval_is PAT_LIST_OF_VALUES p.

(** ColIdent = [val; lowered; quote; unquote]; ColIdent.Lowered() *)
Definition colident_lowered (c : tree) : bytes :=
  let v := tlab (kid 0 c) in
  let l := tlab (kid 1 c) in
  if is_empty v then [] else if is_empty l then lower v else l.
Definition colident_eqb (a b : tree) : bool := bytes_eqb (colident_lowered a) (colident_lowered b).
Definition is_column_ph (c : tree) : bool := colident_eqb c PAT_COLUMN.

(** Subquery = [Select] *)
Definition is_subquery_ph (p : tree) : bool := tree_eqb (kid 0 p) PAT_SUBQUERY_SELECT.

(** * Nil policies of a compared field / list element *)

Inductive pol :=
| PGuard   (* both nil -> true, one nil -> false   (areEqualExpr, areEqualWhere, areEqualLimit, ...) *)
| PFalse   (* a nil side -> false                  (type switch default / failed type assertion) *)
| PPanic   (* a nil side -> nil dereference        (pointer parameter used without a check) *)
| PList    (* slice: nil pattern = empty pattern *)
| PVal.    (* value type: cannot be nil *)

Definition fld (pl : pol) (q p : tree) (r : res bool) : res bool :=
  match pl with
  | PGuard => if is_nil p && is_nil q then Ok true else if is_nil p || is_nil q then Ok false else r
  | PFalse => if is_nil p || is_nil q then Ok false else r
  | PPanic => if is_nil p || is_nil q then Panic else r
  | PList => if is_nil p then Ok (Nat.eqb (length (tkids q)) 0) else r
  | PVal => r
  end.

(** first result that is not [Ok true], in the order the code makes the comparisons *)
Fixpoint seq (rs : list (res bool)) : res bool :=
  match rs with
  | [] => Ok true
  | Ok true :: tl => seq tl
  | r :: _ => r
  end.

(** * Field tables of the plain struct comparators *)

Inductive fcmp :=
| FM (pl : pol)   (* the comparator of the field's type, with the nil policy of the call *)
| FDeep           (* reflect.DeepEqual *)
| FLab            (* == on a bool *)
| FWhere.         (* areEqualWhere, and on failure isWherePattern(pattern.Where) => the statement matches *)

Definition fname := String.string.

(** comparisons of areEqual<k> / handle<k>Statement in CODE order, by field NAME (resolved against the
    generated schema below) *)
Definition struct_spec_named (k : kind) : list (fname * fcmp) :=
  (match k with
  (* statements *)
  | K_Union => [("Type", FM PVal); ("Left", FM PFalse); ("Right", FM PFalse); ("OrderBy", FM PList); ("Limit", FM PGuard); ("Lock", FM PVal)]
  | K_Select => [("Cache", FM PVal); ("Comments", FDeep); ("Distinct", FM PVal); ("Hints", FM PVal); ("SelectExprs", FM PList);
                 ("From", FM PList); ("Where", FWhere); ("GroupBy", FM PList); ("Having", FM PGuard); ("OrderBy", FM PList);
                 ("Limit", FM PGuard); ("Lock", FM PVal)]
  | K_Insert => [("Action", FM PVal); ("Comments", FDeep); ("Ignore", FM PVal); ("Table", FM PVal); ("Default", FLab);
                 ("Partitions", FM PList); ("Columns", FM PList); ("Rows", FM PGuard); ("OnDup", FM PList); ("Returning", FM PList)]
  | K_Update => [("Comments", FDeep); ("TableExprs", FM PList); ("Exprs", FM PList); ("From", FM PList); ("Returning", FM PList);
                 ("Where", FWhere); ("OrderBy", FM PList); ("Limit", FM PGuard)]
  | K_Delete => [("Comments", FDeep); ("Targets", FM PList); ("TableExprs", FM PList); ("Partitions", FM PList); ("Returning", FM PList);
                 ("Where", FWhere); ("OrderBy", FM PList); ("Limit", FM PGuard)]
  | K_ParenSelect => [("Select", FM PFalse)]
  (* select expressions *)
  | K_StarExpr => [("TableName", FM PVal)]
  | K_AliasedExpr => [("As", FM PVal); ("Expr", FM PGuard)]
  | K_Nextval => [("Expr", FM PGuard)]
  (* table expressions *)
  | K_AliasedTableExpr => [("Expr", FM PFalse); ("Partitions", FM PList); ("As", FM PVal); ("Hints", FM PGuard)]
  | K_JoinTableExpr => [("Condition", FM PVal); ("Join", FM PVal); ("LeftExpr", FM PFalse); ("RightExpr", FM PFalse)]
  | K_ParenTableExpr => [("Exprs", FM PList)]
  | K_JoinCondition => [("On", FM PGuard); ("Using", FM PList)]
  | K_IndexHints => [("Indexes", FM PList); ("Type", FM PVal)]
  | K_TableName => [("Name", FM PVal); ("Qualifier", FM PVal)]
  | K_TableIdent => [("v", FM PVal)]
  | K_Subquery => [("Select", FM PFalse)]
  (* expressions *)
  | K_AndExpr => [("Right", FM PGuard); ("Left", FM PGuard)]
  | K_OrExpr => [("Right", FM PGuard); ("Left", FM PGuard)]
  | K_NotExpr => [("Expr", FM PGuard)]
  | K_ParenExpr => [("Expr", FM PGuard)]
  | K_ComparisonExpr => [("Operator", FM PVal); ("Escape", FM PGuard); ("Left", FM PGuard); ("Right", FM PGuard)]
  | K_RangeCond => [("Operator", FM PVal); ("Left", FM PGuard); ("From", FM PGuard); ("To", FM PGuard)]
  | K_IsExpr => [("Operator", FM PVal); ("Expr", FM PGuard)]
  | K_ExistsExpr => [("Subquery", FM PPanic)]
  | K_ColName => [("Name", FM PVal); ("Qualifier", FM PVal); ("Metadata", FDeep)]
  | K_BinaryExpr => [("Operator", FM PVal); ("Left", FM PGuard); ("Right", FM PGuard)]
  | K_UnaryExpr => [("Operator", FM PVal); ("Expr", FM PGuard)]
  | K_IntervalExpr => [("Unit", FM PVal); ("Expr", FM PGuard)]
  | K_CollateExpr => [("Charset", FM PVal); ("Expr", FM PGuard)]
  | K_FuncExpr => [("Distinct", FLab); ("Name", FM PVal); ("Qualifier", FM PVal); ("Exprs", FM PList)]
  | K_CaseExpr => [("Expr", FM PGuard); ("Else", FM PGuard); ("Whens", FM PList)]
  | K_When => [("Val", FM PGuard); ("Cond", FM PGuard)]
  | K_ValuesFuncExpr => [("Name", FM PPanic)]
  | K_ConvertExpr => [("Expr", FM PGuard); ("Type", FM PPanic)]
  | K_ConvertType => [("Type", FM PVal); ("Charset", FM PVal); ("Operator", FM PVal); ("Length", FM PGuard); ("Scale", FM PGuard)]
  | K_SubstrExpr => [("To", FM PGuard); ("From", FM PGuard); ("Name", FM PPanic)]
  | K_ConvertUsingExpr => [("Type", FM PVal); ("Expr", FM PGuard)]
  | K_MatchExpr => [("Option", FM PVal); ("Expr", FM PGuard); ("Columns", FM PList)]
  | K_GroupConcatExpr => [("Distinct", FM PVal); ("Separator", FM PVal); ("Exprs", FM PList); ("OrderBy", FM PList)]
  | K_Default => [("ColName", FM PVal)]
  (* parts *)
  | K_Order => [("Expr", FM PGuard); ("Direction", FM PVal)]
  | K_UpdateExpr => [("Expr", FM PGuard); ("Name", FM PPanic)]
  | K_Limit => [("Offset", FM PGuard); ("Rowcount", FM PGuard)]
  | K_Where => [("Type", FM PVal); ("Expr", FM PGuard)]
  | _ => []
  end)%string.

Fixpoint index_of_name (n : fname) (fs : list fname) : option nat :=
  match fs with
  | [] => None
  | f :: tl => if String.eqb f n then Some 0 else option_map S (index_of_name n tl)
  end.

Fixpoint resolve (fs : list fname) (sp : list (fname * fcmp)) : option (list (nat * fcmp)) :=
  match sp with
  | [] => Some []
  | (n, c) :: tl =>
      match index_of_name n fs, resolve fs tl with
      | Some i, Some r => Some ((i, c) :: r)
      | _, _ => None
      end
  end.

(** the table with field positions; [None]: no plain comparator for the kind (or a field name that the
    generated schema does not know: Properties/C05_patterns.v checks that this never happens) *)
Definition struct_spec : kind -> option (list (nat * fcmp)) :=
  Eval vm_compute in
    (fun k => match struct_spec_named k with [] => None | sp => resolve (kind_fields k) sp end).

(** element policy of a slice type *)
Definition list_pol (k : kind) : option pol :=
  match k with
  | K_SelectExprs | K_Returning | K_TableExprs => Some PFalse   (* areEqualSelectExpr / areEqualTableExpr: interface switch *)
  | K_GroupBy | K_Values => Some PGuard                         (* areEqualExpr / areEqualValTuple: nil checks *)
  | K_OrderBy | K_OnDup | K_UpdateExprs | K_list => Some PPanic (* []*Order, []*UpdateExpr, []*When: element dereferenced *)
  | K_Columns | K_Partitions => Some PVal                       (* []ColIdent *)
  | _ => None
  end.

(** statements compared with reflect.DeepEqual *)
Definition deep_stmt (k : kind) : bool :=
  match k with
  | K_Set | K_DBDDL | K_DDL | K_Show | K_Use | K_Begin | K_Commit | K_Rollback | K_OtherRead | K_OtherAdmin => true
  | _ => false
  end.

(** the statement a whole-statement placeholder is replaced by *)
Definition stmt_ph (k : kind) : option tree :=
  match k with
  | K_Union => Some PAT_UNION
  | K_Select => Some PAT_SELECT
  | K_Insert => Some PAT_INSERT
  | K_Update => Some PAT_UPDATE
  | K_Delete => Some PAT_DELETE
  | _ => None
  end.

(** what %%VALUE%% / %%LIST_OF_VALUES%% stand for when the query node is not a literal: boolean, NULL,
    function call (areEqualExpr, case *sqlparser.SQLVal) *)
Definition value_like (q : tree) : bool := is_k K_BoolVal q || is_k K_NullVal q || is_k K_FuncExpr q.
(** what a %%COLUMN%% column reference stands for when the query node is not a column (case *sqlparser.ColName) *)
Definition column_like (q : tree) : bool :=
  is_k K_SQLVal q || is_k K_Subquery q || is_k K_FuncExpr q || is_k K_CaseExpr q || is_k K_ParenExpr q.

(** * The matcher *)

Section Loops.
  Variable f : tree -> tree -> res bool.   (* the comparator itself: query, pattern *)

  (** results of the comparisons of the children, position by position *)
  Fixpoint subs (ps qs : list tree) {struct ps} : list (res bool) :=
    match ps with
    | [] => []
    | p1 :: ps' =>
        match qs with
        | q1 :: qs' => f q1 p1 :: subs ps' qs'
        | [] => f tnil p1 :: subs ps' []
        end
    end.

  (** `for index := range pattern { if !areEqualX(query[index], pattern[index]) { return false } }` after
      the length check *)
  Fixpoint pairwise (pl : pol) (ps qs : list tree) {struct ps} : res bool :=
    match ps, qs with
    | [], _ => Ok true
    | p1 :: ps', q1 :: qs' =>
        match fld pl q1 p1 (f q1 p1) with
        | Ok true => pairwise pl ps' qs'
        | r => r
        end
    | _ :: _, [] => Ok false
    end.

  (** the tail of areEqualValTuple: every further element of the query against the last pattern element *)
  Fixpoint tuple_rest (g : tree -> res bool) (qs : list tree) {struct qs} : res bool :=
    match qs with
    | [] => Ok true
    | q1 :: qs' =>
        match g q1 with
        | Ok true => tuple_rest g qs'
        | r => r
        end
    end.

  (** areEqualValTuple on non-nil tuples *)
  Fixpoint tuple (ps qs : list tree) {struct ps} : res bool :=
    match ps with
    | [] => Ok (match qs with [] => true | _ => false end)
    | p1 :: ps' =>
        match qs with
        | [] => Ok false                                   (* index >= len(query) *)
        | q1 :: qs' =>
            match fld PGuard q1 p1 (f q1 p1) with
            | Ok true =>
                match ps' with
                | [] =>                                    (* p1 is the last pattern element *)
                    match qs' with
                    | [] => Ok true
                    | _ => if is_k K_SQLVal p1 && is_list_ph p1 then tuple_rest (fun q => fld PGuard q p1 (f q p1)) qs' else Ok false
                    end
                | _ => tuple ps' qs'
                end
            | r => r
            end
        end
    end.
End Loops.

Definition is_star_list (ps : list tree) : bool :=
  match ps with [x] => is_k K_StarExpr x | _ => false end.

Definition is_unknown_val (t : tree) : bool := N.eqb (be_dec (tlab (kid 0 t))) VALTYPE_UnknownVal.

(** slice types of struct fields: a nil slice and an empty slice are the same list *)
Definition slice_kind (k : kind) : bool :=
  match k with
  | K_SelectExprs | K_Returning | K_TableExprs | K_GroupBy | K_OrderBy | K_OnDup | K_UpdateExprs | K_list
  | K_Columns | K_Partitions => true
  | _ => false
  end.

(** evaluation of a field table (comparisons in code order); [wp] = isWherePattern *)
Fixpoint run_spec (wp : tree -> res bool) (q p : tree) (sub : list (res bool)) (sp : list (nat * fcmp)) : res bool :=
  match sp with
  | [] => Ok true
  | (i, c) :: tl =>
      let qi := kid i q in
      let pi := kid i p in
      let r := match c with
               | FM pl => fld pl qi pi (nth i sub (Ok false))
               | FDeep => Ok (tree_eqb qi pi)
               | FLab => Ok (lab_eqb qi pi)
               | FWhere => fld PGuard qi pi (nth i sub (Ok false))
               end in
      match r with
      | Ok true => run_spec wp q p sub tl
      | Ok false => match c with FWhere => wp pi | _ => Ok false end
      | r' => r'
      end
  end.

(** areEqual<T>(query, pattern) for a NON-NIL pattern node p of dynamic type T, given the results of the
    recursive comparisons: [sub] children position by position, [pw] element-wise with a nil policy,
    [tp] the tuple loop.  Nil sides are decided by the caller's policy ([fld]). *)
Definition body (wp : tree -> res bool) (q p : tree)
    (sub : unit -> list (res bool)) (pw : pol -> res bool) (tp : unit -> res bool) : res bool :=
  let pk := tkind p in
  let pcs := tkids p in
  let same := kind_eqb (tkind q) pk && Nat.eqb (length (tkids q)) (length pcs) in
  let plain := fun _ : unit =>
    match struct_spec pk with
    | Some sp => run_spec wp q p (sub tt) sp
    | None => Ok false
    end in
  match pk with
  (* leaves *)
  | K_string => Ok (is_k K_string q && fold_eqb (tlab q) (tlab p))   (* strings.EqualFold *)
  | K_bool | K_int | K_bytes | K_BoolVal | K_ListArg => Ok (same && lab_eqb q p)
  | K_ColIdent => Ok (is_k K_ColIdent q && (is_column_ph p || colident_eqb q p))   (* areEqualColIdent *)
  | K_NullVal | K_Comments => Ok (tree_eqb q p)
  (* whole-statement placeholders in front of the field comparisons *)
  | K_Union | K_Select | K_Insert | K_Update | K_Delete =>
      if negb same then Ok false else
      if match stmt_ph pk with Some c => tree_eqb p c | None => false end then Ok true else plain tt
  (* literals: %%VALUE%% / %%LIST_OF_VALUES%% *)
  | K_SQLVal =>
      if negb (is_k K_SQLVal q) then Ok (value_like q && (is_value_ph p || is_list_ph p)) else
      if is_value_ph p || is_list_ph p then Ok true else
      if is_unknown_val q || is_unknown_val p
      then Ok (tree_eqb q p)
      else Ok (lab_eqb (kid 0 q) (kid 0 p) && lab_eqb (kid 1 q) (kid 1 p) && lab_eqb (kid 2 q) (kid 2 p))
  (* column references: %%COLUMN%% *)
  | K_ColName =>
      if negb (is_k K_ColName q) then Ok (column_like q && is_column_ph (kid 1 p)) else
      if negb same then Ok false else plain tt
  | K_AliasedExpr =>
      if negb (is_k K_AliasedExpr q)
      then Ok (is_k K_StarExpr q && is_k K_ColName (kid 0 p) && is_column_ph (kid 1 (kid 0 p)))
      else if negb same then Ok false else plain tt
  (* %%SUBQUERY%% *)
  | K_Subquery =>
      if negb same then Ok false else
      match plain tt with
      | Ok false => Ok (is_subquery_ph p)
      | r => r
      end
  (* tuples: %%LIST_OF_VALUES%% *)
  | K_ValTuple => if negb (is_k K_ValTuple q) then Ok false else tp tt
  (* slices *)
  | K_SelectExprs | K_Returning =>
      if negb (is_k pk q || (slice_kind pk && is_nil q)) then Ok false else
      if is_star_list pcs then Ok true else                     (* "all columns are allowed" *)
      if negb (Nat.eqb (length (tkids q)) (length pcs)) then Ok false else pw PFalse
  | K_TableExprs | K_GroupBy | K_Values | K_OrderBy | K_OnDup | K_UpdateExprs | K_list | K_Columns | K_Partitions =>
      if negb (is_k pk q || (slice_kind pk && is_nil q)) then Ok false else
      if negb (Nat.eqb (length (tkids q)) (length pcs)) then Ok false else
      match list_pol pk with
      | Some lp => pw lp
      | None => Ok false
      end
  (* statements without placeholder support *)
  | K_Set | K_DBDDL | K_DDL | K_Show | K_Use | K_Begin | K_Commit | K_Rollback | K_OtherRead | K_OtherAdmin =>
      Ok (tree_eqb q p)
  (* plain struct comparators; kinds without a comparator (Stream, Prepare, ...) never match *)
  | _ => if negb same then Ok false else plain tt
  end.

Section Meq.
  (** isWherePattern(pattern.Where) *)
  Variable where_pat : tree -> res bool.

  Fixpoint meq (q p : tree) {struct p} : res bool :=
    let '(T pk pl pcs) := p in
    body where_pat q (T pk pl pcs)
      (fun _ => subs meq pcs (tkids q))
      (fun lp => pairwise meq lp pcs (tkids q))
      (fun _ => tuple meq pcs (tkids q)).
End Meq.

(** isWherePattern: the comparison with the constant WHERE clause cannot reach another WHERE clause *)
Definition where_pat (w : tree) : res bool :=
  if is_nil w then Ok false else
  if negb (fold_eqb (tlab (kid 0 w)) (tlab (kid 0 PAT_WHERE))) then Ok false else
  fld PGuard (kid 1 w) (kid 1 PAT_WHERE) (meq (fun _ => Ok false) (kid 1 w) (kid 1 PAT_WHERE)).

(** the statement kinds of the type switch of checkSinglePatternMatch *)
Definition top_kind (k : kind) : bool :=
  match k with
  | K_Union | K_Select | K_Stream | K_Insert | K_Update | K_Delete | K_Set | K_DBDDL | K_DDL | K_Show | K_Use
  | K_Begin | K_Commit | K_Rollback | K_OtherRead | K_OtherAdmin => true
  | _ => false
  end.

(** checkSinglePatternMatch(query = s, pattern = p) *)
Definition match_impl (p s : tree) : res bool :=
  if top_kind (tkind p) then meq where_pat s p else Ok false.

(** CheckPatternsMatching *)
Fixpoint check_patterns (ps : list tree) (s : tree) : res bool :=
  match ps with
  | [] => Ok false
  | p :: tl =>
      match match_impl p s with
      | Ok false => check_patterns tl s
      | r => r
      end
  end.

(** * The documented relation *)

(** what a literal placeholder stands for: one literal (string, number, binary, bind placeholder), boolean,
    NULL, or a function call (CHANGELOG 0.84 + TestAllowValuePattern) *)
Definition value_class (s : tree) : bool := is_k K_SQLVal s || value_like s.

(** fields that are presentation or caches, not part of the statement: the lower-case cache and the quoting
    of table identifiers, the spelling of LIMIT (`a, b` / `b OFFSET a`) *)
Definition ignorable (k : kind) (i : nat) : bool :=
  match k with
  | K_TableIdent => negb (Nat.eqb i 1)
  | K_Limit => Nat.eqb i 2
  | _ => false
  end.

(** position of the WHERE clause, and the clauses that follow it in the statement *)
Definition where_idx (k : kind) : option nat :=
  match k with K_Select => Some 6 | K_Update => Some 4 | K_Delete => Some 4 | _ => None end.
Definition after_where (k : kind) (i : nat) : bool :=
  match k with
  | K_Select => 7 <=? i
  | K_Update | K_Delete => Nat.eqb i 5 || Nat.eqb i 6
  | _ => false
  end.

Definition is_where_ph (w : tree) : bool := match where_pat w with Ok true => true | _ => false end.

Definition opt_nat_is (o : option nat) (i : nat) : bool := match o with Some j => Nat.eqb i j | None => false end.

Definition list_kind (k : kind) : bool :=
  match list_pol k with Some _ => true | None => match k with K_ValTuple | K_Comments => true | _ => false end end.

Definition is_empty_list (l : list tree) : bool := match l with [] => true | _ => false end.

Section InstLoops.
  Variable f : tree -> tree -> bool.   (* the relation itself: pattern, statement *)
  Variable wt : bool.                  (* true: %%WHERE%% also absorbs the clauses after WHERE *)

  (** the fields of a node of kind k position by position; [skip]: a WHERE placeholder has absorbed the rest *)
  Fixpoint inst_kids (k : kind) (i : nat) (ps ss : list tree) (skip : bool) {struct ps} : bool :=
    match ps, ss with
    | [], [] => true
    | p1 :: ps', s1 :: ss' =>
        if ignorable k i || (skip && after_where k i) then inst_kids k (S i) ps' ss' skip
        else if opt_nat_is (where_idx k) i && is_where_ph p1
        then (is_nil s1 || is_k K_Where s1) && inst_kids k (S i) ps' ss' wt
        else f p1 s1 && inst_kids k (S i) ps' ss' skip
    | _, _ => false
    end.

  (** a tuple whose last element is %%LIST_OF_VALUES%%: one or more values in its place *)
  Fixpoint inst_tuple (ps ss : list tree) {struct ps} : bool :=
    match ps, ss with
    | [], [] => true
    | p1 :: ps', s1 :: ss' =>
        match ps' with
        | [] =>
            if is_k K_SQLVal p1 && is_list_ph p1
            then value_class s1 && forallb value_class ss'
            else f p1 s1 && is_empty_list ss'
        | _ => f p1 s1 && inst_tuple ps' ss'
        end
    | _, _ => false
    end.
End InstLoops.

Section Inst.
  Variable wt : bool.

  Fixpoint inst (p s : tree) {struct p} : bool :=
    let '(T pk pl pcs) := p in
    let p0 := T pk pl pcs in
    let generic := fun _ : unit =>
      kind_eqb (tkind s) pk && bytes_eqb (tlab s) pl && inst_kids inst wt pk 0 pcs (tkids s) false in
    match pk with
    | K_nil => is_nil s || (slice_kind (tkind s) && Nat.eqb (length (tkids s)) 0)   (* nil slice = empty slice *)
    | K_string => is_k K_string s && fold_eqb (tlab s) pl                         (* SQL keywords / names: case-insensitive *)
    | K_ColIdent => is_k K_ColIdent s && (is_column_ph p0 || colident_eqb s p0)   (* %%COLUMN%%: any column name *)
    | K_SQLVal =>
        if is_value_ph p0 || is_list_ph p0 then value_class s                     (* %%VALUE%% *)
        else is_k K_SQLVal s &&
             (if is_unknown_val s || is_unknown_val p0 then tree_eqb s p0      (* cast of NULL / DEFAULT: identical *)
              else lab_eqb (kid 0 s) (kid 0 p0) && lab_eqb (kid 1 s) (kid 1 p0) && lab_eqb (kid 2 s) (kid 2 p0)
                   && tree_eqb (kid 3 s) (kid 3 p0))                        (* same type, value, cast *)
    | K_ColName =>
        if is_k K_ColName s then generic tt
        else column_like s && is_column_ph (kid 1 p0)                              (* %%COLUMN%%: a column expression *)
    | K_AliasedExpr =>
        if is_k K_AliasedExpr s then generic tt
        else is_k K_StarExpr s && is_k K_ColName (kid 0 p0) && is_column_ph (kid 1 (kid 0 p0))
    | K_Subquery =>
        is_k K_Subquery s && (is_subquery_ph p0 || generic tt)                      (* %%SUBQUERY%% *)
    | K_Union | K_Select | K_Insert | K_Update | K_Delete =>
        is_k pk s &&
        ((match stmt_ph pk with Some c => tree_eqb p0 c | None => false end) || generic tt)   (* %%SELECT%% ... *)
    | K_ValTuple => is_k K_ValTuple s && inst_tuple inst pcs (tkids s)
    | K_SelectExprs | K_Returning =>
        if is_star_list pcs then is_k pk s || is_nil s                              (* `*`: any column list *)
        else if is_nil s then Nat.eqb (length pcs) 0 else generic tt
    | K_Comments => tree_eqb s p0
    | _ =>
        if deep_stmt pk then tree_eqb s p0                                          (* no placeholders outside DML *)
        else if slice_kind pk && is_nil s then Nat.eqb (length pcs) 0
        else generic tt
    end.
End Inst.

Definition instance_of (p s : tree) : bool := inst false p s.
Definition instance_of_loose (p s : tree) : bool := inst true p s.

(** * Shape of the trees the parser produces *)

(** what the matcher relies on for the field of one table entry: no nil where it would dereference it or
    where a value / interface with a mandatory operand stands; slice fields hold slices and only they do;
    DeepEqual-ed fields are comments or nil (ColName.Metadata) *)
Definition entry_ok (t : tree) (e : nat * fcmp) : bool :=
  let c := kid (fst e) t in
  match snd e with
  | FM PFalse | FM PPanic | FM PVal => negb (is_nil c) && negb (slice_kind (tkind c))
  | FLab => is_k K_bool c
  | FM PList => is_nil c || slice_kind (tkind c)
  | FDeep => is_nil c || is_k K_Comments c
  | FWhere => is_nil c || is_k K_Where c
  | FM PGuard => negb (slice_kind (tkind c))
  end.

(** kinds the matcher has a comparator for *)
Definition comparable (k : kind) : bool :=
  leaf_kind k || list_kind k || deep_stmt k ||
  match struct_spec k with Some _ => true | None => false end ||
  match k with K_ColIdent | K_NullVal | K_SQLVal => true | _ => false end.

Fixpoint wf (t : tree) : bool :=
  let '(T k lab cs) := t in
  forallb wf cs &&
  if leaf_kind k then is_empty_list cs && (negb (kind_eqb k K_nil) || is_empty lab)
  else if list_kind k then
    is_empty lab && forallb (fun c => negb (slice_kind (tkind c))) cs &&
    match list_pol k with
    | Some PGuard | None => true
    | Some _ => forallb (fun c => negb (is_nil c)) cs
    end
  else if kind_is_slice k then is_empty lab      (* a slice the matcher never walks (SET, EXECUTE, DDL) *)
  else
    is_empty lab && Nat.eqb (length cs) (length (kind_fields k)) &&
    match struct_spec k with
    | Some sp => forallb (entry_ok (T k lab cs)) sp
    | None => true
    end &&
    match k with
    | K_SQLVal => is_unknown_val (T k lab cs) || is_nil (kid 3 (T k lab cs))
    | _ => true
    end.

(** no node of a kind the matcher has no comparator for (STREAM, PREPARE, EXECUTE, DEALLOCATE) *)
Fixpoint supported (t : tree) : bool :=
  let '(T k _ cs) := t in
  comparable k && (deep_stmt k || forallb supported cs).

(** * Generalisation of a statement: replacing selected positions by placeholders *)

(** what to do at a position (a path of child indices from the root) *)
Inductive gsel :=
| GNone                (* keep the node, go on below it *)
| GValue               (* %%VALUE%% for a literal / TRUE / NULL / function call *)
| GColumn              (* %%COLUMN%% for a column name, a column expression or `*` in a select list *)
| GOther               (* %%SUBQUERY%%, %%SELECT%% ... %%DELETE%%, `*` for a select list, %%WHERE%% for a WHERE field *)
| GList (n : nat).     (* %%LIST_OF_VALUES%% for the last n >= 1 values of a tuple *)

(** nodes below which no placeholder can stand *)
Definition atomic (k : kind) : bool :=
  leaf_kind k || deep_stmt k ||
  match k with K_SQLVal | K_Comments | K_ColIdent | K_NullVal => true | _ => false end.

Definition is_gother (g : gsel) : bool := match g with GOther => true | _ => false end.

Section GenKids.
  Variable sel : list nat -> gsel.
  Variable g : list nat -> tree -> tree.   (* generalise itself *)
  Variable k : kind.                       (* kind of the parent *)
  Variable path : list nat.                (* position of the parent *)

  (** the children from position i on; [cut]: position at which a tuple is closed with %%LIST_OF_VALUES%% *)
  Fixpoint gen_kids (cut : option nat) (i : nat) (cs : list tree) {struct cs} : list tree :=
    match cs with
    | [] => []
    | c :: tl =>
        if opt_nat_is cut i then [PAT_LIST_OF_VALUES] else
        (if opt_nat_is (where_idx k) i && (is_nil c || is_k K_Where c) && is_gother (sel (path ++ [i]))
         then PAT_WHERE else g (path ++ [i]) c) :: gen_kids cut (S i) tl
    end.
End GenKids.

Section Generalise.
  Variable sel : list nat -> gsel.

  Fixpoint generalise (path : list nat) (s : tree) {struct s} : tree :=
    let '(T k l cs) := s in
    let s0 := T k l cs in
    let rebuilt := if atomic k then s0 else T k l (gen_kids sel generalise k path None 0 cs) in
    match sel path with
    | GNone => rebuilt
    | GValue => if value_class s0 then PAT_VALUE else rebuilt
    | GColumn =>
        if is_k K_ColIdent s0 then PAT_COLUMN
        else if column_like s0 then PAT_COLUMN_EXPR
        else if is_k K_StarExpr s0 then PAT_COLUMN_ITEM
        else rebuilt
    | GOther =>
        match k with
        | K_Subquery => T K_Subquery [] [PAT_SUBQUERY_SELECT]
        | K_SelectExprs | K_Returning => T k [] [PAT_STAR]
        | _ => match stmt_ph k with Some c => c | None => rebuilt end
        end
    | GList n =>
        if is_k K_ValTuple s0 && (1 <=? n) && (n <=? length cs) && forallb value_class (skipn (length cs - n) cs)
        then T k l (gen_kids sel generalise k path (Some (length cs - n)) 0 cs)
        else rebuilt
    end.
End Generalise.

(** patterns in which no %%WHERE%% placeholder stands (in any SELECT / UPDATE / DELETE of the pattern) *)
Fixpoint no_where_ph (p : tree) : bool :=
  let '(T k _ cs) := p in
  forallb no_where_ph cs &&
  match where_idx k with
  | Some i => negb (is_where_ph (nth i cs tnil))
  | None => true
  end.

(** the pattern rule of an allow / deny handler for one statement: CheckPatternsMatching said "match" *)
Definition pattern_hit (ps : list tree) (s : tree) : bool :=
  match check_patterns ps s with Ok true => true | _ => false end.
