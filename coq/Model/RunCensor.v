(** Replay of implementation observations (real AcraCensor / real common.CheckTableNamesMatch) on
    the censor model.  Used by the correspondence check of C05 (domain c05).
    [OpCensor]: the verdict of the real AcraCensor for one statement; exact-query and pattern results
    of each handler are inputs, the TABLE rule is evaluated by the model on the FROM tree of the
    statement ([rules_of]).  [OpTables]: one evaluation of common.CheckTableNamesMatch.
    [OpChain]: the chain alone, all three match results as inputs (kept for hand-written cases).
    [OpCensorP]: as [OpCensor], and the PATTERN rule is evaluated by the model too: the handlers carry the tree
    forms of their parsed patterns, the operation the tree form of the parsed statement
    (Model/CensorPattern.v: check_patterns = common.CheckPatternsMatching); only the exact-query result
    stays an input. *)
From Coq Require Import List Bool NArith.
From Acra Require Import Lib.Bytes Lib.Outcome.
From Acra Require Export Model.Censor.
From Acra Require Model.CensorPattern.
Import ListNotations.

Inductive expected := XOk (vals : list bytes) | XErr | XPanic.

(** short constructors for the generated case files *)
Definition T := true.
Definition F := false.
Definition HA := fun a b c d e f g => HAllow (R a b c d e f g).
Definition HD := fun a b c d e f g => HDeny (R a b c d e f g).
Definition HI := HIgnore.
Definition HAA := HAllowAll.
Definition HDA := HDenyAll.
Definition HC := HCapture.

(** a handler as configured: allow/deny handlers carry their `tables:` list, the table rule is
    evaluated by the model on the statement of the operation *)
Inductive hspec :=
| SA (hq mq : bool) (tables : list bytes) (hp mp : bool)
| SD (hq mq : bool) (tables : list bytes) (hp mp : bool)
| SAA | SDA | SI (hit : bool) | SC.

Definition handler_of (s : stmt_tables) (h : hspec) : handler :=
  match h with
  | SA hq mq ts hp mp => HAllow (rules_of s hq mq ts hp mp)
  | SD hq mq ts hp mp => HDeny (rules_of s hq mq ts hp mp)
  | SAA => HAllowAll
  | SDA => HDenyAll
  | SI hit => HIgnore hit
  | SC => HCapture
  end.

(** a handler as configured, with its `tables:` list and the tree forms of its `patterns:` *)
Inductive hspecp :=
| PA (hq mq : bool) (tables : list bytes) (pats : list bytes)
| PD (hq mq : bool) (tables : list bytes) (pats : list bytes)
| PAA | PDA | PI (hit : bool) | PC.

(** chunked byte strings of the case files *)
Definition hbs := CensorTree.hbs.

Fixpoint decode_all (bs : list bytes) : option (list CensorTree.tree) :=
  match bs with
  | [] => Some []
  | b :: tl =>
      match CensorTree.decode b, decode_all tl with
      | Some t, Some ts => Some (t :: ts)
      | _, _ => None
      end
  end.

(** len(patterns) != 0 and common.CheckPatternsMatching(patterns, parsedQuery) *)
Definition pattern_rule (pats : list bytes) (st : CensorTree.tree) : res (bool * bool) :=
  match decode_all pats with
  | None => Err 0%N
  | Some ps =>
      match CensorPattern.check_patterns ps st with
      | Ok m => Ok (negb (is_nil pats), m)
      | Err e => Err e
      | Panic => Panic
      end
  end.

Definition handler_ofp (s : stmt_tables) (st : CensorTree.tree) (h : hspecp) : res handler :=
  match h with
  | PA hq mq ts pats => do hm <- pattern_rule pats st; Ok (HAllow (rules_of s hq mq ts (fst hm) (snd hm)))
  | PD hq mq ts pats => do hm <- pattern_rule pats st; Ok (HDeny (rules_of s hq mq ts (fst hm) (snd hm)))
  | PAA => Ok HAllowAll
  | PDA => Ok HDenyAll
  | PI hit => Ok (HIgnore hit)
  | PC => Ok HCapture
  end.

Fixpoint handlers_ofp (s : stmt_tables) (st : CensorTree.tree) (hs : list hspecp) : res (list handler) :=
  match hs with
  | [] => Ok []
  | h :: tl => do x <- handler_ofp s st h; do xs <- handlers_ofp s st tl; Ok (x :: xs)
  end.

Inductive op :=
| OpChain (ignore_parse_error has_writer parsed : bool) (hs : list handler)
| OpTables (set : list bytes) (s : stmt_tables)
| OpCensor (ignore_parse_error has_writer parsed : bool) (s : stmt_tables) (hs : list hspec)
| OpCensorP (ignore_parse_error has_writer parsed : bool) (s : stmt_tables) (st : bytes) (hs : list hspecp).

Definition flag (b : bool) : bytes := [if b then x01 else x00].

(** 0 allowed | 1 deny by query | 2 by table | 3 by pattern | 4 deny-all | 5 parse error *)
Definition verdict_code (v : verdict) : bytes :=
  match v with
  | Allowed => [x00]
  | Denied ByQuery => [x01]
  | Denied ByTable => [x02]
  | Denied ByPattern => [x03]
  | Denied ByDenyAll => [x04]
  | Denied ByParseError => [x05]
  end.

Definition run (o : op) : expected :=
  match o with
  | OpChain ipe w parsed hs => XOk [verdict_code (handle_query (Censor ipe w) parsed hs)]
  | OpTables set s => let '(one, all) := check_table_names set s in XOk [flag one; flag all]
  | OpCensor ipe w parsed s hs =>
      XOk [verdict_code (handle_query (Censor ipe w) parsed (map (handler_of s) hs))]
  | OpCensorP ipe w parsed s st hs =>
      (* an unparsed statement has no tree: the handlers do not look at their rules then *)
      match (if parsed then CensorTree.decode st else Some CensorTree.tnil) with
      | None => XErr
      | Some t =>
          match handlers_ofp s t hs with
          | Ok hl => XOk [verdict_code (handle_query (Censor ipe w) parsed hl)]
          | Err _ => XErr
          | Panic => XPanic
          end
      end
  end.

Fixpoint list_bytes_eqb (a b : list bytes) : bool :=
  match a, b with
  | [], [] => true
  | x :: a', y :: b' => bytes_eqb x y && list_bytes_eqb a' b'
  | _, _ => false
  end.

Definition expected_eqb (a b : expected) : bool :=
  match a, b with
  | XOk x, XOk y => list_bytes_eqb x y
  | XErr, XErr => true
  | XPanic, XPanic => true
  | _, _ => false
  end.

Fixpoint mismatches_from (i : nat) (cs : list (op * expected)) : list (nat * expected) :=
  match cs with
  | [] => []
  | (o, e) :: rest =>
      let m := run o in
      if expected_eqb m e then mismatches_from (S i) rest else (i, m) :: mismatches_from (S i) rest
  end.
