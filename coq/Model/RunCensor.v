(** Replay of implementation observations (real AcraCensor / real common.CheckTableNamesMatch) on
    the censor model.  Used by the correspondence check of C05 (domain c05).
    [OpCensor]: the verdict of the real AcraCensor for one statement; exact-query and pattern results
    of each handler are inputs, the TABLE rule is evaluated by the model on the FROM tree of the
    statement ([rules_of]).  [OpTables]: one evaluation of common.CheckTableNamesMatch.
    [OpChain]: the chain alone, all three match results as inputs (kept for hand-written cases). *)
From Coq Require Import List Bool NArith.
From Acra Require Import Lib.Bytes Lib.Outcome.
From Acra Require Export Model.Censor.
Import ListNotations.

Inductive expected := XOk (vals : list bytes) | XErr | XPanic.

(** short constructors for the generated case files *)
Definition T := true.
Definition F := false.
Definition HA := fun a b c d e f g => HAllow (R a b c d e f g).
Definition HD := fun a b c d e f g => HDeny (R a b c d e f g).
Definition HI := HIgnore.
Definition HAA := HAllowAll.
Definition HDA := HDenyAll.
Definition HC := HCapture.

(** a handler as configured: allow/deny handlers carry their `tables:` list, the table rule is
    evaluated by the model on the statement of the operation *)
Inductive hspec :=
| SA (hq mq : bool) (tables : list bytes) (hp mp : bool)
| SD (hq mq : bool) (tables : list bytes) (hp mp : bool)
| SAA | SDA | SI (hit : bool) | SC.

Definition handler_of (s : stmt_tables) (h : hspec) : handler :=
  match h with
  | SA hq mq ts hp mp => HAllow (rules_of s hq mq ts hp mp)
  | SD hq mq ts hp mp => HDeny (rules_of s hq mq ts hp mp)
  | SAA => HAllowAll
  | SDA => HDenyAll
  | SI hit => HIgnore hit
  | SC => HCapture
  end.

Inductive op :=
| OpChain (ignore_parse_error has_writer parsed : bool) (hs : list handler)
| OpTables (set : list bytes) (s : stmt_tables)
| OpCensor (ignore_parse_error has_writer parsed : bool) (s : stmt_tables) (hs : list hspec).

Definition flag (b : bool) : bytes := [if b then x01 else x00].

(** 0 allowed | 1 deny by query | 2 by table | 3 by pattern | 4 deny-all | 5 parse error *)
Definition verdict_code (v : verdict) : bytes :=
  match v with
  | Allowed => [x00]
  | Denied ByQuery => [x01]
  | Denied ByTable => [x02]
  | Denied ByPattern => [x03]
  | Denied ByDenyAll => [x04]
  | Denied ByParseError => [x05]
  end.

Definition run (o : op) : expected :=
  match o with
  | OpChain ipe w parsed hs => XOk [verdict_code (handle_query (Censor ipe w) parsed hs)]
  | OpTables set s => let '(one, all) := check_table_names set s in XOk [flag one; flag all]
  | OpCensor ipe w parsed s hs =>
      XOk [verdict_code (handle_query (Censor ipe w) parsed (map (handler_of s) hs))]
  end.

Fixpoint list_bytes_eqb (a b : list bytes) : bool :=
  match a, b with
  | [], [] => true
  | x :: a', y :: b' => bytes_eqb x y && list_bytes_eqb a' b'
  | _, _ => false
  end.

Definition expected_eqb (a b : expected) : bool :=
  match a, b with
  | XOk x, XOk y => list_bytes_eqb x y
  | XErr, XErr => true
  | XPanic, XPanic => true
  | _, _ => false
  end.

Fixpoint mismatches_from (i : nat) (cs : list (op * expected)) : list (nat * expected) :=
  match cs with
  | [] => []
  | (o, e) :: rest =>
      let m := run o in
      if expected_eqb m e then mismatches_from (S i) rest else (i, m) :: mismatches_from (S i) rest
  end.
