(** Replay of implementation observations on the legacy column chain (Model/LegacyChain.v), instantiated
    with the stand-in crypto ([Stub]).  Domains c11old (property C11) and c15old (property C15). *)
From Acra Require Import Lib.Bytes Lib.Outcome Lib.Sha256 Crypto.Interface Crypto.Stub Gen.Consts Gen.MaskConsts
  Model.Envelope Model.RunEnvelope Model.Masking Model.Poison Model.RunPoison Model.LegacyChain Model.MaskingWrite.
Export RunEnvelope(expected, XOk, XErr, XPanic, mk_ks).

Definition mk_ms := Build_mask_setting.
Definition mk_pk := Build_poison_keys.

Inductive op :=
(* OldContainerDetectorWrapper.OnColumn of the detector proxyFactory.New builds:
   [count of callback runs; 00 = returned / 01 = error; output; decrypted mark] *)
| LegacyColumn (has_cb cb_err : bool) (pk : poison_keys) (s : option mask_setting) (ks : keyset) (col : bytes)
(* PgProxy.onColumnDecryption of a proxy built by proxyFactory.New (decoder ; wrapper ; encoder) for the
   accessing client [cid]: [count; 00/01; delivered cell] *)
| PgColumn (has_cb cb_err : bool) (pk : poison_keys) (store : key_store) (cid : bytes) (s : option mask_setting)
           (binary : bool) (data : bytes)
(* the column loop over one data row; a cell is 00 (NULL) or 01 ++ bytes: [count; 00/01; cells...] *)
| PgRow (has_cb cb_err : bool) (pk : poison_keys) (store : key_store) (cid : bytes)
        (settings : option (list (option mask_setting))) (binary : bool) (cols : list (option bytes))
(* the write path: ChainDataEncryptor[EncryptHandler; masking.DataEncryptor; ReEncryptHandler].EncryptWithClientID *)
| MaskWriteChain (id : bytes) (ks : keyset) (tape : list bytes) (st : mask_setting) (reenc : bool) (data : bytes).

Definition cell (c : option bytes) : bytes := match c with None => [x00] | Some d => x01 :: d end.

Definition run (o : op) : expected :=
  match o with
  | LegacyColumn has_cb cb_err pk s ks col =>
      canon_ev (fun p => [fst p; flag (snd p)]) (legacy_read_ev Stub has_cb cb_err pk s ks col)
  | PgColumn has_cb cb_err pk store cid s binary data =>
      canon_ev (fun x => [x]) (pg_column_ev Stub has_cb cb_err pk store cid s binary data)
  | PgRow has_cb cb_err pk store cid settings binary cols =>
      canon_ev (map cell) (pg_data_row Stub has_cb cb_err pk store cid settings binary cols)
  | MaskWriteChain id ks tape st reenc data => canon1 (write_chain Stub (idb id) ks tape st reenc data)
  end.

Fixpoint mismatches_from (i : nat) (cs : list (op * expected)) : list (nat * expected) :=
  match cs with
  | [] => []
  | (o, e) :: rest =>
      let m := run o in
      if expected_eqb m e then mismatches_from (S i) rest else (i, m) :: mismatches_from (S i) rest
  end.
Definition mismatches := mismatches_from 0.
