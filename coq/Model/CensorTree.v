(** Generic labelled trees: the form in which the harness exports sqlparser ASTs (statements and parsed
    AcraCensor patterns) by reflection (harness/cmd/acra-vh/c05pat_tree.go).

      nil pointer / nil interface / nil slice  -> K_nil
      string                                   -> K_string, label = the bytes
      []byte                                   -> K_bytes,  label = the bytes
      bool / integers                          -> K_bool / K_int, label = the value
      unnamed slice                            -> K_list,   children = elements
      named slice / []byte / bool types        -> K_<TypeName> (children / label)
      struct (also behind a pointer)           -> K_<TypeName>, children = ALL fields, declaration order

    The node kinds and the field names come from Gen/CensorKinds.v (regenerated from the compiled sqlparser
    package).  Trees travel from the harness as one byte string each; [decode] reads the prefix encoding
    (see [dec]).  No proofs in this file. *)
From Coq Require Import List Bool NArith Arith.
From Acra Require Import Lib.Bytes.
From Acra Require Export Gen.CensorKinds.
Import ListNotations.
Local Open Scope N_scope.

Inductive tree := T (k : kind) (lab : bytes) (cs : list tree).

Definition tkind (t : tree) : kind := let '(T k _ _) := t in k.
Definition tlab (t : tree) : bytes := let '(T _ l _) := t in l.
Definition tkids (t : tree) : list tree := let '(T _ _ cs) := t in cs.

Definition kind_eqb (a b : kind) : bool := N.eqb (kind_code a) (kind_code b).

Definition tnil : tree := T K_nil [] [].
Definition is_nil (t : tree) : bool := kind_eqb (tkind t) K_nil.

(** reflect.DeepEqual on two ASTs = equality of their tree forms *)
Fixpoint tree_eqb (a b : tree) {struct a} : bool :=
  let '(T ka la ca) := a in
  let '(T kb lb cb) := b in
  kind_eqb ka kb && bytes_eqb la lb &&
  (fix go (xs ys : list tree) {struct xs} : bool :=
     match xs, ys with
     | [], [] => true
     | x :: xs', y :: ys' => tree_eqb x y && go xs' ys'
     | _, _ => false
     end) ca cb.

Fixpoint tree_size (t : tree) : nat :=
  let '(T _ _ cs) := t in S (fold_right (fun c n => (tree_size c + n)%nat) O cs).

(** * Decoding *)

Definition leaf_kind (k : kind) : bool :=
  match k with K_nil | K_string | K_bytes | K_bool | K_int | K_BoolVal | K_ListArg => true | _ => false end.

(** a length / count: one byte 0..254, or 255 followed by two bytes (big endian) *)
Definition dec_len (bs : bytes) : option (nat * bytes) :=
  match bs with
  | b :: rest =>
      if N.eqb (b2n b) 255 then
        match rest with
        | hi :: lo :: rest' => Some (N.to_nat (b2n hi * 256 + b2n lo), rest')
        | _ => None
        end
      else Some (N.to_nat (b2n b), rest)
  | [] => None
  end.

(** kind byte; K_nil: nothing else; leaf kinds: label length + label; other kinds: child count + children *)
Fixpoint dec (fuel : nat) (bs : bytes) {struct fuel} : option (tree * bytes) :=
  match fuel with
  | O => None
  | S f =>
      match bs with
      | k :: rest =>
          match kind_of_code (b2n k) with
          | None => None
          | Some K_nil => Some (T K_nil [] [], rest)
          | Some kd =>
              match dec_len rest with
              | None => None
              | Some (n, rest') =>
                  if leaf_kind kd then
                    if (length rest' <? n)%nat then None else Some (T kd (firstn n rest') [], skipn n rest')
                  else
                    (fix kids (m : nat) (bs : bytes) (acc : list tree) {struct m} : option (tree * bytes) :=
                       match m with
                       | O => Some (T kd [] (rev acc), bs)
                       | S m' =>
                           match dec f bs with
                           | Some (t, bs') => kids m' bs' (t :: acc)
                           | None => None
                           end
                       end) n rest' []
              end
          end
      | [] => None
      end
  end.

(** long byte strings are written in chunks in the case files (a number literal costs time quadratic in its
    length): [hbs [0x1<hex>; 0x1<hex>; ...]] *)
Definition hbs (l : list N) : bytes := flat_map hb l.

(** the whole byte string is one tree *)
Definition decode (bs : bytes) : option tree :=
  match dec (S (length bs)) bs with
  | Some (t, []) => Some t
  | _ => None
  end.

(** * ASCII case folding (strings.EqualFold / strings.ToLower on ASCII text) *)

Definition lower_byte (b : byte) : byte :=
  let n := b2n b in if (65 <=? n) && (n <=? 90) then n2b (n + 32) else b.

Definition lower (s : bytes) : bytes := map lower_byte s.

Definition fold_eqb (a b : bytes) : bool := bytes_eqb (lower a) (lower b).
