(** The encryptor chain a proxy installs for the WRITE path of a schema that uses masking
    (decryptor/{postgresql,mysql}/proxy.go: chainEncryptors, in this order):
       crypto.EncryptHandler(registryHandler) ; masking.DataEncryptor(ChainDataEncryptor[registryHandler]) ;
       crypto.ReEncryptHandler
    run by encryptor.ChainDataEncryptor.EncryptWithClientID (each encryptor gets the previous one's output).
    The write-side decision "already encrypted on the application side, store as is" is
    RegistryHandler.EncryptWithClientID's [handler.MatchDataSignature(data) || r.MatchDataSignature(data)]
    = [handler_match id data || registry_match data] of Model/Envelope.v: tag, registered envelope id, a declared
    length that fits, and the signature of the inner envelope.  No proofs here. *)
From Acra Require Import Lib.Bytes Lib.Outcome Lib.Sha256 Crypto.Interface Gen.Consts Gen.MaskConsts
  Model.Envelope Model.EnvelopeOld Model.Masking.

(* BasicColumnEncryptionSetting.OnlyEncryption(): no masking / tokenization / search flag.  The settings in scope
   carry masking or nothing *)
Definition only_encryption (st : mask_setting) : bool := is_nil (ms_pattern st).

(* crypto.EncryptHandler.EncryptWithClientID *)
Definition encrypt_handler_standalone (C : crypto) (id : byte) (ks : keyset) (tape : list bytes) (st : mask_setting)
  (data : bytes) : res bytes :=
  if only_encryption st then encrypt_with_handler C id ks tape data else Ok data.

(** ChainDataEncryptor over the three encryptors.  [tape] feeds the masking encryptor (the only one that draws
    randomness for a masked column); [reenc] = reencrypting_to_acrablocks *)
Definition write_chain (C : crypto) (id : byte) (ks : keyset) (tape : list bytes) (st : mask_setting) (reenc : bool)
  (data : bytes) : res bytes :=
  do d1 <- encrypt_handler_standalone C id ks [] st data;
  do d2 <- mask_encryptor C id ks tape st d1;
  reencrypt C (byte_eqb id ENVELOPE_ID_ACRABLOCK) (only_encryption st) reenc ks [] d2.
