(** C06 — executable model of keystore v1 (keystore/filesystem/server_keystore.go, filenames.go,
    keystore/lru/cache.go) as it is AFTER the fix: patches of this work package
    (fix_v1_destroy_rotated_index, fix_v1_cache_purge).

    File tree: per key file name (slot, private/public part) the content of the current file and
    the history directory [<name>.old] as a list (timestamp, content) in ReadDir order (ascending
    name = ascending time, see Proofs/KeystoreV1.v [ts_name_order]).  File contents are the labels
    of the key versions (the harness decrypts real contents to find the label).
    Cache: the groupcache LRU list, most recently used first; keys are the relative path names the
    code uses ([CK]) and the [".historical." ++ path] entries ([CH]); [CNil] is [cache.Add(k, nil)].
    No proofs in this file. *)
From Coq Require Import List NArith ZArith Bool.
From Acra Require Import Lib.Bytes Lib.Outcome Model.KeySpec.
Import ListNotations.
Local Open Scope N_scope.

Inductive part := Priv | Pub.
Definition fname : Type := slot * part.
Definition part_eqb (a b : part) : bool :=
  match a, b with Priv, Priv | Pub, Pub => true | _, _ => false end.
Definition fname_eqb (a b : fname) : bool := slot_eqb (fst a) (fst b) && part_eqb (snd a) (snd b).

Record fentry := { f_cur : option ord; f_old : list (N * ord) }.
Definition fsT := fname -> fentry.
Definition fs_init : fsT := fun _ => {| f_cur := None; f_old := [] |}.
Definition fupd (fs : fsT) (f : fname) (e : fentry) : fsT := fun x => if fname_eqb x f then e else fs x.

(** path of one version of a key file: the file itself or [<name>.old/<timestamp>] *)
Inductive pth := PCur | POld (ts : N).
Definition pth_eqb (a b : pth) : bool :=
  match a, b with PCur, PCur => true | POld x, POld y => x =? y | _, _ => false end.

Inductive ckey := CK (f : fname) (p : pth) | CH (f : fname).
Definition ckey_eqb (a b : ckey) : bool :=
  match a, b with
  | CK f p, CK g q => fname_eqb f g && pth_eqb p q
  | CH f, CH g => fname_eqb f g
  | _, _ => false
  end.
Inductive cval := CV (o : ord) | CL (l : list pth) | CNil.

(** keystore.WithoutCache / lru.New(max) (max = 0: unbounded) *)
Inductive cmode := NoCache | Lru (max : nat).
Definition cacheT := list (ckey * cval).

Fixpoint clookup (k : ckey) (c : cacheT) : option cval :=
  match c with
  | [] => None
  | (k', v) :: r => if ckey_eqb k k' then Some v else clookup k r
  end.
Definition cremove (k : ckey) (c : cacheT) : cacheT := filter (fun e => negb (ckey_eqb k (fst e))) c.

(** lru.Cache.Get: a hit moves the entry to the front *)
Definition cget (m : cmode) (c : cacheT) (k : ckey) : option cval * cacheT :=
  match m with
  | NoCache => (None, c)
  | Lru _ => match clookup k c with
             | Some v => (Some v, (k, v) :: cremove k c)
             | None => (None, c)
             end
  end.

(** lru.Cache.Add: existing entry is replaced and moved to the front; a new entry is pushed to the
    front and the oldest one evicted when the size is exceeded *)
Definition cadd (m : cmode) (c : cacheT) (k : ckey) (v : cval) : cacheT :=
  match m with
  | NoCache => c
  | Lru max =>
      match clookup k c with
      | Some _ => (k, v) :: cremove k c
      | None => let c' := (k, v) :: c in
                if (Nat.eqb max 0 || Nat.leb (length c') max)%bool then c' else removelast c'
      end
  end.

Record v1state := { v_fs : fsT; v_cache : cacheT }.
Definition v1_init : v1state := {| v_fs := fs_init; v_cache := [] |}.
Definition with_cache (st : v1state) (c : cacheT) : v1state := {| v_fs := v_fs st; v_cache := c |}.

(** ReadDir order of the history directory: sorted by name; a name that already exists makes
    Link and Copy fail *)
Fixpoint insert_ts (ts : N) (o : ord) (l : list (N * ord)) : option (list (N * ord)) :=
  match l with
  | [] => Some [(ts, o)]
  | (t, x) :: r =>
      if ts <? t then Some ((ts, o) :: l)
      else if ts =? t then None
      else option_map (cons (t, x)) (insert_ts ts o r)
  end.

(** WriteKeyFile: temp file, backupHistoricalKeyFile (only if the file exists), rename; then the
    cached list of historical names of this file is purged (fix) *)
Definition write_key_file (m : cmode) (st : v1state) (f : fname) (ts : N) (o : ord) : res v1state :=
  let e := v_fs st f in
  do old' <- match f_cur e with
             | None => Ok (f_old e)
             | Some c => of_option E_GENERIC (insert_ts ts c (f_old e))
             end;
  Ok {| v_fs := fupd (v_fs st) f {| f_cur := Some o; f_old := old' |};
        v_cache := cadd m (v_cache st) (CH f) CNil |}.

Definition file_content (fs : fsT) (f : fname) (p : pth) : option ord :=
  match p with
  | PCur => f_cur (fs f)
  | POld ts => option_map snd (find (fun e => fst e =? ts) (f_old (fs f)))
  end.

(** readEncryptedKey / getPrivateKeyByFilename / GetHMACSecretKey / GetLogSecretKey:
    cache hit -> cached value; miss (or purged entry, fix) -> load the file and cache it *)
Definition read_key (m : cmode) (st : v1state) (f : fname) (p : pth) : v1state * res ord :=
  let (g, c1) := cget m (v_cache st) (CK f p) in
  match g with
  | Some (CV o) => (with_cache st c1, Ok o)
  | Some (CL _) => (with_cache st c1, Err E_GENERIC)
  | Some CNil | None =>
      match file_content (v_fs st) f p with
      | None => (with_cache st c1, Err E_GENERIC)
      | Some o => (with_cache st (cadd m c1 (CK f p) (CV o)), Ok o)
      end
  end.

(** getHistoricalFilePaths: the current file, then the history newest first *)
Definition hist_paths (fs : fsT) (f : fname) : list pth :=
  PCur :: rev (map (fun e => POld (fst e)) (f_old (fs f))).

(** GetHistoricalPrivateKeyFilenames *)
Definition hist_names (m : cmode) (st : v1state) (f : fname) : v1state * list pth :=
  let (g, c1) := cget m (v_cache st) (CH f) in
  match g with
  | Some (CL l) => (with_cache st c1, l)
  | _ => let l := hist_paths (v_fs st) f in (with_cache st (cadd m c1 (CH f) (CL l)), l)
  end.

(** getSymmetricKeys / getPrivateKeysByFilenames: stop at the first key that cannot be read *)
Fixpoint read_keys (m : cmode) (st : v1state) (f : fname) (l : list pth) : v1state * res (list ord) :=
  match l with
  | [] => (st, Ok [])
  | p :: r =>
      match read_key m st f p with
      | (st1, Ok o) => match read_keys m st1 f r with
                       | (st2, Ok os) => (st2, Ok (o :: os))
                       | (st2, e) => (st2, e)
                       end
      | (st1, Err e) => (st1, Err e)
      | (st1, Panic) => (st1, Panic)
      end
  end.

Definition is_pair (k : kind) : bool := match k with KStoragePair | KPoisonPair => true | _ => false end.
(** SaveKeyPairWithFilename, GenerateHmacKey, GenerateLogKey put the new key into the cache;
    generateAndSaveSymmetricKey does not *)
Definition gen_caches (k : kind) : bool := match k with KStorageSym | KPoisonSym => false | _ => true end.
(** destroyKeyWithFilename (pairs, HMAC) purges and removes <name> and <name>.pub;
    destroySymmetricKeyWithFilename only <name>_sym *)
Definition destroy_both (k : kind) : bool := match k with KStorageSym | KPoisonSym | KAudit => false | _ => true end.

Definition remove_cur (fs : fsT) (f : fname) : fsT := fupd fs f {| f_cur := None; f_old := f_old (fs f) |}.

(** destroyRotatedKeyByIndex (fixed): index 2 is the first entry of the history directory *)
Definition destroy_rot_file (m : cmode) (st : v1state) (f : fname) (i : Z) : res v1state :=
  let old := f_old (v_fs st f) in
  let n := length old in
  if (Nat.eqb n 0 || (i <? 2)%Z || (Z.of_nat n + 1 <? i)%Z)%bool then Err E_GENERIC
  else Ok {| v_fs := fupd (v_fs st) f {| f_cur := f_cur (v_fs st f); f_old := remove_nth (Z.to_nat (i - 2)) old |};
             v_cache := cadd m (v_cache st) (CH f) CNil |}.

(** GetPoisonKeyPair: both cache entries must hit, otherwise both files are loaded *)
Definition poison_pair_cur (m : cmode) (st : v1state) (s : slot) : v1state * res ord :=
  let (g1, c1) := cget m (v_cache st) (CK (s, Priv) PCur) in
  let (g2, c2) := cget m c1 (CK (s, Pub) PCur) in
  match g1, g2 with
  | Some (CV o), Some (CV _) => (with_cache st c2, Ok o)
  | Some (CL _), Some (CV _) | Some (CL _), Some (CL _) | Some (CV _), Some (CL _) => (with_cache st c2, Err E_GENERIC)
  | _, _ =>
      match f_cur (v_fs st (s, Priv)), f_cur (v_fs st (s, Pub)) with
      | Some o, Some o2 =>
          (with_cache st (cadd m (cadd m c2 (CK (s, Priv) PCur) (CV o)) (CK (s, Pub) PCur) (CV o2)), Ok o)
      | _, _ => (with_cache st c2, Err E_GENERIC)
      end
  end.

Definition unit_out (r : res v1state) (st : v1state) : v1state * res (list N) :=
  match r with Ok st' => (st', Ok []) | Err e => (st, Err e) | Panic => (st, Panic) end.

Definition v1_step (m : cmode) (st : v1state) (op : kop) : v1state * res (list N) :=
  match op with
  | Gen s o ts1 ts2 =>
      let k := fst s in
      match write_key_file m st (s, Priv) ts1 o with
      | Ok st1 =>
          if is_pair k then
            match write_key_file m st1 (s, Pub) ts2 o with
            | Ok st2 =>
                (with_cache st2 (cadd m (cadd m (v_cache st2) (CK (s, Priv) PCur) (CV o)) (CK (s, Pub) PCur) (CV o)), Ok [])
            | Err e => (st1, Err e)
            | Panic => (st1, Panic)
            end
          else if gen_caches k then (with_cache st1 (cadd m (v_cache st1) (CK (s, Priv) PCur) (CV o)), Ok [])
          else (st1, Ok [])
      | Err e => (st, Err e)
      | Panic => (st, Panic)
      end
  | Cur s =>
      let (st1, r) := match fst s with
                      | KPoisonPair => poison_pair_cur m st s
                      | _ => read_key m st (s, Priv) PCur
                      end in
      (st1, match r with Ok o => Ok [o] | Err e => Err e | Panic => Panic end)
  | All s =>
      let (st1, l) := hist_names m st (s, Priv) in
      read_keys m st1 (s, Priv) l
  | ListRot s => (st, Ok (indices_from 2 (length (f_old (v_fs st (s, Priv))))))
  | DestroyCur s =>
      if destroy_both (fst s) then
        let c1 := cadd m (cadd m (v_cache st) (CK (s, Priv) PCur) CNil) (CK (s, Pub) PCur) CNil in
        ({| v_fs := remove_cur (remove_cur (v_fs st) (s, Priv)) (s, Pub); v_cache := c1 |}, Ok [])
      else
        ({| v_fs := remove_cur (v_fs st) (s, Priv);
            v_cache := cadd m (v_cache st) (CK (s, Priv) PCur) CNil |}, Ok [])
  | DestroyRot s i =>
      match destroy_rot_file m st (s, Priv) i with
      | Ok st1 => if is_pair (fst s) then unit_out (destroy_rot_file m st1 (s, Pub) i) st1 else (st1, Ok [])
      | Err e => (st, Err e)
      | Panic => (st, Panic)
      end
  | Reset | Reopen => (with_cache st [], Ok [])
  end.

Fixpoint v1_run (m : cmode) (st : v1state) (ops : list kop) : list (res (list N)) :=
  match ops with
  | [] => []
  | o :: rest => let (st', r) := v1_step m st o in r :: v1_run m st' rest
  end.

Fixpoint v1_state_after (m : cmode) (st : v1state) (ops : list kop) : v1state :=
  match ops with
  | [] => st
  | o :: rest => v1_state_after m (fst (v1_step m st o)) rest
  end.

(** canonical observation of one step's raw result *)
Definition canon (op : kop) (r : res (list N)) : obs :=
  match r with
  | Panic => OPanic
  | Err _ => match op with Cur _ | All _ | ListRot _ => ONone | _ => ODone end
  | Ok l => match op with
            | Cur _ | All _ => keys_obs l
            | ListRot _ => OKeys l
            | _ => ODone
            end
  end.

Fixpoint canon_all (ops : list kop) (rs : list (res (list N))) : list obs :=
  match ops, rs with
  | o :: ops', r :: rs' => canon o r :: canon_all ops' rs'
  | _, _ => []
  end.
