(** Keystore v2 write path: extensions for the recovery theorems (C08_recovery).

    Anchors (acra, with the fix: patches of C08 applied):
      keystore/v2/keystore/filesystem/export.go        importKeyRing / importASN1 (txSetKeys) / ImportKeyRings
      keystore/v2/keystore/filesystem/keyRingTX.go     txSetKeys
      keystore/v2/keystore/storage_client.go           SaveDataEncryptionKeys (key pair = ONE key entry of one ring)
      keystore/v2/keystore/filesystem/backend/filesystem.go
                                                        CreateDirectoryBackend / OpenDirectoryBackend /
                                                        checkVersionFile / createVersionFile / newFileLock / Put / ListAll

    New here: (1) SEVERAL faults per operation ([fsched], [execm]); (2) key ring import (multi-ring);
    (3) the open protocol of the directory back end as a program over file-system calls, in the
    ORIGINAL form (version file written in place) and the FIXED form (temporary + rename, torn
    version file repaired). No proofs in this file. *)
From Acra Require Import Lib.Bytes Lib.Outcome Gen.KswConsts Model.KeystoreWrite.
Local Open Scope Z_scope.

(** * Several faults per operation *)
Definition fsched := list (nat * fkind).   (* (index of the back-end call, fault kind) *)

Fixpoint fault_at (k : nat) (fs : fsched) : option fkind :=
  match fs with
  | [] => None
  | (i, kd) :: t => if Nat.eqb i k then Some kd else fault_at k t
  end.

Fixpoint execm {A} (p : prog A) (fs : fsched) (st : storage) (k : nat) : mres A :=
  match p with
  | Done a => Ret a st k
  | Call c cont =>
      match fault_at k fs with
      | Some KErr => execm (cont (Err E_IO)) fs st (S k)
      | Some KCrashBefore => Crash st
      | Some KCrashAfter => Crash (snd (do_call c st))
      | Some KTorn => Crash (torn_call c st)
      | Some KErrTorn => execm (cont (Err E_IO)) fs (torn_call c st) (S k)
      | None => execm (cont (fst (do_call c st))) fs (snd (do_call c st)) (S k)
      end
  end.

(** * Key ring import (export.go) *)
Definition E_RING_EXISTS : N := 40.     (* ErrKeyRingExists / the delegate's error *)

Inductive decision := DAbort | DSkip | DOverwrite.   (* api.ImportDecision returned by the delegate *)

(** importASN1 on a key ring object whose log is empty: pushTX(txSetKeys); syncKeyRing = writeKeyRing:
    Lock, pull (the stored ring must exist and verify), Apply (replace keys and current - cannot
    fail), push, Unlock. The key ring object is dropped by importKeyRing. *)
Definition set_keys_write (rid : N) (newr : ring) : prog (res unit) :=
  exe r <- locked BLock BUnlock tt
             (exe p <- pull rid;
              match p with
              | Ok _ => exe w <- push rid newr; Done (w, tt)
              | e => Done (err_of e, tt)
              end);
  Done (fst r).

(** importKeyRing *)
Definition import_ring (rid : N) (newr : ring) (d : decision) : prog (res unit) :=
  exe rd <- read_key_ring (mk_hring rid empty_ring []);
  match fst rd with
  | Ok _ =>
      match d with
      | DOverwrite => set_keys_write rid newr
      | DSkip => Done (Ok tt)
      | DAbort => Done (Err E_RING_EXISTS)
      end
  | Err e =>
      if N.eqb e E_NOTEXIST then
        exe o <- open_key_ring_rw rid;
        match fst o with
        | Ok _ => set_keys_write rid newr
        | e' => Done (err_of e')
        end
      else Done (Err e)
  | Panic => Done Panic
  end.

(** ImportKeyRings: the rings of the container one after the other; the first error aborts *)
Fixpoint import_rings (l : list (N * ring)) (d : decision) : prog (res unit) :=
  match l with
  | [] => Done (Ok tt)
  | (rid, newr) :: rest =>
      exe r <- import_ring rid newr d;
      match r with
      | Ok _ => import_rings rest d
      | e => Done e
      end
  end.

(** exportKeyRings: read-only (readKeyRing per ring) *)
Fixpoint export_rings (rids : list N) (acc : list (N * ring)) : prog (res (list (N * ring))) :=
  match rids with
  | [] => Done (Ok (rev acc))
  | rid :: rest =>
      exe o <- open_key_ring rid;
      match fst o with
      | Ok _ => export_rings rest ((rid, h_data (snd o)) :: acc)
      | e => Done (err_of e)
      end
  end.

(** * Operations of a recovery history *)
Inductive rop :=
| ROpen (rid : N)                                   (* OpenKeyRingRW: creation of a ring *)
| RRing (h : hring) (o : wop)                       (* AddKey/SetCurrent/SetState/DestroyKey on a possibly stale object *)
| RGen (rid ord : N)                                (* generate/import/save (key pair): open, AddKey, SetCurrent *)
| RDestroyCur (rid : N)                             (* destroy the current key (pair) *)
| RImport (l : list (N * ring)) (d : decision)      (* ImportKeyRings *)
| RList.                                            (* ListKeys *)

Definition rop_prog (o : rop) : prog unit :=
  match o with
  | ROpen rid => exe _ <- open_key_ring_rw rid; Done tt
  | RRing h w => exe _ <- ring_op h w; Done tt
  | RGen rid ord => exe _ <- gen_key rid ord; Done tt
  | RDestroyCur rid => exe _ <- destroy_current rid; Done tt
  | RImport l d => exe _ <- import_rings l d; Done tt
  | RList => exe _ <- list_keys; Done tt
  end.

Definition after_m {A} (m : mres A) : storage :=
  match m with Ret _ st _ => st | Crash st => st end.

(** * The directory back end's open protocol as a program over file-system calls *)
Inductive vfile := VFull | VPart | VOther.   (* the version string | a strict prefix of it (also empty) | anything else *)

Record dmeta := mk_dmeta {
  dm_root : bool;               (* the root directory exists *)
  dm_version : option vfile;    (* "<root>/version" *)
  dm_tmps : nat;                (* leftover "<root>/version.new<random>" temporaries *)
  dm_lock : bool                (* "<root>/.lock" *)
}.

Inductive ocall :=
| OStatRoot | OMkdirRoot | OReadVersion
| OCreateExcl        (* original: OpenFile(version, O_CREATE|O_EXCL) *)
| OWriteVersion      (* original: WriteString + Sync + Close on the version file itself *)
| OCreateTmp         (* fixed: TempFile(root, "version.new") *)
| OWriteTmp          (* fixed: WriteString + Chmod + Sync + Close on the temporary *)
| ORenameTmp         (* fixed: Rename(temporary, version) *)
| ORemoveTmp         (* fixed: Remove(temporary) on the error path *)
| OCreateLock.       (* newFileLock: os.Create(".lock") *)

Inductive oval := OUnit | OBool (b : bool) | OVer (v : vfile).

Definition E_BADVERSION : N := 41.

(** effect of a call that runs normally. [own]: this process has created a temporary that still exists *)
Definition do_ocall (c : ocall) (m : dmeta) : res oval * dmeta :=
  match c with
  | OStatRoot => (Ok (OBool (dm_root m)), m)
  | OMkdirRoot => (Ok OUnit, mk_dmeta true (dm_version m) (dm_tmps m) (dm_lock m))
  | OReadVersion =>
      (match dm_version m with Some v => Ok (OVer v) | None => Err E_NOTEXIST end, m)
  | OCreateExcl =>
      match dm_version m with
      | Some _ => (Err E_EXIST, m)
      | None => (Ok OUnit, mk_dmeta (dm_root m) (Some VPart) (dm_tmps m) (dm_lock m))
      end
  | OWriteVersion => (Ok OUnit, mk_dmeta (dm_root m) (Some VFull) (dm_tmps m) (dm_lock m))
  | OCreateTmp => (Ok OUnit, mk_dmeta (dm_root m) (dm_version m) (S (dm_tmps m)) (dm_lock m))
  | OWriteTmp => (Ok OUnit, m)
  | ORenameTmp => (Ok OUnit, mk_dmeta (dm_root m) (Some VFull) (pred (dm_tmps m)) (dm_lock m))
  | ORemoveTmp => (Ok OUnit, mk_dmeta (dm_root m) (dm_version m) (pred (dm_tmps m)) (dm_lock m))
  | OCreateLock => (Ok OUnit, mk_dmeta (dm_root m) (dm_version m) (dm_tmps m) true)
  end.

(** a call cut half-way: only the in-place write of the version file can leave something different
    from "not done" / "done" (a strict prefix); a cut write of the temporary leaves the temporary *)
Definition torn_ocall (c : ocall) (m : dmeta) : dmeta :=
  match c with
  | OWriteVersion => mk_dmeta (dm_root m) (Some VPart) (dm_tmps m) (dm_lock m)
  | _ => m
  end.

Inductive oprog (A : Type) : Type :=
| ODone (a : A)
| OCall (c : ocall) (k : res oval -> oprog A).
Arguments ODone {A} a.
Arguments OCall {A} c k.

Fixpoint oexec {A} (p : oprog A) (fs : fsched) (m : dmeta) (k : nat) : option A * dmeta :=
  match p with
  | ODone a => (Some a, m)
  | OCall c cont =>
      match fault_at k fs with
      | Some KErr => oexec (cont (Err E_IO)) fs m (S k)
      | Some KCrashBefore => (None, m)
      | Some KCrashAfter => (None, snd (do_ocall c m))
      | Some KTorn => (None, torn_ocall c m)
      | Some KErrTorn => oexec (cont (Err E_IO)) fs (torn_ocall c m) (S k)
      | None => oexec (cont (fst (do_ocall c m))) fs (snd (do_ocall c m)) (S k)
      end
  end.

Definition ofail {A} (r : res A) : oprog (res unit) :=
  ODone (match r with Err e => Err e | _ => Err E_GENERIC end).

(** createVersionFile. [fixed = false]: the pinned code (exclusive create, write in place; nothing is
    removed on an error). [fixed = true]: temporary + rename; the temporary is removed on an error. *)
Definition create_version (fixed : bool) (next : oprog (res unit)) : oprog (res unit) :=
  if fixed then
    OCall OCreateTmp (fun t =>
      match t with
      | Ok _ =>
          OCall OWriteTmp (fun w =>
            match w with
            | Ok _ =>
                OCall ORenameTmp (fun r =>
                  match r with
                  | Ok _ => next
                  | e => OCall ORemoveTmp (fun _ => ofail e)
                  end)
            | e => OCall ORemoveTmp (fun _ => ofail e)
            end)
      | e => ofail e
      end)
  else
    OCall OCreateExcl (fun t =>
      match t with
      | Ok _ => OCall OWriteVersion (fun w => match w with Ok _ => next | e => ofail e end)
      | e => ofail e
      end).

Definition new_lock : oprog (res unit) :=
  OCall OCreateLock (fun l => match l with Ok _ => ODone (Ok tt) | e => ofail e end).

(** checkVersionFile. The fixed code treats a strict prefix of the version string as the trace of an
    interrupted creation and writes the file again. *)
Definition check_version (fixed : bool) : oprog (res unit) :=
  OCall OReadVersion (fun v =>
    match v with
    | Ok (OVer VFull) => new_lock
    | Ok (OVer VPart) => if fixed then create_version fixed new_lock else ODone (Err E_BADVERSION)
    | Ok _ => ODone (Err E_BADVERSION)
    | Err e => if N.eqb e E_NOTEXIST then create_version fixed new_lock else ODone (Err e)
    | Panic => ODone Panic
    end).

(** CreateDirectoryBackend (OpenDirectoryRW) *)
Definition open_dir_rw (fixed : bool) : oprog (res unit) :=
  OCall OStatRoot (fun s =>
    match s with
    | Ok (OBool true) => check_version fixed
    | Ok _ =>
        OCall OMkdirRoot (fun d => match d with Ok _ => check_version fixed | e => ofail e end)
    | e => ofail e
    end).

(** OpenDirectoryBackend (read-only open): never writes the version file *)
Definition open_dir_ro : oprog (res unit) :=
  OCall OStatRoot (fun s =>
    match s with
    | Ok (OBool true) =>
        OCall OReadVersion (fun v =>
          match v with
          | Ok (OVer VFull) => new_lock
          | Ok _ => ODone (Err E_BADVERSION)
          | Err e => ODone (Err e)
          | Panic => ODone Panic
          end)
    | Ok _ => ODone (Err E_NOTEXIST)
    | e => ofail e
    end).

Definition dm_empty : dmeta := mk_dmeta false None 0 false.
