(** Executable model of the PostgreSQL proxy's session state for the EXTENDED query protocol:
    the prepared-statement registry, the portal (cursor) registry and [pendingQueryPackets], next to
    the simple protocol of Model/PgSession.v (property C05, "every statement the session goes on to
    accept is still processed according to that statement and not the rejected one").
    Anchors: decryptor/postgresql/pg_decryptor.go (handleClientPacket cases ParseStatementPacket /
    BindStatementPacket / ExecutePacketType / SimpleQueryPacket, handleQueryPacket, handleBindPacket,
    registerPreparedStatement, registerCursor, handleQueryDataPacket, ProxyClientConnection,
    ProxyDatabaseConnection), decryptor/postgresql/prepared_statements.go (AddStatement,
    DeleteStatement, AddCursor, StatementByName, CursorByName), decryptor/postgresql/protocol.go
    (HandleClientPacket, HandleDatabasePacket, newExtendedQueryPacket, GetSQLQuery).
    The code AFTER patches/fix_pg_pending_stmt_text.diff (the queued packet keeps the statement text
    it was queued with); [step_pinned] is the code before it.

    Names of statements and portals are numbers (0 = the unnamed one).  A statement is an
    identifier [N] (its text is unique per identifier); the censor verdict is an input of the event.
    No proofs in this file. *)
From Coq Require Import List Bool NArith.
Import ListNotations.

(** ** association lists (Go maps keyed by name) *)
Fixpoint lookup {A : Type} (k : N) (m : list (N * A)) : option A :=
  match m with
  | [] => None
  | (k', v) :: tl => if N.eqb k k' then Some v else lookup k tl
  end.

Definition remove {A : Type} (k : N) (m : list (N * A)) : list (N * A) :=
  filter (fun kv => negb (N.eqb k (fst kv))) m.

Definition update {A : Type} (k : N) (v : A) (m : list (N * A)) : list (N * A) := (k, v) :: remove k m.

Definition remove_all {A : Type} (ks : list N) (m : list (N * A)) : list (N * A) :=
  filter (fun kv => negb (existsb (N.eqb (fst kv)) ks)) m.

(** ** events and outputs *)
Inductive event :=
| ClientQuery (s : N) (censored : bool)        (* 'Q'; verdict of AcraCensor.HandleQuery *)
| ClientParse (nm s : N) (censored : bool)     (* 'P' name, statement; verdict *)
| ClientBind (portal nm : N)                   (* 'B' portal, statement name *)
| ClientExecute (portal : N)                   (* 'E' portal *)
| ClientOther                                  (* Describe / Close / Sync / Flush: OtherPacket *)
| DbDataRow (bad : bool)
| DbComplete                                   (* CommandComplete | EmptyQueryResponse | PortalSuspended | ErrorResponse *)
| DbReady
| DbOther.                                     (* ParseComplete, BindComplete, CloseComplete, NoData, notices ... *)

Inductive out :=
| ToDb (s : N)                          (* simple query forwarded *)
| ToDbParse (nm s : N)                  (* Parse forwarded *)
| ToDbBind (portal nm seen : N)         (* Bind forwarded; the OnBind observers were handed statement [seen] *)
| ToDbExecute (portal queued : N)       (* Execute forwarded; queued in pendingQueryPackets with statement [queued] *)
| ToDbOther                             (* forwarded unchanged *)
| ToClientError                         (* ErrorResponse + ReadyForQuery written by sendClientError (censor) *)
| SessionError                          (* handleClientPacket returned an error: ProxyClientConnection stops *)
| Dropped                               (* client packet after the stop: never read *)
| RowToClient (settings : option N) (bad : bool)
| RowFailed (settings : option N)
| PassToClient
| Skipped.

(** a registered prepared statement: its text and the names of the portals bound to it since it was
    registered (PgPreparedStatement.cursors; DeleteCursor is never called by the proxy) *)
Record pstmt := PS { ptext : N; pportals : list N }.

(** a queued query packet: the statement and the registry object it was taken from
    ([obj] = allocation number of the PgPreparedStatement; 0 for simple queries) *)
Record qpacket := QP { qtext : N; qobj : N }.

Record state := St {
  stmts : list (N * (pstmt * N));   (* PgPreparedStatementRegistry.statements: name -> (statement, object number) *)
  cursors : list (N * (N * N));     (* PgPreparedStatementRegistry.cursors: portal -> (statement text, object number) *)
  pending : list qpacket;           (* pendingQueryPackets (queryPacket list), head first *)
  wiped : list N;                   (* objects whose text DeleteStatement has set to "" *)
  next : N;                         (* next object number *)
  skip : bool;                      (* database side in stateSkipResponse *)
  dead : bool                       (* client side stopped after an error *)
}.
Definition init : state := St [] [] [] [] 1 false false.

Definition set_dead (st : state) : state :=
  St (stmts st) (cursors st) (pending st) (wiped st) (next st) (skip st) true.
Definition set_skip (st : state) (b : bool) : state :=
  St (stmts st) (cursors st) (pending st) (wiped st) (next st) b (dead st).
Definition set_pending (st : state) (p : list qpacket) : state :=
  St (stmts st) (cursors st) p (wiped st) (next st) (skip st) (dead st).

(** PgPreparedStatementRegistry.AddStatement = DeleteStatement (drop every portal NAME recorded in the
    old statement from the portal registry, wipe the old object's text) + insert *)
Definition add_statement (st : state) (nm s : N) : state :=
  let '(cur, wp) :=
    match lookup nm (stmts st) with
    | Some (ps, o) => (remove_all (pportals ps) (cursors st), o :: wiped st)
    | None => (cursors st, wiped st)
    end in
  St (update nm (PS s [], next st) (stmts st)) cur (pending st) wp (N.succ (next st)) (skip st) (dead st).

(** registerCursor + AddCursor *)
Definition add_cursor (st : state) (p nm : N) (ps : pstmt) (o : N) : state :=
  St (update nm (PS (ptext ps) (p :: pportals ps), o) (stmts st))
     (update p (ptext ps, o) (cursors st))
     (pending st) (wiped st) (next st) (skip st) (dead st).

Definition reg_text (st : state) (nm : N) : option N := option_map (fun x => ptext (fst x)) (lookup nm (stmts st)).
Definition cursor_text (st : state) (p : N) : option N := option_map fst (lookup p (cursors st)).

Section Step.
  Variable strict : N -> bool.
  (** [by_value] = the queued packet keeps its own copy of the statement text (the repaired code);
      otherwise GetSQLQuery reads the registry object, which a later Parse of the same name wipes *)
  Variable by_value : bool.
  (** [register_rejected] = a rejected Parse is registered all the same (the seeded defect m43) *)
  Variable register_rejected : bool.

  Definition fails (settings : option N) (bad : bool) : bool :=
    bad && match settings with Some s => strict s | None => false end.

  (** queryPacket.GetSQLQuery as seen by handleQueryDataPacket: [None] = no settings found
      (empty text after a wipe, or no pending packet at all) *)
  Definition packet_settings (st : state) (q : qpacket) : option N :=
    if by_value then Some (qtext q)
    else if existsb (N.eqb (qobj q)) (wiped st) && negb (N.eqb (qobj q) 0) then None else Some (qtext q).

  Definition head_settings (st : state) : option N :=
    match pending st with
    | [] => None
    | q :: _ => packet_settings st q
    end.

  Definition step_gen (st : state) (e : event) : state * list out :=
    match e with
    | ClientQuery s censored =>
        if dead st then (st, [Dropped]) else
        if censored then (st, [ToClientError])
        else (set_pending st (pending st ++ [QP s 0]), [ToDb s])
    | ClientParse nm s censored =>
        if dead st then (st, [Dropped]) else
        if censored then
          (if register_rejected then add_statement st nm s else st, [ToClientError])
        else (add_statement st nm s, [ToDbParse nm s])
    | ClientBind p nm =>
        if dead st then (st, [Dropped]) else
        match lookup nm (stmts st) with
        | None => (set_dead st, [SessionError])               (* registerCursor: ErrStatementNotFound *)
        | Some (ps, o) => (add_cursor st p nm ps o, [ToDbBind p nm (ptext ps)])
        end
    | ClientExecute p =>
        if dead st then (st, [Dropped]) else
        match lookup p (cursors st) with
        | None => (set_dead st, [SessionError])               (* CursorByName: ErrCursorNotFound *)
        | Some (s, o) => (set_pending st (pending st ++ [QP s o]), [ToDbExecute p s])
        end
    | ClientOther => if dead st then (st, [Dropped]) else (st, [ToDbOther])
    | DbDataRow bad =>
        if skip st then (st, [Skipped]) else
        let settings := head_settings st in
        if fails settings bad then (set_skip st true, [RowFailed settings])
        else (st, [RowToClient settings bad])
    | DbComplete =>
        (set_pending st (tl (pending st)), [if skip st then Skipped else PassToClient])
    | DbReady => (set_skip st false, [if skip st then Skipped else PassToClient])
    | DbOther => (st, [if skip st then Skipped else PassToClient])
    end.
End Step.

(** the repaired code, the pinned tree, and the seeded defect m43 on the repaired code *)
Definition step (strict : N -> bool) := step_gen strict true false.
Definition step_pinned (strict : N -> bool) := step_gen strict false false.
Definition step_m43 (strict : N -> bool) := step_gen strict true true.

Fixpoint run_with (stp : state -> event -> state * list out) (st : state) (evs : list event) : state * list out :=
  match evs with
  | [] => (st, [])
  | e :: tl =>
      let '(st1, o1) := stp st e in
      let '(st2, o2) := run_with stp st1 tl in
      (st2, o1 ++ o2)
  end.

Definition run_session (strict : N -> bool) := run_with (step strict).

(** ** Proxy + a database that keeps its OWN registries from the packets it receives and answers
    what it received in order.  The database never saw a rejected Parse. *)

Record dbst := Db {
  dstmts : list (N * N);     (* prepared statements of the database: name -> statement *)
  dportals : list (N * N);   (* portals of the database: portal -> statement *)
  bq : list N;               (* executions received and not yet completed (head = being executed) *)
  owed : bool                (* a ReadyForQuery is owed *)
}.
Definition db_init : dbst := Db [] [] [] false.

(** what the database associates with a forwarded packet, before processing it *)
Inductive obs :=
| RowObs (producer : N) (settings : option N)     (* a row of [producer] handled with [settings] *)
| BindObs (db_stmt : option N) (seen : N)         (* Bind: statement of that name in the database / handed to OnBind *)
| ExecObs (db_stmt : option N) (queued : N)       (* Execute: statement of that portal in the database / queued by Acra *)
| Other (o : out).

Definition db_recv (d : dbst) (o : out) : dbst :=
  match o with
  | ToDb s => Db (dstmts d) (dportals d) (bq d ++ [s]) (owed d)
  | ToDbParse nm s => Db (update nm s (dstmts d)) (dportals d) (bq d) (owed d)
  | ToDbBind p nm _ =>
      match lookup nm (dstmts d) with
      | Some s => Db (dstmts d) (update p s (dportals d)) (bq d) (owed d)
      | None => d
      end
  | ToDbExecute p _ =>
      match lookup p (dportals d) with
      | Some s => Db (dstmts d) (dportals d) (bq d ++ [s]) (owed d)
      | None => d
      end
  | _ => d
  end.

Definition db_view (d : dbst) (o : out) : obs :=
  match o with
  | ToDbBind p nm seen => BindObs (lookup nm (dstmts d)) seen
  | ToDbExecute p queued => ExecObs (lookup p (dportals d)) queued
  | _ => Other o
  end.

Fixpoint db_recv_all (d : dbst) (os : list out) : dbst * list obs :=
  match os with
  | [] => (d, [])
  | o :: tl =>
      let v := db_view d o in
      let '(d', vs) := db_recv_all (db_recv d o) tl in
      (d', v :: vs)
  end.

Inductive sys_event :=
| Client (e : event)       (* only client events are meaningful here; database events are ignored *)
| BRow (bad : bool)
| BComplete
| BReady
| BOther.

Record sys := Sys { proxy : state; db : dbst }.
Definition sys_init : sys := Sys init db_init.

Definition is_client (e : event) : bool :=
  match e with
  | ClientQuery _ _ | ClientParse _ _ _ | ClientBind _ _ | ClientExecute _ | ClientOther => true
  | _ => false
  end.

Definition sys_step (stp : state -> event -> state * list out) (y : sys) (e : sys_event) : sys * list obs :=
  match e with
  | Client ce =>
      if is_client ce then
        let '(p, os) := stp (proxy y) ce in
        let '(d, vs) := db_recv_all (db y) os in
        (Sys p d, vs)
      else (y, [])
  | BRow bad =>
      match bq (db y), owed (db y) with
      | producer :: _, false =>
          let '(p, os) := stp (proxy y) (DbDataRow bad) in
          (Sys p (db y),
           map (fun o => match o with
                         | RowToClient st _ => RowObs producer st
                         | RowFailed st => RowObs producer st
                         | _ => Other o end) os)
      | _, _ => (y, [])
      end
  | BComplete =>
      match bq (db y), owed (db y) with
      | _ :: rest, false =>
          let '(p, os) := stp (proxy y) DbComplete in
          (Sys p (Db (dstmts (db y)) (dportals (db y)) rest true), map Other os)
      | _, _ => (y, [])
      end
  | BReady =>
      if owed (db y) then
        let '(p, os) := stp (proxy y) DbReady in
        (Sys p (Db (dstmts (db y)) (dportals (db y)) (bq (db y)) false), map Other os)
      else (y, [])
  | BOther =>
      let '(p, os) := stp (proxy y) DbOther in
      (Sys p (db y), map Other os)
  end.

Fixpoint sys_run (stp : state -> event -> state * list out) (y : sys) (evs : list sys_event) : sys * list obs :=
  match evs with
  | [] => (y, [])
  | e :: tl =>
      let '(y1, o1) := sys_step stp y e in
      let '(y2, o2) := sys_run stp y1 tl in
      (y2, o1 ++ o2)
  end.

(** Acra and the database agree on the statement *)
Definition aligned (o : obs) : bool :=
  match o with
  | RowObs producer (Some s) => N.eqb producer s
  | RowObs _ None => false
  | BindObs (Some d) seen => N.eqb d seen
  | BindObs None _ => false
  | ExecObs (Some d) queued => N.eqb d queued
  | ExecObs None _ => false
  | Other _ => true
  end.
