(** CHECKED models (every index / slice expression through Lib/GoSlice.v, strings as byte lists) of the
    remaining hand-written text decoders of acra (property C14, work package x14log):

    1. logging/log_entry_parser.go   splitIntegritySuffix, PlaintextLogParser.ParseEntry, CefLogParser.ParseEntry
       -> [c_split_integrity], [c_parse_text]; the strings.* / encoding/hex functions they call are written out
       with explicit indices the way the Go library does it ([c_last_index], [c_has_suffix], [c_trim_suffix],
       [c_hex_decode]); strings.TrimSpace and strings.Contains keep the functional form of Model/AuditLog.v.
       The functional twins are [split_last] / [parse_text] of Model/AuditLog.v (C20).
       logging/logging.go processLogFile (bufio.Scanner, as repaired by patches/fix_auditlog_scanner_err.diff)
       -> [scan_file].
    2. keystore/filesystem/server_keystore.go   DescribeKeyFile = describeV2 then describeV1
       -> [c_describe_key_file]; filesystem_backup.go getContextFromFilename -> [c_ctx_from_filename]
       (time.Parse of isHistoricalFilename is an input [hist]); functional twin for simple names:
       [ctx_from_name] of Model/Backup.v.
    3. keystore/v2/keystore/keyStore.go   DescribeKeyRing (ring path -> purpose / client id) -> [c_describe_key_ring].
    4. network/utils.go SNIOrHostname -> [c_sni_or_hostname]; network/tls_authentication.go
       HexIdentifierConverter.Convert -> [tls_convert] (hash abstract); acra-censor/common TrimStringToN
       -> [c_trim_to_n]; cmd/acra-translator/http_api binaryType.UnmarshalJSON -> [c_binary_unmarshal]
       (base64 decoder abstract).
    No proofs here (Proofs/ParsersExt.v). *)
From Acra Require Import Lib.Bytes Lib.Outcome Lib.GoSlice Gen.AuditLogConsts Gen.KsConsts Gen.ParsersConsts
  Model.AuditLog Model.Path Model.Backup.
From Coq Require Import ZifyN ZifyNat ZifyBool.
Local Open Scope Z_scope.

(** * strings.* with explicit indices *)

(** [s[i:i+len(tok)] == tok] *)
Definition c_eq_at (tok s : bytes) (i : Z) : res bool :=
  do w <- gslice i (i + len tok) s; Ok (bytes_eqb w tok).

(** strings.HasSuffix: [len(s) >= len(suffix) && s[len(s)-len(suffix):] == suffix] *)
Definition c_has_suffix (suf s : bytes) : res bool :=
  if len suf <=? len s then c_eq_at suf s (len s - len suf) else Ok false.

(** strings.TrimSuffix: [if HasSuffix(s, suffix) { return s[:len(s)-len(suffix)] }; return s] *)
Definition c_trim_suffix (suf s : bytes) : res bytes :=
  do h <- c_has_suffix suf s; if h then gslice_to (len s - len suf) s else Ok s.

(** strings.LastIndex: the largest [i] with [s[i:i+n] == tok], -1 if none.  Written as the scan over all start
    positions that keeps the last hit (Go scans backwards with a rolling hash; same function). *)
Fixpoint c_last_index_loop (fuel : nat) (tok s : bytes) (i acc : Z) : res Z :=
  match fuel with
  | O => Err E_OUT_OF_FUEL
  | S f =>
      if len s - len tok <? i then Ok acc
      else do e <- c_eq_at tok s i; c_last_index_loop f tok s (i + 1) (if e then i else acc)
  end.
Definition c_last_index (tok s : bytes) : res Z := c_last_index_loop (S (S (length s))) tok s 0 (-1).

(** encoding/hex.DecodeString = Decode(src, src) then src[:n]; any error = [None] (the partial output is dropped
    by every caller here).  Loop of hex.Decode: [for j := 1; j < len(src); j += 2 { p := src[j-1]; q := src[j] ...}],
    then the odd-length test that reads [src[j-1]] once more. *)
Fixpoint c_hex_loop (fuel : nat) (src : bytes) (j : Z) (out : bytes) : res (option bytes) :=
  match fuel with
  | O => Err E_OUT_OF_FUEL
  | S f =>
      if j <? len src then
        do p <- gindex (j - 1) src;
        do q <- gindex j src;
        match unhex_digit p, unhex_digit q with
        | Some a, Some b => c_hex_loop f src (j + 2) (out ++ [n2b (16 * a + b)%N])
        | _, _ => Ok None
        end
      else if (len src) mod 2 =? 1 then (do _ <- gindex (j - 1) src; Ok None)
      else Ok (Some out)
  end.
Definition c_hex_decode (src : bytes) : res (option bytes) := c_hex_loop (S (length src)) src 1 [].

(** * 1. audit-log line parsers (plaintext and CEF) *)

(** splitIntegritySuffix: [index := strings.LastIndex(rawData, DataSplitToken)];
    [rawData[:index]], [rawData[index+len(DataSplitToken):]] *)
Definition c_split_integrity (line : bytes) : res (option (bytes * bytes)) :=
  do idx <- c_last_index AL_SPLIT_TOKEN line;
  if idx <? 0 then Ok None
  else
    do a <- gslice_to idx line;
    do b <- gslice_from (idx + len AL_SPLIT_TOKEN) line;
    Ok (Some (a, b)).

(** PlaintextLogParser.ParseEntry ([cef = false]) / CefLogParser.ParseEntry ([cef = true]) *)
Definition c_parse_text (cef : bool) (line : bytes) : res pres :=
  do sp <- c_split_integrity line;
  match sp with
  | None => Ok PSkip
  | Some (body, rest0) =>
      let rest1 := if cef then trim_space rest0 else rest0 in
      do isnew <- c_has_suffix AL_NEW_CHAIN_SUFFIX rest1;
      do rest2 <- (if isnew then c_trim_suffix AL_NEW_CHAIN_SUFFIX rest1 else Ok rest1);
      let isend := contains AL_END_CHAIN_SUFFIX body && contains AL_END_CHAIN_MESSAGE body in
      do h <- c_hex_decode rest2;
      match h with
      | None => Ok PErr
      | Some integ => Ok (POk (mk_parsed body integ isnew isend))
      end
  end.

(** what VerifyIntegrityCheck does with one line of the source: empty strings are skipped before the parser *)
Definition c_line_pres (cef : bool) (l : bytes) : res pres :=
  match l with [] => Ok PSkip | _ => c_parse_text cef l end.

(** processLogFile after fix_auditlog_scanner_err: bufio.Scanner with the default buffer delivers the lines of
    [split_lines]; a line that does not fit into the buffer ends the scan with bufio.ErrTooLong, which is now
    returned (before the fix the error was dropped and everything behind the long line went unverified).
    [Some lines] = all lines delivered, [None] = error.  (The scanner needs the line AND its terminator in the
    buffer, so the limit is on the raw line including "\r"; the model is exact for lines up to the limit minus
    two bytes and for lines of at least the limit, which is what the harness generates.) *)
Definition E_TOO_LONG : N := 62.
Definition scan_file (file : bytes) : res (list bytes) :=
  let ls := split_lines file in
  if forallb (fun l => len l + 2 <=? PAR_MAX_LOG_LINE) ls then Ok ls else Err E_TOO_LONG.

(** * lists of strings with Go's index checks *)
Definition llen {A} (l : list A) : Z := Z.of_nat (length l).
Definition lindex (i : Z) (l : list bytes) : res bytes :=
  if (0 <=? i) && (i <? llen l) then Ok (nth (Z.to_nat i) l []) else Panic.
Definition lslice_to (b : Z) (l : list bytes) : res (list bytes) :=
  if (0 <=? b) && (b <=? llen l) then Ok (firstn (Z.to_nat b) l) else Panic.

(** strings.Split(s, sep) for a one-byte separator; strings.Join *)
Fixpoint split_byte (c : byte) (p : bytes) : list bytes :=
  match p with
  | [] => [[]]
  | x :: r =>
      if byte_eqb x c then [] :: split_byte c r
      else match split_byte c r with h :: t => (x :: h) :: t | [] => [[x]] end
  end.
Fixpoint join_byte (c : byte) (cs : list bytes) : bytes :=
  match cs with
  | [] => []
  | [x] => x
  | x :: r => x ++ c :: join_byte c r
  end.
Definition sepb (s : bytes) : byte := nth 0 s x00.

(** * 2. keystore v1: DescribeKeyFile *)
Definition desc := (bytes * bytes * bytes)%type.     (* KeyID, ClientID, Purpose *)
Definition E_UNRECOGNIZED : N := 60.   (* ErrUnrecognizedKeyPurpose *)
Definition E_V2_PATH : N := 61.        (* "invalid path provided for V2 keystore key" *)

Definition lit1 (k : nat) : bytes := nth k PAR_LITS_describeV1 [].
Definition lit2 (k : nat) : bytes := nth k PAR_LITS_describeV2 [].

Definition c_describe_v1 (name : bytes) : res desc :=
  if bytes_eqb name PAR_V1_poisonPrivateKey then Ok (name, [], PAR_PURPOSE_PoisonRecordKeyPair)
  else if bytes_eqb name PAR_V1_poisonPublicKey then Ok (name, [], PAR_PURPOSE_PoisonRecordKeyPair)
  else if bytes_eqb name PAR_V1_poisonSymmetricKey then Ok (name, [], PAR_PURPOSE_PoisonRecordSymmetricKey)
  else if bytes_eqb name PAR_V1_legacyWebConfigKey then Ok (name, [], PAR_PURPOSE_Legacy)
  else
    let comps := split_byte (sepb (lit1 0)) name in
    let n := llen comps in
    if n =? 1 then
      do id <- c_trim_suffix (lit1 1) name;
      do c0 <- lindex 0 comps;
      Ok (id, c0, PAR_PURPOSE_Legacy)
    else if n <? 2 then Err E_UNRECOGNIZED
    else
      do last <- lindex (n - 1) comps;
      do pen <- lindex (n - 2) comps;
      if bytes_eqb last (lit1 2) then
        do cs <- lslice_to (n - 1) comps; Ok (name, join_byte (sepb (lit1 3)) cs, PAR_PURPOSE_SearchHMAC)
      else if bytes_eqb last (lit1 4) then
        do cs <- lslice_to (n - 1) comps; Ok (name, join_byte (sepb (lit1 5)) cs, PAR_PURPOSE_StorageClientPrivateKey)
      else if bytes_eqb last (lit1 6) then
        do cs <- lslice_to (n - 1) comps; Ok (name, join_byte (sepb (lit1 7)) cs, PAR_PURPOSE_StorageClientPublicKey)
      else if bytes_eqb last (lit1 8) then Ok (name, [], PAR_PURPOSE_Legacy)
      else if bytes_eqb last (lit1 9) then Ok (name, [], PAR_PURPOSE_Legacy)
      else if bytes_eqb pen (lit1 10) && bytes_eqb last (lit1 11) then
        do cs <- lslice_to (n - 2) comps; Ok (name, join_byte (sepb (lit1 12)) cs, PAR_PURPOSE_StorageClientSymmetricKey)
      else if bytes_eqb pen (lit1 13) && bytes_eqb last (lit1 14) then Ok (name, [], PAR_PURPOSE_Legacy)
      else if bytes_eqb pen (lit1 15) && bytes_eqb last (lit1 16) then Ok (name, [], PAR_PURPOSE_AuditLog)
      else if bytes_eqb last (lit1 17) || bytes_eqb last (lit1 18) || bytes_eqb last (lit1 19) || bytes_eqb last (lit1 20) then
        do c0 <- lindex 0 comps; Ok (name, c0, PAR_PURPOSE_Legacy)
      else Err E_UNRECOGNIZED.

(** path.Split: [i := lastSlash(path); return path[:i+1], path[i+1:]] *)
Definition c_path_split (p : bytes) : res (bytes * bytes) :=
  do i <- c_last_index [SEP] p;
  do a <- gslice_to (i + 1) p;
  do b <- gslice_from (i + 1) p;
  Ok (a, b).

(** strings.Trim(s, "/") *)
Fixpoint drop_seps (s : bytes) : bytes :=
  match s with
  | c :: r => if byte_eqb c SEP then drop_seps r else s
  | [] => []
  end.
Definition trim_seps (s : bytes) : bytes := rev (drop_seps (rev (drop_seps s))).

(** describeV2: [None] = "not a v2 name, try v1" *)
Definition c_describe_v2 (name : bytes) : res (option desc) :=
  do isring <- c_has_suffix (lit2 0) name;
  if negb isring then Ok None
  else
    do df <- c_path_split (clean name);
    let '(dr, file) := df in
    do stem <- c_trim_suffix (lit2 4) file;
    if negb (bytes_eqb dr (lit2 1)) && contains (lit2 2) dr then
      let splits := split_byte SEP (trim_seps dr) in
      if llen splits =? 1 then Err E_V2_PATH
      else
        do cid <- lindex (llen splits - 1) splits;
        if bytes_eqb stem (lit2 5) then Ok (Some (file, cid, PAR_PURPOSE_SearchHMAC))
        else if bytes_eqb stem (lit2 6) then Ok (Some (file, cid, PAR_PURPOSE_StorageClientKeyPair))
        else if bytes_eqb stem (lit2 7) then Ok (Some (file, cid, PAR_PURPOSE_StorageClientSymmetricKey))
        else Err E_UNRECOGNIZED
    else
      if bytes_eqb stem (lit2 9) then Ok (Some (name, [], PAR_PURPOSE_AuditLog))
      else if bytes_eqb stem (lit2 10) then Ok (Some (name, [], PAR_PURPOSE_PoisonRecordKeyPair))
      else if bytes_eqb stem (lit2 11) then Ok (Some (name, [], PAR_PURPOSE_PoisonRecordSymmetricKey))
      else Err E_UNRECOGNIZED.

Definition c_describe_key_file (name : bytes) : res desc :=
  do v2 <- c_describe_v2 name;
  match v2 with Some d => Ok d | None => c_describe_v1 name end.

(** * getContextFromFilename *)
(** filepath.Base *)
Definition strip_trailing_seps (p : bytes) : bytes := rev (drop_seps (rev p)).
Definition base (p : bytes) : bytes :=
  match p with
  | [] => dot
  | _ => match strip_trailing_seps p with
         | [] => [SEP]
         | q => last (split_byte SEP q) []
         end
  end.

Definition kctx := (bytes * bytes * bytes)%type.   (* Purpose, ClientID, Context *)

(** one [if strings.HasSuffix(fname, suf) { return NewClientIDKeyContext(purpose, fname[:len(fname)-len(suf)]) }] *)
Definition CTX_TABLE : list (bytes * bytes) :=
  [(SUFFIX_HMAC, PAR_PURPOSE_SearchHMAC); (SUFFIX_SERVER, PAR_PURPOSE_Legacy); (SUFFIX_TRANSLATOR, PAR_PURPOSE_Legacy);
   (SUFFIX_STORAGE, PAR_PURPOSE_StorageClientPrivateKey); (SUFFIX_STORAGE ++ SUFFIX_SYM, PAR_PURPOSE_StorageClientSymmetricKey)].

Fixpoint c_ctx_suffixes (tbl : list (bytes * bytes)) (fname : bytes) : res kctx :=
  match tbl with
  | [] => Ok (PAR_PURPOSE_Undefined, [], fname)
  | (suf, purpose) :: t =>
      do h <- c_has_suffix suf fname;
      if h then (do id <- gslice_to (len fname - len suf) fname; Ok (purpose, id, []))
      else c_ctx_suffixes t fname
  end.

(** the part behind [fname = filepath.Base(fname)] *)
Definition c_ctx_from_base_name (fname : bytes) : res kctx :=
  do old <- c_has_suffix SUFFIX_OLD fname;
  do fname1 <- (if old then gslice_to (len fname - len SUFFIX_OLD) fname else Ok fname);
  c_ctx_suffixes CTX_TABLE fname1.

Definition c_ctx_from_filename (hist : bool) (fname0 : bytes) : res kctx :=
  let fname := if hist then dir fname0 else fname0 in
  if bytes_eqb fname PAR_V1_PoisonKeyFilename then Ok (PAR_PURPOSE_PoisonRecordKeyPair, [], fname)
  else if bytes_eqb fname PAR_V1_poisonKeyFilenameSym then
    do c <- gslice_to (len fname - len SUFFIX_SYM) fname; Ok (PAR_PURPOSE_PoisonRecordSymmetricKey, [], c)
  else c_ctx_from_base_name (base fname).

(** * 3. keystore v2: DescribeKeyRing (after fix 459ceea every client branch reports
    [components[clientIDIndex]]; the pinned code reported [components[clientPrefixIndex]], the literal
    "client", for the storage and HMAC branches) *)
Definition c_describe_key_ring (path : bytes) : res desc :=
  if bytes_eqb path PAR_V2_poisonKeyPath then Ok (path, [], PAR_V2_PURPOSE_PoisonRecord)
  else if bytes_eqb path PAR_V2_auditLogSymmetricKeyPath then Ok (path, [], PAR_V2_PURPOSE_AuditLog)
  else if bytes_eqb path PAR_V2_poisonSymmetricKeyPath then Ok (path, [], PAR_V2_PURPOSE_PoisonSym)
  else
    let comps := split_byte SEP path in
    if llen comps =? 3 then
      do pre <- lindex PAR_V2_clientPrefixIndex comps;
      do pur <- lindex PAR_V2_purposeIndex comps;
      do cid <- lindex PAR_V2_clientIDIndex comps;
      if bytes_eqb pre PAR_V2_clientPrefix && bytes_eqb pur PAR_V2_storageSuffix then Ok (path, cid, PAR_V2_PURPOSE_StorageClient)
      else if bytes_eqb pre PAR_V2_clientPrefix && bytes_eqb pur PAR_V2_hmacSymmetricSuffix then Ok (path, cid, PAR_V2_PURPOSE_SearchHMAC)
      else if bytes_eqb pre PAR_V2_clientPrefix && bytes_eqb pur PAR_V2_storageSymmetricSuffix then Ok (path, cid, PAR_V2_PURPOSE_StorageClientSym)
      else Err E_UNRECOGNIZED
    else Err E_UNRECOGNIZED.

(** * 4. smaller slicers *)
(** network.SNIOrHostname *)
Definition COLON : byte := x3a.
Definition c_sni_or_hostname (sni hostname : bytes) : res bytes :=
  match sni with
  | _ :: _ => Ok sni
  | [] =>
      do p <- c_last_index [COLON] hostname;
      let p := if p =? -1 then len hostname else p in
      gslice_to p hostname
  end.

(** common.TrimStringToN *)
Definition c_trim_to_n (query : bytes) (n : Z) : res bytes :=
  if len query <=? n then Ok query else gslice_to n query.

(** HexIdentifierConverter.Convert: [out := make([]byte, hex.EncodedLen(sha512.Size))], hash, hex.Encode *)
Definition tls_convert (H : bytes -> bytes) (identifier : bytes) : bytes := hex_encode (H identifier).

(** binaryType.UnmarshalJSON; [dec src] = what base64.StdEncoding.Decode writes for [src];
    [None] = the InvalidUnmarshalError *)
Definition QUOTE : byte := x22.
Definition b64_decoded_len (n : Z) : Z := n / 4 * 3.
Definition c_binary_unmarshal (dec : bytes -> bytes) (raw : bytes) : res (option bytes) :=
  if len raw <? 2 then Ok None
  else
    do f <- gindex 0 raw;
    do l <- gindex (len raw - 1) raw;
    if negb (byte_eqb f QUOTE) || negb (byte_eqb l QUOTE) then Ok None
    else if len raw =? 2 then Ok (Some [])
    else
      do size <- gmake (b64_decoded_len (len raw - 1));
      do src <- gslice 1 (len raw - 1) raw;
      let written := dec src in
      (* Decode panics when dst is too short for what it writes; then data[:n] *)
      if len written <=? Z.of_nat size then
        do out <- gslice_to (len written) (gcopy (repeat x00 size) written); Ok (Some out)
      else Panic.
