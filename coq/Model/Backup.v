(** Export / import of keystore v1 (C18): keystore/filesystem/filesystem_backup.go
    KeyBackuper.Export / Import, isPrivate, getContextFromFilename — with
    patches/fix_v1_export_zeroize.diff (selected keys are serialised intact).
    The gob encoding is abstract: [ser]/[deser] are parameters; the harness decodes the real bytes.
    Names: simple current-key names "<id><suffix>" are classified by the model; names in history
    directories and poison-record names (time.Parse, fixed strings) are classified by the harness
    through the real functions and arrive as a hint.  No proofs here (Proofs/Backup.v). *)
From Acra Require Import Lib.Bytes Lib.Outcome Crypto.Interface Gen.KsConsts Model.Path Model.KeyAtRest.

(** strings.HasSuffix *)
Definition ends_with (s suf : bytes) : bool := starts_with (rev suf) (rev s).
Definition strip_suffix (s suf : bytes) : bytes := firstn (length s - length suf) s.

(** isPublic / isPrivate for names outside history directories *)
Definition is_public_name (n : bytes) : bool := ends_with n SUFFIX_PUB || ends_with n (SUFFIX_PUB ++ SUFFIX_OLD).
Definition is_private_name (n : bytes) : bool := negb (is_public_name n).

(** getContextFromFilename for a simple name (no directory part, not historical): the client id is
    what precedes the first matching suffix, in the order of the code *)
Definition ctx_from_name (n : bytes) : bytes :=
  let n := if ends_with n SUFFIX_OLD then strip_suffix n SUFFIX_OLD else n in
  if ends_with n SUFFIX_HMAC then strip_suffix n SUFFIX_HMAC
  else if ends_with n SUFFIX_SERVER then strip_suffix n SUFFIX_SERVER
  else if ends_with n SUFFIX_TRANSLATOR then strip_suffix n SUFFIX_TRANSLATOR
  else if ends_with n SUFFIX_STORAGE then strip_suffix n SUFFIX_STORAGE
  else if ends_with n (SUFFIX_STORAGE ++ SUFFIX_SYM) then strip_suffix n (SUFFIX_STORAGE ++ SUFFIX_SYM)
  else n.

(** one exported key: name, content, and for names the model does not classify the harness' view
    of (isPrivate, context bytes) *)
Record bkey := { bk_name : bytes; bk_content : bytes; bk_hint : option (bool * bytes) }.

Definition bk_private (k : bkey) : bool :=
  match bk_hint k with Some (p, _) => p | None => is_private_name (bk_name k) end.
Definition bk_ctx (k : bkey) : bytes :=
  match bk_hint k with Some (_, c) => c | None => ctx_from_name (bk_name k) end.

Definition E_DESER : N := 40.

(** keystore v2, export.go decryptKeyData: private and symmetric key data are left in the exported
    ring only if the mode has the ExportPrivateKeys BIT; otherwise they are stripped (and rings
    without public data are skipped). *)
Definition v2_exports_private (mode : N) : bool := negb (N.land mode EXPORT_PRIVATE_KEYS =? 0)%N.

Section Backup.
  Variable C : crypto.
  Variable ser : list bkey -> bytes.
  Variable deser : bytes -> option (list bkey).

  (** Export: bundle = (fresh access key, seal(access key, no context, ser keys)); tape = [access key; nonce] *)
  Definition export_v1 (tape : list bytes) (keys : list bkey) : res (bytes * content) :=
    match tape with
    | k :: n :: _ =>
        match key_encrypt k {| kc_purpose := []; kc_client := None; kc_context := None |} n (ser keys) with
        | Some t => Ok (k, t)
        | None => Err E_ENCRYPT
        end
    | _ => Err E_TAPE
    end.

  (** Import, per key: private keys are sealed again under the target's master key with the
      context derived from the name; public ones written as they are.  filepath.Join(folder, name). *)
  Fixpoint import_keys (target_master dir : bytes) (tape : list bytes) (keys : list bkey) : res (list event) :=
    match keys with
    | [] => Ok []
    | k :: r =>
        if bk_private k then
          match tape with
          | n :: tape' =>
              match key_encrypt target_master {| kc_purpose := []; kc_client := Some (bk_ctx k); kc_context := None |} n (bk_content k) with
              | Some t => do es <- import_keys target_master dir tape' r;
                          Ok ((SFile (join2 dir (bk_name k)), t) :: es)
              | None => Err E_ENCRYPT
              end
          | [] => Err E_TAPE
          end
        else
          do es <- import_keys target_master dir tape r;
          Ok ((SFile (join2 dir (bk_name k)), Plain (bk_content k)) :: es)
    end.

  Definition import_v1 (target_master dir : bytes) (tape : list bytes) (access data : bytes) : res (list event) :=
    match cell_decrypt C access [] data with
    | None => Err E_DECRYPTION
    | Some g =>
        match deser g with
        | None => Err E_DESER
        | Some keys => import_keys target_master dir tape keys
        end
    end.
End Backup.
