(** Replay of implementation observations on the typed-column model (C19). Outcomes are [XOk (status :: values)]:
    status [00] = delivered / accepted, [01] = base.EncodingError (error response to the client),
    [02] = any other error, so that the two error kinds are compared too. *)
From Acra Require Export Lib.Bytes Lib.Outcome Gen.TypedConsts Model.Typed.
Local Open Scope N_scope.

Inductive expected := XOk (vals : list bytes) | XErr | XPanic.

Inductive op :=
| PInt (bits : N) (s : bytes)                      (* strconv.ParseInt(s,10,bits) then FormatInt *)
| Esc (s : bytes)                                  (* utils.DecodeEscaped *)
| Hex (s : bytes)                                  (* utils.PgEncodeToHex *)
| B64 (s : bytes)                                  (* base64.StdEncoding.DecodeString *)
| Utf8 (s : bytes)                                 (* utf8.Valid *)
| TEnc (s : setting) (binary decrypted : bool) (data : bytes)   (* registered encoder .Encode *)
| TDec (s : setting) (binary : bool) (data : bytes)             (* registered encoder .Decode *)
| TFail (s : setting) (binary : bool)                           (* registered encoder .EncodeOnFail *)
| TValid (id : N) (d : bytes)                                   (* registered encoder .ValidateDefaultValue *)
| Cell (s : setting) (binary : bool) (revealed : option bytes) (stored : bytes)  (* decoder, reveal, encoder *)
| Init (mysql : bool) (i : init_in)                (* BasicColumnEncryptionSetting.Init *)
| RowDesc (s : setting) (db_oid : N).              (* handleRowDescription on a one-column description *)

Definition st (n : N) : bytes := [n2b n].
Definition flag (b : bool) : bytes := [if b then x01 else x00].
Definition opt_bytes (o : option bytes) : list bytes := match o with Some v => [flag true; v] | None => [flag false] end.

Definition err_status (e : N) : expected := if e =? E_ENCODING then XOk [st 1] else XOk [st 2].
Definition canon {A} (f : A -> list bytes) (r : res A) : expected :=
  match r with Ok a => XOk (st 0 :: f a) | Err e => err_status e | Panic => XPanic end.

Definition policy_code (p : policy) : N :=
  match p with PEmpty => 0 | PCiphertext => 1 | PDefault => 2 | PError => 3 | PBad => 4 end.

Definition run (o : op) : expected :=
  match o with
  | PInt bits s => match parse_int bits s with Some z => XOk [st 0; print_int z] | None => XOk [st 2] end
  | Esc s => match decode_escaped s with
             | Ok d => XOk [st 0; d]
             | Err e => if e =? E_OCTAL then XOk [st 1] else XOk [st 2]
             | Panic => XPanic end
  | Hex s => XOk [pg_hex s]
  | B64 s => match b64_decode s with Some d => XOk [st 0; d] | None => XOk [st 2] end
  | Utf8 s => XOk [flag (utf8_valid s)]
  | TEnc s binary decrypted data =>
      match pg_encoder_for (s_type_id s) with
      | Some k => canon (fun v => [v]) (pg_type_encode k s binary (mk_cctx decrypted None) data)
      | None => XErr
      end
  | TDec s binary data =>
      match pg_encoder_for (s_type_id s) with
      | Some k => canon (fun cv => snd cv :: opt_bytes (c_encoded (fst cv))) (pg_type_decode k s binary ctx0 data)
      | None => XErr
      end
  | TFail s binary =>
      match pg_encoder_for (s_type_id s) with
      | Some k => canon opt_bytes (pg_encode_on_fail k s binary)
      | None => XErr
      end
  | TValid id d =>
      match pg_encoder_for id with
      | Some k => XOk [flag (validate_default k d)]
      | None => XErr
      end
  | Cell s binary revealed stored =>
      match pg_cell_value s binary stored with
      | Ok seen => match pg_cell s binary (fun _ => revealed) stored with
                   | Ok v => XOk [st 0; seen; v]
                   | Err e => match err_status e with XOk l => XOk (l ++ [seen]) | x => x end
                   | Panic => XPanic
                   end
      | Err e => err_status e
      | Panic => XPanic
      end
  | Init mysql i =>
      canon (fun s => [le_enc 4 (s_type_id s); st (policy_code (s_policy s))] ++ opt_bytes (s_default s))
            (if mysql then my_init i else pg_init i)
  | RowDesc s db_oid => XOk [be_enc 4 (pg_described_oid s db_oid)]
  end.

Fixpoint list_bytes_eqb (a b : list bytes) : bool :=
  match a, b with
  | [], [] => true
  | x :: a', y :: b' => bytes_eqb x y && list_bytes_eqb a' b'
  | _, _ => false
  end.

Definition expected_eqb (a b : expected) : bool :=
  match a, b with
  | XOk x, XOk y => list_bytes_eqb x y
  | XErr, XErr => true
  | XPanic, XPanic => true
  | _, _ => false
  end.

Fixpoint mismatches_from (i : nat) (cs : list (op * expected)) : list (nat * expected) :=
  match cs with
  | [] => []
  | (o, e) :: rest =>
      let m := run o in
      if expected_eqb m e then mismatches_from (S i) rest else (i, m) :: mismatches_from (S i) rest
  end.
Definition mismatches := mismatches_from 0.
