(** Executable model of the LEGACY (raw, container-less) envelope path of acra's transparent
    column processing, and of the AcraStruct -> AcraBlock re-encryptor.  No proofs here.

    crypto/envelope_detector.go : OldContainerDetectorWrapper.{OnColumn,OnAcraStruct,OnAcraBlock,
                                  OnCryptoEnvelope}, EnvelopeDetector.OnCryptoEnvelope
    acrastruct/utils.go         : ProcessAcraStructs
    acrablock/utils.go          : ProcessAcraBlocks
    crypto/reencryptor.go       : ReEncryptHandler.{EncryptWithClientID,MatchDataSignature}

    Wiring (decryptor/postgresql/proxy.go, decryptor/mysql/proxy.go): [NewOldContainerDetectorWrapper]
    registers the wrapper ITSELF as callbacks[0] of the detector (its OnCryptoEnvelope returns the
    container unchanged and sets hasMatchedEnvelope), then optionally the poison recogniser, then
    DecryptHandler.  So "hasMatchedEnvelope" = "the callback loop of EnvelopeDetector.OnColumn was
    entered at least once" = "ExtractSerializedContainer succeeded at some tag occurrence". *)
From Acra Require Import Lib.Bytes Lib.Outcome Lib.GoSlice Lib.Sha256 Crypto.Interface Gen.Consts Model.Envelope.

(** * EnvelopeDetector.OnColumn, also reporting whether callbacks[0] was ever invoked *)
Fixpoint scan_m (fuel : nat) (cbs : list (bytes -> res bytes)) (rest out : bytes) (changed matched : bool)
  : res (bytes * bool * bool) :=
  match fuel with
  | O => Err E_OUT_OF_FUEL
  | S f =>
      match index_of sc_tag rest with
      | None => Ok (out ++ rest, changed, matched)
      | Some i =>
          let out1 := out ++ firstn i rest in
          let r := skipn i rest in
          match sc_extract r with
          | Panic => Panic
          | Err _ => scan_m f cbs (skipn 1 r) (out1 ++ firstn 1 r) changed matched
          | Ok (n, container) =>
              (* the callback loop starts: callbacks[0] (the wrapper) runs first and sets the flag.
                 [on_column_m] guarantees cbs <> [] *)
              match run_callbacks cbs container with
              | Panic => Panic
              | Err e => Err e
              | Ok None => scan_m f cbs (skipn 1 r) (out1 ++ firstn 1 r) changed true
              | Ok (Some p) => scan_m f cbs (skipn n r) (out1 ++ p) true true
              end
          end
      end
  end.

(* (output, changed, matched) *)
Definition on_column_m (cbs : list (bytes -> res bytes)) (inb : bytes) : res (bytes * bool * bool) :=
  if Nat.ltb (length inb) SC_MIN_SIZE || is_nil cbs then Ok (inb, false, false)
  else scan_m (S (length inb)) cbs inb [] false false.

(** * the wrapper as a callback and as a processor *)
(* OldContainerDetectorWrapper.OnCryptoEnvelope (the flag is tracked by [scan_m]) *)
Definition wrapper_cb : bytes -> res bytes := fun container => Ok container.

(* EnvelopeDetector.OnCryptoEnvelope *)
Definition detector_on_envelope (cbs : list (bytes -> res bytes)) (container : bytes) : res bytes :=
  match run_callbacks cbs container with
  | Ok None => Ok container
  | Ok (Some p) => Ok p
  | Err e => Err e
  | Panic => Panic
  end.

(* OldContainerDetectorWrapper.OnAcraStruct (id = AcraStructEnvelopeID) / OnAcraBlock (AcraBlockEnvelopeID) *)
Definition on_old_envelope (id : byte) (cbs : list (bytes -> res bytes)) (env : bytes) : res bytes :=
  do serialized <- sc_serialize env id;
  do processed <- detector_on_envelope cbs serialized;
  if bytes_eqb processed serialized then Ok env else Ok processed.

(** * ProcessAcraStructs / ProcessAcraBlocks: one loop, two instances.
    [cand r] = length of the candidate envelope at the tag occurrence that starts [r], if the
    code hands one to the processor; the processor receives [firstn l r].
    Pure model: the output is a fresh list.  In the wrapper, ProcessAcraBlocks is called with
    inBuffer and outBuffer ALIASED; [raw_scan_inplace] below is the in-place reading and
    Proofs/EnvelopeOld.v shows both agree whenever the processor never returns more bytes than
    it was given (true for the wrapper), and disagree otherwise. *)
Section RawScan.
Variable tag : bytes.
Variable cand : bytes -> option nat.
Variable proc : bytes -> res bytes.

Fixpoint raw_scan (fuel : nat) (rest out : bytes) : res bytes :=
  match fuel with
  | O => Err E_OUT_OF_FUEL
  | S f =>
      match index_of tag rest with
      | None => Ok (out ++ rest)                       (* break; copy left bytes *)
      | Some i =>
          let out1 := out ++ firstn i rest in
          let r := skipn i rest in
          match cand r with
          | Some l =>
              match proc (firstn l r) with
              | Panic => Panic
              | Err e => Err e                         (* return inBuffer, err *)
              | Ok p => raw_scan f (skipn l r) (out1 ++ p)
              end
          | None => raw_scan f (skipn 1 r) (out1 ++ firstn 1 r)
          end
      end
  end.

(** in-place reading: ONE backing array [buf] (length fixed), read at [ii], written at [oi].
    [append(outBuffer[:oi], x...)] with enough capacity overwrites buf[oi : oi+len x] and leaves
    the rest of the array as it was.  [None] = a write inside the loop does not fit the capacity
    any more (Go would reallocate: from then on the buffers are no longer aliased; not modelled
    further).  The final append returns the same bytes whether it reallocates or not. *)
Definition write_at (buf : bytes) (oi : nat) (x : bytes) : option bytes :=
  if Nat.leb (oi + length x) (length buf)
  then Some (firstn oi buf ++ x ++ skipn (oi + length x) buf) else None.

Fixpoint raw_scan_inplace (fuel : nat) (buf : bytes) (ii oi : nat) : res (option bytes) :=
  match fuel with
  | O => Err E_OUT_OF_FUEL
  | S f =>
      let rest := skipn ii buf in
      match index_of tag rest with
      | None => Ok (Some (firstn oi buf ++ rest))   (* in place or reallocated: same returned bytes *)
      | Some i =>
          match write_at buf oi (firstn i rest) with
          | None => Ok None
          | Some buf1 =>
              let oi1 := oi + i in
              let ii1 := ii + i in
              let r := skipn ii1 buf1 in
              match cand r with
              | Some l =>
                  match proc (firstn l r) with
                  | Panic => Panic
                  | Err e => Err e
                  | Ok p =>
                      match write_at buf1 oi1 p with
                      | None => Ok None
                      | Some buf2 => raw_scan_inplace f buf2 (ii1 + l) (oi1 + length p)
                      end
                  end
              | None =>
                  match write_at buf1 oi1 (firstn 1 r) with
                  | None => Ok None
                  | Some buf2 => raw_scan_inplace f buf2 (ii1 + 1) (oi1 + 1)
                  end
              end
          end
      end
  end.
End RawScan.

(* [len(rest) > GetMinAcraStructLength()] is STRICT; the sum is Go [int] arithmetic (wraps) *)
Definition as_candidate (r : bytes) : option nat :=
  if Nat.ltb as_min (length r) then
    let acrastructLength := int_add (as_data_length r) (Z.of_nat as_min) in
    if ((0 <? acrastructLength) && (acrastructLength <=? Z.of_nat (length r)))%Z
    then Some (Z.to_nat acrastructLength) else None
  else None.

(* [len(rest) > AcraBlockMinSize] is STRICT; ExtractAcraBlockFromData errors are ignored *)
Definition ab_candidate (r : bytes) : option nat :=
  if Nat.ltb AB_MIN_SIZE (length r) then
    match ab_extract r with Ok (n, _) => Some n | _ => None end
  else None.

(* ProcessAcraStructs(ctx, inBuffer, make([]byte, len(inBuffer)), processor) *)
Definition process_acrastructs (proc : bytes -> res bytes) (inb : bytes) : res bytes :=
  if Nat.ltb (length inb) as_min then Ok inb      (* copy(outBuffer, inBuffer) *)
  else raw_scan as_tag as_candidate proc (S (length inb)) inb [].

(* ProcessAcraBlocks(ctx, buf, buf, processor) *)
Definition process_acrablocks (proc : bytes -> res bytes) (inb : bytes) : res bytes :=
  if Nat.ltb (length inb) AB_MIN_SIZE then Ok inb
  else raw_scan ab_tag ab_candidate proc (S (length inb)) inb [].

(** * OldContainerDetectorWrapper.OnColumn: (output, "decrypted" mark of the returned context).
    [cbs] is the detector's whole callback list (wrapper first).  A nil and an empty inBuffer give
    the same observable result. *)
Definition on_column_old (cbs : list (bytes -> res bytes)) (inb : bytes) : res (bytes * bool) :=
  match on_column_m cbs inb with
  | Panic => Panic
  | Err e => Err e
  | Ok (newResult, changed, matched) =>
      if matched || negb (bytes_eqb newResult inb) then Ok (newResult, changed)
      else
        do out1 <- process_acrastructs (on_old_envelope ENVELOPE_ID_ACRASTRUCT cbs) inb;
        do out2 <- process_acrablocks (on_old_envelope ENVELOPE_ID_ACRABLOCK cbs) out1;
        Ok (out2, negb (bytes_eqb inb out2))
  end.

Section Old.
Variable C : crypto.

(* the proxies' callback list without a poison recogniser *)
Definition old_cbs (ks : keyset) : list (bytes -> res bytes) :=
  [wrapper_cb; decrypt_handler (registry_process C ks)].

Definition proc_as (ks : keyset) := on_old_envelope ENVELOPE_ID_ACRASTRUCT (old_cbs ks).
Definition proc_ab (ks : keyset) := on_old_envelope ENVELOPE_ID_ACRABLOCK (old_cbs ks).

(** * crypto/reencryptor.go *)
(* ReEncryptHandler.MatchDataSignature *)
Definition reenc_match (data : bytes) : bool :=
  is_ok (ab_extract data) ||
  match sc_deserialize data with
  | Ok (internal, _) => is_ok (ab_extract internal)
  | _ => false
  end.

(* ReEncryptHandler.EncryptWithClientID.  Settings: [env_ab] = GetCryptoEnvelope() == acrablock,
   [only_enc] = OnlyEncryption(), [reenc] = ShouldReEncryptAcraStructToAcraBlock().
   On a Process error Go returns (data, err): an error outcome. *)
Definition reencrypt (env_ab only_enc reenc : bool) (ks : keyset) (tape : list bytes) (data : bytes) : res bytes :=
  if negb env_ab || negb only_enc then Ok data
  else if reenc_match data then Ok data
  else
    do data' <-
      (if reenc then
         match sc_extract data with
         | Ok (_, serialized) => registry_process C ks serialized
         | Err _ => Ok data
         | Panic => Panic
         end
       else Ok data);
    encrypt_with_handler C ENVELOPE_ID_ACRABLOCK ks tape data'.

End Old.
