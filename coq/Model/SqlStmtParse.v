(** C13_statements model, part 2: the parser for the printed language of Model/SqlStmt.v — recursive descent
    with fuel over the token list, expressions by precedence climbing with the levels of Gen/Prec.v.
    All inspection of tokens happens in small classifier functions OUTSIDE the recursive block (the
    block itself only matches on their small result types).  No proofs here. *)
From Acra Require Import Lib.Bytes Gen.Prec Gen.SqlWords Model.SqlStmt.
From Coq Require Import Arith.

Definition word_eqb (a b : word) : bool := N.eqb (word_tag a) (word_tag b).
Definition punct_tag (p : punct) : N :=
  match p with
  | PEq => 0 | PLt => 1 | PGt => 2 | PLe => 3 | PGe => 4 | PNe => 5 | PNse => 6 | PBitOr => 7 | PBitAnd => 8 | PShl => 9
  | PShr => 10 | PPlus => 11 | PMinus => 12 | PStar => 13 | PSlash => 14 | PPercent => 15 | PCaret => 16 | PTilde => 17
  | PBang => 18 | PLParen => 19 | PRParen => 20 | PComma => 21 | PDot => 22
  end%N.
Definition punct_eqb (a b : punct) : bool := N.eqb (punct_tag a) (punct_tag b).

(** the rest after the keyword [w] / the punctuation [p] *)
Definition expect_w (w : word) (ts : list tok) : option (list tok) :=
  match ts with TW w' :: r => if word_eqb w w' then Some r else None | _ => None end.
Definition expect_p (p : punct) (ts : list tok) : option (list tok) :=
  match ts with TP p' :: r => if punct_eqb p p' then Some r else None | _ => None end.
Definition head_w (w : word) (ts : list tok) : bool := match expect_w w ts with Some _ => true | None => false end.

Definition binop_of (t : tok) : option binop :=
  match t with
  | TP PBitAnd => Some BBitAnd | TP PBitOr => Some BBitOr | TP PCaret => Some BBitXor | TP PPlus => Some BPlus
  | TP PMinus => Some BMinus | TP PStar => Some BMult | TP PSlash => Some BDiv | TW W_div => Some BIntDiv
  | TP PPercent => Some BMod | TW W_mod => Some BMod | TP PShl => Some BShl | TP PShr => Some BShr
  | _ => None
  end.
Definition simple_cmp_of (t : tok) : option cmpop :=
  match t with
  | TP PEq => Some CEq | TP PLt => Some CLt | TP PGt => Some CGt | TP PLe => Some CLe | TP PGe => Some CGe
  | TP PNe => Some CNe | TP PNse => Some CNse | TW W_regexp => Some CRegexp
  | _ => None
  end.

(** precedence of the infix/postfix construct starting at the head of [ts] (None: no such construct) *)
Definition tokprec (ts : list tok) : option nat :=
  match ts with
  | t :: ts' =>
      match binop_of t with
      | Some o => Some (binprec o)
      | None =>
          match t with
          | TW W_and => Some L_AND | TW W_or => Some L_OR
          | TP PEq | TP PLt | TP PGt | TP PLe | TP PGe | TP PNe | TP PNse => Some L_CMP
          | TW W_regexp | TW W_in | TW W_like | TW W_ilike | TW W_is => Some L_CMP
          | TW W_between => Some L_BETWEEN
          | TW W_escape => Some L_ESC
          | TW W_collate => Some L_COLLATE
          | TW W_not => match ts' with TW W_between :: _ => Some L_BETWEEN | _ => Some L_CMP end
          | _ => None
          end
      end
  | [] => None
  end.

(** what follows the left operand in [ploop] *)
Inductive ckind := CKIn | CKLike (il : bool) | CKBetween | CKSimple (o : cmpop).
Inductive lkind :=
| LKBin (o : binop) (r : list tok)
| LKAnd (r : list tok)
| LKOr (r : list tok)
| LKIs (r : list tok)
| LKCond (neg : bool) (k : ckind) (r : list tok)
| LKBad.
Definition ckind_of (t : tok) : option ckind :=
  match t with
  | TW W_in => Some CKIn | TW W_like => Some (CKLike false) | TW W_ilike => Some (CKLike true)
  | TW W_between => Some CKBetween
  | _ => match simple_cmp_of t with Some o => Some (CKSimple o) | None => None end
  end.
Definition loop_kind (ts : list tok) : lkind :=
  match ts with
  | t :: ts1 =>
      match binop_of t with
      | Some o => LKBin o ts1
      | None =>
          match t with
          | TW W_and => LKAnd ts1
          | TW W_or => LKOr ts1
          | TW W_is => LKIs ts1
          | TW W_escape | TW W_collate => LKBad
          | TW W_not =>
              match ts1 with
              | t' :: ts2 =>
                  match ckind_of t' with
                  | Some (CKSimple CRegexp) => LKCond true (CKSimple CNotRegexp) ts2
                  | Some (CKSimple _) => LKBad
                  | Some k => LKCond true k ts2
                  | None => LKBad
                  end
              | [] => LKBad
              end
          | _ => match ckind_of t with Some k => LKCond false k ts1 | None => LKBad end
          end
      end
  | [] => LKBad
  end.

Definition un_head (ts : list tok) : option (unop * list tok) :=
  match ts with
  | TP PMinus :: r => Some (UMinus, r) | TP PPlus :: r => Some (UPlus, r) | TP PTilde :: r => Some (UTilda, r)
  | TP PBang :: r => Some (UBang, r) | TW W_binary :: r => Some (UBinary, r) | TW W__binary :: r => Some (UUBinary, r)
  | _ => None
  end.

Inductive chead := CHSome (cs : bytes) (r : list tok) | CHBad | CHNone.
Definition collate_head (ts : list tok) : chead :=
  match ts with
  | TW W_collate :: TId cs :: r => CHSome cs r
  | TW W_collate :: _ => CHBad
  | _ => CHNone
  end.

Definition is_suffix (ts : list tok) : option (issuf * list tok) :=
  match ts with
  | TW W_null :: r => Some (IsNull, r)
  | TW W_true :: r => Some (IsTrue, r)
  | TW W_false :: r => Some (IsFalse, r)
  | TW W_not :: TW W_null :: r => Some (IsNotNull, r)
  | TW W_not :: TW W_true :: r => Some (IsNotTrue, r)
  | TW W_not :: TW W_false :: r => Some (IsNotFalse, r)
  | _ => None
  end.

Fixpoint take_casts (ts : list tok) : list bytes * list tok :=
  match ts with
  | TCast c :: ts' => let (cs, r) := take_casts ts' in (c :: cs, r)
  | _ => ([], ts)
  end.

Definition kw_name (t : tok) : option bytes :=
  match t with TW w => Some (word_text w) | TKw s => Some s | _ => None end.
Definition is_unit_tok (t : tok) : option bytes :=
  match kw_name t with Some u => if mem_bytes u INTERVAL_UNITS then Some u else None | None => None end.

Definition pdir (ts : list tok) : odir * list tok :=
  match ts with
  | TW W_asc :: TW W_nulls :: TW W_first :: r => (DAscNF, r)
  | TW W_asc :: TW W_nulls :: TW W_last :: r => (DAscNL, r)
  | TW W_asc :: r => (DAsc, r)
  | TW W_desc :: TW W_nulls :: TW W_first :: r => (DDescNF, r)
  | TW W_desc :: TW W_nulls :: TW W_last :: r => (DDescNL, r)
  | TW W_desc :: r => (DDesc, r)
  | _ => (DAsc, ts)
  end.
Definition plock (ts : list tok) : lockk * list tok :=
  match ts with
  | TW W_for :: TW W_update :: r => (LkForUpdate, r)
  | TW W_lock :: TW W_in :: TW W_share :: TW W_mode :: r => (LkShare, r)
  | _ => (LkNone, ts)
  end.
Definition utype_head (ts : list tok) : utype * list tok :=
  match ts with
  | TW W_all :: r => (UAll, r)
  | TW W_distinct :: r => (UDistinct, r)
  | _ => (UUnion, ts)
  end.
Definition join_head (ts : list tok) : option (jkind * list tok) :=
  match ts with
  | TW W_join :: r => Some (JJoin, r)
  | TW W_straight_join :: r => Some (JStraight, r)
  | TW W_left :: TW W_join :: r => Some (JLeft, r)
  | TW W_right :: TW W_join :: r => Some (JRight, r)
  | TW W_natural :: TW W_join :: r => Some (JNatural, r)
  | TW W_natural :: TW W_left :: TW W_join :: r => Some (JNaturalLeft, r)
  | TW W_natural :: TW W_right :: TW W_join :: r => Some (JNaturalRight, r)
  | _ => None
  end.
Definition with_tails (s : sel) (ob : orders) (lm : lim) (lk : lockk) : sel :=
  match s with Select d xs from wh gb hv _ _ _ => Select d xs from wh gb hv ob lm lk | _ => s end.
Definition x_dual_t : texprs := TCons (TTable no_id (Id QNone x_dual) no_id) TNil.
Definition fclass_ok (cls : N) (d : bool) (args : selexprs) : bool :=
  match cls, args with
  | 0%N, SNil => negb d
  | 0%N, _ => true
  | 1%N, SNil => false
  | 1%N, _ => negb d
  | 2%N, SNil => negb d
  | 3%N, _ => negb d
  | _, _ => false
  end.
Definition one_or_tuple (xs : exprs) : expr := match xs with XCons x XNil => EParen x | _ => ETuple xs end.

Definition fold_minus (x : expr) : option expr :=
  match x with
  | ELit t v cs =>
      if is_int t then
        match v with
        | [] => None (* num.Val[0] would panic; INTEGRAL tokens are never empty *)
        | c :: v' => if byte_eqb c x_minus then Some (ELit t v' cs) else Some (ELit t (x_minus :: v) [])
        end
      else Some (EUn UMinus x)
  | _ => Some (EUn UMinus x)
  end.
Definition fold_plus (x : expr) : expr := if is_intlit x then x else EUn UPlus x.
Definition un_apply (o : unop) (x : expr) : option expr :=
  match o with UMinus => fold_minus x | UPlus => Some (fold_plus x) | _ => Some (EUn o x) end.

Section Dialect.
Variable pg : bool.

(** sql_id / table_id tokens; a double-quoted one is an identifier only in PostgreSQL *)
Definition tok_id (t : tok) : option ident :=
  match t with
  | TId n => Some (Id QNone n)
  | TDq n => if pg then Some (Id QDq n) else None
  | _ => None
  end.
(** column_id (aliases, INSERT columns) *)
Definition tok_alias (t : tok) : option ident :=
  match t with
  | TId n => Some (Id QNone n)
  | TDq n => Some (Id QDq n)
  | TLit t v => if N.eqb t VT_StrVal then Some (Id QSq v) else None
  | _ => None
  end.
(** table alias (table_id) *)
Definition tok_talias (t : tok) : option ident :=
  match t with TDq _ => if pg then tok_alias t else None | _ => tok_alias t end.

(** [i] ('.' id){0,2}, not followed by another '.' *)
Definition pcol (i : ident) (ts : list tok) : option (list ident * ident * list tok) :=
  match ts with
  | TP PDot :: t2 :: ts2 =>
      match tok_id t2 with
      | Some i2 =>
          match ts2 with
          | TP PDot :: t3 :: ts3 =>
              match tok_id t3 with
              | Some i3 => match ts3 with TP PDot :: _ => None | _ => Some ([i; i2], i3, ts3) end
              | None => None
              end
          | TP PDot :: [] => None
          | _ => Some ([i], i2, ts2)
          end
      | None => None
      end
  | TP PDot :: [] => None
  | _ => Some ([], i, ts)
  end.

(** id (',' id)* ')' *)
Fixpoint pidents (tid : tok -> option ident) (ts : list tok) : option (list ident * list tok) :=
  match ts with
  | t :: TP PComma :: ts' =>
      match tid t, pidents tid ts' with Some i, Some (l, r) => Some (i :: l, r) | _, _ => None end
  | t :: TP PRParen :: ts' => match tid t with Some i => Some ([i], ts') | None => None end
  | _ => None
  end.

(** [AS alias] after a select expression / table; None: malformed *)
Definition as_alias (tid : tok -> option ident) (ts : list tok) : option (ident * list tok) :=
  match ts with
  | TW W_as :: ta :: r => match tid ta with Some a => Some (a, r) | None => None end
  | TW W_as :: [] => None
  | _ => Some (no_id, ts)
  end.

(** '*', t '.' '*', d '.' t '.' '*' *)
Definition star_head (ts : list tok) : option (list ident * list tok) :=
  match ts with
  | TP PStar :: r => Some ([], r)
  | t1 :: TP PDot :: TP PStar :: r => match tok_id t1 with Some i1 => Some ([i1], r) | None => None end
  | t1 :: TP PDot :: t2 :: TP PDot :: TP PStar :: r =>
      match tok_id t1, tok_id t2 with Some i1, Some i2 => Some ([i1; i2], r) | _, _ => None end
  | _ => None
  end.

(** table_name *)
Definition ptname (ts : list tok) : option (ident * ident * list tok) :=
  match ts with
  | t :: ts1 =>
      match tok_id t with
      | Some i =>
          match ts1 with
          | TP PDot :: t2 :: ts2 => match tok_id t2 with Some i2 => Some (i, i2, ts2) | None => None end
          | TP PDot :: [] => None
          | _ => Some (no_id, i, ts1)
          end
      | None => None
      end
  | [] => None
  end.

(** convert_type (the alternatives without a charset) *)
Definition pctype (ts : list tok) : option (ctype * list tok) :=
  match ts with
  | t :: ts1 =>
      match kw_name t with
      | Some ty =>
          match ctype_class ty with
          | Some cls =>
              match ts1 with
              | TP PLParen :: TLit tl l :: TP PRParen :: ts2 =>
                  if is_int tl && negb (N.eqb cls 0) then Some (CT ty (Some l) None, ts2) else None
              | TP PLParen :: TLit tl l :: TP PComma :: TLit tsc sc :: TP PRParen :: ts2 =>
                  if is_int tl && is_int tsc && N.eqb cls 2 then Some (CT ty (Some l) (Some sc), ts2) else None
              | TP PLParen :: _ => None
              | _ => Some (CT ty None None, ts1)
              end
          | None => None
          end
      | None => None
      end
  | [] => None
  end.

(** the tokens start with a string literal that no cast follows *)
Definition str_first (ts : list tok) : bool :=
  match ts with
  | TLit _ _ :: TCast _ :: _ => false
  | TLit t _ :: _ => N.eqb t VT_StrVal
  | _ => false
  end.

(** head of an atom *)
Inductive ahead :=
| AHLit (t : N) (v : bytes) (cs : list bytes) (r : list tok)
| AHName (i : ident) (r : list tok)
| AHConst (e : expr) (r : list tok)           (* null true false default *)
| AHExists (r : list tok)                     (* r starts at SELECT *)
| AHSubq (r : list tok)                       (* r starts at SELECT *)
| AHParen (r : list tok)
| AHCase (r : list tok)
| AHConvert (r : list tok)
| AHIntervalPg (v : bytes) (r : list tok)
| AHInterval (r : list tok)
| AHValues (i : ident) (r : list tok)
| AHKwFunc (n : bytes) (cls : N) (r : list tok)
| AHNone.
Definition atom_head (ts : list tok) : ahead :=
  match ts with
  | TLit t v :: ts1 => let (cs, r) := take_casts ts1 in AHLit t v cs r
  | TId n :: r => AHName (Id QNone n) r
  | TDq n :: ts1 =>
      if pg then AHName (Id QDq n) ts1 else let (cs, r) := take_casts ts1 in AHLit VT_StrVal n cs r
  | TW W_null :: r => AHConst ENull r
  | TW W_true :: r => AHConst (EBool true) r
  | TW W_false :: r => AHConst (EBool false) r
  | TW W_default :: r => AHConst EDefault r
  | TW W_exists :: TP PLParen :: r => if head_w W_select r then AHExists r else AHNone
  | TP PLParen :: r => if head_w W_select r then AHSubq r else AHParen r
  | TW W_case :: r => AHCase r
  | TW W_convert :: TP PLParen :: r => AHConvert r
  | TW W_interval :: ts1 =>
      if pg then
        match ts1 with
        | TLit t v :: r => if N.eqb t VT_StrVal then AHIntervalPg v r else AHNone
        | _ => AHNone
        end
      else
        (* INTERVAL SINGLE_QUOTE_STRING is reduced to the PostgreSQL form (reduce/reduce conflict with value,
           the earlier rule wins) unless a cast follows; the grammar action rejects that form in MySQL *)
        if str_first ts1 then AHNone else AHInterval ts1
  | TW W_values :: TP PLParen :: t :: r => match tok_id t with Some i => AHValues i r | None => AHNone end
  | t :: TP PLParen :: r =>
      match kw_name t with
      | Some n => match fname_class n with Some cls => AHKwFunc n cls r | None => AHNone end
      | None => AHNone
      end
  | _ => AHNone
  end.

(** after name '(' : ')' | DISTINCT list | list *)
Inductive fhead := FHEmpty (r : list tok) | FHDistinct (r : list tok) | FHArgs (r : list tok).
Definition fargs_head (ts : list tok) : fhead :=
  match ts with
  | TP PRParen :: r => FHEmpty r
  | TW W_distinct :: r => FHDistinct r
  | _ => FHArgs ts
  end.

(** join_condition_opt (ON / USING '(' columns ')'), before the expression of ON is parsed *)
Inductive jhead := JHOn (r : list tok) | JHUsing (cols : list ident) (r : list tok) | JHNone | JHBad.
Definition jcond_head (usng : bool) (ts : list tok) : jhead :=
  match ts with
  | TW W_on :: r => JHOn r
  | TW W_using :: TP PLParen :: ts2 =>
      if usng then match pidents tok_id ts2 with Some (cols, r) => JHUsing cols r | None => JHBad end else JHNone
  | _ => JHNone
  end.

(** LIMIT forms, before the expressions are parsed *)
Inductive lhead := LHNone | LHAll (r : list tok) | LHAllOffset (r : list tok) | LHExpr (r : list tok) | LHBad.
Definition lim_head (ts : list tok) : lhead :=
  match ts with
  | TW W_limit :: TW W_all :: TW W_offset :: r => if pg then LHAllOffset r else LHBad
  | TW W_limit :: TW W_all :: r => if pg then LHAll r else LHBad
  | TW W_limit :: r => LHExpr r
  | _ => LHNone
  end.
Inductive lhead2 := L2Comma (r : list tok) | L2Offset (r : list tok) | L2None | L2Bad.
Definition lim_head2 (ts : list tok) : lhead2 :=
  match ts with
  | TP PComma :: r => if pg then L2Bad else L2Comma r
  | TW W_offset :: r => L2Offset r
  | _ => L2None
  end.

Definition PE := option (expr * list tok).

(** [w] expression, optional *)
Definition popt (pe : list tok -> PE) (w : word) (ts : list tok) : option (oexpr * list tok) :=
  match expect_w w ts with
  | Some ts1 => match pe ts1 with Some (x, r) => Some (SomeE x, r) | None => None end
  | None => Some (NoE, ts)
  end.

Definition plim (pe : list tok -> PE) (ts : list tok) : option (lim * list tok) :=
  match lim_head ts with
  | LHNone => Some (LNone, ts)
  | LHBad => None
  | LHAll r => Some (LAll, r)
  | LHAllOffset r => match pe r with Some (o, r') => Some (LAllOffset o, r') | None => None end
  | LHExpr ts1 =>
      match pe ts1 with
      | Some (a, ts2) =>
          match lim_head2 ts2 with
          | L2Comma ts3 => match pe ts3 with Some (b, r) => Some (LComma a b, r) | None => None end
          | L2Offset ts3 => match pe ts3 with Some (b, r) => Some (LOffset a b, r) | None => None end
          | L2None => Some (LOnly a, ts2)
          | L2Bad => None
          end
      | None => None
      end
  end.

Fixpoint pexpr (f : nat) (min : nat) (ts : list tok) {struct f} : PE :=
  match f with
  | O => None
  | S f =>
      match expect_w W_not ts with
      | Some ts1 =>
          if min <=? L_NOT then
            match pexpr f L_NOT ts1 with
            | Some (x, ts2) => ploop f min (ENot x) ts2
            | None => None
            end
          else None
      | None =>
          match punary f ts with
          | Some (lhs, ts1) => ploop f min lhs ts1
          | None => None
          end
      end
  end

(** operand of a value-level construct *)
with pval (f : nat) (min : nat) (ts : list tok) {struct f} : PE :=
  match f with
  | O => None
  | S f =>
      match pexpr f min ts with
      | Some (x, r) => if is_v x then Some (x, r) else None
      | None => None
      end
  end

with ploop (f : nat) (min : nat) (lhs : expr) (ts : list tok) {struct f} : PE :=
  match f with
  | O => None
  | S f =>
      match tokprec ts with
      | None => Some (lhs, ts)
      | Some p =>
          if p <? min then Some (lhs, ts) else
          match loop_kind ts with
          | LKBin o ts1 =>
              if is_v lhs then
                match pval f (S p) ts1 with
                | Some (r, ts2) => ploop f min (EBin o lhs r) ts2
                | None => None
                end
              else None
          | LKAnd ts1 =>
              match pexpr f (S L_AND) ts1 with
              | Some (r, ts2) => ploop f min (EAnd lhs r) ts2
              | None => None
              end
          | LKOr ts1 =>
              match pexpr f (S L_OR) ts1 with
              | Some (r, ts2) => ploop f min (EOr lhs r) ts2
              | None => None
              end
          | LKIs ts1 =>
              match is_suffix ts1 with
              | Some (s, ts2) => ploop f min (EIs s lhs) ts2
              | None => None
              end
          | LKCond neg k ts1 => if is_v lhs then pcond f min lhs neg k ts1 else None
          | LKBad => None
          end
      end
  end

(** conditions: lhs [NOT] (cmp|IN|LIKE|ILIKE|REGEXP|BETWEEN) ... (the operator is consumed by [ploop]) *)
with pcond (f : nat) (min : nat) (lhs : expr) (neg : bool) (k : ckind) (ts : list tok) {struct f} : PE :=
  match f with
  | O => None
  | S f =>
      match k with
      | CKIn =>
          match expect_p PLParen ts with
          | Some ts1 =>
              if head_w W_select ts1 then
                match psel f ts1 with
                | Some (q, ts2) =>
                    match expect_p PRParen ts2 with
                    | Some ts3 => ploop f min (ECmp (if neg then CNotIn else CIn) lhs (ESubq q)) ts3
                    | None => None
                    end
                | None => None
                end
              else
                match pexprs f ts1 with
                | Some (xs, ts2) =>
                    match expect_p PRParen ts2 with
                    | Some ts3 => ploop f min (ECmp (if neg then CNotIn else CIn) lhs (ETuple xs)) ts3
                    | None => None
                    end
                | None => None
                end
          | None => None
          end
      | CKLike il =>
          let op := if il then (if neg then CNotILike else CILike) else (if neg then CNotLike else CLike) in
          if il && negb pg then None else
          match pval f L_VAL ts with
          | Some (r, ts1) =>
              match expect_w W_escape ts1 with
              | Some ts2 =>
                  match pval f L_VAL ts2 with
                  | Some (esc, ts3) => ploop f min (ECmpEsc op lhs r esc) ts3
                  | None => None
                  end
              | None => ploop f min (ECmp op lhs r) ts1
              end
          | None => None
          end
      | CKBetween =>
          match pval f L_VAL ts with
          | Some (a, ts1) =>
              match expect_w W_and ts1 with
              | Some ts2 =>
                  match pval f L_VAL ts2 with
                  | Some (b, ts3) => ploop f min (ERange neg lhs a b) ts3
                  | None => None
                  end
              | None => None
              end
          | None => None
          end
      | CKSimple o =>
          match pval f L_VAL ts with
          | Some (r, ts1) => ploop f min (ECmp o lhs r) ts1
          | None => None
          end
      end
  end

(** prefix operators (their operand: prefix operators / atoms with COLLATE suffixes) *)
with punary (f : nat) (ts : list tok) {struct f} : PE :=
  match f with
  | O => None
  | S f =>
      match un_head ts with
      | Some (o, ts1) =>
          match punary f ts1 with
          | Some (x, ts2) =>
              if is_v x then match un_apply o x with Some y => Some (y, ts2) | None => None end else None
          | None => None
          end
      | None =>
          match patom f ts with
          | Some (x, ts1) => pcollate f x ts1
          | None => None
          end
      end
  end

with pcollate (f : nat) (x : expr) (ts : list tok) {struct f} : PE :=
  match f with
  | O => None
  | S f =>
      match collate_head ts with
      | CHSome cs ts' => if is_v x then pcollate f (ECollate x cs) ts' else None
      | CHBad => None
      | CHNone => Some (x, ts)
      end
  end

(** name '(' [DISTINCT] select_expression_list ')' after the '(' *)
with pfargs (f : nat) (q : ident) (n : bytes) (cls : N) (ts : list tok) {struct f} : PE :=
  match f with
  | O => None
  | S f =>
      match fargs_head ts with
      | FHEmpty r => if fclass_ok cls false SNil then Some (EFunc q n false SNil, r) else None
      | FHDistinct ts1 =>
          match pselexprs f ts1 with
          | Some (args, ts2) =>
              match expect_p PRParen ts2 with
              | Some r => if fclass_ok cls true args then Some (EFunc q n true args, r) else None
              | None => None
              end
          | None => None
          end
      | FHArgs ts1 =>
          match pselexprs f ts1 with
          | Some (args, ts2) =>
              match expect_p PRParen ts2 with
              | Some r => if fclass_ok cls false args then Some (EFunc q n false args, r) else None
              | None => None
              end
          | None => None
          end
      end
  end

with patom (f : nat) (ts : list tok) {struct f} : PE :=
  match f with
  | O => None
  | S f =>
      match atom_head ts with
      | AHLit t v cs r => Some (ELit t v cs, r)
      | AHName i ts1 =>
          match pcol i ts1 with
          | Some (q, nm, ts2) =>
              match expect_p PLParen ts2 with
              | Some ts3 =>
                  match nm, q with
                  | Id QNone n, [] => pfargs f no_id n 0%N ts3
                  | Id QNone n, [qi] => if head_w W_distinct ts3 then None else pfargs f qi n 0%N ts3
                  | _, _ => None
                  end
              | None => Some (ECol q nm, ts2)
              end
          | None => None
          end
      | AHConst e r => Some (e, r)
      | AHExists ts1 =>
          match psel f ts1 with
          | Some (q, ts2) => match expect_p PRParen ts2 with Some r => Some (EExists q, r) | None => None end
          | None => None
          end
      | AHSubq ts1 =>
          match psel f ts1 with
          | Some (q, ts2) => match expect_p PRParen ts2 with Some r => Some (ESubq q, r) | None => None end
          | None => None
          end
      | AHParen ts1 =>
          match pexprs f ts1 with
          | Some (xs, ts2) => match expect_p PRParen ts2 with Some r => Some (one_or_tuple xs, r) | None => None end
          | None => None
          end
      | AHCase ts1 =>
          match (if head_w W_when ts1 then Some (NoE, ts1)
                 else match pexpr f 0 ts1 with Some (x, r) => Some (SomeE x, r) | None => None end) with
          | Some (x, ts2) =>
              match pwhens f ts2 with
              | Some (WNil, _) => None
              | Some (ws, ts3) =>
                  match popt (pexpr f 0) W_else ts3 with
                  | Some (el, ts4) => match expect_w W_end ts4 with Some r => Some (ECase x ws el, r) | None => None end
                  | None => None
                  end
              | None => None
              end
          | None => None
          end
      | AHConvert ts1 =>
          match pexpr f 0 ts1 with
          | Some (x, ts2) =>
              match expect_p PComma ts2 with
              | Some ts3 =>
                  match pctype ts3 with
                  | Some (ty, ts4) => match expect_p PRParen ts4 with Some r => Some (EConvert x ty, r) | None => None end
                  | None => None
                  end
              | None =>
                  match expect_w W_using ts2 with
                  | Some (TId cs :: TP PRParen :: r) => Some (EConvertUsing x cs, r)
                  | _ => None
                  end
              end
          | None => None
          end
      | AHIntervalPg v r => Some (EInterval (ELit VT_StrVal v []) [], r)
      | AHInterval ts1 =>
          match pval f L_VAL ts1 with
          | Some (x, t :: r) => match is_unit_tok t with Some u => Some (EInterval x u, r) | None => None end
          | _ => None
          end
      | AHValues i ts1 =>
          match pcol i ts1 with
          | Some (q, n, ts2) => match expect_p PRParen ts2 with Some r => Some (EValuesFunc q n, r) | None => None end
          | None => None
          end
      | AHKwFunc n cls ts1 => pfargs f no_id n cls ts1
      | AHNone => None
      end
  end

(** expression (',' expression)* *)
with pexprs (f : nat) (ts : list tok) {struct f} : option (exprs * list tok) :=
  match f with
  | O => None
  | S f =>
      match pexpr f 0 ts with
      | Some (x, ts1) =>
          match expect_p PComma ts1 with
          | Some ts2 =>
              match pexprs f ts2 with
              | Some (xs, ts3) => Some (XCons x xs, ts3)
              | None => None
              end
          | None => Some (XCons x XNil, ts1)
          end
      | None => None
      end
  end

with pwhens (f : nat) (ts : list tok) {struct f} : option (whens * list tok) :=
  match f with
  | O => None
  | S f =>
      match expect_w W_when ts with
      | Some ts1 =>
          match pexpr f 0 ts1 with
          | Some (c, ts2) =>
              match expect_w W_then ts2 with
              | Some ts3 =>
                  match pexpr f 0 ts3 with
                  | Some (v, ts4) =>
                      match pwhens f ts4 with
                      | Some (ws, ts5) => Some (WCons c v ws, ts5)
                      | None => None
                      end
                  | None => None
                  end
              | None => None
              end
          | None => None
          end
      | None => Some (WNil, ts)
      end
  end

with pselexpr (f : nat) (ts : list tok) {struct f} : option (selexpr * list tok) :=
  match f with
  | O => None
  | S f =>
      match star_head ts with
      | Some (q, r) => Some (SStar q, r)
      | None =>
          match pexpr f 0 ts with
          | Some (x, ts1) =>
              match as_alias tok_alias ts1 with
              | Some (a, r) => Some (SAliased x a, r)
              | None => None
              end
          | None => None
          end
      end
  end

with pselexprs (f : nat) (ts : list tok) {struct f} : option (selexprs * list tok) :=
  match f with
  | O => None
  | S f =>
      match pselexpr f ts with
      | Some (x, ts1) =>
          match expect_p PComma ts1 with
          | Some ts2 =>
              match pselexprs f ts2 with
              | Some (xs, ts3) => Some (SCons x xs, ts3)
              | None => None
              end
          | None => Some (SCons x SNil, ts1)
          end
      | None => None
      end
  end

(** base_select: SELECT [DISTINCT] list [FROM ..] [WHERE ..] [GROUP BY ..] [HAVING ..] *)
with pbase (f : nat) (ts : list tok) {struct f} : option (sel * list tok) :=
  match f with
  | O => None
  | S f =>
      match expect_w W_select ts with
      | Some ts1 =>
          let (d, ts2) := match expect_w W_distinct ts1 with Some r => (true, r) | None => (false, ts1) end in
          match pselexprs f ts2 with
          | Some (xs, ts3) =>
              match (match expect_w W_from ts3 with Some ts4 => ptrefs f ts4 | None => Some (x_dual_t, ts3) end) with
              | Some (from, ts5) =>
                  match popt (pexpr f 0) W_where ts5 with
                  | Some (wh, ts6) =>
                      match (match expect_w W_group ts6 with
                             | Some ts7 => match expect_w W_by ts7 with Some ts8 => pexprs f ts8 | None => None end
                             | None => Some (XNil, ts6)
                             end) with
                      | Some (gb, ts9) =>
                          match popt (pexpr f 0) W_having ts9 with
                          | Some (hv, ts10) => Some (Select d xs from wh gb hv ONil LNone LkNone, ts10)
                          | None => None
                          end
                      | None => None
                      end
                  | None => None
                  end
              | None => None
              end
          | None => None
          end
      | None => None
      end
  end

(** order_by_opt limit_opt lock_opt *)
with ptails (f : nat) (ts : list tok) {struct f} : option (orders * lim * lockk * list tok) :=
  match f with
  | O => None
  | S f =>
      match (match expect_w W_order ts with
             | Some ts1 => match expect_w W_by ts1 with Some ts2 => porders f ts2 | None => None end
             | None => Some (ONil, ts)
             end) with
      | Some (ob, ts3) =>
          match plim (pexpr f 0) ts3 with
          | Some (lm, ts4) => let (lk, ts5) := plock ts4 in Some (ob, lm, lk, ts5)
          | None => None
          end
      | None => None
      end
  end

(** select_statement *)
with psel (f : nat) (ts : list tok) {struct f} : option (sel * list tok) :=
  match f with
  | O => None
  | S f =>
      match expect_p PLParen ts with
      | Some ts1 =>
          match psel f ts1 with
          | Some (s, ts2) =>
              match expect_p PRParen ts2 with
              | Some ts3 => punion f (ParenSel s) ts3
              | None => None
              end
          | None => None
          end
      | None =>
          match pbase f ts with
          | Some (b, ts1) =>
              match ptails f ts1 with
              | Some (ob, lm, lk, ts2) => punion f (with_tails b ob lm lk) ts2
              | None => None
              end
          | None => None
          end
      end
  end

(** union_lhs union_op union_rhs order_by_opt limit_opt lock_opt, left recursive *)
with punion (f : nat) (lhs : sel) (ts : list tok) {struct f} : option (sel * list tok) :=
  match f with
  | O => None
  | S f =>
      match expect_w W_union ts with
      | Some ts1 =>
          let (ty, ts2) := utype_head ts1 in
          match (match expect_p PLParen ts2 with
                 | Some ts3 =>
                     match psel f ts3 with
                     | Some (s, ts4) => match expect_p PRParen ts4 with Some r => Some (ParenSel s, r) | None => None end
                     | None => None
                     end
                 | None => pbase f ts2
                 end) with
          | Some (rhs, ts5) =>
              match ptails f ts5 with
              | Some (ob, lm, lk, ts6) => punion f (Union ty lhs rhs ob lm lk) ts6
              | None => None
              end
          | None => None
          end
      | None => if is_paren lhs then None else Some (lhs, ts)
      end
  end

(** table_factor *)
with ptfactor (f : nat) (ts : list tok) {struct f} : option (texpr * list tok) :=
  match f with
  | O => None
  | S f =>
      match expect_p PLParen ts with
      | Some ts1 =>
          if head_w W_select ts1 then
            match psel f ts1 with
            | Some (s, ts2) =>
                match expect_p PRParen ts2 with
                | Some ts3 =>
                    match as_alias tok_talias ts3 with
                    | Some (a, r) => if id_empty a then None else Some (TSubq s a, r)
                    | None => None
                    end
                | None => None
                end
            | None => None
            end
          else
            match ptrefs f ts1 with
            | Some (l, ts2) => match expect_p PRParen ts2 with Some r => Some (TParen l, r) | None => None end
            | None => None
            end
      | None =>
          match ptname ts with
          | Some (q, n, ts1) =>
              match as_alias tok_talias ts1 with
              | Some (a, r) => Some (TTable q n a, r)
              | None => None
              end
          | None => None
          end
      end
  end

(** table_reference: table_factor followed by joins (left recursive) *)
with ptref (f : nat) (ts : list tok) {struct f} : option (texpr * list tok) :=
  match f with
  | O => None
  | S f =>
      match ptfactor f ts with
      | Some (l, ts1) => pjoins f l ts1
      | None => None
      end
  end

(** join_condition_opt / on_expression_opt: ON and USING are shifted (precedence of ON, USING above JOIN) *)
with pjcond (f : nat) (usng : bool) (ts : list tok) {struct f} : option (jcond * list tok) :=
  match f with
  | O => None
  | S f =>
      match jcond_head usng ts with
      | JHOn ts1 => match pexpr f 0 ts1 with Some (x, r) => Some (JOn x, r) | None => None end
      | JHUsing cols r => Some (JUsing cols, r)
      | JHNone => Some (JNone, ts)
      | JHBad => None
      end
  end

with pjoins (f : nat) (lhs : texpr) (ts : list tok) {struct f} : option (texpr * list tok) :=
  match f with
  | O => None
  | S f =>
      match join_head ts with
      | Some (k, ts1) =>
          match k with
          | JLeft | JRight =>
              match ptref f ts1 with
              | Some (r, ts2) =>
                  match pjcond f true ts2 with
                  | Some (JNone, _) => None
                  | Some (c, ts3) => pjoins f (TJoin lhs k r c) ts3
                  | None => None
                  end
              | None => None
              end
          | JJoin | JStraight =>
              match ptfactor f ts1 with
              | Some (r, ts2) =>
                  match pjcond f (match k with JJoin => true | _ => false end) ts2 with
                  | Some (c, ts3) => pjoins f (TJoin lhs k r c) ts3
                  | None => None
                  end
              | None => None
              end
          | _ =>
              match ptfactor f ts1 with
              | Some (r, ts2) => pjoins f (TJoin lhs k r JNone) ts2
              | None => None
              end
          end
      | None => Some (lhs, ts)
      end
  end

with ptrefs (f : nat) (ts : list tok) {struct f} : option (texprs * list tok) :=
  match f with
  | O => None
  | S f =>
      match ptref f ts with
      | Some (t, ts1) =>
          match expect_p PComma ts1 with
          | Some ts2 =>
              match ptrefs f ts2 with
              | Some (l, ts3) => Some (TCons t l, ts3)
              | None => None
              end
          | None => Some (TCons t TNil, ts1)
          end
      | None => None
      end
  end

(** order (',' order)* *)
with porders (f : nat) (ts : list tok) {struct f} : option (orders * list tok) :=
  match f with
  | O => None
  | S f =>
      match pexpr f 0 ts with
      | Some (x, ts1) =>
          let (d, ts2) := pdir ts1 in
          match expect_p PComma ts2 with
          | Some ts3 =>
              match porders f ts3 with
              | Some (os, ts4) => Some (OCons x d os, ts4)
              | None => None
              end
          | None => Some (OCons x d ONil, ts2)
          end
      | None => None
      end
  end.

(** update_list: column_name '=' expression, ... *)
Fixpoint pupdates (f : nat) (ts : list tok) {struct f} : option (updates * list tok) :=
  match f with
  | O => None
  | S f' =>
      match ts with
      | t :: ts1 =>
          match tok_id t with
          | Some i =>
              match pcol i ts1 with
              | Some (q, n, ts2) =>
                  match expect_p PEq ts2 with
                  | Some ts3 =>
                      match pexpr f 0 ts3 with
                      | Some (x, ts4) =>
                          match expect_p PComma ts4 with
                          | Some ts5 =>
                              match pupdates f' ts5 with
                              | Some (us, ts6) => Some (UCons q n x us, ts6)
                              | None => None
                              end
                          | None => Some (UCons q n x UNil, ts4)
                          end
                      | None => None
                      end
                  | None => None
                  end
              | None => None
              end
          | None => None
          end
      | [] => None
      end
  end.

(** tuple_list: '(' [expression_list] ')' , ... *)
Definition prow (f : nat) (ts : list tok) : option (exprs * list tok) :=
  match expect_p PLParen ts with
  | Some ts1 =>
      match expect_p PRParen ts1 with
      | Some r => Some (XNil, r)
      | None =>
          match pexprs f ts1 with
          | Some (xs, ts2) => match expect_p PRParen ts2 with Some r => Some (xs, r) | None => None end
          | None => None
          end
      end
  | None => None
  end.
Fixpoint prows (f : nat) (ts : list tok) {struct f} : option (rows * list tok) :=
  match f with
  | O => None
  | S f' =>
      match prow f ts with
      | Some (r, ts1) =>
          match expect_p PComma ts1 with
          | Some ts2 =>
              match prows f' ts2 with
              | Some (rs, ts3) => Some (RCons r rs, ts3)
              | None => None
              end
          | None => Some (RCons r RNil, ts1)
          end
      | None => None
      end
  end.

Definition pret (f : nat) (ts : list tok) : option (selexprs * list tok) :=
  match expect_w W_returning ts with Some ts1 => pselexprs f ts1 | None => Some (SNil, ts) end.
Definition pwhere (f : nat) (ts : list tok) : option (oexpr * list tok) := popt (pexpr f 0) W_where ts.

Definition dup_head (ts : list tok) : option (list tok) :=
  match ts with TW W_on :: TW W_duplicate :: TW W_key :: TW W_update :: r => Some r | _ => None end.
Definition default_values (ts : list tok) : bool :=
  match ts with TW W_default :: TW W_values :: [] => true | _ => false end.

Definition pinsert (f : nat) (repl : bool) (ts : list tok) : option stmt :=
  let (ign, ts1) := match expect_w W_ignore ts with Some r => (true, r) | None => (false, ts) end in
  match expect_w W_into ts1 with
  | Some ts2 =>
      match ptname ts2 with
      | Some (tq, tn, ts3) =>
          if default_values ts3 then Some (SInsertDefault repl ign tq tn) else
          match (match expect_p PLParen ts3 with
                 | Some ts4 => pidents tok_alias ts4
                 | None => Some ([], ts3)
                 end) with
          | Some (cols, ts5) =>
              match (match expect_w W_values ts5 with
                     | Some ts6 => match prows f ts6 with Some (rs, r) => Some (IValues rs, r) | None => None end
                     | None =>
                         if head_w W_select ts5
                         then match psel f ts5 with Some (q, r) => Some (ISelect q, r) | None => None end
                         else None
                     end) with
              | Some (r, ts7) =>
                  match (match dup_head ts7 with
                         | Some ts8 => pupdates f ts8
                         | None => Some (UNil, ts7)
                         end) with
                  | Some (dup, ts9) =>
                      match pret f ts9 with
                      | Some (ret, []) => Some (SInsert repl ign tq tn cols r dup ret)
                      | _ => None
                      end
                  | None => None
                  end
              | None => None
              end
          | None => None
          end
      | None => None
      end
  | None => None
  end.

Definition pupdate (f : nat) (ts : list tok) : option stmt :=
  match ptrefs f ts with
  | Some (tbls, ts0) =>
      match expect_w W_set ts0 with
      | Some ts1 =>
          match pupdates f ts1 with
          | Some (set, ts2) =>
              match (match expect_w W_from ts2 with
                     | Some ts3 => if pg then ptrefs f ts3 else None
                     | None => Some (TNil, ts2)
                     end) with
              | Some (from, ts4) =>
                  match pwhere f ts4 with
                  | Some (wh, ts5) =>
                      match ptails f ts5 with
                      | Some (ob, lm, LkNone, ts6) =>
                          match pret f ts6 with
                          | Some (ret, []) =>
                              if pg || match ret with SNil => true | _ => false end
                              then Some (SUpdate tbls set from wh ob lm ret) else None
                          | _ => None
                          end
                      | _ => None
                      end
                  | None => None
                  end
              | None => None
              end
          | None => None
          end
      | None => None
      end
  | None => None
  end.

Definition pdelete (f : nat) (ts : list tok) : option stmt :=
  match expect_w W_from ts with
  | Some ts1 =>
      match ptrefs f ts1 with
      | Some (l, ts2) =>
          match expect_w W_using ts2 with
          | Some ts3 =>
              if all_ttable l then
                match ptrefs f ts3 with
                | Some (tbls, ts4) =>
                    match pwhere f ts4 with
                    | Some (wh, ts5) =>
                        match pret f ts5 with
                        | Some (ret, []) => Some (SDeleteMulti l tbls wh ret)
                        | _ => None
                        end
                    | None => None
                    end
                | None => None
                end
              else None
          | None =>
              if all_ttable l && single l then
                match pwhere f ts2 with
                | Some (wh, ts3) =>
                    match ptails f ts3 with
                    | Some (ob, lm, LkNone, ts4) =>
                        match pret f ts4 with
                        | Some (ret, []) => Some (SDelete l wh ob lm ret)
                        | _ => None
                        end
                    | _ => None
                    end
                | None => None
                end
              else None
          end
      | None => None
      end
  | None => None
  end.

Inductive shead := SHSelect | SHInsert (r : list tok) | SHReplace (r : list tok) | SHUpdate (r : list tok)
                 | SHDelete (r : list tok) | SHNone.
Definition stmt_head (ts : list tok) : shead :=
  match ts with
  | TW W_select :: _ | TP PLParen :: _ => SHSelect
  | TW W_insert :: r => SHInsert r
  | TW W_replace :: r => SHReplace r
  | TW W_update :: r => SHUpdate r
  | TW W_delete :: r => SHDelete r
  | _ => SHNone
  end.

Definition pstmt (f : nat) (ts : list tok) : option stmt :=
  match stmt_head ts with
  | SHSelect => match psel f ts with Some (q, []) => Some (SSelect q) | _ => None end
  | SHInsert r => pinsert f false r
  | SHReplace r => pinsert f true r
  | SHUpdate r => pupdate f r
  | SHDelete r => pdelete f r
  | SHNone => None
  end.

Definition parse_fuel (ts : list tok) : nat := 80 * length ts + 80.

Definition parse (ts : list tok) : option stmt :=
  if prec_sane then pstmt (parse_fuel ts) ts else None.

(** an expression alone (the form of the C13 expression theorems, for the extended fragment) *)
Definition parse_expr (ts : list tok) : option expr :=
  if prec_sane then
    match pexpr (parse_fuel ts) 0 ts with
    | Some (e, []) => Some e
    | _ => None
    end
  else None.
End Dialect.
