(** Keystore write protocols as PROGRAMS over back-end primitive calls (C08, C17).

    Anchors (acra, with the fix: patches of C08 applied):
      keystore/v2/keystore/filesystem/backend/api/backend.go   Get/Put(O_EXCL)/Remove/Rename/ListAll/Lock/Unlock/RLock/RUnlock
      keystore/v2/keystore/filesystem/keyStoreLoad.go           readKeyRing/writeKeyRing/openKeyRing/pullRingUpdates/pushASNring
      keystore/v2/keystore/filesystem/keyRing.go, keyRingTX.go  in-memory tx log, Apply/Rollback, pushTX/popTX
      keystore/v2/keystore/filesystem/key.go                    AddKey/SetState/SetCurrent/DestroyKey, key reads
      keystore/v2/keystore/{storage,keyRingUtils,keyStore}.go   import/generate = open+AddKey+SetCurrent, destroy current, ListKeys
      keystore/filesystem/server_keystore.go                    v1 WriteKeyFile/backupHistoricalKeyFile/SaveKeyPairWithFilename

    Abstractions (stated in REPORT): file names are structured values ([fname]) instead of path
    strings; a key ring file is (validity bit standing for the signature, list of
    (seqnum, state, key ordinal), current); key material is its ordinal (0 = data destroyed).
    No proofs in this file. *)
From Acra Require Import Lib.Bytes Lib.Outcome Gen.KswConsts.
Local Open Scope Z_scope.

(** * Storage *)
Inductive fname :=
| FRing (r : N)            (* "<ring>.keyring" *)
| FRingNew (r : N)         (* "<ring>.keyring.new" *)
| FKey (k : N)             (* v1 key file *)
| FTmp (k rnd : N)         (* v1 temporary "<key>.tmp.<random>" *)
| FOld (k ts : N).         (* v1 "<key>.old/<timestamp>" *)

Definition fname_eqb (a b : fname) : bool :=
  match a, b with
  | FRing x, FRing y => N.eqb x y
  | FRingNew x, FRingNew y => N.eqb x y
  | FKey x, FKey y => N.eqb x y
  | FTmp x r, FTmp y s => N.eqb x y && N.eqb r s
  | FOld x r, FOld y s => N.eqb x y && N.eqb r s
  | _, _ => false
  end.

Record kent := mk_kent { k_seq : Z; k_state : N; k_ord : N }.
Record ring := mk_ring { r_keys : list kent; r_cur : Z }.

Inductive content :=
| CRing (valid : bool) (r : ring)     (* v2 ring file; valid = the signature verifies *)
| CKey (ord : N) (whole : bool).      (* v1 key file; whole = all bytes present *)

Definition storage := list (fname * content).

Fixpoint lookup (n : fname) (st : storage) : option content :=
  match st with
  | [] => None
  | (m, c) :: rest => if fname_eqb n m then Some c else lookup n rest
  end.

Fixpoint remove (n : fname) (st : storage) : storage :=
  match st with
  | [] => []
  | (m, c) :: rest => if fname_eqb n m then remove n rest else (m, c) :: remove n rest
  end.

Definition put (n : fname) (c : content) (st : storage) : storage := (n, c) :: remove n st.

Definition names (st : storage) : list fname := map fst st.

(** * Back-end calls *)
Definition E_IO : N := 10.          (* injected I/O error *)
Definition E_EXIST : N := 11.       (* backend.ErrExist *)
Definition E_NOTEXIST : N := 12.    (* backend.ErrNotExist *)
Definition E_VERIFY : N := 13.      (* signature / parse failure of a ring file *)
Definition E_TX_CONCURRENT : N := 20.
Definition E_TX_NOTFOUND : N := 21.
Definition E_TX_EXISTS : N := 22.
Definition E_KEY_NOT_EXIST : N := 30.
Definition E_INVALID_STATE : N := 31.
Definition E_NO_CURRENT : N := 32.
Definition E_KEY_DESTROYED : N := 33.
Definition E_FORMAT_MISSING : N := 34.

Inductive bcall :=
| BLock | BUnlock | BRLock | BRUnlock
| BGet (n : fname)
| BPut (n : fname) (c : content)          (* exclusive create + fsync *)
| BRemove (n : fname)
| BRename (o n : fname)                   (* atomic, replaces the target *)
| BLink (o n : fname)                     (* v1 Link/Copy: fails if the target exists *)
| BWrite (n : fname) (c : content)        (* v1 WriteFile: create or replace content *)
| BStat (n : fname)
| BList.

Inductive bval := VUnit | VContent (c : content) | VNames (l : list fname).

(** effect of a call that runs normally (lock calls have no effect on the files) *)
Definition do_call (c : bcall) (st : storage) : res bval * storage :=
  match c with
  | BLock | BUnlock | BRLock | BRUnlock => (Ok VUnit, st)
  | BGet n => (match lookup n st with Some x => Ok (VContent x) | None => Err E_NOTEXIST end, st)
  | BPut n x => match lookup n st with Some _ => (Err E_EXIST, st) | None => (Ok VUnit, put n x st) end
  | BRemove n => match lookup n st with Some _ => (Ok VUnit, remove n st) | None => (Err E_NOTEXIST, st) end
  | BRename o n => match lookup o st with
                   | Some x => (Ok VUnit, put n x (remove o st))
                   | None => (Err E_NOTEXIST, st) end
  | BLink o n => match lookup o st, lookup n st with
                 | Some x, None => (Ok VUnit, put n x st)
                 | None, _ => (Err E_NOTEXIST, st)
                 | _, Some _ => (Err E_EXIST, st) end
  | BWrite n x => (Ok VUnit, put n x st)
  | BStat n => (match lookup n st with Some _ => Ok VUnit | None => Err E_NOTEXIST end, st)
  | BList => (Ok (VNames (names st)), st)
  end.

Definition tear (c : content) : content :=
  match c with CRing _ r => CRing false r | CKey o _ => CKey o false end.

(** storage after a torn call: only a NEW file being written can hold a strict prefix *)
Definition torn_call (c : bcall) (st : storage) : storage :=
  match c with
  | BPut n x => match lookup n st with Some _ => st | None => put n (tear x) st end
  | BWrite n x => put n (tear x) st
  | BLink o n => match lookup o st, lookup n st with
                 | Some x, None => put n (tear x) st     (* Copy fallback interrupted *)
                 | _, _ => st end
  | _ => st
  end.

(** * Programs: back-end calls with continuations *)
Inductive prog (A : Type) : Type :=
| Done (a : A)
| Call (c : bcall) (k : res bval -> prog A).
Arguments Done {A} a.
Arguments Call {A} c k.

Fixpoint pbind {A B} (p : prog A) (f : A -> prog B) : prog B :=
  match p with
  | Done a => f a
  | Call c k => Call c (fun v => pbind (k v) f)
  end.
Notation "'exe' x <- p ; q" := (pbind p (fun x => q)) (at level 200, x pattern, p at level 100, q at level 200).

Definition call (c : bcall) : prog (res bval) := Call c (fun v => Done v).

(** * Fault semantics (C08) *)
Inductive fkind := KErr | KCrashBefore | KCrashAfter | KTorn | KErrTorn.
Definition fault := option (nat * fkind).   (* index of the faulted call of the operation *)

Inductive mres (A : Type) :=
| Ret (a : A) (st : storage) (k : nat)   (* the operation returned; k = calls made *)
| Crash (st : storage).                  (* the process died; what is left on storage *)
Arguments Ret {A} a st k.
Arguments Crash {A} st.

Fixpoint exec {A} (p : prog A) (f : fault) (st : storage) (k : nat) : mres A :=
  match p with
  | Done a => Ret a st k
  | Call c cont =>
      let normal := exec (cont (fst (do_call c st))) f (snd (do_call c st)) (S k) in
      match f with
      | Some (kf, kind) =>
          if Nat.eqb k kf then
            match kind with
            | KErr => exec (cont (Err E_IO)) f st (S k)
            | KCrashBefore => Crash st
            | KCrashAfter => Crash (snd (do_call c st))
            | KTorn => Crash (torn_call c st)
            | KErrTorn => exec (cont (Err E_IO)) f (torn_call c st) (S k)
            end
          else normal
      | None => normal
      end
  end.

(** number of calls of a fault-free run *)
Definition calls_of {A} (p : prog A) (st : storage) : nat :=
  match exec p None st 0 with Ret _ _ k => k | Crash _ => 0 end.

(** * v2 key ring: in-memory object, transactions *)
Inductive tx :=
| TxSetCurrent (old new : Z)
| TxChangeState (seq : Z) (old new : N)
| TxAddKey (k : kent)
| TxDestroyData (seq : Z) (backup : N).

Record hring := mk_hring { h_path : N; h_data : ring; h_log : list tx }.

Definition empty_ring : ring := mk_ring [] KSW_NO_KEY.

(** asn1.KeyRing.KeyWithSeqnum: searches from the newest key *)
Fixpoint find_key_rev (ks : list kent) (s : Z) : option kent :=
  match ks with
  | [] => None
  | k :: rest => if Z.eqb (k_seq k) s then Some k else find_key_rev rest s
  end.
Definition key_with_seqnum (r : ring) (s : Z) : option kent := find_key_rev (rev (r_keys r)) s.

(** update the entry that KeyWithSeqnum designates (the last one with that seqnum) *)
Fixpoint upd_last (ks : list kent) (s : Z) (f : kent -> kent) : list kent * bool :=
  match ks with
  | [] => ([], false)
  | k :: rest =>
      let (rest', done) := upd_last rest s f in
      if done then (k :: rest', true)
      else if Z.eqb (k_seq k) s then (f k :: rest', true) else (k :: rest', false)
  end.
Definition upd_key (r : ring) (s : Z) (f : kent -> kent) : ring :=
  mk_ring (fst (upd_last (r_keys r) s f)) (r_cur r).

Definition next_seqnum (r : ring) : Z :=
  match rev (r_keys r) with [] => KSW_FIRST_SEQNUM | k :: _ => k_seq k + 1 end.

Fixpoint pair_in (a b : N) (l : list (N * N)) : bool :=
  match l with [] => false | (x, y) :: t => (N.eqb a x && N.eqb b y) || pair_in a b t end.
Definition transition_valid (o n : N) : bool := pair_in o n KSW_TRANSITIONS.

(** keyRingTX.go: Apply (returns the transaction as mutated by Apply: the data backup) *)
Definition apply_tx (r : ring) (t : tx) : res (ring * tx) :=
  match t with
  | TxSetCurrent old new =>
      if negb (Z.eqb (r_cur r) old) then Err E_TX_CONCURRENT else
      if negb (Z.eqb old KSW_NO_KEY) && match key_with_seqnum r old with None => true | _ => false end
      then Err E_TX_NOTFOUND else
      match key_with_seqnum r new with
      | None => Err E_TX_NOTFOUND
      | Some _ => Ok (mk_ring (r_keys r) new, t)
      end
  | TxChangeState s old new =>
      match key_with_seqnum r s with
      | None => Err E_TX_NOTFOUND
      | Some k => if negb (N.eqb (k_state k) old) then Err E_TX_CONCURRENT
                  else Ok (upd_key r s (fun k => mk_kent (k_seq k) new (k_ord k)), t)
      end
  | TxAddKey k =>
      match key_with_seqnum r (k_seq k) with
      | Some _ => Err E_TX_EXISTS
      | None => Ok (mk_ring (r_keys r ++ [k]) (r_cur r), t)
      end
  | TxDestroyData s _ =>
      match key_with_seqnum r s with
      | None => Err E_TX_NOTFOUND
      | Some k => Ok (upd_key r s (fun k => mk_kent (k_seq k) (k_state k) 0%N), TxDestroyData s (k_ord k))
      end
  end.

(** keyRingTX.go: Rollback (errors are only logged by the callers) *)
Definition rollback_tx (r : ring) (t : tx) : ring :=
  match t with
  | TxSetCurrent old new =>
      match key_with_seqnum r new with
      | None => r
      | Some _ =>
          if negb (Z.eqb old KSW_NO_KEY) && match key_with_seqnum r old with None => true | _ => false end
          then r else mk_ring (r_keys r) old
      end
  | TxChangeState s old _ => upd_key r s (fun k => mk_kent (k_seq k) old (k_ord k))
  | TxAddKey _ => mk_ring (removelast (r_keys r)) (r_cur r)
  | TxDestroyData s backup => upd_key r s (fun k => mk_kent (k_seq k) (k_state k) backup)
  end.

(** roll back a list of applied transactions given NEWEST FIRST *)
Fixpoint rollback_all (r : ring) (applied_rev : list tx) : ring :=
  match applied_rev with
  | [] => r
  | t :: rest => rollback_all (rollback_tx r t) rest
  end.

(** keyRing.go applyPendingTX: apply the log in order; on the first failure roll back the
    ones already applied (newest first) and report the error.
    Result: ring, log as mutated by Apply, applied transactions newest first, error. *)
Fixpoint apply_pending (r : ring) (applied_rev : list tx) (log : list tx)
  : ring * list tx * list tx * option N :=
  match log with
  | [] => (r, rev applied_rev, applied_rev, None)
  | t :: rest =>
      match apply_tx r t with
      | Ok (r', t') => apply_pending r' (t' :: applied_rev) rest
      | Err e => (rollback_all r applied_rev, rev applied_rev ++ t :: rest, [], Some e)
      | Panic => (r, rev applied_rev ++ t :: rest, [], Some E_GENERIC)
      end
  end.

Definition push_tx (h : hring) (t : tx) : hring := mk_hring (h_path h) (h_data h) (h_log h ++ [t]).
Definition pop_tx (h : hring) : hring := mk_hring (h_path h) (h_data h) (removelast (h_log h)).

(** * v2 key ring: storage protocol *)
Definition err_of {A B} (r : res A) : res B :=
  match r with Ok _ => Err E_GENERIC | Err e => Err e | Panic => Panic end.

(** pullRingUpdates: Get + verifyKeyRing *)
Definition pull (rid : N) : prog (res ring) :=
  exe v <- call (BGet (FRing rid));
  Done (match v with
        | Ok (VContent (CRing true r)) => Ok r
        | Ok _ => Err E_VERIFY
        | Err e => Err e
        | Panic => Panic
        end).

(** pushNewRingState/pushASNring (fixed): Put "<ring>.keyring.new" exclusively; a stale
    leftover is removed under the exclusive lock and the Put repeated; Rename over the ring *)
Definition push (rid : N) (r : ring) : prog (res unit) :=
  let rename := exe v <- call (BRename (FRingNew rid) (FRing rid));
                Done (match v with Ok _ => Ok tt | e => err_of e end) in
  exe v <- call (BPut (FRingNew rid) (CRing true r));
  match v with
  | Ok _ => rename
  | Err e =>
      if N.eqb e E_EXIST then
        exe v2 <- call (BRemove (FRingNew rid));
        match v2 with
        | Ok _ => exe v3 <- call (BPut (FRingNew rid) (CRing true r));
                  match v3 with Ok _ => rename | e3 => Done (err_of e3) end
        | e2 => Done (err_of e2)
        end
      else Done (Err e)
  | Panic => Done Panic
  end.

(** a section under a lock with Go's deferred unlock: the unlock error is reported only if
    the body succeeded *)
Definition locked {A} (lock unlock : bcall) (dflt : A) (body : prog (res unit * A)) : prog (res unit * A) :=
  exe l <- call lock;
  match l with
  | Ok _ =>
      exe ra <- body;
      exe u <- call unlock;
      Done (match fst ra, u with
            | Ok _, Ok _ => (Ok tt, snd ra)
            | Ok _, e => (err_of e, snd ra)
            | e, _ => (e, snd ra)
            end)
  | e => Done (err_of e, dflt)
  end.

(** keyStoreLoad.go writeKeyRing (fixed: the in-memory ring is rolled back when the new
    state cannot be persisted) *)
Definition write_key_ring (h : hring) : prog (res unit * hring) :=
  locked BLock BUnlock h
    (exe p <- pull (h_path h);
     match p with
     | Ok r =>
         match apply_pending r [] (h_log h) with
         | (r', log', _, Some e) => Done (Err e, mk_hring (h_path h) r' log')
         | (r', log', applied_rev, None) =>
             exe w <- push (h_path h) r';
             match w with
             | Ok _ => Done (Ok tt, mk_hring (h_path h) r' [])
             | e => Done (e, mk_hring (h_path h) (rollback_all r' applied_rev) log')
             end
         end
     | e => Done (err_of e, h)
     end).

(** readKeyRing *)
Definition read_key_ring (h : hring) : prog (res unit * hring) :=
  locked BRLock BRUnlock h
    (exe p <- pull (h_path h);
     Done (match p with
           | Ok r => (Ok tt, mk_hring (h_path h) r (h_log h))
           | e => (err_of e, h)
           end)).

Definition sync_key_ring (h : hring) : prog (res unit * hring) :=
  match h_log h with [] => read_key_ring h | _ => write_key_ring h end.

(** openKeyRing (OpenKeyRingRW): a missing ring is created empty *)
Definition open_key_ring_rw (rid : N) : prog (res unit * hring) :=
  let h := mk_hring rid empty_ring [] in
  locked BLock BUnlock h
    (exe p <- pull rid;
     match p with
     | Ok r => Done (Ok tt, mk_hring rid r [])
     | Err e =>
         if N.eqb e E_NOTEXIST
         then exe w <- push rid empty_ring; Done (w, h)
         else Done (Err e, h)
     | Panic => Done (Panic, h)
     end).

(** OpenKeyRing (read-only) *)
Definition open_key_ring (rid : N) : prog (res unit * hring) :=
  read_key_ring (mk_hring rid empty_ring []).

(** ring-level write operations of key.go/keyRing.go on a key ring object *)
Inductive wop :=
| WAdd (ord : N)                   (* AddKey *)
| WSetCurrent (seq : Z)            (* SetCurrent *)
| WSetState (seq : Z) (st : N)     (* SetState *)
| WDestroy (seq : Z).              (* DestroyKey *)

Definition with_txs (h : hring) (txs : list tx) : prog (res unit * hring) :=
  let h1 := fold_left push_tx txs h in
  exe r <- sync_key_ring h1;
  Done (match fst r with
        | Ok _ => r
        | e => (e, fold_left (fun h _ => pop_tx h) txs (snd r))
        end).

(** what an operation decides from the (possibly stale) in-memory ring BEFORE taking the lock:
    the transactions to log and the value it returns on success (key.go AddKey/newKey,
    SetState, SetCurrent, DestroyKey) *)
Definition prepare (h : hring) (o : wop) : res (list tx * Z) :=
  match o with
  | WAdd ord =>
      let s := next_seqnum (h_data h) in Ok ([TxAddKey (mk_kent s KSW_PREACTIVE ord)], s)
  | WSetCurrent s => Ok ([TxSetCurrent (r_cur (h_data h)) s], s)
  | WSetState s st =>
      match key_with_seqnum (h_data h) s with
      | None => Err E_KEY_NOT_EXIST
      | Some k =>
          if negb (transition_valid (k_state k) st) then Err E_INVALID_STATE
          else Ok ([TxChangeState s (k_state k) st], s)
      end
  | WDestroy s =>
      match key_with_seqnum (h_data h) s with
      | None => Err E_KEY_NOT_EXIST
      | Some k =>
          if negb (transition_valid (k_state k) KSW_DESTROYED) then Err E_INVALID_STATE
          else Ok ([TxDestroyData s 0%N; TxChangeState s (k_state k) KSW_DESTROYED], s)
      end
  end.

(** returns the result (for AddKey: the new seqnum) and the key ring object afterwards *)
Definition ring_op (h : hring) (o : wop) : prog (res Z * hring) :=
  match prepare h o with
  | Ok (txs, s) =>
      exe r <- with_txs h txs;
      Done (match fst r with Ok _ => Ok s | e => err_of e end, snd r)
  | Err e => Done (Err e, h)
  | Panic => Done (Panic, h)
  end.

(** reads on a key ring object (no back-end call) *)
Definition current_key (h : hring) : res Z :=
  if Z.eqb (r_cur (h_data h)) KSW_NO_KEY then Err E_NO_CURRENT else Ok (r_cur (h_data h)).
Definition all_keys (h : hring) : list Z := rev (map k_seq (r_keys (h_data h))).
Definition key_value (r : ring) (s : Z) : res N :=
  match key_with_seqnum r s with
  | None => Err E_KEY_NOT_EXIST
  | Some k => if N.eqb (k_state k) KSW_DESTROYED then Err E_KEY_DESTROYED
              else if N.eqb (k_ord k) 0 then Err E_FORMAT_MISSING else Ok (k_ord k)
  end.

(** * v2 keystore operations built from them (keystore/v2/keystore) *)

(** importClientIDSymmetricKey / GenerateClientIDSymmetricKey...: open, AddKey, SetCurrent *)
Definition gen_key (rid ord : N) : prog (res Z) :=
  exe o <- open_key_ring_rw rid;
  match fst o with
  | Ok _ =>
      exe a <- ring_op (snd o) (WAdd ord);
      match fst a with
      | Ok s => exe c <- ring_op (snd a) (WSetCurrent s); Done (fst c)
      | e => Done e
      end
  | e => Done (err_of e)
  end.

(** DestroyClientIDSymmetricKey...: open, CurrentKey, DestroyKey *)
Definition destroy_current (rid : N) : prog (res Z) :=
  exe o <- open_key_ring_rw rid;
  match fst o with
  | Ok _ =>
      match current_key (snd o) with
      | Ok s => exe d <- ring_op (snd o) (WDestroy s); Done (fst d)
      | e => Done e
      end
  | e => Done (err_of e)
  end.

Fixpoint ring_ids (l : list fname) : list N :=
  match l with
  | [] => []
  | FRing r :: t => r :: ring_ids t
  | _ :: t => ring_ids t
  end.

(** ListKeyRings (fixed: only "*.keyring" entries) *)
Definition list_key_rings : prog (res (list N)) :=
  exe r <- locked BRLock BRUnlock []
             (exe v <- call BList;
              Done (match v with
                    | Ok (VNames l) => (Ok tt, ring_ids l)
                    | Ok _ => (Err E_GENERIC, [])
                    | e => (err_of e, [])
                    end));
  Done (match fst r with Ok _ => Ok (snd r) | e => err_of e end).

(** ListKeys (fixed: rings without a current key, or whose current key is destroyed, are skipped): (ring, current seqnum) *)
Fixpoint list_keys_loop (rids : list N) (acc : list (N * Z)) : prog (res (list (N * Z))) :=
  match rids with
  | [] => Done (Ok (rev acc))
  | rid :: rest =>
      exe o <- open_key_ring rid;
      match fst o with
      | Ok _ =>
          match current_key (snd o) with
          | Ok s =>
              match key_with_seqnum (h_data (snd o)) s with
              | Some k =>
                  (* fix 935a452: a ring whose Current key is a destroyed marker is skipped *)
                  if N.eqb (k_state k) KSW_DESTROYED then list_keys_loop rest acc
                  else list_keys_loop rest ((rid, s) :: acc)
              | None => Done (Err E_KEY_NOT_EXIST)
              end
          | _ => list_keys_loop rest acc
          end
      | e => Done (err_of e)
      end
  end.
Definition list_keys : prog (res (list (N * Z))) :=
  exe l <- list_key_rings;
  match l with
  | Ok rids => list_keys_loop rids []
  | e => Done (err_of e)
  end.

(** * C17: handles sharing one storage, one back-end call per step *)
Inductive lockst := LFree | LExcl (i : nat) | LShared (holders : list nat).

(** what a handle (one process / one keystore object) runs: operations on the key ring object it
    holds, OpenKeyRingRW (which CREATES a missing ring), and the key store entry points that open
    the ring themselves (generate/import = open+AddKey+SetCurrent, destroy current) *)
Inductive hop :=
| HRing (o : wop)             (* AddKey/SetCurrent/SetState/DestroyKey on the handle's key ring object *)
| HOpen (rid : N)             (* object := OpenKeyRingRW rid *)
| HGen (rid ord : N)          (* gen_key *)
| HDestroyCur (rid : N).      (* destroy_current *)

(** the program of one operation; the key ring object afterwards ([None] = no object yet) *)
Definition hop_prog (hr : option hring) (o : hop) : prog (res Z * option hring) :=
  match o with
  | HRing w =>
      match hr with
      | Some h => exe r <- ring_op h w; Done (fst r, Some (snd r))
      | None => Done (Err E_GENERIC, None)
      end
  | HOpen rid =>
      exe r <- open_key_ring_rw rid;
      Done (match fst r with Ok _ => (Ok 0, Some (snd r)) | e => (err_of e, hr) end)
  | HGen rid ord => exe r <- gen_key rid ord; Done (match r with Ok _ => Ok 0 | e => e end, hr)
  | HDestroyCur rid => exe r <- destroy_current rid; Done (match r with Ok _ => Ok 0 | e => e end, hr)
  end.

(** a handle: its key ring object, the operations still to run, the program of the
    operation in progress, the results so far (newest first) *)
Record handle := mk_handle {
  hd_ring : option hring;
  hd_todo : list hop;
  hd_cur : option (prog (res Z * option hring));
  hd_out : list (res Z)
}.

(** bookkeeping that needs no back-end call: finish a completed operation, start the next *)
Fixpoint settle (fuel : nat) (h : handle) : handle :=
  match fuel with
  | O => h
  | S fuel' =>
      match hd_cur h with
      | Some (Done (r, hr)) => settle fuel' (mk_handle hr (hd_todo h) None (r :: hd_out h))
      | Some (Call _ _) => h
      | None =>
          match hd_todo h with
          | [] => h
          | o :: rest => settle fuel' (mk_handle (hd_ring h) rest (Some (hop_prog (hd_ring h) o)) (hd_out h))
          end
      end
  end.
Definition settled (h : handle) : handle := settle (2 * length (hd_todo h) + 2) h.

Definition head_call (h : handle) : option bcall :=
  match hd_cur h with Some (Call c _) => Some c | _ => None end.

Record gstate := mk_g { g_st : storage; g_lock : lockst; g_hs : list handle }.

Fixpoint remove_nat (i : nat) (l : list nat) : list nat :=
  match l with [] => [] | j :: t => if Nat.eqb i j then remove_nat i t else j :: remove_nat i t end.

(** lock discipline of the back end (sync.RWMutex / flock): [None] = the call blocks *)
Definition lock_step (i : nat) (c : bcall) (l : lockst) : option lockst :=
  match c, l with
  | BLock, LFree => Some (LExcl i)
  | BLock, _ => None
  | BRLock, LFree => Some (LShared [i])
  | BRLock, LShared hs => Some (LShared (i :: hs))
  | BRLock, LExcl _ => None
  | BUnlock, _ => Some LFree
  | BRUnlock, LShared hs => Some (match remove_nat i hs with [] => LFree | hs' => LShared hs' end)
  | BRUnlock, _ => Some LFree
  | _, l => Some l
  end.

Fixpoint set_nth {A} (i : nat) (x : A) (l : list A) : list A :=
  match l, i with
  | [], _ => []
  | _ :: t, O => x :: t
  | y :: t, S i' => y :: set_nth i' x t
  end.

(** one step of handle [i]: [None] if it is finished or blocked *)
Definition gstep (g : gstate) (i : nat) : option gstate :=
  match nth_error (g_hs g) i with
  | None => None
  | Some h0 =>
      let h := settled h0 in
      match hd_cur h with
      | Some (Call c k) =>
          match lock_step i c (g_lock g) with
          | None => None
          | Some l' =>
              let (v, st') := do_call c (g_st g) in
              let h' := settled (mk_handle (hd_ring h) (hd_todo h) (Some (k v)) (hd_out h)) in
              Some (mk_g st' l' (set_nth i h' (g_hs g)))
          end
      | _ => None
      end
  end.

(** run a schedule; steps of blocked/finished handles are skipped *)
Fixpoint grun (g : gstate) (sched : list nat) : gstate :=
  match sched with
  | [] => g
  | i :: rest => match gstep g i with Some g' => grun g' rest | None => grun g rest end
  end.

(** serial reference: one whole operation at a time, no faults *)
Definition run_op_serial (st : storage) (hr : hring) (o : wop) : storage * hring * res Z :=
  match exec (ring_op hr o) None st 0 with
  | Ret (r, hr') st' _ => (st', hr', r)
  | Crash st' => (st', hr, Panic)
  end.

(** serial reference for whole handles: handle [i] runs ONE WHOLE LOCKED SECTION without anybody
    else stepping (from a state where the lock is free until it is free again). A ring-level
    operation and OpenKeyRingRW are one section each; generate (open, AddKey, SetCurrent) and
    destroy-current are sequences of such sections - they are separate updates in acra. *)
Fixpoint run_section (fuel : nat) (g : gstate) (i : nat) : option gstate :=
  match fuel with
  | O => None
  | S f =>
      match gstep g i with
      | None => None
      | Some g' => match g_lock g' with LFree => Some g' | _ => run_section f g' i end
      end
  end.
Definition sstep (g : gstate) (i : nat) : option gstate :=
  match g_lock g with LFree => run_section 16 g i | _ => None end.

(** * v1 (keystore/filesystem/server_keystore.go, fixed) *)

(** backupHistoricalKeyFile: Stat; if present Link (or Copy) to "<name>.old/<timestamp>" *)
Definition v1_backup (k ts : N) : prog (res unit) :=
  exe s <- call (BStat (FKey k));
  match s with
  | Ok _ =>
      exe l <- call (BLink (FKey k) (FOld k ts));
      Done (match l with Ok _ => Ok tt | e => err_of e end)
  | _ => Done (Ok tt)     (* os.IsNotExist: nothing to back up *)
  end.

(** WriteKeyFile (fixed: the temporary is removed when the update fails) *)
Definition v1_write_key_file (k ord rnd ts : N) : prog (res unit) :=
  let tmp := FTmp k rnd in
  let cleanup (e : res unit) := exe _ <- call (BRemove tmp); Done e in
  exe t <- call (BPut tmp (CKey 0 true));                 (* TempFile: exclusive create, empty *)
  match t with
  | Ok _ =>
      exe w <- call (BWrite tmp (CKey ord true));
      match w with
      | Ok _ =>
          exe b <- v1_backup k ts;
          match b with
          | Ok _ =>
              exe r <- call (BRename tmp (FKey k));
              match r with Ok _ => Done (Ok tt) | e => cleanup (err_of e) end
          | e => cleanup e
          end
      | e => cleanup (err_of e)
      end
  | e => Done (err_of e)
  end.

(** SaveKeyPairWithFilename: private key file, then public key file *)
Definition v1_save_key_pair (kpriv kpub ordpriv ordpub rnd1 rnd2 ts : N) : prog (res unit) :=
  exe a <- v1_write_key_file kpriv ordpriv rnd1 ts;
  match a with
  | Ok _ => v1_write_key_file kpub ordpub rnd2 ts
  | e => Done e
  end.

(** ListKeys/describeDir (fixed: temporaries are skipped; ".old" directories were skipped already) *)
Fixpoint key_ids (l : list fname) : list N :=
  match l with
  | [] => []
  | FKey k :: t => k :: key_ids t
  | _ :: t => key_ids t
  end.
Definition v1_list_keys : prog (res (list N)) :=
  exe v <- call BList;
  Done (match v with Ok (VNames l) => Ok (key_ids l) | Ok _ => Err E_GENERIC | e => err_of e end).

(** read of a v1 key file: a file that is not whole does not decrypt/parse *)
Definition v1_read (k : N) (st : storage) : res N :=
  match lookup (FKey k) st with
  | Some (CKey o true) => Ok o
  | Some _ => Err E_VERIFY
  | None => Err E_NOTEXIST
  end.
