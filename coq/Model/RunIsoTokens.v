(** Replay of implementation observations on the token model (stand-in crypto [Stub]). *)
From Acra Require Import Lib.Bytes Lib.Outcome Lib.Sha256 Crypto.Interface Crypto.Stub Gen.Consts Gen.IsoTokenConsts
  Model.Envelope Model.IsoTokens.

Inductive expected := XOk (vals : list bytes) | XErr | XPanic.

Definition tc := Build_token_context.
Definition Tok := TTokenize.
Definition Detok := TDetokenize.

Inductive op :=
| Hist (enc : bool) (ks : keystore) (ops : list tok_op)     (* a whole history on a fresh storage *)
| DataId (data cid ac : bytes) (ty : N)                      (* generateDataID *)
| CtxBytes (cid ac : bytes)                                  (* AggregateTokenContextToBytes *)
| TokEnc (ks : keystore) (tape : list bytes) (data : bytes) (c : token_context)   (* scellEncryptor.Encrypt *)
| TokDec (ks : keystore) (data : bytes) (c : token_context)                        (* scellEncryptor.Decrypt *)
| GenHmac (key data : bytes)                                 (* hmac.GenerateHMAC *)
| HashEq (hash data : bytes) (hk : option bytes).            (* ExtractHash(hash).IsEqual(data, id, keystore) *)

Definition canon1 (r : res bytes) : expected :=
  match r with Ok x => XOk [x] | Err _ => XErr | Panic => XPanic end.
Definition flag (b : bool) : bytes := [if b then x01 else x00].

(* one step outcome as bytes: 00 ++ value | 01 (error) | 02 (panic) *)
Definition enc_out (r : res bytes) : bytes :=
  match r with Ok v => x00 :: v | Err _ => [x01] | Panic => [x02] end.

Definition run (o : op) : expected :=
  match o with
  | Hist enc ks ops => XOk (map enc_out (snd (run_hist Stub enc ks ops)))
  | DataId data cid ac ty => XOk [generate_data_id data (tc cid ac) ty]
  | CtxBytes cid ac => XOk [aggregate_token_context (tc cid ac)]
  | TokEnc ks tape data c => canon1 (tok_encrypt Stub ks tape data c)
  | TokDec ks data c => canon1 (tok_decrypt Stub ks data c)
  | GenHmac key data => XOk [generate_hmac key data]
  | HashEq hash data hk =>
      match extract_hash hash with
      | None => XErr
      | Some (hsh, _) => XOk [flag (hash_is_equal hsh data (Build_keyset None [] [] hk))]
      end
  end.

Fixpoint list_bytes_eqb (a b : list bytes) : bool :=
  match a, b with
  | [], [] => true
  | x :: a', y :: b' => bytes_eqb x y && list_bytes_eqb a' b'
  | _, _ => false
  end.

Definition expected_eqb (a b : expected) : bool :=
  match a, b with
  | XOk x, XOk y => list_bytes_eqb x y
  | XErr, XErr => true
  | XPanic, XPanic => true
  | _, _ => false
  end.

Fixpoint mismatches_from (i : nat) (cs : list (op * expected)) : list (nat * expected) :=
  match cs with
  | [] => []
  | (o, e) :: rest =>
      let m := run o in
      if expected_eqb m e then mismatches_from (S i) rest else (i, m) :: mismatches_from (S i) rest
  end.
Definition mismatches := mismatches_from 0.
