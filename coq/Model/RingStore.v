(** C07 — key rings of keystore v2 as a STORE read by long-lived handles: every access of the stored
    bytes, on every path through the code, with the signature check that follows it.

    Anchors (acra):
      keystore/v2/keystore/filesystem/keyStoreLoad.go  readKeyRing / writeKeyRing / openKeyRing /
                                                       pullRingUpdates / pushNewRingState / pushASNring
      keystore/v2/keystore/filesystem/keyStore.go      OpenKeyRing / OpenKeyRingRW / verifyKeyRing / signKeyRing
      keystore/v2/keystore/filesystem/keyRing.go       setCurrent / changeKeyState / addKey / destroyKey, tx log
      keystore/v2/keystore/filesystem/keyRingTX.go     Apply of the five transactions
      keystore/v2/keystore/filesystem/key.go           AddKey / SetState / SetCurrent / DestroyKey (checks on the snapshot)
      keystore/v2/keystore/filesystem/export.go        exportKeyRing, importKeyRing / importASN1
      keystore/v2/keystore/signature/notary.go         Verify / verifySignatures (Model/Notary.v)

    A KeyRing object ("handle") holds a snapshot of the ring.  It is filled by pullRingUpdates and
    by nothing else; pullRingUpdates = backend Get of "<path>.keyring", then verifyKeyRing of exactly
    the bytes returned, then loadASN1.  Every update (AddKey, SetCurrent, SetState, DestroyKey,
    import) pulls again under the store lock before it applies its transactions and signs + stores
    the result.  The adversary owns the storage: [RArm n p c] replaces the stored file of ring [p]
    by [c] at the moment of the n-th following backend Get (n = 0: before the next read), so a
    change can fall between open and update, between two updates of one handle, between the reads
    of one import, or between a write of one handle and the read of another.

    Abstractions: the DER container is decoded by the harness with acra's own asn1 package — a stored
    file is [SParsed payload signatures] or [SGarbage] (does not parse); the decoded content of a
    payload ([ringv]: seqnum / state / number of data items per key, current seqnum) comes from
    [decode], instantiated in Run with the table of payloads the real code produced; the DER bytes of
    a new payload come from the tape [enc] (one entry per signature made) and must decode to the
    ring the model computed.  Put(".new") + Rename is one [EPut].  Locks, key-data encryption and
    validity periods are not part of this model (C08 / C07 §2).  No proofs here. *)
From Coq Require Import List NArith ZArith Bool.
From Acra Require Import Lib.Bytes Lib.Outcome Gen.KsConsts Gen.KeyStates Model.Notary.
Import ListNotations.

Record vkey := mk_vkey { vk_seq : Z; vk_state : N; vk_ndata : N }.
Record ringv := mk_ringv { rv_keys : list vkey; rv_cur : Z }.
Definition empty_view : ringv := mk_ringv [] V2_NOKEY.

Definition vkey_eqb (a b : vkey) : bool :=
  Z.eqb (vk_seq a) (vk_seq b) && N.eqb (vk_state a) (vk_state b) && N.eqb (vk_ndata a) (vk_ndata b).
Fixpoint vkeys_eqb (a b : list vkey) : bool :=
  match a, b with
  | [], [] => true
  | x :: a', y :: b' => vkey_eqb x y && vkeys_eqb a' b'
  | _, _ => false
  end.
Definition ringv_eqb (a b : ringv) : bool := vkeys_eqb (rv_keys a) (rv_keys b) && Z.eqb (rv_cur a) (rv_cur b).

(** a stored "<path>.keyring" file as asn1.UnmarshalVerifiedContainer sees it *)
Inductive stored := SParsed (payload : bytes) (sigs : list (bytes * bytes)) | SGarbage.

Record handle := mk_handle { h_path : bytes; h_view : ringv }.

Definition E_NOTEXIST : N := 40.     (* backend.ErrNotExist *)
Definition E_PARSE : N := 41.        (* asn1 error of the container *)
Definition E_DECODE : N := 42.       (* content type / version / key ring DER of a VERIFIED payload *)
Definition E_ENCODE : N := 43.       (* model artefact: the tape payload is not the ring computed *)
Definition E_ENC_TAPE : N := 44.     (* model artefact: tape exhausted *)
Definition E_NO_HANDLE : N := 45.    (* harness: the handle was never opened *)
Definition E_KEY_NOT_EXIST : N := 46.
Definition E_INVALID_STATE : N := 47.
Definition E_TX_CONCURRENT : N := 48.
Definition E_TX_NOTFOUND : N := 49.
Definition E_TX_EXISTS : N := 50.
Definition E_BAD_KEY : N := 51.      (* ErrInvalidCryptoperiod / ErrNoKeyData *)
Definition E_RING_EXISTS : N := 52.  (* ErrKeyRingExists *)

(** what the code does at its seams, in order *)
Inductive ev :=
| EGet (p : bytes) (r : option stored)          (* Backend.Get(p ++ ".keyring"); None = ErrNotExist *)
| ECheck (ctx payload sg : bytes) (ok : bool)   (* signature.Algorithm.Verify(sg, payload, ctx) *)
| ESign (ctx payload sg : bytes)                (* signature.Algorithm.Sign(payload, ctx) = sg *)
| EPut (p payload : bytes) (sigs : list (bytes * bytes)).  (* Put(p.keyring.new) ; Rename(-> p.keyring) *)

Record rstate := mk_rstate {
  files : list (bytes * stored);
  handles : list (nat * handle);
  armed : option (nat * bytes * stored);    (* adversary: at the n-th next Get, file p := c *)
  enc : list bytes;                         (* tape: DER payload of each following signature *)
  signed : list bytes;                      (* ghost: every MAC input the key store signed *)
  accepted : list (bytes * bytes)           (* ghost: every (path, payload) a pull accepted *)
}.
Definition rinit (tape : list bytes) : rstate := mk_rstate [] [] None tape [] [].

Fixpoint flookup (p : bytes) (m : list (bytes * stored)) : option stored :=
  match m with
  | [] => None
  | (q, c) :: r => if bytes_eqb p q then Some c else flookup p r
  end.
Fixpoint hlookup (h : nat) (m : list (nat * handle)) : option handle :=
  match m with
  | [] => None
  | (i, x) :: r => if Nat.eqb h i then Some x else hlookup h r
  end.

Definition set_files (s : rstate) f := mk_rstate f (handles s) (armed s) (enc s) (signed s) (accepted s).
Definition set_handle (s : rstate) (h : nat) (x : handle) :=
  mk_rstate (files s) ((h, x) :: handles s) (armed s) (enc s) (signed s) (accepted s).
Definition set_armed (s : rstate) a := mk_rstate (files s) (handles s) a (enc s) (signed s) (accepted s).
Definition add_accepted (s : rstate) (p pl : bytes) :=
  mk_rstate (files s) (handles s) (armed s) (enc s) (signed s) ((p, pl) :: accepted s).

Section RingStore.
  Variable mac : bytes -> bytes -> bytes.
  Variable algs : list (bytes * bytes).          (* the notary's algorithms: (OID, key) *)
  Variable decode : bytes -> option ringv.       (* payload DER -> ring content *)

  (** the adversary acts at the Get *)
  Definition fire (s : rstate) : rstate :=
    match armed s with
    | Some (O, p, c) => set_armed (set_files s ((p, c) :: files s)) None
    | Some (S n, p, c) => set_armed s (Some (n, p, c))
    | None => s
    end.
  Definition bget (s : rstate) (p : bytes) : rstate * option stored :=
    let s' := fire s in (s', flookup p (files s')).

  (** Notary.verifySignatures with the Algorithm.Verify calls it makes *)
  Fixpoint verify_ev (sigs : list (bytes * bytes)) (payload ctx : bytes) (verified : bool) : res unit * list ev :=
    match sigs with
    | [] => (if verified then Ok tt else Err E_NO_SIGNATURE, [])
    | (oid, sg) :: r =>
        match find_alg algs oid with
        | Some key =>
            if alg_verify mac key sg payload ctx
            then let (x, e) := verify_ev r payload ctx true in (x, ECheck ctx payload sg true :: e)
            else (Err E_SIGNATURE, [ECheck ctx payload sg false])
        | None => verify_ev r payload ctx verified
        end
    end.

  (** pullRingUpdates: Get, verifyKeyRing of the bytes just read, decode *)
  Definition pull (s : rstate) (p : bytes) : rstate * res ringv * list ev :=
    let (s1, f) := bget s p in
    match f with
    | None => (s1, Err E_NOTEXIST, [EGet p None])
    | Some SGarbage => (s1, Err E_PARSE, [EGet p (Some SGarbage)])
    | Some (SParsed pl sg) =>
        let (r, evs) := verify_ev sg pl (ring_sig_ctx p) false in
        match r with
        | Ok _ => (add_accepted s1 p pl, of_option E_DECODE (decode pl), EGet p (Some (SParsed pl sg)) :: evs)
        | Err e => (s1, Err e, EGet p (Some (SParsed pl sg)) :: evs)
        | Panic => (s1, Panic, EGet p (Some (SParsed pl sg)) :: evs)
        end
    end.

  (** pushNewRingState: signKeyRing + pushASNring *)
  Definition push (s : rstate) (p : bytes) (v : ringv) : rstate * res unit * list ev :=
    match enc s with
    | [] => (s, Err E_ENC_TAPE, [])
    | pl :: rest =>
        match decode pl with
        | Some v' =>
            if ringv_eqb v v' then
              let sg := sign_ring mac algs p pl in
              (mk_rstate ((p, SParsed pl sg) :: files s) (handles s) (armed s) rest
                         (mac_input (ring_sig_ctx p) pl :: signed s) (accepted s),
               Ok tt,
               map (fun a => ESign (ring_sig_ctx p) pl (snd a)) sg ++ [EPut p pl sg])
            else (s, Err E_ENCODE, [])
        | None => (s, Err E_ENCODE, [])
        end
    end.

  (** ---- transactions (keyRingTX.go) on the ring content ---- *)
  Inductive tx :=
  | TxSetCurrent (old new : Z)
  | TxState (q : Z) (old new : N)
  | TxAdd (k : vkey)
  | TxDestroyData (q : Z)
  | TxSetKeys (ks : list vkey) (cur : Z).

  (** asn1.KeyRing.KeyWithSeqnum: searched from the newest key *)
  Fixpoint first_with (ks : list vkey) (q : Z) : option vkey :=
    match ks with
    | [] => None
    | k :: r => if Z.eqb (vk_seq k) q then Some k else first_with r q
    end.
  Definition key_with (ks : list vkey) (q : Z) : option vkey := first_with (rev ks) q.
  Fixpoint upd_first (f : vkey -> vkey) (ks : list vkey) (q : Z) : list vkey :=
    match ks with
    | [] => []
    | k :: r => if Z.eqb (vk_seq k) q then f k :: r else k :: upd_first f r q
    end.
  Definition upd_key (f : vkey -> vkey) (ks : list vkey) (q : Z) : list vkey := rev (upd_first f (rev ks) q).

  Definition apply_tx (v : ringv) (t : tx) : res ringv :=
    match t with
    | TxSetCurrent old new =>
        if negb (Z.eqb (rv_cur v) old) then Err E_TX_CONCURRENT else
        if negb (Z.eqb old V2_NOKEY) && match key_with (rv_keys v) old with None => true | Some _ => false end
        then Err E_TX_NOTFOUND else
        match key_with (rv_keys v) new with
        | None => Err E_TX_NOTFOUND
        | Some _ => Ok (mk_ringv (rv_keys v) new)
        end
    | TxState q old new =>
        match key_with (rv_keys v) q with
        | None => Err E_TX_NOTFOUND
        | Some k => if N.eqb (vk_state k) old
                    then Ok (mk_ringv (upd_key (fun k => mk_vkey (vk_seq k) new (vk_ndata k)) (rv_keys v) q) (rv_cur v))
                    else Err E_TX_CONCURRENT
        end
    | TxAdd k =>
        match key_with (rv_keys v) (vk_seq k) with
        | Some _ => Err E_TX_EXISTS
        | None => Ok (mk_ringv (rv_keys v ++ [k]) (rv_cur v))
        end
    | TxDestroyData q =>
        match key_with (rv_keys v) q with
        | None => Err E_TX_NOTFOUND
        | Some _ => Ok (mk_ringv (upd_key (fun k => mk_vkey (vk_seq k) (vk_state k) 0%N) (rv_keys v) q) (rv_cur v))
        end
    | TxSetKeys ks cur => Ok (mk_ringv ks cur)
    end.

  (** applyPendingTX: all or (after the rollbacks) nothing *)
  Fixpoint apply_txs (v : ringv) (ts : list tx) : res ringv :=
    match ts with
    | [] => Ok v
    | t :: r => match apply_tx v t with Ok v' => apply_txs v' r | Err e => Err e | Panic => Panic end
    end.

  (** writeKeyRing: pull, apply, push.  Second component: the snapshot the KeyRing object holds
      afterwards (None: untouched, the pull failed before loadASN1). *)
  Definition sync_write (s : rstate) (p : bytes) (ts : list tx) : rstate * res unit * option ringv * list ev :=
    match pull s p with
    | (s1, Ok v, e1) =>
        match apply_txs v ts with
        | Ok v' =>
            match push s1 p v' with
            | (s2, Ok _, e2) => (s2, Ok tt, Some v', e1 ++ e2)
            | (s2, Err e, e2) => (s2, Err e, Some v, e1 ++ e2)
            | (s2, Panic, e2) => (s2, Panic, Some v, e1 ++ e2)
            end
        | Err e => (s1, Err e, Some v, e1)
        | Panic => (s1, Panic, Some v, e1)
        end
    | (s1, Err e, e1) => (s1, Err e, None, e1)
    | (s1, Panic, e1) => (s1, Panic, None, e1)
    end.

  (** api.KeyStateTransitionValid, generated *)
  Definition transition_ok (a b : N) : bool :=
    existsb (fun t => N.eqb (fst t) a && N.eqb (snd t) b) key_transitions.

  (** KeyRing.nextSeqnum *)
  Definition next_seq (ks : list vkey) : Z :=
    match rev ks with [] => V2_FIRST_SEQNUM | k :: _ => (vk_seq k + 1)%Z end.

  Inductive rop :=
  | ROpenRW (h : nat) (p : bytes)                  (* KeyStore.OpenKeyRingRW into handle slot h *)
  | ROpenRO (h : nat) (p : bytes)                  (* KeyStore.OpenKeyRing *)
  | RExport (p : bytes)                            (* exportKeyRing: a read *)
  | RObserve (h : nat)                             (* getters of the snapshot: no storage access *)
  | RAddKey (h : nat) (okdesc : bool) (ndata : N)  (* KeyRing.AddKey *)
  | RSetCurrent (h : nat) (q : Z)
  | RSetState (h : nat) (q : Z) (st : N)
  | RDestroy (h : nat) (q : Z)
  | RImport (p : bytes) (ks : list vkey) (cur : Z) (decision : N)  (* importKeyRing; 0 overwrite, 1 skip, else abort *)
  | RArm (n : nat) (p : bytes) (c : stored).       (* adversary *)

  Definition z8 (z : Z) : bytes := le_enc 8 (Z.to_N (z mod 18446744073709551616)%Z).
  Definition n1 (n : N) : bytes := [n2b n].
  Definition view_vals (v : ringv) : list bytes :=
    z8 (rv_cur v) :: flat_map (fun k => [z8 (vk_seq k); n1 (vk_state k); n1 (vk_ndata k)]) (rv_keys v).

  (** an update through handle slot h *)
  Definition update (s : rstate) (h : nat) (hd : handle) (ts : list tx) (val : list bytes)
    : rstate * res (list bytes) * list ev :=
    match sync_write s (h_path hd) ts with
    | (s1, r, snap, e) =>
        let s2 := match snap with Some v => set_handle s1 h (mk_handle (h_path hd) v) | None => s1 end in
        (s2, match r with Ok _ => Ok val | Err x => Err x | Panic => Panic end, e)
    end.

  Definition with_handle (s : rstate) (h : nat) (k : handle -> rstate * res (list bytes) * list ev)
    : rstate * res (list bytes) * list ev :=
    match hlookup h (handles s) with
    | None => (s, Err E_NO_HANDLE, [])
    | Some hd => k hd
    end.

  (* copyKey (key.go): a key must carry data unless it is the marker DestroyKey leaves (state destroyed,
     no data) - the pinned code refused those too (fix 6b19776) *)
  Definition has_no_data (k : vkey) : bool := N.eqb (vk_ndata k) 0 && negb (N.eqb (vk_state k) KEY_DESTROYED).

  (** KeyRing.importASN1 into a fresh KeyRing object *)
  Definition import_asn1 (s : rstate) (p : bytes) (ks : list vkey) (cur : Z) (pre : list ev)
    : rstate * res (list bytes) * list ev :=
    if existsb has_no_data ks then (s, Err E_BAD_KEY, pre) else
    match sync_write s p [TxSetKeys ks cur] with
    | (s1, r, _, e) => (s1, match r with Ok _ => Ok [] | Err x => Err x | Panic => Panic end, pre ++ e)
    end.

  Definition step (s : rstate) (o : rop) : rstate * res (list bytes) * list ev :=
    match o with
    | ROpenRW h p =>
        match pull s p with
        | (s1, Ok v, e) => (set_handle s1 h (mk_handle p v), Ok [], e)
        | (s1, Err x, e) =>
            if N.eqb x E_NOTEXIST then
              match push s1 p empty_view with
              | (s2, Ok _, e2) => (set_handle s2 h (mk_handle p empty_view), Ok [], e ++ e2)
              | (s2, Err y, e2) => (s2, Err y, e ++ e2)
              | (s2, Panic, e2) => (s2, Panic, e ++ e2)
              end
            else (s1, Err x, e)
        | (s1, Panic, e) => (s1, Panic, e)
        end
    | ROpenRO h p =>
        match pull s p with
        | (s1, Ok v, e) => (set_handle s1 h (mk_handle p v), Ok [], e)
        | (s1, Err x, e) => (s1, Err x, e)
        | (s1, Panic, e) => (s1, Panic, e)
        end
    | RExport p =>
        match pull s p with
        | (s1, Ok v, e) => (s1, Ok [], e)
        | (s1, Err x, e) => (s1, Err x, e)
        | (s1, Panic, e) => (s1, Panic, e)
        end
    | RObserve h => with_handle s h (fun hd => (s, Ok (view_vals (h_view hd)), []))
    | RAddKey h okdesc ndata =>
        with_handle s h (fun hd =>
          if negb okdesc || N.eqb ndata 0 then (s, Err E_BAD_KEY, []) else
          let q := next_seq (rv_keys (h_view hd)) in
          update s h hd [TxAdd (mk_vkey q KEY_PREACTIVE ndata)] [z8 q])
    | RSetCurrent h q =>
        with_handle s h (fun hd => update s h hd [TxSetCurrent (rv_cur (h_view hd)) q] [])
    | RSetState h q st =>
        with_handle s h (fun hd =>
          match key_with (rv_keys (h_view hd)) q with
          | None => (s, Err E_KEY_NOT_EXIST, [])
          | Some k => if transition_ok (vk_state k) st
                      then update s h hd [TxState q (vk_state k) st] []
                      else (s, Err E_INVALID_STATE, [])
          end)
    | RDestroy h q =>
        with_handle s h (fun hd =>
          match key_with (rv_keys (h_view hd)) q with
          | None => (s, Err E_KEY_NOT_EXIST, [])
          | Some k => if transition_ok (vk_state k) KEY_DESTROYED
                      then update s h hd [TxDestroyData q; TxState q (vk_state k) KEY_DESTROYED] []
                      else (s, Err E_INVALID_STATE, [])
          end)
    | RImport p ks cur decision =>
        match pull s p with
        | (s1, Ok _, e) =>
            if N.eqb decision 0 then import_asn1 s1 p ks cur e
            else if N.eqb decision 1 then (s1, Ok [], e)
            else (s1, Err E_RING_EXISTS, e)
        | (s1, Err x, e) =>
            if N.eqb x E_NOTEXIST then
              (* openKeyRing: pull again under the write lock, create the ring if still missing *)
              match pull s1 p with
              | (s2, Ok _, e2) => import_asn1 s2 p ks cur (e ++ e2)
              | (s2, Err y, e2) =>
                  if N.eqb y E_NOTEXIST then
                    match push s2 p empty_view with
                    | (s3, Ok _, e3) => import_asn1 s3 p ks cur (e ++ e2 ++ e3)
                    | (s3, Err z, e3) => (s3, Err z, e ++ e2 ++ e3)
                    | (s3, Panic, e3) => (s3, Panic, e ++ e2 ++ e3)
                    end
                  else (s2, Err y, e ++ e2)
              | (s2, Panic, e2) => (s2, Panic, e ++ e2)
              end
            else (s1, Err x, e)
        | (s1, Panic, e) => (s1, Panic, e)
        end
    | RArm n p c => (set_armed s (Some (n, p, c)), Ok [], [])
    end.

  Record outcome := mk_outcome { o_st : rstate; o_res : res (list bytes); o_evs : list ev }.
  Definition step_o (s : rstate) (o : rop) : outcome :=
    match step s o with (s', r, e) => mk_outcome s' r e end.

  Fixpoint run_hist (s : rstate) (ops : list rop) : list outcome :=
    match ops with
    | [] => []
    | o :: r => let x := step_o s o in x :: run_hist (o_st x) r
    end.
  Fixpoint final_st (s : rstate) (ops : list rop) : rstate :=
    match ops with
    | [] => s
    | o :: r => final_st (o_st (step_o s o)) r
    end.
  Definition trace (s : rstate) (ops : list rop) : list ev := flat_map o_evs (run_hist s ops).
End RingStore.
