(** Replay of implementation observations on the key-name model (domain c02ks). *)
From Acra Require Import Lib.Bytes Lib.Outcome Gen.KeyNames.
From Acra Require Export Model.KeyNames. (* the case files mention the purpose constructors *)

Inductive op :=
| NameV1 (p : v1_purpose) (id : bytes)   (* name the real v1 key store accesses for (p, id) *)
| NameV2 (p : v2_purpose) (id : bytes)   (* backend path the real v2 key store fetches for (p, id) *)
| JoinPlain (id : bytes)                 (* does Go's filepath.Join leave a/id/b alone *)
| ValidID (id : bytes).                  (* keystore.ValidateID *)

Inductive expected := XOk (vals : list bytes) | XErr | XPanic.

Definition flag (b : bool) : bytes := [if b then x01 else x00].

Definition run (o : op) : expected :=
  match o with
  | NameV1 p id => XOk [name_v1 p id]
  | NameV2 p id => match name_v2 p id with Some n => XOk [n] | None => XErr end
  | JoinPlain id => XOk [flag (join_plain id)]
  | ValidID id => XOk [flag (valid_id id)]
  end.

Fixpoint list_bytes_eqb (a b : list bytes) : bool :=
  match a, b with
  | [], [] => true
  | x :: a', y :: b' => bytes_eqb x y && list_bytes_eqb a' b'
  | _, _ => false
  end.

Definition expected_eqb (a b : expected) : bool :=
  match a, b with
  | XOk x, XOk y => list_bytes_eqb x y
  | XErr, XErr => true
  | XPanic, XPanic => true
  | _, _ => false
  end.

Fixpoint mismatches_from (i : nat) (cs : list (op * expected)) : list (nat * expected) :=
  match cs with
  | [] => []
  | (o, e) :: rest =>
      let m := run o in
      if expected_eqb m e then mismatches_from (S i) rest else (i, m) :: mismatches_from (S i) rest
  end.
Definition mismatches := mismatches_from 0.
