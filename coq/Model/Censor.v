(** Executable model of AcraCensor (SQL firewall): handler chain and table rule.
    Anchors: acra-censor/acra-censor_implementation.go (AcraCensor.HandleQuery),
    acra-censor/handlers/{allow,deny,allowall,denyall,queryignore,querycapture}_handler.go (CheckQuery),
    acra-censor/common/common.go (CheckTableNamesMatch, checkTableExprsMatch, checkTableExprMatch).

    The rule sets of a handler are summarised, for ONE statement, by the results of the real
    matchers (computed by the real code in the harness):
      exact-query match  common.CheckExactQueriesMatch(normalized, handler.queries)
      table match        common.CheckTableNamesMatch(parsed, handler.tables) = (atLeastOne, all)
      pattern match      common.CheckPatternsMatching(handler.patterns, parsed)
    together with the [len(set) != 0] guards the handlers test first.  No proofs in this file. *)
From Coq Require Import List Bool NArith.
From Acra Require Import Lib.Bytes.
Import ListNotations.

(** * Handler chain *)

Inductive reason := ByQuery | ByTable | ByPattern | ByDenyAll | ByParseError.
Inductive verdict := Allowed | Denied (r : reason).

Record rules := R {
  has_q : bool; m_q : bool;            (* len(queries) != 0 ; CheckExactQueriesMatch *)
  has_t : bool; t_one : bool; t_all : bool;   (* len(tables) != 0 ; CheckTableNamesMatch *)
  has_p : bool; m_p : bool             (* len(patterns) != 0 ; CheckPatternsMatching *)
}.

Inductive handler :=
| HAllow (r : rules)
| HDeny (r : rules)
| HAllowAll
| HDenyAll
| HIgnore (hit : bool)   (* ignoredQueries[String(parsed)] || ignoredQueries[raw] *)
| HCapture.

(** CheckQuery of a handler: (continueHandling, error) *)
Definition check_allow (parsed : bool) (r : rules) : bool * option reason :=
  if negb parsed then (true, None) else
  if has_q r && m_q r then (false, None) else
  if has_t r && t_all r then (false, None) else
  if has_p r && m_p r then (false, None) else
  (true, None).

Definition check_deny (parsed : bool) (r : rules) : bool * option reason :=
  if negb parsed then (true, None) else
  if has_q r && m_q r then (false, Some ByQuery) else
  if has_t r && t_one r then (false, Some ByTable) else
  if has_p r && m_p r then (false, Some ByPattern) else
  (true, None).

(** the [for _, handler := range acraCensor.handlers] loop of HandleQuery *)
Fixpoint run_handlers (parsed : bool) (hs : list handler) : verdict :=
  match hs with
  | [] => Allowed
  | HCapture :: tl => run_handlers parsed tl
  | HIgnore hit :: tl =>
      let continueHandling := negb hit in
      if negb continueHandling then Allowed else run_handlers parsed tl
  | h :: tl =>
      let '(continueHandling, err) :=
        match h with
        | HAllow r => check_allow parsed r
        | HDeny r => check_deny parsed r
        | HAllowAll => (false, None)
        | HDenyAll => (false, Some ByDenyAll)
        | _ => (true, None)
        end in
      match err with
      | Some e => Denied e
      | None => if negb continueHandling then Allowed else run_handlers parsed tl
      end
  end.

Record censor := Censor {
  ignore_parse_error : bool;   (* ignore_parse_error of the YAML configuration *)
  has_writer : bool            (* parse_errors_log configured (unparsedQueriesWriter != nil) *)
}.

Definition is_nil {A} (l : list A) : bool := match l with [] => true | _ => false end.

(** AcraCensor.HandleQuery; [parsed = false] iff HandleRawSQLQuery returned ErrQuerySyntaxError *)
Definition handle_query (c : censor) (parsed : bool) (hs : list handler) : verdict :=
  if is_nil hs && negb (has_writer c) then Allowed else
  if negb parsed && negb (ignore_parse_error c) then Denied ByParseError else
  run_handlers parsed hs.

Definition is_denied (v : verdict) : bool := match v with Denied _ => true | Allowed => false end.

(** * Table rule *)

(** Table expressions of a FROM clause.  [TSub] is an AliasedTableExpr whose expression is a
    sub-select: the code sees only its printed text [key]; [inner] (the FROM clause of the sub-select)
    is ghost information used to state what the statement READS. *)
Inductive texpr :=
| TAliased (key : bytes)                      (* sqlparser.String(tbl.Expr) of a table name *)
| TSub (key : bytes) (inner : list texpr)
| TJoin (l r : texpr)
| TParen (es : list texpr).

Definition in_set (set : list bytes) (k : bytes) : bool := existsb (bytes_eqb k) set.

(** checkTableExprsMatch, generic in the per-expression check: loop with [counter] and [break] *)
Section ExprsLoop.
  Variable chk : texpr -> bool * bool.
  Fixpoint exprs_loop (es : list texpr) (one : bool) (counter : nat) : bool * nat :=
    match es with
    | [] => (one, counter)
    | e :: tl =>
        let '(o, a) := chk e in
        if o then (if a then exprs_loop tl true (S counter) else (true, counter))
        else exprs_loop tl one counter
    end.

  Definition check_exprs_with (es : list texpr) : bool * bool :=
    let '(one, counter) := exprs_loop es false 0 in
    (one, Nat.eqb counter (length es)).
End ExprsLoop.

(** checkTableExprMatch *)
Fixpoint check_expr (set : list bytes) (e : texpr) : bool * bool :=
  match e with
  | TAliased k => let m := in_set set k in (m, m)
  | TSub k _ => let m := in_set set k in (m, m)
  | TJoin l r =>
      let '(ol, al) := check_expr set l in
      let '(or_, ar) := check_expr set r in
      (ol || or_, al && ar)
  | TParen es => check_exprs_with (check_expr set) es
  end.

Definition check_exprs (set : list bytes) (es : list texpr) : bool * bool :=
  check_exprs_with (check_expr set) es.

(** what CheckTableNamesMatch looks at, per statement kind *)
Inductive stmt_tables :=
| STSelect (from : list texpr)
| STInsert (table : bytes)       (* query.Table.Name.String() *)
| STOther.                       (* union, update, delete, ...: "TODO other query types" *)

Definition check_table_names (set : list bytes) (s : stmt_tables) : bool * bool :=
  match s with
  | STSelect from => check_exprs set from
  | STInsert t => let m := in_set set t in (m, m)
  | STOther => (false, false)
  end.

(** tables the matcher can see *)
Fixpoint leaves (e : texpr) : list bytes :=
  match e with
  | TAliased k => [k]
  | TSub k _ => [k]
  | TJoin l r => leaves l ++ leaves r
  | TParen es => flat_map leaves es
  end.

(** tables the expression reads from, at any depth (sub-selects included) *)
Fixpoint reads (e : texpr) : list bytes :=
  match e with
  | TAliased k => [k]
  | TSub _ inner => flat_map reads inner
  | TJoin l r => reads l ++ reads r
  | TParen es => flat_map reads es
  end.

(** the grammar never produces an empty parenthesised list *)
Fixpoint wf (e : texpr) : Prop :=
  match e with
  | TAliased _ => True
  | TSub _ _ => True
  | TJoin l r => wf l /\ wf r
  | TParen es => es <> [] /\ (fix all (l : list texpr) : Prop := match l with [] => True | x :: t => wf x /\ all t end) es
  end.

(** * Chain and table rule together *)

(** the rule summary of an allow/deny handler for ONE statement when the table rule is evaluated by
    the model itself ([tables] = the handler's `tables:` list, [s] = what the statement shows to
    CheckTableNamesMatch); exact-query and pattern results stay inputs *)
Definition rules_of (s : stmt_tables) (hq mq : bool) (tables : list bytes) (hp mp : bool) : rules :=
  let '(one, all) := check_table_names tables s in
  R hq mq (negb (is_nil tables)) one all hp mp.
