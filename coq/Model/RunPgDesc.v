(** Replay of implementation observations on Model/PgDesc.v (domain c12desc; C12 and C14). *)
From Acra Require Import Lib.Bytes Lib.Outcome Lib.GoSlice Gen.WireConsts Gen.WireDescConsts Model.PgWire.
From Acra Require Export Model.PgDesc.
Local Open Scope N_scope.

Inductive expected := XOk (vals : list bytes) | XErr | XPanic.

Inductive op :=
| DRowDec (payload : bytes)            (* ReadPacket + GetRowDescriptionData (pgproto3 RowDescription.Decode) *)
| DRowEnc (fs : list fielddesc)        (* RowDescription.Encode(nil)[5:] *)
| DParDec (payload : bytes)            (* ReadPacket + GetParameterDescriptionData *)
| DParEnc (oids : list N)              (* ParameterDescription.Encode(nil)[5:] *)
| DDb (ritems pitems : option (list (option setting))) (stream : bytes)
                                       (* ReadPacket + PgProxy.handleDatabasePacket + sendPacket; never a DataRow *)
| DClient (stream : bytes)             (* new client handler: ReadClientPacket + sendPacket until the first error *)
| DDbFirst (stream : bytes).           (* first answer of the database: type byte, 'S' / 'N' alone, else a message *)

Definition canon {A} (f : A -> list bytes) (r : res A) : expected :=
  match r with Ok x => XOk (f x) | Err _ => XErr | Panic => XPanic end.

Definition fd_view (f : fielddesc) : list bytes := [fd_name f; fd_fixed f].

Definition run (o : op) : expected :=
  match o with
  | DRowDec d => canon (fun fs => be_enc 2 (N.of_nat (length fs)) :: flat_map fd_view fs) (rd_decode d)
  | DRowEnc fs => canon (fun b => [b]) (rd_encode fs)
  | DParDec d => canon (fun oids => [be_enc 2 (N.of_nat (length oids)); concat (map (be_enc 4) oids)]) (pd_decode d)
  | DParEnc oids => canon (fun b => [b]) (pd_encode oids)
  | DDb ri pi s => canon (fun '(sent, rest) => [sent; rest]) (db_step ri pi (fun p => Ok p) s)
  | DClient s => let (o, n) := client_relay (S (length s)) false s in XOk [o; be_enc 4 n]
  | DDbFirst s => canon (fun '(sent, rest) => [sent; rest]) (db_first s)
  end.

Fixpoint list_bytes_eqb (a b : list bytes) : bool :=
  match a, b with
  | [], [] => true
  | x :: a', y :: b' => bytes_eqb x y && list_bytes_eqb a' b'
  | _, _ => false
  end.

Definition expected_eqb (a b : expected) : bool :=
  match a, b with
  | XOk x, XOk y => list_bytes_eqb x y
  | XErr, XErr => true
  | XPanic, XPanic => true
  | _, _ => false
  end.

(** indices (from 0) of the cases on which model and implementation differ, with the model's answer *)
Fixpoint mismatches_from (i : nat) (cs : list (op * expected)) : list (nat * expected) :=
  match cs with
  | [] => []
  | (o, e) :: rest =>
      let m := run o in
      if expected_eqb m e then mismatches_from (S i) rest else (i, m) :: mismatches_from (S i) rest
  end.
Definition mismatches := mismatches_from 0.
