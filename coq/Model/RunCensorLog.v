(** Replay of real firewall runs on the table-driven model of HandleQuery's log calls (C16, harness domain c16fw).
    [Censor hs ign wr parsed maxlevel]: hs = the configured handler chain with the verdict each handler gives on the
    statement (observed one by one on the real handlers), ign / wr = ignore_parse_error / parse_errors_log configured,
    parsed = the statement parses in ModeStrict, maxlevel = logrus level of the run (entries above it are not emitted).
    expected = one value per log entry of the firewall itself (logger field service=acra-censor) in order:
    [level; which text of the statement the entry carries (0 none, 1 raw, 2 normalized, 3 redacted)] ++ the message
    up to its first format verb; last value: [01] when HandleQuery returned an error. *)
From Coq Require Import List NArith Bool String Ascii.
From Acra Require Import Lib.Bytes Lib.Outcome.
From Acra Require Export Gen.CensorLogSites Model.SqlRedact Model.CensorLog.
Import ListNotations.
Local Open Scope N_scope.

Inductive expected := XOk (vals : list bytes) | XErr | XPanic.

Inductive op := Censor (hs : list handler) (ign wr parsed : bool) (maxlevel : N).

Definition level_code (l : clevel) : N :=
  match l with
  | CL_panic => 0 | CL_fatal => 1 | CL_error => 2 | CL_warning => 3 | CL_info => 4 | CL_debug => 5 | CL_trace => 6
  end.

Definition kind_code (k : tkind) : N :=
  match k with KEmpty => 0 | KRaw => 1 | KNormalized => 2 | KRedacted => 3 end.

Fixpoint msg_prefix (s : string) : string :=
  match s with
  | EmptyString => EmptyString
  | String c r => if Ascii.eqb c "%"%char then EmptyString else String c (msg_prefix r)
  end.

Definition enc_event (e : kev) : bytes :=
  [n2b (level_code (ke_level e)); n2b (kind_code (ke_kind e))] ++ bytes_of_string (msg_prefix (ke_msg e)).

Definition run (o : op) : expected :=
  match o with
  | Censor hs ign wr parsed maxlevel =>
      let out := censor_handle_k (mkCfg hs ign wr) parsed in
      XOk (map enc_event (filter (fun e => level_code (ke_level e) <=? maxlevel) (ko_logs out))
           ++ [[if ko_denied out then x01 else x00]])
  end.

Fixpoint list_bytes_eqb (a b : list bytes) : bool :=
  match a, b with
  | [], [] => true
  | x :: a', y :: b' => bytes_eqb x y && list_bytes_eqb a' b'
  | _, _ => false
  end.

Definition expected_eqb (a b : expected) : bool :=
  match a, b with
  | XOk x, XOk y => list_bytes_eqb x y
  | XErr, XErr => true
  | XPanic, XPanic => true
  | _, _ => false
  end.

(** indices (from 0) of the cases on which model and implementation differ, with the model's answer *)
Fixpoint mismatches_from (i : nat) (cs : list (op * expected)) : list (nat * expected) :=
  match cs with
  | [] => []
  | (o, e) :: rest =>
      let m := run o in
      if expected_eqb m e then mismatches_from (S i) rest else (i, m) :: mismatches_from (S i) rest
  end.
