(** Extension of the searchable-encryption model (Model/Search.v):

    1. WHERE condition TREES (AND / OR / NOT / parentheses over comparisons with either operand order and casts
       around either operand), the selection of comparisons as FilterSearchableComparisons performs it
       (encryptor/postgresql/searchable_query_filter.go, encryptor/mysql/searchable_query_filter.go), the
       rewrite of HashQuery.OnQuery and the replacement of bound values of HashQuery.OnBind
       (hmac/decryptor/postgresql/hashQuery.go, hmac/decryptor/mysql/hashQuery.go), and evaluators for the
       condition as written (on plaintext rows) and as sent (on stored rows).
    2. the two-stage column state machine of hmac.Processor (hmac/dataProcessor.go, FIXED code:
       Processor.OnColumn strips, Processor.Verifier().OnColumn verifies) as the proxies subscribe it around the
       decrypting subscribers (decryptor/postgresql/proxy.go, decryptor/mysql/proxy.go), and the ORIGINAL
       single-method state machine (kept to state the defect that was repaired).
    No proofs here. *)
From Acra Require Import Lib.Bytes Lib.Outcome Lib.Sha256 Crypto.Interface Gen.Consts
  Model.Envelope Model.EnvelopeOld Model.Search.

Inductive dialect := PG | MY.

(** * Conditions as the application writes them *)
(** one comparison:  [cast](col) op [cast](value)   or, with [c_rev],   [cast](value) op [cast](col) *)
Record cmp := mk_cmp {
  c_neg : bool;          (* <> instead of = *)
  c_rev : bool;          (* the value is the LEFT operand *)
  c_lcast : bool;        (* a cast around the column  (PG  col::type,  MySQL CAST(col AS type)) *)
  c_col : nat;
  c_rcast : bool;        (* a cast around the value   (PG  'v'::type / $1::type,  MySQL CAST('v' AS type)) *)
  c_val : operand }.

Inductive wcond :=
| WCmp (c : cmp)
| WAnd (a b : wcond)
| WOr (a b : wcond)
| WNot (a : wcond)
| WParen (a : wcond).

(** * Conditions as the database receives them *)
Inductive xcond :=
| XCmp (c : cmp)                                                                   (* left as written *)
| XSub (neg conv : bool) (col : nat) (from len : N) (rcast : bool) (o : operand)
    (* [convert(]substr(col, from, len)[, binary)] op [cast](o) *)
| XAnd (a b : xcond)
| XOr (a b : xcond)
| XNot (a : xcond)
| XParen (a : xcond).

Definition is_param (o : operand) : bool := match o with OParam _ => true | OLit _ => false end.

(** FilterSearchableComparisons + the [Setting.IsSearchable()] test of OnQuery/OnBind: the left operand must be
    the bare column; PostgreSQL accepts an A_Const, a ParamRef or a TypeCast on the right, MySQL only an SQLVal *)
Definition selected (d : dialect) (schema : list bool) (c : cmp) : bool :=
  searchable schema (c_col c) && negb (c_rev c) && negb (c_lcast c)
  && match d with PG => true | MY => negb (c_rcast c) end.

(** the value of a selected comparison is replaced by its index: a literal in OnQuery (also below a cast), a
    placeholder in OnBind -- but a placeholder BELOW A CAST is neither (GetParamRef() of a TypeCast is nil) *)
Definition hashed (d : dialect) (schema : list bool) (c : cmp) : bool :=
  selected d schema c && negb (c_rcast c && is_param (c_val c)).

Section Rewrite.
Variable C : crypto.

(** HashQuery.OnQuery on one comparison.  MySQL wraps the left side of a literal comparison into
    convert(..., binary) and prints the index as 0x...; placeholders keep substr(...) = ? *)
Definition rewrite_cmp (d : dialect) (ks : keyset) (schema : list bool) (c : cmp) : res xcond :=
  if selected d schema c then
    match c_val c with
    | OLit v =>
        do idx <- calculate_hmac C ks v;
        if bytes_eqb idx v then Err E_GENERIC    (* ErrUpdateLeaveDataUnchanged *)
        else Ok (XSub (c_neg c) (match d with PG => false | MY => true end) (c_col c) 1 HASHN (c_rcast c) (OLit idx))
    | OParam i => Ok (XSub (c_neg c) false (c_col c) 1 HASHN (c_rcast c) (OParam i))
    end
  else Ok (XCmp c).

Fixpoint rewrite_w (d : dialect) (ks : keyset) (schema : list bool) (c : wcond) : res xcond :=
  match c with
  | WCmp cm => rewrite_cmp d ks schema cm
  | WAnd a b => do a' <- rewrite_w d ks schema a; do b' <- rewrite_w d ks schema b; Ok (XAnd a' b')
  | WOr a b => do a' <- rewrite_w d ks schema a; do b' <- rewrite_w d ks schema b; Ok (XOr a' b')
  | WNot a => do a' <- rewrite_w d ks schema a; Ok (XNot a')
  | WParen a => do a' <- rewrite_w d ks schema a; Ok (XParen a')
  end.

(** HashQuery.OnBind: placeholders that are the (uncast) right operand of a selected comparison, statement order *)
Definition bind_idx_cmp (d : dialect) (schema : list bool) (c : cmp) : list nat :=
  match c_val c with
  | OParam i => if selected d schema c && negb (c_rcast c) then [i] else []
  | OLit _ => []
  end.

Fixpoint bind_idxs (d : dialect) (schema : list bool) (c : wcond) : list nat :=
  match c with
  | WCmp cm => bind_idx_cmp d schema cm
  | WAnd a b | WOr a b => bind_idxs d schema a ++ bind_idxs d schema b
  | WNot a | WParen a => bind_idxs d schema a
  end.

(** MySQL replaceValuesWithHMACs: every listed position is processed (the MySQL parser numbers '?' in order of
    appearance, so a position cannot be listed twice) *)
Fixpoint replace_values_nd (ks : keyset) (idxs : list nat) (vals : list bytes) : res (list bytes) :=
  match idxs with
  | [] => Ok vals
  | i :: rest =>
      do h <- calculate_hmac C ks (nth i vals []);
      replace_values_nd ks rest (set_nth i h vals)
  end.

Definition on_bindx (d : dialect) (ks : keyset) (schema : list bool) (c : wcond) (vals : list bytes)
  : res (list bytes) :=
  let idxs := bind_idxs d schema c in
  if existsb (fun i => Nat.leb (length vals) i) idxs then Err E_GENERIC
  else match d with
       | PG => replace_values C ks idxs [] vals
       | MY => replace_values_nd ks idxs vals
       end.
End Rewrite.

(** * The storage: evaluates what it received; casts and convert(.., binary) do not change the bytes *)
Definition eval_cmp_raw (binds : list bytes) (row : list bytes) (c : cmp) : bool :=
  xorb (c_neg c) (bytes_eqb (cell row (c_col c)) (operand_value binds (c_val c))).

Fixpoint eval_x (binds : list bytes) (row : list bytes) (c : xcond) : bool :=
  match c with
  | XCmp cm => eval_cmp_raw binds row cm
  | XSub neg _ col from len _ o => xorb neg (bytes_eqb (substr from len (cell row col)) (operand_value binds o))
  | XAnd a b => eval_x binds row a && eval_x binds row b
  | XOr a b => eval_x binds row a || eval_x binds row b
  | XNot a => negb (eval_x binds row a)
  | XParen a => eval_x binds row a
  end.

(** * The reference: the condition as written, on the PLAINTEXT row.  In a comparison with a searchable column
    the searched value stands for [mean value] (an envelope of the owner stands for its content). *)
Definition eval_cmp_plain (mean : bytes -> bytes) (schema : list bool) (binds : list bytes) (prow : list bytes)
  (c : cmp) : bool :=
  let v := operand_value binds (c_val c) in
  xorb (c_neg c) (bytes_eqb (cell prow (c_col c)) (if searchable schema (c_col c) then mean v else v)).

Fixpoint eval_w (mean : bytes -> bytes) (schema : list bool) (binds : list bytes) (prow : list bytes) (c : wcond)
  : bool :=
  match c with
  | WCmp cm => eval_cmp_plain mean schema binds prow cm
  | WAnd a b => eval_w mean schema binds prow a && eval_w mean schema binds prow b
  | WOr a b => eval_w mean schema binds prow a || eval_w mean schema binds prow b
  | WNot a => negb (eval_w mean schema binds prow a)
  | WParen a => eval_w mean schema binds prow a
  end.

(** the whole round: OnQuery, OnBind, storage; one flag per stored row *)
Definition run_queryx (C : crypto) (d : dialect) (ks : keyset) (schema : list bool) (rows : list (list bytes))
  (c : wcond) (binds : list bytes) : res (list bool) :=
  do xc <- rewrite_w C d ks schema c;
  do nb <- on_bindx C d ks schema c binds;
  Ok (map (fun row => eval_x nb row xc) rows).

(** comparisons of a tree, and the placeholders used by comparisons whose value is NOT replaced *)
Fixpoint cmps (c : wcond) : list cmp :=
  match c with
  | WCmp cm => [cm]
  | WAnd a b | WOr a b => cmps a ++ cmps b
  | WNot a | WParen a => cmps a
  end.

Definition plain_param_cmp (d : dialect) (schema : list bool) (c : cmp) : list nat :=
  match c_val c with
  | OParam i => if hashed d schema c then [] else [i]
  | OLit _ => []
  end.

Definition plain_params (d : dialect) (schema : list bool) (c : wcond) : list nat :=
  flat_map (plain_param_cmp d schema) (cmps c).

(** every comparison with a searchable column has the shape the filter selects and the rewrite completes *)
Definition well_shaped (d : dialect) (schema : list bool) (c : wcond) : bool :=
  forallb (fun cm => implb (searchable schema (c_col cm)) (hashed d schema cm)) (cmps c).

(** no placeholder is at the same time the value of a replaced and of an untouched comparison *)
Definition params_separated (d : dialect) (schema : list bool) (c : wcond) : bool :=
  forallb (fun i => negb (existsb (Nat.eqb i) (bind_idxs d schema c))) (plain_params d schema c).

(** * hmac.Processor: the two subscriptions around the decrypting subscribers *)
(** state between the two stages of one column: None = nothing kept (hashData == nil);
    Some (hash, raw) = hashData/matchedHash and rawData *)
Definition hp_state := option (bytes * bytes).

Section Processor.
Variable matcher : bytes -> bool.                       (* crypto.EnvelopeMatcher.Match *)
Variable inner : bytes -> res (bytes * bool).           (* the subscribers in between: (data, marked decrypted) *)

(** Processor.OnColumn (first subscription): the incoming state is dropped *)
Definition hp_strip (st : hp_state) (data : bytes) : hp_state * bytes :=
  match extract_hash data with
  | None => (None, data)
  | Some (h, rest) => if matcher rest then (Some (h, data), rest) else (None, data)
  end.

(** Processor.Verifier().OnColumn (second subscription): (state, data, marked NOT decrypted) *)
Definition hp_verify (ks : keyset) (st : hp_state) (data : bytes) : hp_state * bytes * bool :=
  match st with
  | None => (None, data, false)
  | Some (h, raw) => if hash_is_equal h data ks then (None, data, false) else (None, raw, true)
  end.

(** one column through ColumnDecryptionObserver.OnColumnDecryption with subscribers
    [processor; inner; processor.Verifier()]: state afterwards, and (delivered bytes, IsDecryptedFromContext) *)
Definition hp_column (ks : keyset) (st : hp_state) (data : bytes) : hp_state * res (bytes * bool) :=
  let (st1, d1) := hp_strip st data in
  match inner d1 with
  | Ok (d2, ch) =>
      let '(st2, d3, nd) := hp_verify ks st1 d2 in
      (st2, Ok (d3, ch && negb nd))
  | Err e => (st1, Err e)          (* the observer stops at the failing subscriber *)
  | Panic => (st1, Panic)
  end.

(** a history of columns (rows of a result set, one after the other) through ONE processor *)
Fixpoint hp_columns (ks : keyset) (st : hp_state) (cols : list bytes) : list (res (bytes * bool)) :=
  match cols with
  | [] => []
  | c :: rest => let (st', o) := hp_column ks st c in o :: hp_columns ks st' rest
  end.

(** ** the ORIGINAL code: one OnColumn subscribed twice.
    state = (hashData, matchedHash, rawData); matchedHash == nil with hashData != nil dereferences nil *)
Record hp0_state := { h0_hash : option bytes; h0_matched : option bytes; h0_raw : bytes }.
Definition hp0_init : hp0_state := {| h0_hash := None; h0_matched := None; h0_raw := [] |}.

Definition hp0_on_column (ks : keyset) (st : hp0_state) (data : bytes) : res (hp0_state * bytes * bool) :=
  let ok : res bool :=
    match h0_hash st with
    | None => Ok true
    | Some _ => match h0_matched st with None => Panic | Some h => Ok (hash_is_equal h data ks) end
    end in
  match ok with
  | Panic => Panic
  | Err e => Err e
  | Ok false => Ok ({| h0_hash := None; h0_matched := h0_matched st; h0_raw := h0_raw st |}, h0_raw st, true)
  | Ok true =>
      match extract_hash data with
      | None => Ok ({| h0_hash := None; h0_matched := None; h0_raw := h0_raw st |}, data, false)
      | Some (h, rest) =>
          if matcher rest
          then Ok ({| h0_hash := Some h; h0_matched := Some h; h0_raw := data |}, rest, false)
          else Ok ({| h0_hash := h0_hash st; h0_matched := None; h0_raw := h0_raw st |}, data, false)
      end
  end.

Definition hp0_column (ks : keyset) (st : hp0_state) (data : bytes) : res (hp0_state * (bytes * bool)) :=
  match hp0_on_column ks st data with
  | Panic => Panic | Err e => Err e
  | Ok (st1, d1, _) =>
      match inner d1 with
      | Panic => Panic | Err e => Err e
      | Ok (d2, ch) =>
          match hp0_on_column ks st1 d2 with
          | Panic => Panic | Err e => Err e
          | Ok (st2, d3, nd2) => Ok (st2, (d3, ch && negb nd2))
          end
      end
  end.
End Processor.

(** * the concrete matcher and inner subscriber of the proxies (OldContainerDetectionOn = true) *)
(** EnvelopeMatcher.Match: the detector (wrapper) with callbacks [wrapper; matcher]; the matcher's callback is
    reached exactly when a serialized container, a raw AcraStruct or a raw AcraBlock candidate is found.  A
    callback that answers something else than the container makes exactly those occurrences visible. *)
Definition envelope_match (data : bytes) : bool :=
  match on_column_old [fun _ : bytes => Ok ([] : bytes)] data with
  | Ok (out, _) => negb (bytes_eqb out data)
  | _ => false
  end.

Definition proxy_inner (C : crypto) (ks : keyset) (data : bytes) : res (bytes * bool) :=
  on_column_old (old_cbs C ks) data.
