(** Session-level model of the SQL proxy (decryptor/postgresql/proxy.go, pg_decryptor.go,
    encryptor/postgresql/queryDataEncryptor.go, crypto/{encryptor,decryptor,envelope_detector}.go)
    over an ABSTRACT statement form: the output of the SQL parsers (pg_query) is an input here.
    Columns are plain or protected by one envelope (crypto_envelope + optional client_id); searchable,
    masked, tokenized and typed columns are not modelled (oracle only).  No proofs here. *)
From Acra Require Import Lib.Bytes Lib.Outcome Crypto.Interface Gen.Consts Model.Envelope.

(** * configuration (encryptor/base/config: tableSchema.Columns / EncryptionColumnSettings) *)
Inductive colcfg := CPlain | CProt (env : byte) (owner : option bytes).
Definition tablecfg := (bytes * list (bytes * colcfg))%type.   (* table, columns in schema order *)
Definition config := list tablecfg.
Definition keyring := list (bytes * keyset).                    (* client id -> keys *)

Fixpoint assoc {A} (k : bytes) (l : list (bytes * A)) : option A :=
  match l with
  | [] => None
  | (k', v) :: rest => if bytes_eqb k k' then Some v else assoc k rest
  end.

Definition no_keys : keyset := Build_keyset None [] [] None.
Definition keys_of (kr : keyring) (id : bytes) : keyset :=
  match assoc id kr with Some ks => ks | None => no_keys end.

Definition col_setting (cfg : config) (tbl col : bytes) : colcfg :=
  match assoc tbl cfg with
  | Some cols => match assoc col cols with Some c => c | None => CPlain end
  | None => CPlain
  end.

(** * abstract statements *)
Inductive sel_item := SCol (c : bytes) | SStar.
Inductive stmt :=
| Insert (tbl : bytes) (cols : option (list bytes)) (rows : list (list bytes)) (ret : list sel_item)
| Update (tbl : bytes) (sets : list (bytes * bytes)) (whr : option (bytes * bytes)) (ret : list sel_item)
| Select (items : list sel_item) (tbl : bytes) (whr : option (bytes * bytes))
| Other (text : bytes).

Section Proxy.
Variable C : crypto.
Variable cfg : config.
Variable kr : keyring.
Variable conn : bytes.     (* client id of the connection (AccessContext) *)

(** * write path: QueryDataEncryptor.encryptWithColumnSettings -> ChainDataEncryptor ->
      EncryptHandler -> RegistryHandler.EncryptWithClientID *)
Definition enc_client (owner : option bytes) : bytes :=
  match owner with Some o => o | None => conn end.

(* encryptExpression's updateFunc: empty data is left alone *)
Definition protect_value (cc : colcfg) (tape : list bytes) (v : bytes) : res bytes :=
  match cc with
  | CPlain => Ok v
  | CProt env owner =>
      if is_nil v then Ok v
      else encrypt_with_handler C env (keys_of kr (enc_client owner)) tape v
  end.

(* one tape per value, aligned with the values ([] where nothing is drawn) *)
Fixpoint protect_list (ccs : list colcfg) (tapes : list (list bytes)) (vals : list bytes) : res (list bytes) :=
  match vals with
  | [] => Ok []
  | v :: vals' =>
      do v' <- protect_value (hd CPlain ccs) (hd [] tapes) v;
      do rest <- protect_list (tl ccs) (tl tapes) vals';
      Ok (v' :: rest)
  end.

(* encryptInsertQuery (with fix_pg_insert_values_mapping): a tuple LONGER than the column list is skipped *)
Fixpoint protect_rows (ccs : list colcfg) (tapes : list (list bytes)) (rows : list (list bytes))
  : res (list (list bytes)) :=
  match rows with
  | [] => Ok []
  | r :: rows' =>
      do r' <- (if Nat.ltb (length ccs) (length r) then Ok r else protect_list ccs (firstn (length r) tapes) r);
      do rest <- protect_rows ccs (skipn (length r) tapes) rows';
      Ok (r' :: rest)
  end.

Definition insert_columns (tbl : bytes) (cols : option (list bytes)) : option (list colcfg) :=
  match assoc tbl cfg with
  | None => None                                    (* no schema: statement untouched *)
  | Some tcols =>
      match cols with
      | Some names => Some (map (col_setting cfg tbl) names)
      | None => Some (map snd tcols)                (* schema.Columns() *)
      end
  end.

Definition proxy_write (st : stmt) (tapes : list (list bytes)) : res stmt :=
  match st with
  | Insert tbl cols rows ret =>
      match insert_columns tbl cols with
      | None => Ok st
      | Some ccs => do rows' <- protect_rows ccs tapes rows; Ok (Insert tbl cols rows' ret)
      end
  | Update tbl sets whr ret =>
      do vals <- protect_list (map (fun s => col_setting cfg tbl (fst s)) sets) tapes (map snd sets);
      Ok (Update tbl (combine (map fst sets) vals) whr ret)
  | Select _ _ _ | Other _ => Ok st
  end.

(** * read path: handleQueryDataPacket -> per column subscribers; for the modelled column kinds the only
      data-changing subscriber is EnvelopeDetector.OnColumn with [DecryptHandler(RegistryHandler)] under the
      CONNECTION's client id.  NULL columns are skipped. *)
Definition reader_cbs (ks : keyset) : list (bytes -> res bytes) := [decrypt_handler (registry_process C ks)].

Definition reveal_cell (cell : option bytes) : res (option bytes) :=
  match cell with
  | None => Ok None
  | Some b => do r <- on_column (reader_cbs (keys_of kr conn)) b; Ok (Some (fst r))
  end.

Fixpoint reveal_row (row : list (option bytes)) : res (list (option bytes)) :=
  match row with
  | [] => Ok []
  | c :: rest => do c' <- reveal_cell c; do rest' <- reveal_row rest; Ok (c' :: rest')
  end.

Fixpoint proxy_result (rows : list (list (option bytes))) : res (list (list (option bytes))) :=
  match rows with
  | [] => Ok []
  | r :: rest => do r' <- reveal_row r; do rest' <- proxy_result rest; Ok (r' :: rest')
  end.

End Proxy.

(** * the abstract database: stores what it is sent, returns what it stored *)
Definition dbtable := (list bytes * list (list (option bytes)))%type.   (* column names, rows *)
Definition database := list (bytes * dbtable).

Fixpoint index_in (c : bytes) (cols : list bytes) : option nat :=
  match cols with
  | [] => None
  | c' :: rest => if bytes_eqb c c' then Some 0 else option_map S (index_in c rest)
  end.

Definition cell_of (cols : list bytes) (row : list (option bytes)) (c : bytes) : option bytes :=
  match index_in c cols with Some i => nth i row None | None => None end.

Definition mk_row (dbcols cols : list bytes) (vals : list bytes) : list (option bytes) :=
  map (fun c => match index_in c cols with Some i => nth_error vals i | None => None end) dbcols.

Definition row_matches (dbcols : list bytes) (whr : option (bytes * bytes)) (row : list (option bytes)) : bool :=
  match whr with
  | None => true
  | Some (c, v) => match cell_of dbcols row c with Some x => bytes_eqb x v | None => false end
  end.

Definition project (dbcols : list bytes) (items : list sel_item) (row : list (option bytes)) : list (option bytes) :=
  flat_map (fun it => match it with SCol c => [cell_of dbcols row c] | SStar => row end) items.

Definition set_cells (dbcols : list bytes) (sets : list (bytes * bytes)) (row : list (option bytes)) : list (option bytes) :=
  map (fun cv => match assoc (fst cv) sets with Some v => Some v | None => snd cv end) (combine dbcols row).

Fixpoint replace_table (t : bytes) (nt : dbtable) (db : database) : database :=
  match db with
  | [] => []
  | (t', x) :: rest => if bytes_eqb t t' then (t', nt) :: rest else (t', x) :: replace_table t nt rest
  end.

Definition results (items : list sel_item) (rows : list (list (option bytes))) : list (list (option bytes)) :=
  match items with [] => [] | _ => rows end.

(* returns the new database and the result rows *)
Definition db_exec (db : database) (st : stmt) : database * list (list (option bytes)) :=
  match st with
  | Insert tbl cols rows ret =>
      match assoc tbl db with
      | None => (db, [])
      | Some (dbcols, old) =>
          let names := match cols with Some n => n | None => dbcols end in
          let new := map (mk_row dbcols names) rows in
          (replace_table tbl (dbcols, old ++ new) db, results ret (map (project dbcols ret) new))
      end
  | Update tbl sets whr ret =>
      match assoc tbl db with
      | None => (db, [])
      | Some (dbcols, old) =>
          let upd := map (fun r => if row_matches dbcols whr r then set_cells dbcols sets r else r) old in
          let touched := map (set_cells dbcols sets) (filter (row_matches dbcols whr) old) in
          (replace_table tbl (dbcols, upd) db, results ret (map (project dbcols ret) touched))
      end
  | Select items tbl whr =>
      match assoc tbl db with
      | None => (db, [])
      | Some (dbcols, rows) => (db, map (project dbcols items) (filter (row_matches dbcols whr) rows))
      end
  | Other _ => (db, [])
  end.

(** * one session: statements in order through write path, database, read path *)
Section Session.
Variable C : crypto.
Variable cfg : config.
Variable kr : keyring.
Variable conn : bytes.

Definition step (db : database) (st : stmt) (tapes : list (list bytes))
  : res (database * (stmt * list (list (option bytes)))) :=
  do fw <- proxy_write C cfg kr conn st tapes;
  let '(db', rs) := db_exec db fw in
  do out <- proxy_result C kr conn rs;
  Ok (db', (fw, out)).

Fixpoint run_session (db : database) (sts : list (stmt * list (list bytes)))
  : res (database * list (stmt * list (list (option bytes)))) :=
  match sts with
  | [] => Ok (db, [])
  | (st, tapes) :: rest =>
      do r <- step db st tapes;
      let '(db', o) := r in
      do r2 <- run_session db' rest;
      let '(db'', os) := r2 in
      Ok (db'', o :: os)
  end.
End Session.

(** * cell-level histories: a list of writes, then a read (used by the history theorems).
      The store keeps the newest write of an address first. *)
Definition addr := (bytes * bytes * bytes)%type.   (* table, row key, column *)
Definition addr_eqb (a b : addr) : bool :=
  let '(t1, r1, c1) := a in let '(t2, r2, c2) := b in
  bytes_eqb t1 t2 && bytes_eqb r1 r2 && bytes_eqb c1 c2.

Record write := { w_addr : addr; w_conn : bytes; w_tape : list bytes; w_val : bytes }.
Definition store := list (addr * bytes).

Fixpoint lookup (a : addr) (s : store) : option bytes :=
  match s with
  | [] => None
  | (a', v) :: rest => if addr_eqb a a' then Some v else lookup a rest
  end.

Section Cells.
Variable C : crypto.
Variable cfg : config.
Variable kr : keyring.

Definition addr_setting (a : addr) : colcfg := let '(t, _, c) := a in col_setting cfg t c.

Fixpoint run_writes (s : store) (ws : list write) : res store :=
  match ws with
  | [] => Ok s
  | w :: rest =>
      do v' <- protect_value C kr (w_conn w) (addr_setting (w_addr w)) (w_tape w) (w_val w);
      run_writes ((w_addr w, v') :: s) rest
  end.

Definition read_cell (s : store) (reader : bytes) (a : addr) : res (option bytes) :=
  reveal_cell C kr reader (lookup a s).
End Cells.
