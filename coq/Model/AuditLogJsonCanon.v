(** The canonical byte string of the JSON audit log as a CODE of field maps (C20, JSON path).

    The HMAC chain authenticates [conv_b m] (Model/AuditLogJson.v: convertMapToBytes / getBytes).  An edited
    entry whose field map m' has the same canonical bytes is invisible to the verifier
    (C20_json_edited_entry_detected), so the chain protects exactly as much as [conv_b] is injective.  This
    file holds the definitions the injectivity theorem (Proofs/AuditLogJsonInj.v) is stated with, and the
    OTHER canonical form — top-level string values as their raw bytes — for which it fails.  No proofs here.

    The layout of the running code is probed on every run into Gen/AuditLogCanon.v
    ([AL_JSON_CANON_PRE/MID/POST], [AL_JSON_CANON_STRING_QUOTED]); [canon_layout_ok] compares it with the
    modelled form. *)
From Acra Require Import Lib.Bytes Lib.Outcome Gen.AuditLogConsts Gen.AuditLogCanon
  Model.AuditLog Model.AuditLogJsonNum Model.AuditLogJson.

(** * the general shape: per member  D name D value D *)
Definition conv_with (rv : jv -> bytes) (m : list (bytes * jv)) : bytes :=
  flat_map (fun kv : bytes * jv => AL_JSON_DELIM ++ fst kv ++ AL_JSON_DELIM ++ rv (snd kv) ++ AL_JSON_DELIM) m.

(** getBytes with a "fast path" for strings (seeded change m60): a top-level string value is authenticated as
    its raw bytes, every other value as json.Marshal prints it *)
Definition render_raw_top (v : jv) : bytes :=
  match v with
  | JStr s => s
  | _ => render v
  end.
Definition conv_raw : list (bytes * jv) -> bytes := conv_with render_raw_top.

(** what the running code does, as probed: the modelled form iff the three tokens are the delimiter and
    strings are marshalled *)
Definition canon_layout_ok : bool :=
  bytes_eqb AL_JSON_CANON_PRE AL_JSON_DELIM && bytes_eqb AL_JSON_CANON_MID AL_JSON_DELIM
  && bytes_eqb AL_JSON_CANON_POST AL_JSON_DELIM && AL_JSON_CANON_STRING_QUOTED.

(** * side conditions *)

(** the token occurs in the string *)
Definition has_tok (tok s : bytes) : bool := match index_of tok s with Some _ => true | None => false end.

(** the side condition of known finding json-delimiter-ambiguity: no top-level member NAME contains the token *)
Definition names_free (m : list (bytes * jv)) : bool :=
  forallb (fun kv : bytes * jv => negb (has_tok AL_JSON_DELIM (fst kv))) m.

(** a proper suffix of the token that is also a prefix of it (a "border") would let a name end inside a token *)
Definition border_free (tok : bytes) : bool :=
  forallb (fun j => negb (bytes_eqb (firstn j tok) (skipn (length tok - j) tok))) (seq 1 (length tok - 1)).

(** characters of a JSON number; a value is followed by one that is not *)
Definition numchar (b : byte) : bool :=
  is_digit b || byte_eqb b x2d || byte_eqb b x2b || byte_eqb b x2e || byte_eqb b x65 || byte_eqb b x45.
Definition stops (r : bytes) : bool := match r with [] => true | c :: _ => negb (numchar c) end.

(** every number of the value prints as a JSON number literal ([scan_number] accepts it): what the tokenizer
    guarantees of json.Number literals, and what [WFV false] implies of float64 *)
Definition shaped (lit : bytes) : bool := match scan_number lit with Some _ => true | None => false end.
Fixpoint nsh (v : jv) : bool :=
  match v with
  | JNum n => shaped (render_num n)
  | JArr l => forallb nsh l
  | JObj m => forallb (fun kv : bytes * jv => nsh (snd kv)) m
  | _ => true
  end.
Definition nsh_m (m : list (bytes * jv)) : bool := forallb (fun kv : bytes * jv => nsh (snd kv)) m.

(** * json.Marshal's string escaping, character by character *)
Definition asc (b : byte) : bytes := nth (N.to_nat (b2n b)) AL_JSON_ASCII [].

(** facts about the generated table that the proof needs (all decided by computation):
    entries of different bytes are not prefixes of one another, every entry starts with an ASCII byte other than
    the quote, none is comparable with the two \u202x escapes *)
Definition ESC_2028 : bytes := ESC_202 ++ [x38].
Definition ESC_2029 : bytes := ESC_202 ++ [x39].
Definition comparable (a b : bytes) : bool := starts_with a b || starts_with b a.
Definition ascii_table_ok : bool :=
  Nat.eqb (length AL_JSON_ASCII) 128
  && forallb (fun i => forallb (fun j => Nat.eqb i j || negb (comparable (nth i AL_JSON_ASCII []) (nth j AL_JSON_ASCII [])))
                         (seq 0 128)) (seq 0 128)
  && forallb (fun e : bytes => match e with
                               | c :: _ => is_ascii c && negb (byte_eqb c x22)
                               | [] => false
                               end && negb (comparable e ESC_2028) && negb (comparable e ESC_2029)) AL_JSON_ASCII.

(** * the whole JSON path over ANOTHER canonical form (to state what a non-injective form costs the chain):
    JSONFormatterHook.PostFormat / the writer / JSONLogParser.ParseEntry / the verifier of Model/AuditLogJson.v
    with [conv] in the place of [conv_b] (for [conv_b] they are the modelled ones: Proofs/AuditLogJsonInj.v) *)
Definition json_post_with (conv : list (bytes * jv) -> bytes) (usenum : bool) (c : calc) (formatted : wv)
  : res (list (bytes * jv) * calc) :=
  match decode_top usenum formatted with
  | None => Err E_JSON
  | Some m =>
      let '(agg, nc, c') := calc_step c (conv m) in
      let m1 := aset AL_INTEGRITY_KEY (JStr (hex_encode agg)) m in
      Ok (if nc then aset AL_CHAIN_KEY (JStr AL_NEW_VALUE) m1 else m1, c')
  end.
Fixpoint write_json_with (conv : list (bytes * jv) -> bytes) (usenum : bool) (c : calc) (evs : list jbev)
  : list (list (bytes * jv)) :=
  match evs with
  | [] => []
  | JBEntry w :: r =>
      match json_post_with conv usenum c w with
      | Ok x => fst x :: write_json_with conv usenum (snd x) r
      | _ => write_json_with conv usenum c r
      end
  | JBReset k :: r => write_json_with conv usenum (calc_new k) r
  end.
Definition json_parse_m_with (conv : list (bytes * jv) -> bytes) (m : list (bytes * jv)) : pres :=
  match aget AL_INTEGRITY_KEY m with
  | Some (JStr s) =>
      match hex_decode s with
      | None => PErr
      | Some integ =>
          let m1 := adel AL_INTEGRITY_KEY m in
          let isnew := is_str (aget AL_CHAIN_KEY m1) AL_NEW_VALUE in
          let m2 := if isnew then adel AL_CHAIN_KEY m1 else m1 in
          POk (mk_parsed (conv m2) integ isnew (json_end_marked m1))
      end
  | _ => PSkip
  end.
Definition wline_pres_with (conv : list (bytes * jv) -> bytes) (usenum : bool) (l : wline) : pres :=
  match l with
  | WEmpty => PSkip
  | WBad => PErr
  | WLine w => match decode_top usenum w with None => PErr | Some m => json_parse_m_with conv m end
  end.
Definition verify_json_with (conv : list (bytes * jv) -> bytes) (usenum : bool) (key : bytes) (ls : list wline) : verdict :=
  verify_pres key (vinit key) 0 (map (wline_pres_with conv usenum) ls).
