(** The serialized layout of a keystore v2 export (C18 extension): DER of asn1.EncryptedKeys
    (keystore/v2/keystore/asn1/asn1.go: EncryptedKeys{KeyRings `set`}, KeyRing{Purpose, Keys, Current},
    Key{Seqnum, State, ValidSince `utc`, ValidUntil `utc`, Data `set`},
    KeyData{Format, PublicKey `optional,tag:1`, PrivateKey `optional,tag:2`, SymmetricKey `optional,tag:3`})
    as Go's encoding/asn1 writes it for these declarations: definite lengths, minimal two's-complement
    INTEGER (KeyState / KeyFormat / ContentType are NAMED types over asn1.Enumerated, which
    encoding/asn1 does not recognise: they travel as INTEGER), implicit context tags, SET OF sorted by encoding (X.690 11.6).  The field
    list and the struct tags come from acra (Gen/X18Consts.v checks them by reflection); the universal
    tag numbers are X.690's.  UTCTime values are carried as their 13 characters.
    The parser accepts what the serializer writes (lengths up to 4 length octets); the strictness of
    encoding/asn1 on other inputs is NOT modelled (trusted).  No proofs here (Proofs/DerV2Ext.v). *)
From Coq Require Import List NArith ZArith Bool.
From Acra Require Import Lib.Bytes Lib.Outcome Crypto.Interface Gen.X18Consts.
Import ListNotations.
Local Open Scope N_scope.

(** asn1.KeyData / Key / KeyRing *)
Record kdata := { kd_format : Z; kd_pub : bytes; kd_priv : bytes; kd_sym : bytes }.
Record rkey := { k_seq : Z; k_state : Z; k_since : bytes; k_until : bytes; k_data : list kdata }.
Record ring := { r_purpose : bytes; r_keys : list rkey; r_current : Z }.

Definition T_INTEGER : byte := n2b 2.
Definition T_OCTETS : byte := n2b 4.
Definition T_UTCTIME : byte := n2b 23.
Definition T_SEQ : byte := n2b 48.
Definition T_SET : byte := n2b 49.
Definition t_ctx (k : N) : byte := n2b (128 + k).

Definition len_octets (n : N) : nat :=
  if n <? 256 then 1%nat else if n <? 65536 then 2%nat else if n <? 16777216 then 3%nat else 4%nat.
Definition der_len (n : N) : bytes :=
  if n <? 128 then [n2b n] else n2b (128 + N.of_nat (len_octets n)) :: be_enc (len_octets n) n.
Definition tlv (t : byte) (c : bytes) : bytes := t :: der_len (N.of_nat (length c)) ++ c.

(** minimal two's complement, 1..8 octets (Go int) *)
Definition fits (n : nat) (z : Z) : bool :=
  ((- 2 ^ (8 * Z.of_nat n - 1) <=? z) && (z <? 2 ^ (8 * Z.of_nat n - 1)))%Z.
Fixpoint int_len_aux (fuel n : nat) (z : Z) : nat :=
  match fuel with
  | O => n
  | S f => if fits n z then n else int_len_aux f (S n) z
  end.
Definition int_len (z : Z) : nat := int_len_aux 7 1 z.
Definition int_content (z : Z) : bytes :=
  be_enc (int_len z) (Z.to_N (z mod 2 ^ (8 * Z.of_nat (int_len z)))%Z).
Definition int_value (c : bytes) : Z :=
  let u := Z.of_N (be_dec c) in
  let w := (8 * Z.of_nat (length c))%Z in
  (if u <? 2 ^ (w - 1) then u else u - 2 ^ w)%Z.

(** lexicographic order of bytes.Compare *)
Fixpoint bytes_leb (a b : bytes) : bool :=
  match a, b with
  | [], _ => true
  | _ :: _, [] => false
  | x :: a', y :: b' => if b2n x <? b2n y then true else if b2n y <? b2n x then false else bytes_leb a' b'
  end.
Section Sort.
  Context {A : Type}.
  Fixpoint ins (x : bytes * A) (l : list (bytes * A)) : list (bytes * A) :=
    match l with
    | [] => [x]
    | y :: r => if bytes_leb (fst x) (fst y) then x :: l else y :: ins x r
    end.
  Definition isort (l : list (bytes * A)) : list (bytes * A) := fold_right ins [] l.
End Sort.
Definition set_of {A} (enc : A -> bytes) (l : list A) : list (bytes * A) := isort (map (fun x => (enc x, x)) l).

(** ---------------- serializer ---------------- *)
Definition der_opt (k : N) (b : bytes) : bytes := if is_nil b then [] else tlv (t_ctx k) b.
Definition der_kdata (d : kdata) : bytes :=
  tlv T_SEQ (tlv T_INTEGER (int_content (kd_format d)) ++ der_opt TAG_PUBLIC (kd_pub d) ++
             der_opt TAG_PRIVATE (kd_priv d) ++ der_opt TAG_SYMMETRIC (kd_sym d)).
Definition der_key (k : rkey) : bytes :=
  tlv T_SEQ (tlv T_INTEGER (int_content (k_seq k)) ++ tlv T_INTEGER (int_content (k_state k)) ++
             tlv T_UTCTIME (k_since k) ++ tlv T_UTCTIME (k_until k) ++
             tlv T_SET (concat (map fst (set_of der_kdata (k_data k))))).
Definition der_ring (r : ring) : bytes :=
  tlv T_SEQ (tlv T_OCTETS (r_purpose r) ++ tlv T_SEQ (concat (map der_key (r_keys r))) ++
             tlv T_INTEGER (int_content (r_current r))).
Definition der_rings (rs : list ring) : bytes :=
  tlv T_SEQ (tlv T_SET (concat (map fst (set_of der_ring rs)))).

(** the order in which a decoder meets the elements *)
Definition sorted_data (k : rkey) : rkey :=
  {| k_seq := k_seq k; k_state := k_state k; k_since := k_since k; k_until := k_until k;
     k_data := map snd (set_of der_kdata (k_data k)) |}.
Definition sorted_ring (r : ring) : ring :=
  {| r_purpose := r_purpose r; r_keys := map sorted_data (r_keys r); r_current := r_current r |}.
Definition sorted_rings (rs : list ring) : list ring := map sorted_ring (map snd (set_of der_ring rs)).

(** ---------------- parser ---------------- *)
Definition read_len (s : bytes) : option (N * bytes) :=
  match s with
  | [] => None
  | b :: r =>
      let n := b2n b in
      if n <? 128 then Some (n, r)
      else
        let k := N.to_nat (n - 128) in
        if (Nat.eqb k 0) || (Nat.ltb 4 k) || (Nat.ltb (length r) k) then None
        else Some (be_dec (firstn k r), skipn k r)
  end.
Definition read_tlv (s : bytes) : option (byte * bytes * bytes) :=
  match s with
  | [] => None
  | t :: r =>
      match read_len r with
      | None => None
      | Some (n, r') =>
          if N.of_nat (length r') <? n then None
          else Some (t, firstn (N.to_nat n) r', skipn (N.to_nat n) r')
      end
  end.

(** one element with tag [t]: content and rest *)
Definition expect (t : byte) (s : bytes) : option (bytes * bytes) :=
  match read_tlv s with
  | Some (t', c, rest) => if byte_eqb t t' then Some (c, rest) else None
  | None => None
  end.
(** optional element with a context tag *)
Definition expect_opt (k : N) (s : bytes) : bytes * bytes :=
  match read_tlv s with
  | Some (t', c, rest) => if byte_eqb (t_ctx k) t' then (c, rest) else ([], s)
  | None => ([], s)
  end.

Fixpoint parse_many {A} (p : bytes -> option A) (fuel : nat) (s : bytes) : option (list A) :=
  match s with
  | [] => Some []
  | _ =>
      match fuel with
      | O => None
      | S f =>
          match expect T_SEQ s with
          | Some (c, rest) =>
              match p c, parse_many p f rest with
              | Some x, Some xs => Some (x :: xs)
              | _, _ => None
              end
          | None => None
          end
      end
  end.

Definition parse_kdata (c : bytes) : option kdata :=
  match expect T_INTEGER c with
  | Some (f, r1) =>
      let (pub, r2) := expect_opt TAG_PUBLIC r1 in
      let (priv, r3) := expect_opt TAG_PRIVATE r2 in
      let (sym, r4) := expect_opt TAG_SYMMETRIC r3 in
      if is_nil r4 then Some {| kd_format := int_value f; kd_pub := pub; kd_priv := priv; kd_sym := sym |} else None
  | None => None
  end.
Definition parse_key (c : bytes) : option rkey :=
  match expect T_INTEGER c with
  | Some (sq, r1) =>
    match expect T_INTEGER r1 with
    | Some (st, r2) =>
      match expect T_UTCTIME r2 with
      | Some (since, r3) =>
        match expect T_UTCTIME r3 with
        | Some (until, r4) =>
          match expect T_SET r4 with
          | Some (dc, r5) =>
              if is_nil r5 then
                match parse_many parse_kdata (length dc) dc with
                | Some ds => Some {| k_seq := int_value sq; k_state := int_value st; k_since := since; k_until := until; k_data := ds |}
                | None => None
                end
              else None
          | None => None
          end
        | None => None
        end
      | None => None
      end
    | None => None
    end
  | None => None
  end.
Definition parse_ring (c : bytes) : option ring :=
  match expect T_OCTETS c with
  | Some (purpose, r1) =>
    match expect T_SEQ r1 with
    | Some (kc, r2) =>
      match expect T_INTEGER r2 with
      | Some (cur, r3) =>
          if is_nil r3 then
            match parse_many parse_key (length kc) kc with
            | Some ks => Some {| r_purpose := purpose; r_keys := ks; r_current := int_value cur |}
            | None => None
            end
          else None
      | None => None
      end
    | None => None
    end
  | None => None
  end.
(** asn1.UnmarshalEncryptedKeys *)
Definition parse_rings (s : bytes) : option (list ring) :=
  match expect T_SEQ s with
  | Some (c, rest) =>
      if is_nil rest then
        match expect T_SET c with
        | Some (rc, rest') => if is_nil rest' then parse_many parse_ring (length rc) rc else None
        | None => None
        end
      else None
  | None => None
  end.
