(** C06 — executable model of keystore v2 key rings (keystore/v2/keystore/filesystem/keyRing.go,
    key.go, keyRingTX.go; keystore/v2/keystore/keyRingUtils.go, keyStore.go, storage*.go, poison.go,
    hmac.go, auditLog.go) as it is AFTER the fix: patch fix_v2_all_keys_skip_destroyed.

    A key ring is the list asn1.KeyRing.Keys (oldest first; seqnum, state, data label) and the
    Current seqnum.  Every operation opens the ring afresh from the backend (no cache).
    No proofs in this file. *)
From Coq Require Import List NArith ZArith Bool.
From Acra Require Import Lib.Bytes Lib.Outcome Gen.KeyStates Model.KeySpec.
Import ListNotations.
Local Open Scope Z_scope.

Record v2key := { k_seq : Z; k_state : N; k_data : ord }.
Record ring := { r_keys : list v2key; r_cur : Z }.
Definition empty_ring : ring := {| r_keys := []; r_cur := V2_NOKEY |}.

Definition v2state := slot -> option ring.
Definition v2_init : v2state := fun _ => None.
Definition v2upd (st : v2state) (s : slot) (r : ring) : v2state :=
  fun x => if slot_eqb x s then Some r else st x.

(** api.KeyStateTransitionValid, generated *)
Definition transition_valid (a b : N) : bool :=
  existsb (fun p => (fst p =? a)%N && (snd p =? b)%N) key_transitions.

(** asn1.KeyRing.KeyWithSeqnum *)
Fixpoint key_with_seqnum (ks : list v2key) (q : Z) : option v2key :=
  match ks with
  | [] => None
  | k :: r => if k_seq k =? q then Some k else key_with_seqnum r q
  end.

(** KeyRing.nextSeqnum *)
Definition next_seqnum (ks : list v2key) : Z :=
  match rev ks with [] => V2_FIRST_SEQNUM | k :: _ => k_seq k + 1 end.

(** KeyRing.AllKeys: newest to oldest *)
Definition all_seqnums (ks : list v2key) : list Z := rev (map k_seq ks).

Definition destroyed (k : v2key) : bool := (k_state k =? KEY_DESTROYED)%N.

(** reads through OpenKeyRingRW (poison kinds) create a missing ring; the others fail on it *)
Definition read_creates (k : kind) : bool := match k with KPoisonPair | KPoisonSym => true | _ => false end.

(** OpenKeyRingRW *)
Definition open_rw (st : v2state) (s : slot) : v2state * ring :=
  match st s with Some r => (st, r) | None => (v2upd st s empty_ring, empty_ring) end.

(** KeyRing.DestroyKey: txDestroyKeyData + txChangeKeyState *)
Definition destroy_key (r : ring) (q : Z) : res ring :=
  match key_with_seqnum (r_keys r) q with
  | None => Err E_GENERIC
  | Some k =>
      if transition_valid (k_state k) KEY_DESTROYED then
        Ok {| r_keys := map (fun x => if k_seq x =? q then {| k_seq := k_seq x; k_state := KEY_DESTROYED; k_data := k_data x |} else x) (r_keys r);
              r_cur := r_cur r |}
      else Err E_GENERIC
  end.

(** keyDataByFormat + SymmetricKey/PrivateKey *)
Definition key_data (r : ring) (q : Z) : res ord :=
  match key_with_seqnum (r_keys r) q with
  | None => Err E_GENERIC
  | Some k => if destroyed k then Err E_DECRYPTION else Ok (k_data k)
  end.

(** allSymmetricKeys / allPairPrivateKeys (fixed: destroyed keys are skipped) *)
Fixpoint all_keys (r : ring) (qs : list Z) : res (list ord) :=
  match qs with
  | [] => Ok []
  | q :: rest =>
      match key_with_seqnum (r_keys r) q with
      | None => Err E_GENERIC
      | Some k =>
          if destroyed k then all_keys r rest
          else do os <- all_keys r rest; Ok (k_data k :: os)
      end
  end.

(** the loop shared by listRotatedRings and destroyRingRotatedKeyByIndex:
    [for i := 1; i < len(keys); i++ { ring.State(i) … }] — seqnums of the non-destroyed keys *)
Fixpoint rotated_active (r : ring) (i : Z) (n : nat) : res (list Z) :=
  match n with
  | O => Ok []
  | S n' =>
      match key_with_seqnum (r_keys r) i with
      | None => Err E_GENERIC
      | Some k =>
          do rest <- rotated_active r (i + 1) n';
          Ok (if destroyed k then rest else i :: rest)
      end
  end.
Definition rotated_active_of (r : ring) : res (list Z) :=
  rotated_active r 1 (length (r_keys r) - 1).

Definition v2_step (st : v2state) (op : kop) : v2state * res (list N) :=
  match op with
  | Gen s o _ _ =>
      let (st1, r) := open_rw st s in
      let q := next_seqnum (r_keys r) in
      (* AddKey: txAddKey refuses an existing seqnum; SetCurrent: the old current key must exist *)
      match key_with_seqnum (r_keys r) q with
      | Some _ => (st1, Err E_GENERIC)
      | None =>
          let r1 := {| r_keys := r_keys r ++ [{| k_seq := q; k_state := KEY_PREACTIVE; k_data := o |}]; r_cur := r_cur r |} in
          if (negb (r_cur r =? V2_NOKEY)) && match key_with_seqnum (r_keys r1) (r_cur r) with None => true | Some _ => false end
          then (v2upd st1 s r1, Err E_GENERIC)
          else (v2upd st1 s {| r_keys := r_keys r1; r_cur := q |}, Ok [])
      end
  | Cur s =>
      let (st1, ro) := if read_creates (fst s) then let (a, b) := open_rw st s in (a, Some b) else (st, st s) in
      (st1, match ro with
            | None => Err E_GENERIC
            | Some r => if r_cur r =? V2_NOKEY then Err E_GENERIC
                        else match key_data r (r_cur r) with Ok o => Ok [o] | Err e => Err e | Panic => Panic end
            end)
  | All s =>
      let (st1, ro) := if read_creates (fst s) then let (a, b) := open_rw st s in (a, Some b) else (st, st s) in
      (st1, match ro with
            | None => Err E_GENERIC
            | Some r =>
                match all_keys r (all_seqnums (r_keys r)) with
                | Ok [] => if read_creates (fst s) then Err E_GENERIC else Ok []
                | x => x
                end
            end)
  | ListRot s =>
      (st, match st s with
           | None => Ok []
           | Some r =>
               match rotated_active_of r with
               | Ok l => Ok (indices_from 2 (length l))
               | Err e => Err e
               | Panic => Panic
               end
           end)
  | DestroyCur s =>
      let (st1, r) := open_rw st s in
      if r_cur r =? V2_NOKEY then (st1, Err E_GENERIC)
      else match destroy_key r (r_cur r) with
           | Ok r1 => (v2upd st1 s r1, Ok [])
           | Err e => (st1, Err e)
           | Panic => (st1, Panic)
           end
  | DestroyRot s i =>
      let (st1, r) := open_rw st s in
      match rotated_active_of r with
      | Ok act =>
          if (i <? 2) || (Z.of_nat (length act) <? i - 1) then (st1, Err E_GENERIC)
          else match nth_error act (Z.to_nat (i - 2)) with
               | None => (st1, Panic)
               | Some q => match destroy_key r q with
                           | Ok r1 => (v2upd st1 s r1, Ok [])
                           | Err e => (st1, Err e)
                           | Panic => (st1, Panic)
                           end
               end
      | Err e => (st1, Err e)
      | Panic => (st1, Panic)
      end
  | Reset | Reopen => (st, Ok [])
  end.

Fixpoint v2_run (st : v2state) (ops : list kop) : list (res (list N)) :=
  match ops with
  | [] => []
  | o :: rest => let (st', r) := v2_step st o in r :: v2_run st' rest
  end.
