(** Replay of observations of the REAL in-process PostgreSQL proxy on the session model, with the
    stand-in crypto ([Stub]).  [Sess]: a whole session from an empty database (forwarded values as the
    fake back end decoded them ++ result cells as the scripted client decoded them).  [Read]: one SELECT
    of a later session replayed on the rows the database returned for it. *)
From Acra Require Import Lib.Bytes Lib.Outcome Crypto.Interface Crypto.Stub Gen.Consts Model.Envelope.
From Acra Require Export Model.Proxy.
From Acra Require Import Model.ProxyMysql.

Definition mk_ks := Build_keyset.
Definition idb (id : bytes) : byte := nth 0 id x00.

Inductive expected := XOk (vals : list bytes) | XErr | XPanic.

Inductive op :=
| Sess (cfg : config) (dbschema : list (bytes * list bytes)) (kr : keyring) (conn : bytes)
       (sts : list (stmt * list (list bytes)))
| Read (cfg : config) (kr : keyring) (conn : bytes) (sel : stmt) (rows : list (list (option bytes)))
(* MySQL literal coding (domain c04my): the SQLVal (k, v) acra's tokenizer produced, the bytes the update function
   returns for it, and what utf8.Valid / strconv.Atoi answer for those bytes; observed: the literal text after
   encryptor/mysql.UpdateExpressionValue + sqlparser.String, and what a MySQL server reads from that text *)
| MyLit (k : N) (v new : bytes) (utf8ok atoiok : bool).

Definition obs_cell (c : option bytes) : bytes :=
  match c with None => [x00] | Some b => x01 :: b end.

Definition stmt_values (st : stmt) : list bytes :=
  match st with
  | Insert _ _ rows _ => concat rows
  | Update _ sets _ _ => map snd sets
  | _ => []
  end.

Definition empty_db (schema : list (bytes * list bytes)) : database :=
  map (fun tc => (fst tc, (snd tc, []))) schema.

Definition run (o : op) : expected :=
  match o with
  | Sess cfg schema kr conn sts =>
      match run_session Stub cfg kr conn (empty_db schema) sts with
      | Ok (_, obs) =>
          XOk (map (fun v => obs_cell (Some v)) (flat_map (fun o => stmt_values (fst o)) obs)
               ++ map obs_cell (flat_map (fun o => concat (snd o)) obs))
      | Err _ => XErr
      | Panic => XPanic
      end
  | Read cfg kr conn sel rows =>
      match proxy_result Stub kr conn rows with
      | Ok out => XOk (map obs_cell (concat out))
      | Err _ => XErr
      | Panic => XPanic
      end
  | MyLit k v new u a =>
      match update_value (fun _ => u) (fun _ => a) (fun _ => Ok new) k v with
      | Ok (k', v') =>
          let text := format_lit k' v' in
          XOk [text; obs_cell (match my_read_literal text with Ok d => Some d | _ => None end)]
      | Err _ => XErr
      | Panic => XPanic
      end
  end.

Fixpoint list_bytes_eqb (a b : list bytes) : bool :=
  match a, b with
  | [], [] => true
  | x :: a', y :: b' => bytes_eqb x y && list_bytes_eqb a' b'
  | _, _ => false
  end.

Definition expected_eqb (a b : expected) : bool :=
  match a, b with
  | XOk x, XOk y => list_bytes_eqb x y
  | XErr, XErr => true
  | XPanic, XPanic => true
  | _, _ => false
  end.

Fixpoint mismatches_from (i : nat) (cs : list (op * expected)) : list (nat * expected) :=
  match cs with
  | [] => []
  | (o, e) :: rest =>
      let m := run o in
      if expected_eqb m e then mismatches_from (S i) rest else (i, m) :: mismatches_from (S i) rest
  end.
Definition mismatches := mismatches_from 0.
