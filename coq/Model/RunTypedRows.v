(** Replay of implementation observations on the row-level typed-column model (C19, domain c19rows).
    Outcomes are [XOk (status :: values)]: status [00] = delivered, [01] = base.EncodingError (an error
    response to the client, the row is not delivered), [02] = any other error (the proxy ends the session). *)
From Acra Require Export Lib.Bytes Lib.Outcome Gen.TypedConsts Gen.TypedRowsConsts Model.Typed Model.TypedRows.
Local Open Scope N_scope.

Inductive expected := XOk (vals : list bytes) | XErr | XPanic.

(** one column of a replayed row: setting of the position, the cell the database sent, what the reveal step
    makes of the decoded cell ([Some p] = revealed to [p]) *)
Record rcol := mk_rcol { r_setting : option setting; r_cell : option bytes; r_revealed : option bytes }.

Inductive op :=
| Fmt (i : N) (codes : list N)                    (* GetParameterFormatByIndex(i, codes) *)
| ResFmts (codes : list N)                        (* NewBindPacket(<Bind with these result codes>).GetResultFormats() *)
| Row (fmts : option (list N)) (cols : list rcol) (* one DataRow through the real proxy (handleQueryDataPacket) *)
| RowOids (cols : list (option setting * N)).     (* the RowDescription of the statement through the real proxy *)

Definition st (n : N) : bytes := [n2b n].
Definition err_status (e : N) : expected := if e =? E_ENCODING then XOk [st 1] else XOk [st 2].

(** a delivered cell: [00] = NULL, [01 ++ value] otherwise *)
Definition enc_cell (c : option bytes) : bytes :=
  match c with None => [x00] | Some v => x01 :: v end.

Definition reveal_of (cols : list rcol) (i : nat) (_ : bytes) : option bytes :=
  match nth_error cols i with Some c => r_revealed c | None => None end.

Definition run (o : op) : expected :=
  match o with
  | Fmt i codes =>
      match format_by_index (N.to_nat i) codes with
      | Ok f => XOk [st 0; st f]
      | Err e => XOk [st (if e =? E_NOT_ENOUGH_FORMATS then 3 else if e =? E_UNKNOWN_FORMAT then 4 else 2)]
      | Panic => XPanic
      end
  | ResFmts codes =>
      match get_result_formats codes with
      | Ok fs => XOk (st 0 :: map st fs)
      | Err e => XOk [st (if e =? E_NOT_ENOUGH_FORMATS then 3 else if e =? E_UNKNOWN_FORMAT then 4 else 2)]
      | Panic => XPanic
      end
  | Row fmts cols =>
      match handle_data_row fmts (reveal_of cols) (map (fun c => mk_col (r_setting c) (r_cell c)) cols) with
      | Ok cells => XOk (st 0 :: map enc_cell cells)
      | Err e => err_status e
      | Panic => XPanic
      end
  | RowOids cols =>
      XOk (map (fun c => be_enc 4 (match fst c with
                                   | Some s => pg_described_oid s (snd c)
                                   | None => snd c
                                   end)) cols)
  end.

Fixpoint list_bytes_eqb (a b : list bytes) : bool :=
  match a, b with
  | [], [] => true
  | x :: a', y :: b' => bytes_eqb x y && list_bytes_eqb a' b'
  | _, _ => false
  end.

Definition expected_eqb (a b : expected) : bool :=
  match a, b with
  | XOk x, XOk y => list_bytes_eqb x y
  | XErr, XErr => true
  | XPanic, XPanic => true
  | _, _ => false
  end.

Fixpoint mismatches_from (i : nat) (cs : list (op * expected)) : list (nat * expected) :=
  match cs with
  | [] => []
  | (o, e) :: rest =>
      let m := run o in
      if expected_eqb m e then mismatches_from (S i) rest else (i, m) :: mismatches_from (S i) rest
  end.
Definition mismatches := mismatches_from 0.
