(** Replay of implementation observations on the full write / read chain (Model/FullChain.v), instantiated with
    the stand-in crypto ([Stub]).  Domain c01chain (property C01). *)
From Acra Require Import Lib.Bytes Lib.Outcome Lib.Sha256 Crypto.Interface Crypto.Stub Gen.Consts Gen.MaskConsts
  Model.Envelope Model.RunEnvelope Model.Masking Model.FullChain.
Export RunEnvelope(expected, XOk, XErr, XPanic, mk_ks).

(* long byte strings arrive in chunks: [hbs [0x1<hex>; ...]] *)
Definition hbs (l : list N) : bytes := flat_map hb l.
Definition mk_ms := Build_mask_setting.
Definition mk_sch := Build_fc_schema.
Definition mk_fs := Build_fc_setting.

Inductive op :=
(* the ChainDataEncryptor proxyFactory.New hands to the query encryptor: EncryptWithClientID(owner, data, setting) *)
| ChainWrite (sch : fc_schema) (st : fc_setting) (ks : keyset) (tape : list bytes) (data : bytes)
(* the proxy's column subscribers between decoder and encoder, notified in order: [delivered; decrypted mark] *)
| ChainCore (sch : fc_schema) (st : option fc_setting) (ks : keyset) (col : bytes)
(* PgProxy.onColumnDecryption (all subscribers): [delivered] *)
| ChainPg (sch : fc_schema) (st : option fc_setting) (ks : keyset) (binary : bool) (data : bytes).

Definition run (o : op) : expected :=
  match o with
  | ChainWrite sch st ks tape data => canon1 (fc_write Stub sch st ks tape data)
  | ChainCore sch st ks col =>
      match fc_read_core Stub sch st ks col with
      | Ok (out, d) => XOk [out; flag d] | Err _ => XErr | Panic => XPanic end
  | ChainPg sch st ks binary data => canon1 (fc_read_pg Stub sch st ks binary data)
  end.

Fixpoint mismatches_from (i : nat) (cs : list (op * expected)) : list (nat * expected) :=
  match cs with
  | [] => []
  | (o, e) :: rest =>
      let m := run o in
      if expected_eqb m e then mismatches_from (S i) rest else (i, m) :: mismatches_from (S i) rest
  end.
Definition mismatches := mismatches_from 0.
