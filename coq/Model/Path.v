(** Lexical model of Go's path/filepath on a '/'-separated platform (Clean, Join, Dir),
    of acra's v2 [DirectoryBackend.osPath] (keystore/v2/keystore/filesystem/backend/filesystem.go,
    as repaired by patches/fix_ospath.diff) and of the v1 key-file path builders with
    [keystore.ValidateID] (keystore/keystore.go, keystore/filesystem/{filenames,key_names,server_keystore}.go).
    No proofs here (Proofs/Path.v).  [clean] is validated against the real filepath.Clean by the
    harness (domain c07, ops PClean/PJoin/PDir). *)
From Acra Require Import Lib.Bytes Lib.Outcome Gen.KsConsts.

Definition SEP : byte := x2f.   (* '/'  os.PathSeparator *)
Definition BSL : byte := x5c.   (* '\\' *)
Definition DOT : byte := x2e.
Definition dot : bytes := [DOT].
Definition dotdot : bytes := [DOT; DOT].

(** strings.Split(p, "/"): "a/b" -> [a;b], "" -> [""], "/a" -> ["";a], "a/" -> [a;""] *)
Fixpoint split_sep (p : bytes) : list bytes :=
  match p with
  | [] => [[]]
  | c :: r =>
      if byte_eqb c SEP then [] :: split_sep r
      else match split_sep r with
           | [] => [[c]]
           | h :: t => (c :: h) :: t
           end
  end.

(** strings.Join(cs, "/") *)
Fixpoint join_sep (cs : list bytes) : bytes :=
  match cs with
  | [] => []
  | [c] => c
  | c :: r => c ++ SEP :: join_sep r
  end.

Definition is_rooted (p : bytes) : bool :=
  match p with c :: _ => byte_eqb c SEP | [] => false end.

Definition nilb (c : bytes) : bool := match c with [] => true | _ => false end.

(** one path component against the output built so far ([stack]: last component first).
    Go's Clean: empty and "." are skipped; ".." removes the previous component if there is one
    that is not itself a kept "..", is dropped at the root of a rooted path, and is kept otherwise. *)
Definition clean_step (rooted : bool) (stack : list bytes) (c : bytes) : list bytes :=
  if nilb c || bytes_eqb c dot then stack
  else if bytes_eqb c dotdot then
    match stack with
    | top :: rest => if bytes_eqb top dotdot then c :: stack else rest
    | [] => if rooted then [] else [c]
    end
  else c :: stack.

Definition clean_comps (rooted : bool) (cs : list bytes) : list bytes :=
  rev (fold_left (clean_step rooted) cs []).

Definition render (rooted : bool) (cs : list bytes) : bytes :=
  if rooted then SEP :: join_sep cs
  else match cs with [] => dot | _ => join_sep cs end.

(** filepath.Clean *)
Definition clean (p : bytes) : bytes :=
  render (is_rooted p) (clean_comps (is_rooted p) (split_sep p)).

(** filepath.Join(a, b): empty leading elements are ignored, the rest joined with '/' and cleaned *)
Definition join2 (a b : bytes) : bytes :=
  if nilb a then (if nilb b then [] else clean b) else clean (a ++ SEP :: b).

(** filepath.Dir: everything up to and including the last separator, cleaned *)
Fixpoint drop_last_comp (cs : list bytes) : list bytes :=
  match cs with
  | [] => []
  | [_] => [[]]
  | c :: r => c :: drop_last_comp r
  end.
Definition dir (p : bytes) : bytes := clean (join_sep (drop_last_comp (split_sep p))).

(** a component that survives Clean unchanged and does not move the position *)
Definition good_comp (c : bytes) : Prop :=
  c <> [] /\ c <> dot /\ c <> dotdot /\ ~ In SEP c.
Definition good_compb (c : bytes) : bool :=
  negb (nilb c) && negb (bytes_eqb c dot) && negb (bytes_eqb c dotdot)
  && negb (existsb (fun x => byte_eqb x SEP) c).

(** [r] with exactly one trailing separator: the prefix every path below directory [r] starts with *)
Definition dir_prefix (r : bytes) : bytes :=
  if bytes_eqb r [SEP] then r else r ++ [SEP].

(** The OS path [full] lies strictly below the directory [root] (lexically: no ".." left to climb). *)
Definition confined (root full : bytes) : Prop :=
  exists comps, comps <> [] /\ Forall good_comp comps /\
                full = dir_prefix (clean root) ++ join_sep comps.

(** ---------- v2: DirectoryBackend.osPath ---------- *)
(** pathSeparators.Replace: both '/' and '\\' become the OS separator *)
Definition replace_seps (p : bytes) : bytes :=
  map (fun c => if byte_eqb c BSL then SEP else c) p.

Definition E_INVALID_PATH : N := 20.

(** repaired osPath: the key path is first resolved against a virtual root (where ".." cannot
    climb); if joining that to the real root gives another place than joining the key path
    itself, or the root itself, the path is rejected. *)
Definition os_path (root path : bytes) : res bytes :=
  let rel := replace_seps path in
  let full := join2 root rel in
  let conf := clean (SEP :: rel) in
  if bytes_eqb conf [SEP] || negb (bytes_eqb full (join2 root conf))
  then Err E_INVALID_PATH else Ok full.

(** the pinned code: compares the joined (already clean) path with its own Clean *)
Definition os_path_pinned (root path : bytes) : res bytes :=
  let full := join2 root (replace_seps path) in
  if negb (bytes_eqb full (clean full)) then Err E_INVALID_PATH else Ok full.

(** ---------- v1: client ids and key file names ---------- *)
Definition is_id_char (c : byte) : bool :=
  let n := b2n c in
  ((97 <=? n) && (n <=? 122) || (65 <=? n) && (n <=? 90) || (48 <=? n) && (n <=? 57)
   || existsb (fun v => byte_eqb v c) VALID_ID_CHARS)%N.

(** keystore.ValidateID (bytes >= 0x80 decode to runes outside the allowed set) *)
Definition validate_id (id : bytes) : bool :=
  Nat.leb MIN_CLIENT_ID_LEN (length id) && Nat.leb (length id) MAX_CLIENT_ID_LEN
  && forallb is_id_char id.

Inductive v1kind := KStoragePriv | KStoragePub | KStorageSym | KHmac.

(** GetServerDecryptionKeyFilename / getPublicKeyFilename / getClientIDSymmetricKeyName / getHmacKeyFilename *)
Definition v1_fname (k : v1kind) (id : bytes) : bytes :=
  match k with
  | KStoragePriv => id ++ SUFFIX_STORAGE
  | KStoragePub => id ++ SUFFIX_STORAGE ++ SUFFIX_PUB
  | KStorageSym => id ++ SUFFIX_STORAGE ++ SUFFIX_SYM
  | KHmac => id ++ SUFFIX_HMAC
  end.

(** KeyStore.GetPrivateKeyFilePath / GetPublicKeyFilePath: plain concatenation, NOT cleaned;
    the operating system resolves it (lexically: [clean]). *)
Definition v1_path (dir fname : bytes) : bytes := dir ++ SEP :: fname.

Definition E_INVALID_CLIENT_ID : N := 21.

(** the path a v1 operation on ([k], [id]) hands to Storage, after the id check every entry
    point performs (as repaired by patches/fix_v1_validate_id.diff) *)
Definition v1_op_path (dir : bytes) (k : v1kind) (id : bytes) : res bytes :=
  if validate_id id then Ok (v1_path dir (v1_fname k id)) else Err E_INVALID_CLIENT_ID.
