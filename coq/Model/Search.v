(** Executable model of acra's searchable encryption (blind index):
    hmac/dataEncryptor.go (insert path), hmac/decryptor/postgresql/hashQuery.go and the MySQL twin
    (rewrite of equality conditions, bound parameters), hmac/dataProcessor.go (re-verification on decrypt),
    and the storage that evaluates the rewritten condition literally.  No proofs here. *)
From Acra Require Import Lib.Bytes Lib.Outcome Lib.Sha256 Crypto.Interface Gen.Consts Model.Envelope.

(** hmac.GenerateHMAC: function id ++ HMAC-SHA-256 *)
Definition blind_index (key v : bytes) : bytes := generate_hmac key v.

Definition HASHN : N := N.of_nat HMAC_HASH_SIZE.

(** * Conditions *)
Inductive operand := OLit (v : bytes) | OParam (i : nat).

(** the condition the application writes; columns are positions in a row *)
Inductive scond :=
| SCmp (neg : bool) (col : nat) (o : operand)      (* col = o   /  col <> o *)
| SRev (neg : bool) (col : nat) (o : operand)      (* o = col   /  o <> col *)
| SAnd (a b : scond)
| SOr (a b : scond).

(** the condition the database receives *)
Inductive rcond :=
| RCmp (neg : bool) (col : nat) (o : operand)                 (* untouched comparison *)
| RSub (neg : bool) (col : nat) (from len : N) (o : operand)  (* substr(col, from, len) = o *)
| RAnd (a b : rcond)
| ROr (a b : rcond).

(** which columns of the table are configured searchable *)
Definition searchable (schema : list bool) (col : nat) : bool := nth col schema false.

Section Search.
Variable C : crypto.

(** * Insert path: SearchableDataEncryptor.EncryptWithClientID for a searchable setting;
    dataEncryptor = decryptor = RegistryHandler (decryptor/postgresql/proxy.go) *)
Definition searchable_encrypt (id : byte) (ks : keyset) (tape : list bytes) (data : bytes) : res bytes :=
  match ks_hmac ks with
  | None => Err E_GENERIC
  | Some key =>
      if registry_match data then
        match registry_process C ks data with
        | Ok dec => Ok (blind_index key dec ++ data)
        | Err e => Err e
        | Panic => Panic
        end
      else
        match encrypt_with_handler C id ks tape data with
        | Ok enc => Ok (blind_index key data ++ enc)
        | Err e => Err e
        | Panic => Panic
        end
  end.

(** * HashQuery.calculateHmac (identical in the PostgreSQL and MySQL observers) *)
Definition calculate_hmac (ks : keyset) (data : bytes) : res bytes :=
  if negb (registry_match data) then
    match ks_hmac ks with
    | None => Err E_GENERIC
    | Some key => Ok (blind_index key data)
    end
  else
    match registry_process C ks data with
    | Ok dec =>
        match ks_hmac ks with
        | None => Err E_GENERIC
        | Some key => Ok (blind_index key dec)
        end
    | Err e => Err e
    | Panic => Panic
    end.

(** * HashQuery.OnQuery: rewrite of the comparisons FilterSearchableComparisons selects.
    UpdateExpressionValue refuses (ErrUpdateLeaveDataUnchanged) when the new literal equals the old one. *)
Fixpoint rewrite_cond (ks : keyset) (schema : list bool) (c : scond) : res rcond :=
  match c with
  | SCmp neg col o =>
      if searchable schema col then
        match o with
        | OLit v =>
            do idx <- calculate_hmac ks v;
            if bytes_eqb idx v then Err E_GENERIC else Ok (RSub neg col 1 HASHN (OLit idx))
        | OParam i => Ok (RSub neg col 1 HASHN (OParam i))
        end
      else Ok (RCmp neg col o)
  | SRev neg col o => Ok (RCmp neg col o)   (* literal on the left: not selected, left as written *)
  | SAnd a b => do a' <- rewrite_cond ks schema a; do b' <- rewrite_cond ks schema b; Ok (RAnd a' b')
  | SOr a b => do a' <- rewrite_cond ks schema a; do b' <- rewrite_cond ks schema b; Ok (ROr a' b')
  end.

(** * HashQuery.OnBind: placeholders compared with a searchable column, in statement order *)
Fixpoint bind_indexes (schema : list bool) (c : scond) : list nat :=
  match c with
  | SCmp _ col (OParam i) => if searchable schema col then [i] else []
  | SCmp _ _ _ => []
  | SRev _ _ _ => []
  | SAnd a b | SOr a b => bind_indexes schema a ++ bind_indexes schema b
  end.

Fixpoint set_nth (i : nat) (v : bytes) (l : list bytes) : list bytes :=
  match l, i with
  | [], _ => []
  | _ :: t, O => v :: t
  | x :: t, S i' => x :: set_nth i' v t
  end.

(** replaceValuesWithHMACs (with the fix: an index is processed once) *)
Fixpoint replace_values (ks : keyset) (idxs done : list nat) (vals : list bytes) : res (list bytes) :=
  match idxs with
  | [] => Ok vals
  | i :: rest =>
      if existsb (Nat.eqb i) done then replace_values ks rest done vals
      else
        do h <- calculate_hmac ks (nth i vals []);
        replace_values ks rest (i :: done) (set_nth i h vals)
  end.

Definition on_bind (ks : keyset) (schema : list bool) (c : scond) (vals : list bytes) : res (list bytes) :=
  let idxs := bind_indexes schema c in
  if existsb (fun i => Nat.leb (length vals) i) idxs then Err E_GENERIC
  else replace_values ks idxs [] vals.

End Search.

(** * The storage: evaluates the condition it received, literally *)
Definition substr (from len : N) (v : bytes) : bytes :=
  firstn (N.to_nat len) (skipn (N.to_nat (from - 1)) v).

Definition operand_value (binds : list bytes) (o : operand) : bytes :=
  match o with OLit v => v | OParam i => nth i binds [] end.

Definition cell (row : list bytes) (col : nat) : bytes := nth col row [].

Fixpoint eval_rcond (binds : list bytes) (row : list bytes) (c : rcond) : bool :=
  match c with
  | RCmp neg col o => xorb neg (bytes_eqb (cell row col) (operand_value binds o))
  | RSub neg col from len o => xorb neg (bytes_eqb (substr from len (cell row col)) (operand_value binds o))
  | RAnd a b => eval_rcond binds row a && eval_rcond binds row b
  | ROr a b => eval_rcond binds row a || eval_rcond binds row b
  end.

(** the reference: the application's condition on the plaintext table *)
Fixpoint eval_scond (binds : list bytes) (row : list bytes) (c : scond) : bool :=
  match c with
  | SCmp neg col o | SRev neg col o => xorb neg (bytes_eqb (cell row col) (operand_value binds o))
  | SAnd a b => eval_scond binds row a && eval_scond binds row b
  | SOr a b => eval_scond binds row a || eval_scond binds row b
  end.

Section Pipeline.
Variable C : crypto.

(** the whole round: rewrite, bind, evaluate on every stored row; one flag per row *)
Definition run_query (ks : keyset) (schema : list bool) (rows : list (list bytes)) (c : scond) (binds : list bytes)
  : res (list bool) :=
  do rc <- rewrite_cond C ks schema c;
  do nb <- on_bind C ks schema c binds;
  Ok (map (fun row => eval_rcond nb row rc) rows).

(** single protected column: rows whose stored value is selected by  substr(col,1,33) op index(v') *)
Definition index_matches (stored idx : bytes) : bool := bytes_eqb (substr 1 HASHN stored) idx.
Definition select_eq (idx : bytes) (rows : list bytes) : list bytes := filter (fun s => index_matches s idx) rows.
Definition select_neq (idx : bytes) (rows : list bytes) : list bytes := filter (fun s => negb (index_matches s idx)) rows.

(** * hmac.NewHashProcessor over a data processor *)
Definition hash_processor (proc : bytes -> res bytes) (ks : keyset) (data : bytes) : res bytes :=
  match extract_hash data with
  | None => proc data
  | Some (hpart, rest) =>
      match proc rest with
      | Ok dec => if hash_is_equal hpart dec ks then Ok dec else Err E_GENERIC
      | Err e => Err e
      | Panic => Panic
      end
  end.

Definition column_hash_processor (ks : keyset) (data : bytes) : res bytes :=
  hash_processor (registry_process C ks) ks data.

End Pipeline.
