(** C13_statements model, part 4: value substitution.
    acra replaces the VALUE of SQLVal nodes in place (encryptor/mysql/utils.go:UpdateExpressionValue sets
    val.Val; DBDataCoder.Encode may also retype the literal, e.g. to a hex literal; casts stay) and prints the
    tree.  [isub g] replaces type and value of every literal / placeholder by what [g] answers for it; [g] sees
    the literal's position (index in print order), its syntactic context (direct operand of COLLATE / of a
    PostgreSQL INTERVAL), its type, old value and casts — so "one position", "some positions", "all
    placeholders" are all instances.  No proofs here. *)
From Acra Require Import Lib.Bytes Gen.Prec Gen.SqlWords Model.SqlStmt.
From Coq Require Import Arith.

(** number of literals, print order *)
Fixpoint nl (e : expr) : nat :=
  match e with
  | EAnd l r | EOr l r | ECmp _ l r | EBin _ l r => nl l + nl r
  | ENot x | EIs _ x | EUn _ x | EParen x | ECollate x _ | EConvert x _ | EConvertUsing x _ | EInterval x _ => nl x
  | ECmpEsc _ l r c | ERange _ l r c => nl l + nl r + nl c
  | EExists q | ESubq q => nl_sel q
  | ETuple xs => nl_exprs xs
  | EFunc _ _ _ args => nl_selexprs args
  | ECase x ws el => nl_oexpr x + nl_whens ws + nl_oexpr el
  | ELit _ _ _ => 1
  | _ => 0
  end
with nl_exprs (xs : exprs) : nat :=
  match xs with XNil => 0 | XCons x xs' => nl x + nl_exprs xs' end
with nl_oexpr (o : oexpr) : nat :=
  match o with NoE => 0 | SomeE x => nl x end
with nl_whens (ws : whens) : nat :=
  match ws with WNil => 0 | WCons c v ws' => nl c + nl v + nl_whens ws' end
with nl_selexpr (s : selexpr) : nat :=
  match s with SStar _ => 0 | SAliased x _ => nl x end
with nl_selexprs (xs : selexprs) : nat :=
  match xs with SNil => 0 | SCons x xs' => nl_selexpr x + nl_selexprs xs' end
with nl_sel (s : sel) : nat :=
  match s with
  | Select _ xs from wh gb hv ob lm _ =>
      nl_selexprs xs + nl_texprs from + nl_oexpr wh + nl_exprs gb + nl_oexpr hv + nl_orders ob + nl_lim lm
  | Union _ l r ob lm _ => nl_sel l + nl_sel r + nl_orders ob + nl_lim lm
  | ParenSel s' => nl_sel s'
  end
with nl_texpr (t : texpr) : nat :=
  match t with
  | TTable _ _ _ => 0
  | TSubq s _ => nl_sel s
  | TParen ts => nl_texprs ts
  | TJoin l _ r c => nl_texpr l + nl_texpr r + nl_jcond c
  end
with nl_texprs (ts : texprs) : nat :=
  match ts with TNil => 0 | TCons t ts' => nl_texpr t + nl_texprs ts' end
with nl_jcond (c : jcond) : nat :=
  match c with JOn x => nl x | _ => 0 end
with nl_orders (os : orders) : nat :=
  match os with ONil => 0 | OCons x _ os' => nl x + nl_orders os' end
with nl_lim (l : lim) : nat :=
  match l with
  | LNone | LAll => 0
  | LOnly x | LAllOffset x => nl x
  | LOffset x y | LComma x y => nl x + nl y
  end.

Inductive lctx := CxNone | CxCollate | CxPgInterval.
Definition gfun := nat -> lctx -> N -> bytes -> list bytes -> N * bytes.

Section Sub.
Variable g : gfun.

(** [k] = index of the first literal of the node, [uc] = what the node is the direct operand of *)
Fixpoint isub (k : nat) (uc : lctx) (e : expr) : expr :=
  match e with
  | EAnd l r => EAnd (isub k CxNone l) (isub (k + nl l) CxNone r)
  | EOr l r => EOr (isub k CxNone l) (isub (k + nl l) CxNone r)
  | ENot x => ENot (isub k CxNone x)
  | ECmp op l r => ECmp op (isub k CxNone l) (isub (k + nl l) CxNone r)
  | ECmpEsc op l r c => ECmpEsc op (isub k CxNone l) (isub (k + nl l) CxNone r) (isub (k + nl l + nl r) CxNone c)
  | ERange n l a b => ERange n (isub k CxNone l) (isub (k + nl l) CxNone a) (isub (k + nl l + nl a) CxNone b)
  | EIs s x => EIs s (isub k CxNone x)
  | EExists q => EExists (isub_sel k q)
  | EBin op l r => EBin op (isub k CxNone l) (isub (k + nl l) CxNone r)
  | EUn op x => EUn op (isub k CxNone x)
  | ECollate x cs => ECollate (isub k CxCollate x) cs
  | ELit t v cs => let (t', v') := g k uc t v cs in ELit t' v' cs
  | EParen x => EParen (isub k CxNone x)
  | ETuple xs => ETuple (isub_exprs k xs)
  | ESubq q => ESubq (isub_sel k q)
  | EFunc q n d args => EFunc q n d (isub_selexprs k args)
  | ECase x ws el => ECase (isub_oexpr k x) (isub_whens (k + nl_oexpr x) ws) (isub_oexpr (k + nl_oexpr x + nl_whens ws) el)
  | EConvert x ty => EConvert (isub k CxNone x) ty
  | EConvertUsing x cs => EConvertUsing (isub k CxNone x) cs
  | EInterval x iu => EInterval (isub k (match iu with [] => CxPgInterval | _ => CxNone end) x) iu
  | ENull | EBool _ | EDefault | ECol _ _ | EValuesFunc _ _ => e
  end
with isub_exprs (k : nat) (xs : exprs) : exprs :=
  match xs with XNil => XNil | XCons x xs' => XCons (isub k CxNone x) (isub_exprs (k + nl x) xs') end
with isub_oexpr (k : nat) (o : oexpr) : oexpr :=
  match o with NoE => NoE | SomeE x => SomeE (isub k CxNone x) end
with isub_whens (k : nat) (ws : whens) : whens :=
  match ws with
  | WNil => WNil
  | WCons c v ws' => WCons (isub k CxNone c) (isub (k + nl c) CxNone v) (isub_whens (k + nl c + nl v) ws')
  end
with isub_selexpr (k : nat) (s : selexpr) : selexpr :=
  match s with SStar q => SStar q | SAliased x a => SAliased (isub k CxNone x) a end
with isub_selexprs (k : nat) (xs : selexprs) : selexprs :=
  match xs with SNil => SNil | SCons x xs' => SCons (isub_selexpr k x) (isub_selexprs (k + nl_selexpr x) xs') end
with isub_sel (k : nat) (s : sel) : sel :=
  match s with
  | Select d xs from wh gb hv ob lm lk =>
      let k1 := k + nl_selexprs xs in
      let k2 := k1 + nl_texprs from in
      let k3 := k2 + nl_oexpr wh in
      let k4 := k3 + nl_exprs gb in
      let k5 := k4 + nl_oexpr hv in
      let k6 := k5 + nl_orders ob in
      Select d (isub_selexprs k xs) (isub_texprs k1 from) (isub_oexpr k2 wh) (isub_exprs k3 gb) (isub_oexpr k4 hv)
             (isub_orders k5 ob) (isub_lim k6 lm) lk
  | Union ty l r ob lm lk =>
      let k1 := k + nl_sel l in
      let k2 := k1 + nl_sel r in
      let k3 := k2 + nl_orders ob in
      Union ty (isub_sel k l) (isub_sel k1 r) (isub_orders k2 ob) (isub_lim k3 lm) lk
  | ParenSel s' => ParenSel (isub_sel k s')
  end
with isub_texpr (k : nat) (t : texpr) : texpr :=
  match t with
  | TTable q n a => TTable q n a
  | TSubq s a => TSubq (isub_sel k s) a
  | TParen ts => TParen (isub_texprs k ts)
  | TJoin l j r c => TJoin (isub_texpr k l) j (isub_texpr (k + nl_texpr l) r) (isub_jcond (k + nl_texpr l + nl_texpr r) c)
  end
with isub_texprs (k : nat) (ts : texprs) : texprs :=
  match ts with TNil => TNil | TCons t ts' => TCons (isub_texpr k t) (isub_texprs (k + nl_texpr t) ts') end
with isub_jcond (k : nat) (c : jcond) : jcond :=
  match c with JNone => JNone | JOn x => JOn (isub k CxNone x) | JUsing cols => JUsing cols end
with isub_orders (k : nat) (os : orders) : orders :=
  match os with ONil => ONil | OCons x d os' => OCons (isub k CxNone x) d (isub_orders (k + nl x) os') end
with isub_lim (k : nat) (l : lim) : lim :=
  match l with
  | LNone => LNone
  | LOnly x => LOnly (isub k CxNone x)
  | LOffset x y => LOffset (isub k CxNone x) (isub (k + nl x) CxNone y)
  | LComma x y => LComma (isub k CxNone x) (isub (k + nl x) CxNone y)
  | LAll => LAll
  | LAllOffset x => LAllOffset (isub k CxNone x)
  end.

Fixpoint nl_updates (us : updates) : nat :=
  match us with UNil => 0 | UCons _ _ x us' => nl x + nl_updates us' end.
Fixpoint isub_updates (k : nat) (us : updates) : updates :=
  match us with UNil => UNil | UCons q n x us' => UCons q n (isub k CxNone x) (isub_updates (k + nl x) us') end.
Fixpoint nl_rows (rs : rows) : nat :=
  match rs with RNil => 0 | RCons r rs' => nl_exprs r + nl_rows rs' end.
Fixpoint isub_rows (k : nat) (rs : rows) : rows :=
  match rs with RNil => RNil | RCons r rs' => RCons (isub_exprs k r) (isub_rows (k + nl_exprs r) rs') end.
Definition nl_irows (r : irows) : nat := match r with IValues rs => nl_rows rs | ISelect s => nl_sel s end.
Definition isub_irows (k : nat) (r : irows) : irows :=
  match r with IValues rs => IValues (isub_rows k rs) | ISelect s => ISelect (isub_sel k s) end.

Definition isub_stmt (s : stmt) : stmt :=
  match s with
  | SSelect q => SSelect (isub_sel 0 q)
  | SInsert repl ign tq tn cols r dup ret =>
      SInsert repl ign tq tn cols (isub_irows 0 r) (isub_updates (nl_irows r) dup) (isub_selexprs (nl_irows r + nl_updates dup) ret)
  | SInsertDefault _ _ _ _ => s
  | SUpdate ts set from wh ob lm ret =>
      let k1 := nl_texprs ts in
      let k2 := k1 + nl_updates set in
      let k3 := k2 + nl_texprs from in
      let k4 := k3 + nl_oexpr wh in
      let k5 := k4 + nl_orders ob in
      let k6 := k5 + nl_lim lm in
      SUpdate (isub_texprs 0 ts) (isub_updates k1 set) (isub_texprs k2 from) (isub_oexpr k3 wh) (isub_orders k4 ob)
              (isub_lim k5 lm) (isub_selexprs k6 ret)
  | SDelete ts wh ob lm ret =>
      let k1 := nl_texprs ts in
      let k2 := k1 + nl_oexpr wh in
      let k3 := k2 + nl_orders ob in
      let k4 := k3 + nl_lim lm in
      SDelete (isub_texprs 0 ts) (isub_oexpr k1 wh) (isub_orders k2 ob) (isub_lim k3 lm) (isub_selexprs k4 ret)
  | SDeleteMulti targets ts wh ret =>
      let k1 := nl_texprs targets in
      let k2 := k1 + nl_texprs ts in
      let k3 := k2 + nl_oexpr wh in
      SDeleteMulti (isub_texprs 0 targets) (isub_texprs k1 ts) (isub_oexpr k2 wh) (isub_selexprs k3 ret)
  end.
End Sub.

(** the replacement (t', v') for the literal (t, v, casts) is admissible: unchanged, or a well-formed literal that
    is an integer / a string only where an integer / a string stood (the grammar folds a sign into an integer;
    INTERVAL 'x' is its own construct), not negative as the direct operand of COLLATE (known findings
    subst-IntVal-in-CollateExpr-*: COLLATE binds tighter than the sign), a string in INTERVAL '..' *)
Definition neg_val (t : N) (v : bytes) : bool :=
  match v with c :: _ => N.eqb t VT_IntVal && byte_eqb c x2d | [] => false end.
Definition is_strt (t : N) : bool := N.eqb t VT_StrVal.
Definition lit_adm (uc : lctx) (t : N) (v : bytes) (t' : N) (v' : bytes) (cs : list bytes) : bool :=
  (N.eqb t' t && bytes_eqb v' v)
  || (wf_lit t' v' cs && implb (N.eqb t' VT_IntVal) (N.eqb t VT_IntVal) && implb (is_strt t') (is_strt t)
      && match uc with CxCollate => negb (neg_val t' v') | CxPgInterval => is_strt t' | CxNone => true end).

(** replace the literal at index [i] *)
Definition at_index (i : nat) (t' : N) (v' : bytes) : gfun := fun k _ t v _ => if Nat.eqb k i then (t', v') else (t, v).
