(** Replay of the bytea ESCAPE-format decoder and of its consumers on the CHECKED rune-level model
    (Model/ByteaRunes.v).  Domain c14bytea (harness/cmd/acra-vh/c14bytea.go). *)
From Acra Require Import Lib.Bytes Lib.Outcome Lib.GoSlice Model.Bytea Model.ByteaRunes.
Local Open Scope N_scope.

Inductive expected := XOk (vals : list bytes) | XErr | XPanic.

Inductive op :=
| BrDecOct (d : bytes)     (* utils.DecodeOctal *)
| BrDecEsc (d : bytes)     (* utils.DecodeEscaped *)
| BrCoder (d : bytes)      (* encryptor/postgresql PgQueryDBDataCoder.Decode of a string literal, bytea / untyped column *)
| BrBind (d : bytes)       (* decryptor/postgresql pgBoundValue.GetData, text format, encryption-only setting *)
| BrRow (d : bytes)        (* PgSQLDataDecoderProcessor.OnColumn, text format, column without data type *)
| BrRowBytea (d : bytes).  (* types.ByteaDataTypeEncoder.Decode, text format *)

Definition canon (r : res bytes) : expected :=
  match r with Ok x => XOk [x] | Err _ => XErr | Panic => XPanic end.

(** consumers that keep the value as it is when it is not in octal form (ErrDecodeOctalString is swallowed)
    and fail on a hex error *)
Definition keep_on_octal (d : bytes) : expected :=
  match decode_escaped_checked d with
  | Ok o => XOk [o]
  | Err e => if e =? E_OCTAL then XOk [d] else XErr
  | Panic => XPanic
  end.

Definition run (o : op) : expected :=
  match o with
  | BrDecOct d => canon (decode_octal_checked d)
  | BrDecEsc d => canon (decode_escaped_checked d)
  | BrCoder d => keep_on_octal d
  | BrBind d => canon (decode_escaped_checked d)
  | BrRow d => keep_on_octal d
  | BrRowBytea d => keep_on_octal d
  end.

Fixpoint list_bytes_eqb (a b : list bytes) : bool :=
  match a, b with
  | [], [] => true
  | x :: a', y :: b' => bytes_eqb x y && list_bytes_eqb a' b'
  | _, _ => false
  end.

Definition expected_eqb (a b : expected) : bool :=
  match a, b with
  | XOk x, XOk y => list_bytes_eqb x y
  | XErr, XErr => true
  | XPanic, XPanic => true
  | _, _ => false
  end.

(** indices (from 0) of the cases on which model and implementation differ, with the model's answer *)
Fixpoint mismatches_from (i : nat) (cs : list (op * expected)) : list (nat * expected) :=
  match cs with
  | [] => []
  | (o, e) :: rest =>
      let m := run o in
      if expected_eqb m e then mismatches_from (S i) rest else (i, m) :: mismatches_from (S i) rest
  end.
Definition mismatches := mismatches_from 0.
