(** C16 — model of statement redaction: sqlparser.Walk over the regenerated node schema
    (Gen/SqlSchema.v), the normalizer walk that HandleRawSQLQuery/RedactSQLQuery run
    (sqlparser/normalizer.go: WalkStatement, WalkSelect and what they return to Walk, convertSQLVal,
    convertSQLValDedup, convertComparison, sqlToBindvar, newName, GetBindvars), HandleRawSQLQuery's result
    (sqlparser/ast_methods.go) and the logging decisions of the firewall
    (acra-censor/acra-censor_implementation.go: HandleQuery, logAllowedQuery, logDeniedQuery) and of the
    two proxies' debug line.  No proofs here.

    A statement is a generic labelled tree: a node carries the id of its Go type (SCHEMA), the attributes
    the normalizer reads (SQLVal.Type/Val, ComparisonExpr.Operator, ListArg name) and its SQLNode-typed
    children, each tagged with the index of the struct field that holds it (slice node types: tag 0).
    Children are listed in the order Walk visits them (fields in walkSubtree's call order, then the
    fields walkSubtree does not pass on); [walk_nodup] (Proofs) checks that no walkSubtree passes a field twice,
    which makes "one pass over the children in that order" exactly what Walk does. *)
From Coq Require Import List NArith Bool String.
From Acra Require Import Lib.Bytes Gen.SqlSchema.
Import ListNotations.
Local Open Scope N_scope.

Inductive attr :=
| ANone
| AVal (vt : N) (val : bytes) (ok : bool)   (* SQLVal: Type, Val; ok = sqltypes.NewValue accepts Val for an Int64/Float64 *)
| AOp (is_in : bool)                        (* ComparisonExpr: Operator is "in" / "not in" *)
| AList (name : bytes).                     (* ListArg: the whole []byte, "::name" *)

Inductive tree := Node (ty : N) (a : attr) (kids : forest)
with forest := FNil | FCons (f : N) (k : tree) (r : forest).

Scheme tree_mut := Induction for tree Sort Prop
with forest_mut := Induction for forest Sort Prop.
Combined Scheme tree_forest_ind from tree_mut, forest_mut.

(** ---------- schema lookups ---------- *)
Fixpoint find_type (ty : N) (s : list ntype) : option ntype :=
  match s with
  | [] => None
  | t :: r => if t_id t =? ty then Some t else find_type ty r
  end.

Fixpoint memN (x : N) (l : list N) : bool :=
  match l with [] => false | y :: r => (x =? y) || memN x r end.

Definition walk_fields (ty : N) : list N :=
  match find_type ty SCHEMA with Some t => t_walk t | None => [] end.

Definition node_fields (ty : N) : list N :=
  match find_type ty SCHEMA with Some t => map fst (t_fields t) | None => [] end.

(** does walkSubtree of node type [ty] pass field [f] to Walk? *)
Definition walked (ty f : N) : bool := memN f (walk_fields ty).

Fixpoint assocN {A} (x : N) (l : list (N * A)) : option A :=
  match l with [] => None | (y, v) :: r => if x =? y then Some v else assocN x r end.

(** ---------- which ValTypes are literals (specification) ----------
    Every member of the ValType enumeration is the spelling of a client value, except the ones that
    stand for a bind variable / placeholder or wrap a non-literal expression in a cast.  A ValType added
    to acra later is a literal unless it is named here. *)
Definition non_literal_names : list string := ["ValArg"; "PgPlaceholder"; "UnknownVal"]%string.

Fixpoint mem_str (s : string) (l : list string) : bool :=
  match l with [] => false | x :: r => String.eqb s x || mem_str s r end.

Definition LITERAL_VTS : list N :=
  map fst (filter (fun p => negb (mem_str (snd p) non_literal_names)) VALTYPES).

Definition is_literal_vt (vt : N) : bool := memN vt LITERAL_VTS.

(** SQLNode-typed fields that hold a parameter of a type (varchar(20), char(10)), not a client value:
    part of the statement's shape, deliberately not handed to Walk. *)
Definition TYPE_PARAMETER_FIELDS : list (string * string) :=
  [("ColumnType", "Length"); ("ColumnType", "Scale"); ("ConvertType", "Length"); ("ConvertType", "Scale")]%string.

Fixpoint mem_str2 (a b : string) (l : list (string * string)) : bool :=
  match l with [] => false | (x, y) :: r => (String.eqb a x && String.eqb b y) || mem_str2 a b r end.

Definition type_param (tname fname : string) : bool := mem_str2 tname fname TYPE_PARAMETER_FIELDS.

(** a node that prints a client value *)
Definition literal_node (t : tree) : bool :=
  match t with
  | Node ty (AVal vt _ _) _ => (ty =? T_SQLVal) && is_literal_vt vt
  | _ => false
  end.

(** ---------- normalizer.sqlToBindvar ----------
    [Some quoted]: a bind value is built (quoted = its type is VarBinary); [None]: nil (node left alone). *)
Definition sql_to_bindvar (t : tree) : option bool :=
  match t with
  | Node ty (AVal vt _ ok) _ =>
      if ty =? T_SQLVal then
        match assocN vt CONVERTED with
        | Some true => Some true
        | Some false => if ok then Some false else if ERR_LEAVES_LITERAL then None else Some true
        | None => None
        end
      else None
  | _ => None
  end.

(** ---------- decimal counter, names ---------- *)
Fixpoint dec_digits (fuel : nat) (n : N) (acc : bytes) : bytes :=
  match fuel with
  | O => acc
  | S fuel' =>
      let d := n2b (48 + n mod 10) in
      if n <? 10 then d :: acc else dec_digits fuel' (n / 10) (d :: acc)
  end.
Definition dec (n : N) : bytes := dec_digits 40 n [].

Fixpoint mem_bytes (x : bytes) (l : list bytes) : bool :=
  match l with [] => false | y :: r => bytes_eqb x y || mem_bytes x r end.

Record nst := mkSt { counter : N; reserved : list bytes; vals : list (bytes * bytes) }.

(** normalizer.newName: the counter only moves past names that are taken *)
Fixpoint new_name_loop (fuel : nat) (prefix : bytes) (c : N) (res : list bytes) : N * bytes :=
  let nm := prefix ++ dec c in
  if mem_bytes nm res then
    match fuel with O => (c, nm) | S fuel' => new_name_loop fuel' prefix (c + 1) res end
  else (c, nm).

Definition new_name (prefix : bytes) (st : nst) : nst * bytes :=
  let '(c, nm) := new_name_loop (S (length (reserved st))) prefix (counter st) (reserved st) in
  (mkSt c (nm :: reserved st) (vals st), nm).

Fixpoint assoc_bytes (x : bytes) (l : list (bytes * bytes)) : option bytes :=
  match l with [] => None | (k, v) :: r => if bytes_eqb x k then Some v else assoc_bytes x r end.

Definition COLON : byte := x3a.
Definition QUOTE : byte := x27.

(** convertSQLVal *)
Definition convert_val (prefix : bytes) (st : nst) (t : tree) : nst * tree :=
  match sql_to_bindvar t, t with
  | Some _, Node ty (AVal _ _ ok) kids =>
      let '(st', nm) := new_name prefix st in
      (st', Node ty (AVal VT_ValArg (COLON :: nm) ok) kids)
  | _, _ => (st, t)
  end.

(** convertSQLValDedup *)
Definition convert_val_dedup (prefix : bytes) (st : nst) (t : tree) : nst * tree :=
  match t with
  | Node ty (AVal vt val ok) kids =>
      if (256 <? N.of_nat (length val)) then convert_val prefix st t
      else
        match sql_to_bindvar t with
        | None => (st, t)
        | Some quoted =>
            let key := if quoted then QUOTE :: val else val in
            match assoc_bytes key (vals st) with
            | Some nm => (st, Node ty (AVal VT_ValArg (COLON :: nm) ok) kids)
            | None =>
                let '(st', nm) := new_name prefix st in
                (mkSt (counter st') (reserved st') ((key, nm) :: vals st'),
                 Node ty (AVal VT_ValArg (COLON :: nm) ok) kids)
            end
        end
  | _ => (st, t)
  end.

(** convertComparison: `x in (v1, ..., vn)` with every vi convertible becomes `x in ::name`.
    Returns the replacement of the Right child, if any. *)
Fixpoint all_convertible (ks : forest) : bool :=
  match ks with
  | FNil => true
  | FCons _ k r => match sql_to_bindvar k with Some _ => all_convertible r | None => false end
  end.

Fixpoint find_kid (f : N) (ks : forest) : option tree :=
  match ks with
  | FNil => None
  | FCons g k r => if g =? f then Some k else find_kid f r
  end.

Definition convert_comparison (prefix : bytes) (st : nst) (a : attr) (kids : forest) : nst * option tree :=
  match a with
  | AOp true =>
      match find_kid F_ComparisonExpr_Right kids with
      | Some (Node tty _ elems) =>
          if (tty =? T_ValTuple) && all_convertible elems then
            let '(st', nm) := new_name prefix st in
            (st', Some (Node T_ListArg (AList (COLON :: COLON :: nm)) FNil))
          else (st, None)
      | None => (st, None)
      end
  | _ => (st, None)
  end.

(** ---------- what a visit function does with a node and tells Walk ----------
    Read from the regenerated tables of WalkStatement / WalkSelect (Gen/SqlSchema.v: VISIT_STATEMENT, VISIT_SELECT).
    [sel]: the current visit function is WalkSelect (dedup mode), else WalkStatement. *)
Fixpoint find_clause (ty : N) (cs : list vclause) (dflt : vclause) : vclause :=
  match cs with
  | [] => dflt
  | c :: r => if vc_type c =? ty then c else find_clause ty r dflt
  end.

Definition visit_table (sel : bool) : list vclause := if sel then VISIT_SELECT else VISIT_STATEMENT.
Definition visit_default (sel : bool) : vclause := if sel then VISIT_SELECT_DEFAULT else VISIT_STATEMENT_DEFAULT.

(** the case of the type switch that a node of type [ty] takes *)
Definition clause_of (sel : bool) (ty : N) : vclause := find_clause ty (visit_table sel) (visit_default sel).

(** `case *Select: _ = Walk(nz.WalkSelect, node); return false, nil`: the node and everything below it is walked by
    WalkSelect instead (the node itself is visited again, by WalkSelect); afterwards WalkStatement does not go below
    it a second time ([visit_tables_modelled], Proofs: that clause returns false).  Result: the visit function in
    charge of this node and of its subtree, and the clause it takes. *)
Definition dispatch (sel : bool) (ty : N) : bool * vclause :=
  let c := clause_of sel ty in
  match vc_action c with
  | VA_walk_select => if sel then (sel, c) else (true, clause_of true ty)
  | _ => (sel, c)
  end.

(** the first result of the visit function, given what the comparison handler reported *)
Definition continues (r : vreturn) (handled : bool) : bool :=
  match r with
  | VR_continue => true
  | VR_stop => false
  | VR_stop_if_handled => negb handled
  | VR_continue_if_handled => handled
  | VR_unknown => false
  end.

(** what the handler of the clause reports: convertComparison after replacing node.Right / leaving the node alone;
    the other handlers have no result *)
Definition handled_of (act : vaction) (replaced : bool) : bool :=
  match act with
  | VA_convert_comparison => if replaced then CMP_REPORTS_REPLACED else CMP_REPORTS_UNCHANGED
  | _ => false
  end.

(** ---------- the walk of the normalizer ----------
    The visit of a node: convertSQLVal(Dedup) / convertComparison as the clause says. *)
Definition visit_val (prefix : bytes) (act : vaction) (st : nst) (ty : N) (a : attr) : nst * attr :=
  match act with
  | VA_convert_val => match convert_val prefix st (Node ty a FNil) with (s, Node _ a' _) => (s, a') end
  | VA_convert_val_dedup => match convert_val_dedup prefix st (Node ty a FNil) with (s, Node _ a' _) => (s, a') end
  | _ => (st, a)
  end.

Definition visit_cmp (prefix : bytes) (act : vaction) (st : nst) (a : attr) (kids : forest) : nst * option tree :=
  match act with
  | VA_convert_comparison => convert_comparison prefix st a kids
  | _ => (st, None)
  end.

Definition is_some {A} (o : option A) : bool := match o with Some _ => true | None => false end.

(** [repl]: the ListArg that replaces node.Right (the first child held by field Right).
    [go]: the visit function returned kontinue = true for the parent, so Walk calls its walkSubtree; when it
    returned false the children stay as they are (only node.Right has been replaced by the handler). *)
Fixpoint norm (prefix : bytes) (sel : bool) (st : nst) (t : tree) {struct t} : nst * tree :=
  match t with
  | Node ty a kids =>
      let d := dispatch sel ty in
      let act := vc_action (snd d) in
      let v := visit_val prefix act st ty a in
      let c := visit_cmp prefix act (fst v) a kids in
      let go := continues (vc_return (snd d)) (handled_of act (is_some (snd c))) in
      let r := norm_kids prefix (fst d) ty go (snd c) (fst c) kids in
      (fst r, Node ty (snd v) (snd r))
  end
with norm_kids (prefix : bytes) (sel : bool) (pty : N) (go : bool) (repl : option tree) (st : nst) (ks : forest) {struct ks} : nst * forest :=
  match ks with
  | FNil => (st, FNil)
  | FCons f k r =>
      let x :=
        match repl with
        | Some l =>
            if f =? F_ComparisonExpr_Right then (st, l, None)   (* a ListArg: visited, nothing below *)
            else (if go && walked pty f then norm prefix sel st k else (st, k), repl)
        | None => (if go && walked pty f then norm prefix sel st k else (st, k), None)
        end in
      let y := norm_kids prefix sel pty go (snd x) (fst (fst x)) r in
      (fst y, FCons f (snd (fst x)) (snd y))
  end.

(** GetBindvars: names already used by the statement, at the nodes Walk reaches *)
Fixpoint bindvars (t : tree) : list bytes :=
  match t with
  | Node ty a kids =>
      (match a with
       | AVal vt val _ => if (ty =? T_SQLVal) && (vt =? VT_ValArg) then [tl val] else []
       | AList nm => if ty =? T_ListArg then [tl (tl nm)] else []
       | _ => []
       end) ++ bindvars_kids ty kids
  end
with bindvars_kids (pty : N) (ks : forest) : list bytes :=
  match ks with
  | FNil => []
  | FCons f k r => (if walked pty f then bindvars k else []) ++ bindvars_kids pty r
  end.

(** sqlparser.Redact(stmt, bv, prefix) *)
Definition redact (prefix : bytes) (t : tree) : tree :=
  snd (norm prefix REDACT_ENTRY_SELECT (mkSt 1 (bindvars t) []) t).

(** ---------- HandleRawSQLQuery ----------
    Parsing itself is not modelled: [parsed] is the parser's answer.  Texts are kept symbolic so that
    "carries the statement's own text" is a property of the constructor. *)
Inductive text :=
| TEmpty
| TPrinted (t : tree)        (* String(stmt) of a parsed statement *)
| TRaw.                      (* the client's statement, verbatim *)

Inductive pmode := ModeStrict | ModeDefault.

Record handled := mkH { h_normalized : text; h_redacted : text; h_parsed : bool (* parsedQuery != nil *); h_err : bool }.

Definition VALUE_MASK : bytes := bytes_of_string "replaced".

Definition handle_raw (m : pmode) (parsed : option tree) : handled :=
  match parsed with
  | Some t => mkH (TPrinted t) (TPrinted (redact VALUE_MASK t)) true false
  | None =>
      match m with
      | ModeStrict => mkH TEmpty TEmpty false true
      | ModeDefault => mkH TRaw (if NOTPARSED_REDACTED_EMPTY then TEmpty else TRaw) true false
      end
  end.

(** ---------- the firewall's log lines ---------- *)
Inductive level := LError | LWarning | LInfo | LDebug.
Inductive msg :=
| MUnparsedIgnored | MUnparsedDenied
| MAllowed | MAllowedHidden | MDenied | MDeniedHidden | MDeniedBy | MDebugState
| MProxyParseError | MProxyQuery | MDDLIgnored.
Record logev := mkL { l_level : level; l_msg : msg; l_text : text }.

Definition log_allowed (h : handled) : list logev :=
  match h_parsed h, h_redacted h with
  | true, TEmpty => [mkL LDebug MDebugState (h_redacted h)]
  | true, q => [mkL LInfo MAllowed q]
  | false, TEmpty => [mkL LInfo MAllowedHidden TEmpty]
  | false, q => [mkL LDebug MDebugState q]
  end.

Definition log_denied (h : handled) : list logev :=
  match h_parsed h, h_redacted h with
  | true, TEmpty => [mkL LDebug MDebugState (h_redacted h)]
  | true, q => [mkL LError MDenied q; mkL LDebug MDeniedBy TEmpty]
  | false, TEmpty => [mkL LError MDeniedHidden TEmpty; mkL LDebug MDeniedBy TEmpty]
  | false, q => [mkL LDebug MDebugState q]
  end.

(** a handler as the firewall sees it *)
Inductive verdict := VContinue | VAllowStop | VDeny.
Inductive handler :=
| HCapture                       (* QueryCaptureHandler: gets the redacted text, never decides *)
| HIgnore (matches : bool)       (* QueryIgnoreHandler on the raw text *)
| HCheck (v : verdict).          (* allow / deny / allowall / denyall on the normalized text *)

Record censor_out := mkC { c_logs : list logev; c_denied : bool; c_captured : list text (* written to the capture files *) }.

Fixpoint run_handlers (h : handled) (hs : list handler) (cap : list text) : censor_out :=
  match hs with
  | [] => mkC (log_allowed h) false cap
  | HCapture :: r => run_handlers h r (cap ++ [h_redacted h])
  | HIgnore true :: _ => mkC (log_allowed h) false cap
  | HIgnore false :: r => run_handlers h r cap
  | HCheck VDeny :: _ => mkC (log_denied h) true cap
  | HCheck VAllowStop :: _ => mkC (log_allowed h) false cap
  | HCheck VContinue :: r => run_handlers h r cap
  end.

Record censor_cfg := mkCfg { cfg_handlers : list handler; cfg_ignore_parse_error : bool; cfg_unparsed_writer : bool }.

(** AcraCensor.HandleQuery (its parser is always ModeStrict) *)
Definition censor_handle (cfg : censor_cfg) (parsed : option tree) : censor_out :=
  match cfg_handlers cfg, cfg_unparsed_writer cfg with
  | [], false => mkC [] false []
  | _, _ =>
      let h := handle_raw ModeStrict parsed in
      let cap0 := if h_err h && cfg_unparsed_writer cfg then [TRaw] else [] in
      if h_err h && negb (cfg_ignore_parse_error cfg) then
        mkC [mkL LError MUnparsedDenied TEmpty] true cap0
      else
        let pre := if h_err h then [mkL LWarning MUnparsedIgnored TEmpty] else [] in
        let o := run_handlers h (cfg_handlers cfg) cap0 in
        mkC (pre ++ c_logs o) (c_denied o) (c_captured o)
  end.

(** the proxies' debug line (pg_decryptor.handleQueryPacket, mysql response_proxy): parser mode is the operator's *)
Definition proxy_debug_log (m : pmode) (parsed : option tree) : list logev :=
  let h := handle_raw m parsed in
  if h_err h then [mkL LDebug MProxyParseError (h_redacted h)] else [mkL LDebug MProxyQuery (h_redacted h)].

(** ParseWithDialect on a DDL that parsed only partially *)
Definition partial_ddl_log : list logev :=
  [mkL LInfo MDDLIgnored (if DDL_LOG_HAS_STATEMENT then TRaw else TEmpty)].

Definition carries_statement (e : logev) : bool :=
  match l_text e with TRaw => true | _ => false end.
