(** CHECKED twin of utils.DecodeOctal (utils/dbByteArrayEncoders.go) over the []rune conversion.
    Go's [text := []rune(string(data))] is Model/Bytea.v [to_runes] (UTF-8 decoder, every invalid byte
    becomes ONE rune U+FFFD); here the loop of DecodeOctal is written with an explicit index [i] into the
    RUNE slice and a run-time bounds check ([rindex] = Go's [text[k]], Panic when out of range) exactly
    where the Go code indexes [text[...]].  The two "escape sequence incomplete" guards compare against a
    parameter [bound]: the real code uses [len(text)] (the RUNE count, [decode_octal_checked]); the same
    loop with [len(data)] (the BYTE count, [decode_octal_bytelen]) is the unsound variant: the two agree
    on inputs whose rune count equals their byte count (ASCII and invalid bytes), and the byte-count
    variant indexes out of range as soon as a valid multi-byte character precedes a truncated escape.
    No proofs here. *)
From Acra Require Import Lib.Bytes Lib.Outcome Lib.GoSlice Model.Bytea.
From Coq Require Import ZArith.
Local Open Scope Z_scope.

Definition rlen (t : list N) : Z := Z.of_nat (length t).

(** Go's [text[i]] on a []rune *)
Definition rindex (i : Z) (t : list N) : res N :=
  if (0 <=? i) && (i <? rlen t) then Ok (nth (Z.to_nat i) t 0%N) else Panic.

(** the inner [for j := 1; j <= 3; j++] loop: [text[i+j]] must be an octal digit; value accumulated in a byte *)
Definition octal_digit_at (t : list N) (k : Z) : res N :=
  do d <- rindex k t;
  if is_octal_digit d then Ok (d - 48)%N else Err E_OCTAL.

(** one iteration of [for i := 0; i < len(text); i++] per unit of fuel *)
Fixpoint dor_loop (fuel : nat) (bound : Z) (t : list N) (i : Z) (out : bytes) : res bytes :=
  match fuel with
  | O => Err E_OUT_OF_FUEL
  | S f =>
      if negb (i <? rlen t) then Ok out else
      do ch <- rindex i t;                                   (* ch := text[i] *)
      if is_control ch then Err E_OCTAL else
      if negb (ch =? BACKSLASH)%N then dor_loop f bound t (i + 1) (out ++ encode_rune ch) else
      if bound - 1 <=? i then Err E_OCTAL else               (* if i >= len(text)-1 *)
      do c1 <- rindex (i + 1) t;                             (* text[i+1] == '\\' *)
      if (c1 =? BACKSLASH)%N then dor_loop f bound t (i + 2) (out ++ [n2b BACKSLASH]) else
      if bound <=? i + 3 then Err E_OCTAL else               (* if i+3 >= len(text) *)
      do d1 <- octal_digit_at t (i + 1);                     (* text[i+j], j = 1..3 *)
      do d2 <- octal_digit_at t (i + 2);
      do d3 <- octal_digit_at t (i + 3);
      dor_loop f bound t (i + 4) (out ++ [n2b (d1 * 64 + d2 * 8 + d3)])
  end.

(** DecodeOctal as written: both guards use len(text) *)
Definition decode_octal_checked (data : bytes) : res bytes :=
  let t := to_runes data in dor_loop (S (length t)) (rlen t) t 0 [].

(** the variant whose guards use len(data) *)
Definition decode_octal_bytelen (data : bytes) : res bytes :=
  let t := to_runes data in dor_loop (S (length t)) (len data) t 0 [].

(** DecodeEscaped over the checked DecodeOctal *)
Definition decode_escaped_checked (data : bytes) : res bytes :=
  match data with
  | a :: b :: r =>
      if (b2n a =? BACKSLASH)%N && (b2n b =? 120)%N then hex_decode r
      else match decode_octal_checked data with Ok o => Ok o | Err _ => Err E_OCTAL | Panic => Panic end
  | _ => match decode_octal_checked data with Ok o => Ok o | Err _ => Err E_OCTAL | Panic => Panic end
  end.
