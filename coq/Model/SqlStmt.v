(** C13_statements model: whole data-manipulation STATEMENTS of acra's SQL parser/printer
    (sqlparser/sql.y, ast.go, ast_methods.go).

    Node kinds inside the model:
      Select (DISTINCT, select expressions with aliases, `*`, `t.*`, `d.t.*`, FROM, WHERE, GROUP BY, HAVING,
      ORDER BY with asc/desc [nulls first/last], the five LIMIT forms, FOR UPDATE / LOCK IN SHARE MODE),
      Union (union / union all / union distinct chains), ParenSelect, Subquery, AliasedTableExpr (table
      name with qualifier or sub-select, alias), ParenTableExpr, JoinTableExpr (join, straight_join, left/right
      join, natural [left|right] join; ON / USING / none), Insert (insert/replace, ignore, columns, VALUES tuples
      incl. empty ones, INSERT .. SELECT, ON DUPLICATE KEY UPDATE, RETURNING, DEFAULT VALUES), Update (SET list,
      FROM (PostgreSQL), WHERE, ORDER BY, LIMIT, RETURNING), Delete (both forms),
      expressions: And Or Not Comparison (incl. ilike, IN (sub-select)) Range Is Exists Binary Unary Collate SQLVal
      (with :: casts) Null Bool Default ColName (quoted identifiers) Paren ValTuple Subquery FuncExpr (qualifier,
      DISTINCT, select-expression arguments, keyword-named functions) Case Convert ConvertUsing Interval (both
      dialects) ValuesFunc.
    The printer produces TOKENS (what sqlparser's Tokenizer returns for the text the Format methods print; the
    text itself is Model/SqlStmtText.v); the parser is a recursive-descent / precedence-climbing parser with fuel
    for the PRINTED language, its levels come from Gen/Prec.v.  [pg] = PostgreSQL dialect (else MySQL, ANSI
    mode off).  No proofs here. *)
From Acra Require Import Lib.Bytes Gen.Prec Gen.SqlWords.
From Coq Require Import Arith.

(* ---------- tokens ---------- *)
Inductive punct :=
| PEq | PLt | PGt | PLe | PGe | PNe | PNse | PBitOr | PBitAnd | PShl | PShr | PPlus | PMinus | PStar | PSlash
| PPercent | PCaret | PTilde | PBang | PLParen | PRParen | PComma | PDot.

Inductive tok :=
| TLit (t : N) (v : bytes)  (* SINGLE_QUOTE_STRING INTEGRAL FLOAT HEXNUM HEX VALUE_ARG BIT_LITERAL PG_ESCAPE_STRING DOLLAR_SIGN, t = ValType *)
| TId (n : bytes)           (* ID *)
| TDq (n : bytes)           (* DOUBLE_QUOTE_STRING *)
| TCast (c : bytes)         (* LIST_ARG ("::type") *)
| TP (p : punct)
| TW (w : word)             (* keyword of Gen.SqlWords.word *)
| TKw (w : bytes).          (* any other keyword token, by its lower-case spelling *)

(* ---------- identifiers ---------- *)
Inductive quote := QNone | QDq | QSq.          (* ColIdent.quote / TableIdent.quote: 0, double quote, single quote *)
Inductive ident := Id (q : quote) (v : bytes). (* Id QNone [] = absent *)
Definition no_id : ident := Id QNone [].
Definition id_empty (i : ident) : bool := match i with Id _ [] => true | _ => false end.
Definition is_no_id (i : ident) : bool := match i with Id QNone [] => true | _ => false end.

(* ---------- AST ---------- *)
Inductive binop := BBitAnd | BBitOr | BBitXor | BPlus | BMinus | BMult | BDiv | BIntDiv | BMod | BShl | BShr.
Inductive unop := UPlus | UMinus | UTilda | UBang | UBinary | UUBinary.
Inductive cmpop := CEq | CLt | CGt | CLe | CGe | CNe | CNse | CIn | CNotIn | CLike | CNotLike | CILike | CNotILike
                 | CRegexp | CNotRegexp.
Inductive issuf := IsNull | IsNotNull | IsTrue | IsNotTrue | IsFalse | IsNotFalse.
Inductive jkind := JJoin | JStraight | JLeft | JRight | JNatural | JNaturalLeft | JNaturalRight.
Inductive utype := UUnion | UAll | UDistinct.
Inductive odir := DAsc | DDesc | DAscNF | DAscNL | DDescNF | DDescNL.
Inductive lockk := LkNone | LkForUpdate | LkShare.
(** ConvertType: type word, Length, Scale (IntVal texts) *)
Inductive ctype := CT (ty : bytes) (len scale : option bytes).

Inductive expr :=
| EAnd (l r : expr)
| EOr (l r : expr)
| ENot (x : expr)
| ECmp (op : cmpop) (l r : expr)
| ECmpEsc (op : cmpop) (l r esc : expr)
| ERange (neg : bool) (l a b : expr)
| EIs (s : issuf) (x : expr)
| EExists (q : sel)
| EBin (op : binop) (l r : expr)
| EUn (op : unop) (x : expr)
| ECollate (x : expr) (cs : bytes)
| ELit (t : N) (v : bytes) (casts : list bytes)
| ENull
| EBool (b : bool)
| EDefault
| ECol (q : list ident) (n : ident)
| EParen (x : expr)
| ETuple (xs : exprs)
| ESubq (q : sel)
| EFunc (q : ident) (n : bytes) (d : bool) (args : selexprs)
| ECase (x : oexpr) (ws : whens) (el : oexpr)
| EConvert (x : expr) (ty : ctype)
| EConvertUsing (x : expr) (cs : bytes)
| EInterval (x : expr) (unit : bytes)            (* unit = [] : PostgreSQL form interval '..' *)
| EValuesFunc (q : list ident) (n : ident)
with exprs := XNil | XCons (x : expr) (xs : exprs)
with oexpr := NoE | SomeE (x : expr)
with whens := WNil | WCons (c v : expr) (ws : whens)
with selexpr :=
| SStar (q : list ident)
| SAliased (x : expr) (a : ident)
with selexprs := SNil | SCons (x : selexpr) (xs : selexprs)
with sel :=
| Select (d : bool) (xs : selexprs) (from : texprs) (wh : oexpr) (gb : exprs) (hv : oexpr)
         (ob : orders) (lm : lim) (lk : lockk)
| Union (ty : utype) (l r : sel) (ob : orders) (lm : lim) (lk : lockk)
| ParenSel (s : sel)
with texpr :=
| TTable (q n a : ident)
| TSubq (s : sel) (a : ident)
| TParen (ts : texprs)
| TJoin (l : texpr) (k : jkind) (r : texpr) (c : jcond)
with texprs := TNil | TCons (t : texpr) (ts : texprs)
with jcond := JNone | JOn (x : expr) | JUsing (cols : list ident)
with orders := ONil | OCons (x : expr) (d : odir) (os : orders)
with lim :=
| LNone
| LOnly (cnt : expr)
| LOffset (cnt off : expr)
| LComma (off cnt : expr)
| LAll
| LAllOffset (off : expr).

Inductive updates := UNil | UCons (q : list ident) (n : ident) (x : expr) (us : updates).
Inductive rows := RNil | RCons (r : exprs) (rs : rows).
Inductive irows := IValues (rs : rows) | ISelect (s : sel).

Inductive stmt :=
| SSelect (s : sel)
| SInsert (repl ign : bool) (tq tn : ident) (cols : list ident) (r : irows) (dup : updates) (ret : selexprs)
| SInsertDefault (repl ign : bool) (tq tn : ident)
| SUpdate (ts : texprs) (set : updates) (from : texprs) (wh : oexpr) (ob : orders) (lm : lim) (ret : selexprs)
| SDelete (ts : texprs) (wh : oexpr) (ob : orders) (lm : lim) (ret : selexprs)
| SDeleteMulti (targets ts : texprs) (wh : oexpr) (ret : selexprs).

(* ---------- levels (2 * yacc level; ESCAPE sits between comparison and value level) ---------- *)
Definition L_OR := 2 * PREC_OR.
Definition L_AND := 2 * PREC_AND.
Definition L_NOT := 2 * PREC_NOT.
Definition L_BETWEEN := 2 * PREC_BETWEEN.
Definition L_CMP := 2 * PREC_EQ.
Definition L_ESC := S L_CMP.
Definition L_VAL := S L_ESC.
Definition L_UNARY := 2 * PREC_UNARY.
Definition L_COLLATE := 2 * PREC_COLLATE.
Definition L_ATOM := 2 * PREC_LEVELS + 2.

Definition binprec (o : binop) : nat :=
  2 * match o with
      | BBitAnd => PREC_BITAND | BBitOr => PREC_BITOR | BBitXor => PREC_CARET
      | BPlus => PREC_PLUS | BMinus => PREC_MINUS | BMult => PREC_STAR | BDiv => PREC_SLASH
      | BIntDiv => PREC_DIV | BMod => PREC_PERCENT | BShl => PREC_SHIFT_LEFT | BShr => PREC_SHIFT_RIGHT
      end.

Definition assoc_left (a : assoc) : bool := match a with ALeft => true | _ => false end.
Definition assoc_right (a : assoc) : bool := match a with ARight => true | _ => false end.

(** what the parser below assumes about the yacc table; [parse] refuses to run otherwise *)
Definition prec_sane : bool :=
  forallb assoc_left [ASSOC_OR; ASSOC_AND; ASSOC_BETWEEN; ASSOC_EQ; ASSOC_LT; ASSOC_GT; ASSOC_LE; ASSOC_GE; ASSOC_NE;
                      ASSOC_NULL_SAFE_EQUAL; ASSOC_IS; ASSOC_LIKE; ASSOC_ILIKE; ASSOC_REGEXP; ASSOC_IN; ASSOC_BITOR; ASSOC_BITAND;
                      ASSOC_SHIFT_LEFT; ASSOC_SHIFT_RIGHT; ASSOC_PLUS; ASSOC_MINUS; ASSOC_STAR; ASSOC_SLASH; ASSOC_DIV;
                      ASSOC_PERCENT; ASSOC_MOD; ASSOC_CARET; ASSOC_COLLATE; ASSOC_UNION; ASSOC_JOIN; ASSOC_ON; ASSOC_USING]
  && forallb assoc_right [ASSOC_NOT; UASSOC_PLUS; UASSOC_MINUS; UASSOC_TILDE; UASSOC_BANG; UASSOC_BINARY; UASSOC_UNDERSCORE_BINARY]
  && forallb (Nat.eqb PREC_UNARY) [UPREC_PLUS; UPREC_MINUS; UPREC_TILDE; UPREC_BANG; UPREC_BINARY; UPREC_UNDERSCORE_BINARY]
  && forallb (Nat.eqb PREC_EQ) [PREC_LT; PREC_GT; PREC_LE; PREC_GE; PREC_NE; PREC_NULL_SAFE_EQUAL; PREC_IS; PREC_LIKE; PREC_ILIKE; PREC_REGEXP; PREC_IN]
  && forallb (Nat.eqb PREC_JOIN) [PREC_STRAIGHT_JOIN; PREC_LEFT; PREC_RIGHT; PREC_NATURAL]
  && (PREC_PERCENT =? PREC_MOD)
  && (PREC_JOIN <? PREC_ON) && (PREC_ON =? PREC_USING)      (* ON/USING after a join without condition is shifted *)
  && (PREC_OR <? PREC_AND) && (PREC_AND <? PREC_NOT) && (PREC_NOT <? PREC_BETWEEN) && (PREC_BETWEEN <=? PREC_EQ)
  && forallb (fun p => (PREC_EQ <? p) && (p <? PREC_UNARY)) BINARY_RULE_PRECS
  && (PREC_UNARY <? PREC_COLLATE) && (PREC_COLLATE <=? PREC_LEVELS).

(* ---------- byte helpers: keyword table, identifier classes ---------- *)
Definition lower_byte (c : byte) : byte :=
  if (65 <=? b2n c)%N && (b2n c <=? 90)%N then n2b (b2n c + 32) else c.
Definition lower (v : bytes) : bytes := map lower_byte v.
Fixpoint mem_bytes (v : bytes) (l : list bytes) : bool :=
  match l with [] => false | x :: l' => bytes_eqb x v || mem_bytes v l' end.
Fixpoint assoc_word (v : bytes) (l : list (bytes * word)) : option word :=
  match l with [] => None | (x, w) :: l' => if bytes_eqb x v then Some w else assoc_word v l' end.

Definition is_keyword (v : bytes) : bool := mem_bytes (lower v) KEYWORDS.
Definition is_letter (c : byte) : bool :=
  let n := b2n c in ((97 <=? n) && (n <=? 122) || (65 <=? n) && (n <=? 90) || (n =? 95) || (n =? 64))%N.
Definition is_digit (c : byte) : bool := (48 <=? b2n c)%N && (b2n c <=? 57)%N.
(** an identifier the tokenizer reads back unquoted as ONE ID token spelled the same: letters/digits, no leading
    digit, not a keyword, not "dual" in another case (scanIdentifier lower-cases dual) *)
Definition id_chars (v : bytes) : bool :=
  match v with [] => false | c :: v' => is_letter c && forallb (fun d => is_letter d || is_digit d) v' end.
Definition x_dual : bytes := [x64; x75; x61; x6c].
Definition plain_ident (v : bytes) : bool :=
  id_chars v && negb (is_keyword v) && (negb (bytes_eqb (lower v) x_dual) || bytes_eqb v x_dual).

(** the token a keyword spelling is scanned as *)
Definition kw_tok (v : bytes) : tok :=
  match assoc_word v WORDS with Some w => TW w | None => TKw v end.
(** a name printed raw (function names, charsets, units, types): keyword token if it is one, ID otherwise *)
Definition raw_tok (v : bytes) : tok := if is_keyword v then kw_tok (lower v) else TId v.

Section Dialect.
Variable pg : bool.

(** isCarat: '.', identifier quote, string-literal quote of the dialect (MySQL, ANSI mode off: ` ' " ; PostgreSQL: " ') *)
Definition is_carat (c : byte) : bool :=
  byte_eqb c x2e || byte_eqb c x27 || byte_eqb c x22 || (negb pg && byte_eqb c x60).
Definition is_dbsys (v : bytes) : bool := match v with a :: b :: _ => byte_eqb a x40 && byte_eqb b x40 | _ => false end.
(** formatIDForDialect: the scan for a character that forces quoting (bytes >= 0x80 count as such) *)
Fixpoint bad_chars (dbsys first : bool) (v : bytes) : bool :=
  match v with
  | [] => false
  | c :: v' =>
      (negb (is_letter c) && negb (dbsys && is_carat c) && (first || negb (is_digit c)))
      || bad_chars dbsys false v'
  end.
Definition must_escape (v : bytes) : bool := bad_chars (is_dbsys v) true v || is_keyword v.

(** formatID: MySQL back-quotes what must be escaped (the token stays ID); PostgreSQL double-quotes it, and the
    tokenizer hands a double-quoted identifier over as DOUBLE_QUOTE_STRING; a bare "dual" in any case is
    lower-cased by the tokenizer *)
Definition id_tok (i : ident) : tok :=
  match i with
  | Id QNone v =>
      if must_escape v then (if pg then TDq v else TId v)
      else if bytes_eqb (lower v) x_dual then TId x_dual else TId v
  | Id QDq v => TDq v
  | Id QSq v => TLit VT_StrVal v
  end.

(* ---------- printer (Format methods, as tokens) ---------- *)
Definition x_minus : byte := x2d.
Definition is_int (t : N) : bool := N.eqb t VT_IntVal.

Definition bin_tok (o : binop) : tok :=
  match o with
  | BBitAnd => TP PBitAnd | BBitOr => TP PBitOr | BBitXor => TP PCaret | BPlus => TP PPlus | BMinus => TP PMinus
  | BMult => TP PStar | BDiv => TP PSlash | BIntDiv => TW W_div | BMod => TP PPercent | BShl => TP PShl | BShr => TP PShr
  end.
Definition un_tok (o : unop) : tok :=
  match o with
  | UPlus => TP PPlus | UMinus => TP PMinus | UTilda => TP PTilde | UBang => TP PBang
  | UBinary => TW W_binary | UUBinary => TW W__binary
  end.
Definition cmp_toks (o : cmpop) : list tok :=
  match o with
  | CEq => [TP PEq] | CLt => [TP PLt] | CGt => [TP PGt] | CLe => [TP PLe] | CGe => [TP PGe] | CNe => [TP PNe] | CNse => [TP PNse]
  | CIn => [TW W_in] | CNotIn => [TW W_not; TW W_in] | CLike => [TW W_like] | CNotLike => [TW W_not; TW W_like]
  | CILike => [TW W_ilike] | CNotILike => [TW W_not; TW W_ilike]
  | CRegexp => [TW W_regexp] | CNotRegexp => [TW W_not; TW W_regexp]
  end.
Definition is_toks (s : issuf) : list tok :=
  match s with
  | IsNull => [TW W_is; TW W_null] | IsNotNull => [TW W_is; TW W_not; TW W_null]
  | IsTrue => [TW W_is; TW W_true] | IsNotTrue => [TW W_is; TW W_not; TW W_true]
  | IsFalse => [TW W_is; TW W_false] | IsNotFalse => [TW W_is; TW W_not; TW W_false]
  end.
Definition between_toks (neg : bool) : list tok := if neg then [TW W_not; TW W_between] else [TW W_between].
Definition jk_toks (k : jkind) : list tok :=
  match k with
  | JJoin => [TW W_join] | JStraight => [TW W_straight_join]
  | JLeft => [TW W_left; TW W_join] | JRight => [TW W_right; TW W_join]
  | JNatural => [TW W_natural; TW W_join]
  | JNaturalLeft => [TW W_natural; TW W_left; TW W_join] | JNaturalRight => [TW W_natural; TW W_right; TW W_join]
  end.
Definition ut_toks (u : utype) : list tok :=
  match u with UUnion => [TW W_union] | UAll => [TW W_union; TW W_all] | UDistinct => [TW W_union; TW W_distinct] end.
Definition dir_toks (d : odir) : list tok :=
  match d with
  | DAsc => [TW W_asc] | DDesc => [TW W_desc]
  | DAscNF => [TW W_asc; TW W_nulls; TW W_first] | DAscNL => [TW W_asc; TW W_nulls; TW W_last]
  | DDescNF => [TW W_desc; TW W_nulls; TW W_first] | DDescNL => [TW W_desc; TW W_nulls; TW W_last]
  end.
Definition lock_toks (l : lockk) : list tok :=
  match l with LkNone => [] | LkForUpdate => [TW W_for; TW W_update] | LkShare => [TW W_lock; TW W_in; TW W_share; TW W_mode] end.

(** SQLVal.Format: the text of an IntVal "-5" is scanned back as '-' INTEGRAL *)
Definition lit_toks (t : N) (v : bytes) : list tok :=
  if is_int t then
    match v with
    | c :: v' => if byte_eqb c x_minus then [TP PMinus; TLit t v'] else [TLit t v]
    | [] => [TLit t v]
    end
  else [TLit t v].

(** qualifier '.' ... name *)
Fixpoint qual_toks (q : list ident) : list tok :=
  match q with [] => [] | a :: q' => id_tok a :: TP PDot :: qual_toks q' end.
Definition col_toks (q : list ident) (n : ident) : list tok := qual_toks q ++ [id_tok n].
Definition tname_toks (q n : ident) : list tok := (if id_empty q then [] else [id_tok q; TP PDot]) ++ [id_tok n].
Definition alias_toks (a : ident) : list tok := if id_empty a then [] else [TW W_as; id_tok a].
Fixpoint idlist_toks (l : list ident) : list tok :=
  match l with [] => [] | [a] => [id_tok a] | a :: l' => id_tok a :: TP PComma :: idlist_toks l' end.
Definition columns_toks (l : list ident) : list tok := TP PLParen :: idlist_toks l ++ [TP PRParen].
Definition olen_toks (o : option bytes) : list tok := match o with Some v => [TLit VT_IntVal v] | None => [] end.
Definition ctype_toks (c : ctype) : list tok :=
  match c with
  | CT ty None _ => [raw_tok ty]
  | CT ty (Some l) None => [raw_tok ty; TP PLParen; TLit VT_IntVal l; TP PRParen]
  | CT ty (Some l) (Some s) => [raw_tok ty; TP PLParen; TLit VT_IntVal l; TP PComma; TLit VT_IntVal s; TP PRParen]
  end.

Definition x_rand : bytes := [x72; x61; x6e; x64].

Fixpoint print (e : expr) : list tok :=
  match e with
  | EAnd l r => print l ++ TW W_and :: print r
  | EOr l r => print l ++ TW W_or :: print r
  | ENot x => TW W_not :: print x
  | ECmp op l r => print l ++ cmp_toks op ++ print r
  | ECmpEsc op l r esc => print l ++ cmp_toks op ++ print r ++ TW W_escape :: print esc
  | ERange neg l a b => print l ++ between_toks neg ++ print a ++ TW W_and :: print b
  | EIs s x => print x ++ is_toks s
  | EExists q => TW W_exists :: TP PLParen :: print_sel q ++ [TP PRParen]
  | EBin op l r => print l ++ bin_tok op :: print r
  | EUn op x => un_tok op :: print x
  | ECollate x cs => print x ++ [TW W_collate; raw_tok cs]
  | ELit t v casts => lit_toks t v ++ map TCast casts
  | ENull => [TW W_null]
  | EBool b => [TW (if b then W_true else W_false)]
  | EDefault => [TW W_default]
  | ECol q n => col_toks q n
  | EParen x => TP PLParen :: print x ++ [TP PRParen]
  | ETuple xs => TP PLParen :: print_exprs xs ++ [TP PRParen]
  | ESubq q => TP PLParen :: print_sel q ++ [TP PRParen]
  | EFunc q n d args =>
      (if id_empty q then [] else [id_tok q; TP PDot]) ++
      raw_tok n :: TP PLParen :: (if d then [TW W_distinct] else []) ++ print_selexprs args ++ [TP PRParen]
  | ECase x ws el => TW W_case :: print_oexpr [] x ++ print_whens ws ++ print_oexpr [TW W_else] el ++ [TW W_end]
  | EConvert x ty => TW W_convert :: TP PLParen :: print x ++ TP PComma :: ctype_toks ty ++ [TP PRParen]
  | EConvertUsing x cs => TW W_convert :: TP PLParen :: print x ++ TW W_using :: raw_tok cs :: [TP PRParen]
  | EInterval x unit => TW W_interval :: print x ++ (match unit with [] => [] | _ => [raw_tok unit] end)
  | EValuesFunc q n => TW W_values :: TP PLParen :: col_toks q n ++ [TP PRParen]
  end
with print_exprs (xs : exprs) : list tok :=
  match xs with
  | XNil => []
  | XCons x XNil => print x
  | XCons x xs' => print x ++ TP PComma :: print_exprs xs'
  end
with print_oexpr (pre : list tok) (o : oexpr) : list tok :=
  match o with NoE => [] | SomeE x => pre ++ print x end
with print_whens (ws : whens) : list tok :=
  match ws with
  | WNil => []
  | WCons c v ws' => TW W_when :: print c ++ TW W_then :: print v ++ print_whens ws'
  end
with print_selexpr (s : selexpr) : list tok :=
  match s with
  | SStar q => qual_toks q ++ [TP PStar]
  | SAliased x a => print x ++ alias_toks a
  end
with print_selexprs (xs : selexprs) : list tok :=
  match xs with
  | SNil => []
  | SCons x SNil => print_selexpr x
  | SCons x xs' => print_selexpr x ++ TP PComma :: print_selexprs xs'
  end
with print_sel (s : sel) : list tok :=
  match s with
  | Select d xs from wh gb hv ob lm lk =>
      TW W_select :: (if d then [TW W_distinct] else []) ++ print_selexprs xs ++ TW W_from :: print_texprs from
      ++ print_oexpr [TW W_where] wh
      ++ (match gb with XNil => [] | _ => TW W_group :: TW W_by :: print_exprs gb end)
      ++ print_oexpr [TW W_having] hv
      ++ print_orders true ob ++ print_lim lm ++ lock_toks lk
  | Union ty l r ob lm lk =>
      print_sel l ++ ut_toks ty ++ print_sel r ++ print_orders true ob ++ print_lim lm ++ lock_toks lk
  | ParenSel s' => TP PLParen :: print_sel s' ++ [TP PRParen]
  end
with print_texpr (t : texpr) : list tok :=
  match t with
  | TTable q n a => tname_toks q n ++ alias_toks a
  | TSubq s a => TP PLParen :: print_sel s ++ TP PRParen :: alias_toks a
  | TParen ts => TP PLParen :: print_texprs ts ++ [TP PRParen]
  | TJoin l k r c => print_texpr l ++ jk_toks k ++ print_texpr r ++ print_jcond c
  end
with print_texprs (ts : texprs) : list tok :=
  match ts with
  | TNil => []
  | TCons t TNil => print_texpr t
  | TCons t ts' => print_texpr t ++ TP PComma :: print_texprs ts'
  end
with print_jcond (c : jcond) : list tok :=
  match c with
  | JNone => []
  | JOn x => TW W_on :: print x
  | JUsing cols => TW W_using :: columns_toks cols
  end
with print_orders (first : bool) (os : orders) : list tok :=
  match os with
  | ONil => []
  | OCons x d os' =>
      (if first then [TW W_order; TW W_by] else [TP PComma]) ++ print x ++
      (* Order.Format prints NULL and rand() without the direction *)
      (match x with
       | ENull => []
       | EFunc _ n _ _ => if bytes_eqb (lower n) x_rand then [] else dir_toks d
       | _ => dir_toks d
       end) ++ print_orders false os'
  end
with print_lim (l : lim) : list tok :=
  match l with
  | LNone => []
  | LOnly c => TW W_limit :: print c
  | LOffset c o => TW W_limit :: print c ++ TW W_offset :: print o
  | LComma o c => TW W_limit :: print o ++ TP PComma :: print c
  | LAll => [TW W_limit; TW W_all]
  | LAllOffset o => TW W_limit :: TW W_all :: TW W_offset :: print o
  end.

Fixpoint print_updates (us : updates) : list tok :=
  match us with
  | UNil => []
  | UCons q n x UNil => col_toks q n ++ TP PEq :: print x
  | UCons q n x us' => col_toks q n ++ TP PEq :: print x ++ TP PComma :: print_updates us'
  end.
Fixpoint print_rows (rs : rows) : list tok :=
  match rs with
  | RNil => []
  | RCons r RNil => TP PLParen :: print_exprs r ++ [TP PRParen]
  | RCons r rs' => TP PLParen :: print_exprs r ++ TP PRParen :: TP PComma :: print_rows rs'
  end.
Definition print_irows (r : irows) : list tok :=
  match r with IValues rs => TW W_values :: print_rows rs | ISelect s => print_sel s end.
Definition print_dup (us : updates) : list tok :=
  match us with UNil => [] | _ => TW W_on :: TW W_duplicate :: TW W_key :: TW W_update :: print_updates us end.
Definition print_ret (r : selexprs) : list tok :=
  match r with SNil => [] | _ => TW W_returning :: print_selexprs r end.
Definition ins_head (repl ign : bool) (tq tn : ident) : list tok :=
  TW (if repl then W_replace else W_insert) :: (if ign then [TW W_ignore] else []) ++ TW W_into :: tname_toks tq tn.

Definition print_stmt (s : stmt) : list tok :=
  match s with
  | SSelect q => print_sel q
  | SInsert repl ign tq tn cols r dup ret =>
      ins_head repl ign tq tn ++ (match cols with [] => [] | _ => columns_toks cols end)
      ++ print_irows r ++ print_dup dup ++ print_ret ret
  | SInsertDefault repl ign tq tn => ins_head repl ign tq tn ++ [TW W_default; TW W_values]
  | SUpdate ts set from wh ob lm ret =>
      TW W_update :: print_texprs ts ++ TW W_set :: print_updates set
      ++ (match from with TNil => [] | _ => TW W_from :: print_texprs from end)
      ++ print_oexpr [TW W_where] wh ++ print_orders true ob ++ print_lim lm ++ print_ret ret
  | SDelete ts wh ob lm ret =>
      TW W_delete :: TW W_from :: print_texprs ts ++ print_oexpr [TW W_where] wh ++ print_orders true ob
      ++ print_lim lm ++ print_ret ret
  | SDeleteMulti targets ts wh ret =>
      TW W_delete :: TW W_from :: print_texprs targets ++ TW W_using :: print_texprs ts
      ++ print_oexpr [TW W_where] wh ++ print_ret ret
  end.

(* ---------- levels of nodes and what the yacc parser can build (WF) ---------- *)
Definition level (e : expr) : nat :=
  match e with
  | EOr _ _ => L_OR | EAnd _ _ => L_AND | ENot _ => L_NOT
  | ECmp _ _ _ | ECmpEsc _ _ _ _ | ERange _ _ _ _ | EIs _ _ => L_BETWEEN
  | EBin op _ _ => binprec op
  | EUn _ _ => L_UNARY
  | ECollate _ _ => L_COLLATE
  | _ => L_ATOM
  end.

(** bound on the precedence of an infix token that may FOLLOW the printed form without being absorbed by its
    right-most operand (COLLATE binds tighter than every prefix operator: it may follow nothing but its own node) *)
Definition rbound (e : expr) : nat :=
  match e with
  | EOr _ _ => S L_OR | EAnd _ _ => S L_AND | ENot _ => S L_NOT
  | ECmp _ _ _ | ECmpEsc _ _ _ _ | ERange _ _ _ _ => L_ESC
  | EBin op _ _ => S (binprec op)
  | _ => L_COLLATE
  end.

(** value_expression: not a boolean node, not EXISTS, not DEFAULT *)
Definition is_v (e : expr) : bool :=
  (L_VAL <=? level e) && match e with EExists _ | EDefault => false | _ => true end.
Definition is_intlit (e : expr) : bool := match e with ELit t _ _ => is_int t | _ => false end.
Definition is_like (o : cmpop) : bool := match o with CLike | CNotLike | CILike | CNotILike => true | _ => false end.
Definition is_ilike (o : cmpop) : bool := match o with CILike | CNotILike => true | _ => false end.
Definition is_in (o : cmpop) : bool := match o with CIn | CNotIn => true | _ => false end.
Definition neg_lit (e : expr) : bool :=
  match e with ELit t (c :: _) _ => is_int t && byte_eqb c x_minus | _ => false end.

Definition nonempty_digits (v : bytes) : bool := match v with [] => false | _ => forallb is_digit v end.
Definition nonempty (v : bytes) : bool := match v with [] => false | _ => true end.
(** IntVal: '-'? digits; a negative one carries no cast (sql.y drops it when it folds the sign) *)
Definition wf_lit (t : N) (v : bytes) (casts : list bytes) : bool :=
  forallb nonempty casts &&
  if is_int t then
    match v with
    | [] => false
    | c :: v' => if byte_eqb c x_minus then nonempty_digits v' && (match casts with [] => true | _ => false end)
                 else nonempty_digits v
    end
  else true.

(** identifiers by grammar position.  Unquoted (quote = 0): any non-empty name in MySQL (formatID back-quotes
    when needed and the token is ID again), only plain names in PostgreSQL (known finding roundtrip-ColIdent:
    the double quotes added by formatID are remembered by the re-parse).  "dual" in another case is lower-cased
    by the tokenizer when it is printed bare. *)
Definition wf_unq (v : bytes) : bool :=
  nonempty v && (if pg then plain_ident v
                 else negb (id_chars v && negb (is_keyword v)) || plain_ident v).
(** quoted names are printed raw between their quotes *)
Definition x_dq : byte := x22.
Definition x_sq : byte := x27.
Definition x_bsl : byte := x5c.
Definition no_byte (c : byte) (v : bytes) : bool := forallb (fun d => negb (byte_eqb d c)) v.
(** sql_id / table_id: ID or DOUBLE_QUOTE_STRING (in MySQL a double-quoted name is only an alias: column_id) *)
Definition wf_id (i : ident) : bool :=
  match i with
  | Id QNone v => wf_unq v
  | Id QDq v => pg && nonempty v && no_byte x_dq v
  | Id QSq _ => false
  end.
(** column_id (aliases, INSERT columns) / table alias: also single-quoted and, in MySQL, double-quoted *)
Definition wf_alias (i : ident) : bool :=
  match i with
  | Id QNone v => wf_unq v
  | Id QDq v => nonempty v && no_byte x_dq v && (pg || no_byte x_bsl v)
  | Id QSq v => nonempty v && no_byte x_sq v && no_byte x_bsl v
  end.
Definition wf_oalias (i : ident) : bool := is_no_id i || wf_alias i.
(** table alias = table_id: a double-quoted one is an error in MySQL (ANSI mode off) *)
Definition wf_talias (i : ident) : bool :=
  match i with Id QDq _ => pg && wf_alias i | _ => wf_alias i end.
Definition wf_otalias (i : ident) : bool := is_no_id i || wf_talias i.
Definition wf_tname (q n : ident) : bool := (is_no_id q || wf_id q) && wf_id n.
Definition wf_col (q : list ident) (n : ident) : bool := (length q <=? 2) && forallb wf_id q && wf_id n.

(** names printed raw: plain identifiers that are not keywords ... *)
Definition wf_rawid (v : bytes) : bool := plain_ident v.
(** ... or, for function names, keywords sql.y has a function rule for (lower case: the tokenizer lower-cases
    keywords).  Class of a function name: 0 = generic sql_id (arguments optional, DISTINCT allowed), 1 = arguments
    required, 2 = none, 3 = arguments optional (database, schema) *)
Definition fname_class (n : bytes) : option N :=
  if is_keyword n then
    if negb (bytes_eqb (lower n) n) then None
    else if mem_bytes n FUNC_KW_ARGS then Some 1%N
    else if mem_bytes n FUNC_KW_NOARGS then Some 2%N
    else if mem_bytes n NON_RESERVED then Some 0%N
    else if mem_bytes n FUNC_KW_OPT then Some 3%N
    else None
  else if plain_ident n then Some 0%N else None.

Definition ctype_class (ty : bytes) : option N :=   (* 0 plain, 1 length_opt, 2 decimal_length_opt *)
  if mem_bytes ty CONVERT_TYPES_PLAIN then Some 0%N
  else if mem_bytes ty CONVERT_TYPES_LEN then Some 1%N
  else if mem_bytes ty CONVERT_TYPES_DEC then Some 2%N else None.
Definition wf_olen (o : option bytes) : bool := match o with Some v => nonempty_digits v | None => true end.
Definition wf_ctype (c : ctype) : bool :=
  match c with
  | CT ty len scale =>
      wf_olen len && wf_olen scale &&
      match ctype_class ty, len, scale with
      | Some 0%N, None, None => true
      | Some 1%N, _, None => true
      | Some 2%N, _, None => true
      | Some 2%N, Some _, Some _ => true
      | _, _, _ => false
      end
  end.

(** the leftmost SELECT of a union chain is parenthesised: the printed statement starts with '(' *)
Fixpoint starts_paren (s : sel) : bool :=
  match s with Select _ _ _ _ _ _ _ _ _ => false | Union _ l _ _ _ _ => starts_paren l | ParenSel _ => true end.
Definition is_paren (s : sel) : bool := match s with ParenSel _ => true | _ => false end.
Definition is_factor (t : texpr) : bool := match t with TJoin _ _ _ _ => false | _ => true end.
(** a following ON / USING would be taken by this table expression (join without condition at its right end) *)
Definition open_on (t : texpr) : bool :=
  match t with TJoin _ JJoin _ JNone | TJoin _ JStraight _ JNone => true | _ => false end.
Definition open_using (t : texpr) : bool :=
  match t with TJoin _ JJoin _ JNone => true | _ => false end.
Definition jcond_ok (k : jkind) (r : texpr) (c : jcond) : bool :=
  match k with
  | JJoin => is_factor r
  | JStraight => is_factor r && match c with JUsing _ => false | _ => true end
  | JLeft | JRight =>
      match c with
      | JNone => false
      | JOn _ => negb (open_on r)
      | JUsing _ => negb (open_using r)
      end
  | _ => is_factor r && match c with JNone => true | _ => false end
  end.
Definition no_tails (s : sel) : bool :=
  match s with Select _ _ _ _ _ _ ONil LNone LkNone => true | ParenSel _ => true | _ => false end.
Definition is_select (s : sel) : bool := match s with Select _ _ _ _ _ _ _ _ _ => true | _ => false end.

Definition order_plain (x : expr) : bool :=
  match x with ENull => false | EFunc _ n _ _ => negb (bytes_eqb (lower n) x_rand) | _ => true end.
Definition is_asc (d : odir) : bool := match d with DAsc => true | _ => false end.
Definition str_lit (x : expr) : bool := match x with ELit t _ [] => N.eqb t VT_StrVal | _ => false end.
(** first token of the printed operand is a string literal: INTERVAL 'x' is reduced to the PostgreSQL form, an
    error in MySQL (known finding stmt-mysql-interval-string-operand: written with double quotes it parses) *)
Fixpoint starts_str (x : expr) : bool :=
  match x with
  | ELit t _ cs => N.eqb t VT_StrVal && match cs with [] => true | _ => false end
  | ECmp _ l _ | ECmpEsc _ l _ _ | ERange _ l _ _ | EBin _ l _ | EAnd l _ | EOr l _ => starts_str l
  | EIs _ y | ECollate y _ => starts_str y
  | _ => false
  end.

Fixpoint wf (e : expr) : bool :=
  match e with
  | EOr l r => wf l && wf r && (L_OR <=? level l) && (S L_OR <=? level r)
  | EAnd l r => wf l && wf r && (L_AND <=? level l) && (S L_AND <=? level r)
  | ENot x => wf x && (L_NOT <=? level x)
  | ECmp op l r =>
      wf l && is_v l && (negb (is_ilike op) || pg) &&
      (if is_in op then
         match r with
         | ETuple xs => negb (match xs with XNil => true | _ => false end) && wf_exprs xs
         | ESubq q => wf_sel q && negb (starts_paren q)
         | _ => false
         end
       else wf r && is_v r)
  | ECmpEsc op l r esc => is_like op && (negb (is_ilike op) || pg) && wf l && wf r && wf esc && is_v l && is_v r && is_v esc
  | ERange _ l a b => wf l && wf a && wf b && is_v l && is_v a && is_v b
  | EIs _ x => wf x && (L_BETWEEN <=? level x)
  | EExists q => wf_sel q && negb (starts_paren q)
  | EBin op l r => wf l && wf r && (binprec op <=? level l) && (S (binprec op) <=? level r) && is_v l && is_v r
  | EUn op x => wf x && (L_UNARY <=? level x) && is_v x &&
                match op with UPlus | UMinus => negb (is_intlit x) | _ => true end
  | ECollate x cs => wf x && (L_COLLATE <=? level x) && is_v x && negb (neg_lit x) && wf_rawid cs
  | ELit t v casts => wf_lit t v casts
  | ENull | EBool _ | EDefault => true
  | ECol q n => wf_col q n
  | EParen x => wf x
  | ETuple xs => match xs with XCons _ (XCons _ _) => wf_exprs xs | _ => false end
  | ESubq q => wf_sel q && negb (starts_paren q)
  | EFunc q n d args =>
      (is_no_id q || wf_id q) && wf_selexprs args &&
      match fname_class n, args with
      | Some 0%N, SNil => negb d
      | Some 0%N, _ => true
      | Some 1%N, SNil => false
      | Some 1%N, _ => negb d
      | Some 2%N, SNil => negb d
      | Some 3%N, _ => negb d
      | _, _ => false
      end &&
      (* table_id '.' name '(' ... ')': modelled for plain names, no DISTINCT rule *)
      (is_no_id q || (plain_ident n && negb d))
  | ECase x ws el => wf_oexpr x && wf_whens ws && wf_oexpr el && match ws with WNil => false | _ => true end
  | EConvert x ty => wf x && wf_ctype ty
  | EConvertUsing x cs => wf x && wf_rawid cs
  | EInterval x unit =>
      wf x &&
      match unit with
      | [] => pg && str_lit x
      | _ => negb pg && is_v x && mem_bytes unit INTERVAL_UNITS && negb (starts_str x)
      end
  | EValuesFunc q n => wf_col q n
  end
with wf_exprs (xs : exprs) : bool :=
  match xs with XNil => true | XCons x xs' => wf x && wf_exprs xs' end
with wf_oexpr (o : oexpr) : bool :=
  match o with NoE => true | SomeE x => wf x end
with wf_whens (ws : whens) : bool :=
  match ws with WNil => true | WCons c v ws' => wf c && wf v && wf_whens ws' end
with wf_selexpr (s : selexpr) : bool :=
  match s with
  | SStar q => (length q <=? 2) && forallb wf_id q
  | SAliased x a => wf x && wf_oalias a
  end
with wf_selexprs (xs : selexprs) : bool :=
  match xs with SNil => true | SCons x xs' => wf_selexpr x && wf_selexprs xs' end
with wf_sel (s : sel) : bool :=
  match s with
  | Select _ xs from wh gb hv ob lm lk =>
      wf_selexprs xs && match xs with SNil => false | _ => true end &&
      wf_texprs from && match from with TNil => false | _ => true end &&
      wf_oexpr wh && wf_exprs gb && wf_oexpr hv && wf_orders ob && wf_lim lm
  | Union _ l r ob lm lk => wf_sel l && wf_sel r && no_tails r && wf_orders ob && wf_lim lm
  | ParenSel s' => wf_sel s' && negb (is_paren s')
  end
with wf_texpr (t : texpr) : bool :=
  match t with
  | TTable q n a => wf_tname q n && wf_otalias a
  | TSubq s a => wf_sel s && negb (starts_paren s) && wf_talias a
  | TParen ts => wf_texprs ts && match ts with TNil => false | _ => true end
  | TJoin l k r c => wf_texpr l && wf_texpr r && wf_jcond c && jcond_ok k r c
  end
with wf_texprs (ts : texprs) : bool :=
  match ts with TNil => true | TCons t ts' => wf_texpr t && wf_texprs ts' end
with wf_jcond (c : jcond) : bool :=
  match c with
  | JNone => true
  | JOn x => wf x
  | JUsing cols => forallb wf_id cols && match cols with [] => false | _ => true end
  end
with wf_orders (os : orders) : bool :=
  match os with
  | ONil => true
  | OCons x d os' => wf x && (order_plain x || is_asc d) && wf_orders os'
  end
with wf_lim (l : lim) : bool :=
  match l with
  | LNone => true
  | LOnly c => wf c
  | LOffset c o => wf c && wf o
  | LComma o c => negb pg && wf o && wf c
  | LAll => pg
  | LAllOffset o => pg && wf o
  end.

Fixpoint wf_updates (us : updates) : bool :=
  match us with UNil => true | UCons q n x us' => wf_col q n && wf x && wf_updates us' end.
Fixpoint wf_rows (rs : rows) : bool :=
  match rs with RNil => true | RCons r rs' => wf_exprs r && wf_rows rs' end.
(** FROM is the last clause and ends with a join that has no condition: a following ON is shifted as its
    condition (sql.y: "There is a grammar conflict here") *)
Fixpoint last_texpr (ts : texprs) : option texpr :=
  match ts with TNil => None | TCons t TNil => Some t | TCons _ ts' => last_texpr ts' end.
Definition ends_open (s : sel) : bool :=
  match s with
  | Select _ _ from NoE XNil NoE ONil LNone LkNone =>
      match last_texpr from with Some t => open_on t | None => false end
  | Union _ _ (Select _ _ from NoE XNil NoE _ _ _) ONil LNone LkNone =>
      match last_texpr from with Some t => open_on t | None => false end
  | _ => false
  end.
Definition is_ttable (t : texpr) : bool := match t with TTable _ _ _ => true | _ => false end.
Fixpoint all_ttable (ts : texprs) : bool :=
  match ts with TNil => true | TCons t ts' => is_ttable t && all_ttable ts' end.
Definition single (ts : texprs) : bool := match ts with TCons _ TNil => true | _ => false end.

Definition wf_stmt (s : stmt) : bool :=
  match s with
  | SSelect q => wf_sel q && negb (is_paren q)
  | SInsert _ _ tq tn cols r dup ret =>
      wf_tname tq tn && forallb wf_alias cols &&
      match r with
      | IValues rs => wf_rows rs && match rs with RNil => false | _ => true end
      | ISelect q => wf_sel q && negb (starts_paren q) && (match dup with UNil => true | _ => negb (ends_open q) end)
      end && wf_updates dup && wf_selexprs ret
  | SInsertDefault _ _ tq tn => wf_tname tq tn
  | SUpdate ts set from wh ob lm ret =>
      wf_texprs ts && match ts with TNil => false | _ => true end &&
      wf_updates set && match set with UNil => false | _ => true end &&
      wf_texprs from && (pg || match from with TNil => true | _ => false end) &&
      wf_oexpr wh && wf_orders ob && wf_lim lm && wf_selexprs ret &&
      (pg || match ret with SNil => true | _ => false end)
  | SDelete ts wh ob lm ret =>
      wf_texprs ts && single ts && all_ttable ts && wf_oexpr wh && wf_orders ob && wf_lim lm && wf_selexprs ret
  | SDeleteMulti targets ts wh ret =>
      wf_texprs targets && all_ttable targets && match targets with TNil => false | _ => true end &&
      wf_texprs ts && match ts with TNil => false | _ => true end && wf_oexpr wh && wf_selexprs ret
  end.
End Dialect.
