(** Executable model of acra's audit log (package logging), as of the tree with
    patches/fix_auditlog_last_token.diff applied:

    - audit_log.go      LogEntryIntegrityCalculator  -> [calc], [calc_new], [calc_step]
    - logging.go        appendIntegrity, Plaintext/Cef/JSONFormatterHook.PostFormat,
                        processLogFile's bufio.ScanLines -> [append_integrity], [post_format],
                        [json_post], [split_lines]
    - log_entry_parser.go  Plaintext/Cef/JSONLogParser.ParseEntry, convertMapToBytes
                        -> [parse_text], [json_parse], [conv]; [parse_text_orig] is the parser
                        BEFORE the fix (strings.Split, exactly two parts), kept to state the defect
    - integrity_verifier.go  VerifyIntegrityCheck -> [verify_step], [verify_pres], [verify_lines]

    Not modelled (inputs of the model instead): logrus' rendering of an entry into the formatted
    bytes (TextFormatter / CEFTextFormatter output = [WFmt formatted]) and, for JSON, encoding/json:
    a JSON line is its decoded field map [jmap] (key, json.Marshal(value), string content if the
    value is a JSON string).  No proofs in this file. *)
From Acra Require Import Lib.Bytes Lib.Outcome Lib.Sha256 Gen.AuditLogConsts.

(** * LogEntryIntegrityCalculator *)
Record calc := mk_calc { ck : bytes; cprev : option bytes }.

Definition calc_new (key : bytes) : calc := mk_calc (sha256 key) None.          (* New…/ResetCryptoKey *)
Definition prev_bytes (c : calc) : bytes := match cprev c with Some p => p | None => [] end.
Definition calc_mac (c : calc) (input : bytes) : bytes :=                       (* calculateHmac *)
  hmac_sha256 (ck c) (input ++ prev_bytes c).
Definition first_check (c : calc) : bool := match cprev c with None => true | Some _ => false end.

(** CalculateIntegrityCheck: (aggregated check, new chain?, next state) *)
Definition calc_step (c : calc) (input : bytes) : bytes * bool * calc :=
  let mac := calc_mac c input in
  (sha256 mac, first_check c, mk_calc (sha256 (ck c)) (Some mac)).

(** * encoding/hex *)
Definition hex_digit (n : N) : byte := nth (N.to_nat n) AL_HEX_ALPHABET x00.
Definition hex_byte (b : byte) : bytes := [hex_digit (b2n b / 16); hex_digit (b2n b mod 16)].
Definition hex_encode (bs : bytes) : bytes := flat_map hex_byte bs.

Definition unhex_digit (c : byte) : option N :=        (* hex.fromHexChar *)
  let n := b2n c in
  if ((48 <=? n) && (n <=? 57))%N then Some (n - 48)%N
  else if ((97 <=? n) && (n <=? 102))%N then Some (n - 87)%N
  else if ((65 <=? n) && (n <=? 70))%N then Some (n - 55)%N else None.

Fixpoint hex_decode (s : bytes) : option bytes :=      (* hex.DecodeString, any error = None *)
  match s with
  | [] => Some []
  | a :: s1 =>
      match s1 with
      | [] => None
      | b :: r =>
          match unhex_digit a, unhex_digit b, hex_decode r with
          | Some x, Some y, Some t => Some (n2b (16 * x + y) :: t)
          | _, _, _ => None
          end
      end
  end.

(** * strings.* helpers (all byte-wise) *)
Fixpoint last_index_from (tok s : bytes) (i : nat) (acc : option nat) : option nat :=
  let acc' := if starts_with tok s then Some i else acc in
  match s with
  | [] => acc'
  | _ :: s' => last_index_from tok s' (S i) acc'
  end.
Definition last_index (tok s : bytes) : option nat := last_index_from tok s 0 None.  (* strings.LastIndex *)

Definition contains (tok s : bytes) : bool :=
  match index_of tok s with Some _ => true | None => false end.
Definition has_suffix (suf s : bytes) : bool :=
  if Nat.leb (length suf) (length s) then bytes_eqb (skipn (length s - length suf) s) suf else false.
Definition trim_suffix (suf s : bytes) : bytes := firstn (length s - length suf) s.

(** strings.TrimSpace: [AL_SPACES] lists the UTF-8 encodings of every unicode.IsSpace code point *)
Fixpoint strip_one_prefix (tbl : list bytes) (s : bytes) : option bytes :=
  match tbl with
  | [] => None
  | w :: t => if starts_with w s then Some (skipn (length w) s) else strip_one_prefix t s
  end.
Fixpoint trim_left_fuel (tbl : list bytes) (fuel : nat) (s : bytes) : bytes :=
  match fuel with
  | O => s
  | S f => match strip_one_prefix tbl s with Some s' => trim_left_fuel tbl f s' | None => s end
  end.
Definition trim_left (s : bytes) : bytes := trim_left_fuel AL_SPACES (length s) s.
Definition trim_right (s : bytes) : bytes :=
  rev (trim_left_fuel (map (@rev byte) AL_SPACES) (length s) (rev s)).
Definition trim_space (s : bytes) : bytes := trim_right (trim_left s).

(** * what a parser extracts from one line *)
Record parsed := mk_parsed { p_raw : bytes; p_integ : bytes; p_new : bool; p_end : bool }.
Inductive pres := PSkip (* Err…IntegrityExtract: "no integrity check for line", skipped *)
                | PErr  (* any other parse error: verification stops with it *)
                | POk (p : parsed).

(** the fix: cut at the LAST occurrence of the token *)
Definition split_last (line : bytes) : option (bytes * bytes) :=
  match last_index AL_SPLIT_TOKEN line with
  | Some i => Some (firstn i line, skipn (i + length AL_SPLIT_TOKEN) line)
  | None => None
  end.

(** before the fix: strings.Split(line, token) must have exactly two parts *)
Definition split_orig (line : bytes) : option (bytes * bytes) :=
  match index_of AL_SPLIT_TOKEN line with
  | Some i =>
      let rest := skipn (i + length AL_SPLIT_TOKEN) line in
      match index_of AL_SPLIT_TOKEN rest with
      | None => Some (firstn i line, rest)
      | Some _ => None
      end
  | None => None
  end.

Definition parse_after_split (cef : bool) (sp : option (bytes * bytes)) : pres :=
  match sp with
  | None => PSkip
  | Some (body, rest0) =>
      let rest1 := if cef then trim_space rest0 else rest0 in
      let isnew := has_suffix AL_NEW_CHAIN_SUFFIX rest1 in
      let rest2 := if isnew then trim_suffix AL_NEW_CHAIN_SUFFIX rest1 else rest1 in
      let isend := contains AL_END_CHAIN_SUFFIX body && contains AL_END_CHAIN_MESSAGE body in
      match hex_decode rest2 with
      | None => PErr
      | Some integ => POk (mk_parsed body integ isnew isend)
      end
  end.

(** PlaintextLogParser.ParseEntry ([cef = false]) / CefLogParser.ParseEntry ([cef = true]) *)
Definition parse_text (cef : bool) (line : bytes) : pres := parse_after_split cef (split_last line).
Definition parse_text_orig (cef : bool) (line : bytes) : pres := parse_after_split cef (split_orig line).

(** * IntegrityCheckVerifier.VerifyIntegrityCheck *)
Record vstate := mk_vstate { v_calc : calc; v_last : option bool (* IsEndChain of lastVerifiedEntry *) }.
Definition vinit (key : bytes) : vstate := mk_vstate (calc_new key) None.

Definition C_MISMATCH : N := 1.      (* ErrIntegrityNotMatch *)
Definition C_MISSING_END : N := 2.   (* ErrMissingEndOfChain *)
Definition C_PARSE : N := 3.         (* error returned by ParseEntry *)

Definition verify_step (key : bytes) (st : vstate) (p : parsed) : vstate + N :=
  if p_new p && match v_last st with Some false => true | _ => false end then inr C_MISSING_END
  else
    let c := if p_new p then calc_new key else v_calc st in
    let '(agg, _, c') := calc_step c (p_raw p) in
    if bytes_eqb (p_integ p) agg then inl (mk_vstate c' (Some (p_end p))) else inr C_MISMATCH.

Inductive verdict := VAccept | VFail (line : nat) (code : N).

Fixpoint verify_pres (key : bytes) (st : vstate) (i : nat) (ps : list pres) : verdict :=
  match ps with
  | [] => VAccept
  | PSkip :: r => verify_pres key st (S i) r
  | PErr :: _ => VFail i C_PARSE
  | POk p :: r =>
      match verify_step key st p with
      | inl st' => verify_pres key st' (S i) r
      | inr c => VFail i c
      end
  end.

Definition line_pres (parse : bytes -> pres) (l : bytes) : pres :=
  match l with [] => PSkip (* empty strings are skipped *) | _ => parse l end.

Definition verify_lines_with (parse : bytes -> pres) (key : bytes) (lines : list bytes) : verdict :=
  verify_pres key (vinit key) 0 (map (line_pres parse) lines).
Definition verify_lines (cef : bool) := verify_lines_with (parse_text cef).
Definition verify_lines_orig (cef : bool) := verify_lines_with (parse_text_orig cef).

(** bufio.ScanLines as used by processLogFile: cut at \n, drop one trailing \r, a final
    unterminated line counts when it is not empty *)
Definition drop_cr (l : bytes) : bytes :=
  match rev l with x0d :: r => rev r | _ => l end.
Fixpoint split_lines_acc (cur : bytes) (s : bytes) : list bytes :=   (* [cur] reversed *)
  match s with
  | [] => match cur with [] => [] | _ => [drop_cr (rev cur)] end
  | b :: s' => if byte_eqb b x0a then drop_cr (rev cur) :: split_lines_acc [] s'
               else split_lines_acc (b :: cur) s'
  end.
Definition split_lines (file : bytes) : list bytes := split_lines_acc [] file.

Definition verify_file (cef : bool) (key file : bytes) : verdict := verify_lines cef key (split_lines file).
Definition verify_file_orig (cef : bool) (key file : bytes) : verdict := verify_lines_orig cef key (split_lines file).

(** * the writer: formatter hooks *)
Definition trunc (n : nat) (b : bytes) : res bytes :=       (* bytes.Buffer.Truncate(Len()-n) *)
  if Nat.leb n (length b) then Ok (firstn (length b - n) b) else Panic.

Definition suffix_of (agg : bytes) (nc : bool) : bytes :=
  AL_SPLIT_TOKEN ++ hex_encode agg ++ (if nc then AL_NEW_CHAIN_SUFFIX else []).

Definition append_integrity (c : calc) (body : bytes) : bytes * calc :=
  let '(agg, nc, c') := calc_step c body in (body ++ suffix_of agg nc, c').

(** PlaintextFormatterHook.PostFormat drops the formatter's "\n", CefFormatterHook.PostFormat " \n" *)
Definition TRUNC_TEXT : nat := 1.
Definition TRUNC_CEF : nat := 2.
Definition post_format (cef : bool) (c : calc) (formatted : bytes) : res (bytes * calc) :=
  do body <- trunc (if cef then TRUNC_CEF else TRUNC_TEXT) formatted;
  let '(line, c') := append_integrity c body in Ok (line ++ [x0a], c').

(** the writer's history: formatted entries, and key resets (AuditLogHandler.Write after the
    end-of-chain entry of ResetChain) *)
Inductive wev := WFmt (formatted : bytes) | WReset (key : bytes).

Fixpoint write_text (cef : bool) (c : calc) (evs : list wev) : res (list bytes) :=
  match evs with
  | [] => Ok []
  | WFmt f :: r =>
      do x <- post_format cef c f;
      do rest <- write_text cef (snd x) r;
      Ok (fst x :: rest)
  | WReset k :: r => write_text cef (calc_new k) r
  end.

(** * JSON at field-map level *)
Record jval := mkj { jstr : option bytes; jenc : bytes }.
Definition jmap := list (bytes * jval).       (* sorted by key (sort.Strings), keys distinct *)

Fixpoint bytes_ltb (a b : bytes) : bool :=
  match a, b with
  | _, [] => false
  | [], _ :: _ => true
  | x :: a', y :: b' => if (b2n x <? b2n y)%N then true else if (b2n y <? b2n x)%N then false else bytes_ltb a' b'
  end.

Fixpoint jget (k : bytes) (m : jmap) : option jval :=
  match m with
  | [] => None
  | (k', v) :: r => if bytes_eqb k k' then Some v else jget k r
  end.
Fixpoint jdel (k : bytes) (m : jmap) : jmap :=
  match m with
  | [] => []
  | (k', v) :: r => if bytes_eqb k k' then jdel k r else (k', v) :: jdel k r
  end.
Fixpoint jins (k : bytes) (v : jval) (m : jmap) : jmap :=
  match m with
  | [] => [(k, v)]
  | (k', v') :: r => if bytes_ltb k k' then (k, v) :: m else (k', v') :: jins k v r
  end.
Definition jset (k : bytes) (v : jval) (m : jmap) : jmap := jins k v (jdel k m).

(** convertMapToBytes *)
Definition conv (m : jmap) : bytes :=
  flat_map (fun kv => AL_JSON_DELIM ++ fst kv ++ AL_JSON_DELIM ++ jenc (snd kv) ++ AL_JSON_DELIM) m.

(** a string value without characters that JSON escapes (hex digits, "new") *)
Definition jstring (s : bytes) : jval := mkj (Some s) ([x22] ++ s ++ [x22]).

(** JSONFormatterHook.PostFormat on the decoded map *)
Definition json_post (c : calc) (m : jmap) : jmap * calc :=
  let '(agg, nc, c') := calc_step c (conv m) in
  let m1 := jset AL_INTEGRITY_KEY (jstring (hex_encode agg)) m in
  (if nc then jset AL_CHAIN_KEY (jstring AL_NEW_VALUE) m1 else m1, c').

Definition jstr_is (v : option jval) (s : bytes) : bool :=
  match v with
  | Some jv => match jstr jv with Some x => bytes_eqb x s | None => false end
  | None => false
  end.

(** JSONLogParser.ParseEntry on the decoded map *)
Definition json_parse (m : jmap) : pres :=
  match jget AL_INTEGRITY_KEY m with
  | None => PSkip
  | Some v =>
      match jstr v with
      | None => PSkip
      | Some s =>
          match hex_decode s with
          | None => PErr
          | Some integ =>
              let m1 := jdel AL_INTEGRITY_KEY m in
              let isnew := jstr_is (jget AL_CHAIN_KEY m1) AL_NEW_VALUE in
              let isend := jstr_is (jget AL_CHAIN_KEY m1) AL_END_VALUE
                           && jstr_is (jget AL_MSG_KEY m1) AL_END_CHAIN_MESSAGE in
              let m2 := if isnew then jdel AL_CHAIN_KEY m1 else m1 in
              POk (mk_parsed (conv m2) integ isnew isend)
          end
      end
  end.

Inductive jline := JEmpty | JBad (* json.Unmarshal failed *) | JMap (m : jmap).
Definition jline_pres (l : jline) : pres :=
  match l with JEmpty => PSkip | JBad => PErr | JMap m => json_parse m end.
Definition verify_json (key : bytes) (ls : list jline) : verdict :=
  verify_pres key (vinit key) 0 (map jline_pres ls).

Inductive jev := JEntry (m : jmap) | JReset (key : bytes).
Fixpoint write_json (c : calc) (evs : list jev) : list jmap :=
  match evs with
  | [] => []
  | JEntry m :: r => let x := json_post c m in fst x :: write_json (snd x) r
  | JReset k :: r => write_json (calc_new k) r
  end.
