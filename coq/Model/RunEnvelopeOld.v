(** Replay of implementation observations on the legacy-envelope model (Model/EnvelopeOld.v),
    instantiated with the stand-in crypto ([Stub]).  Domain c01old of property C01.
    [AsCreate]/[AbCreate]/[EncHandler]/[Process] have the names and arguments of Model/RunEnvelope.v so that the
    emitters of envops.go are reusable. *)
From Acra Require Import Lib.Bytes Lib.Outcome Lib.Sha256 Crypto.Interface Crypto.Stub Gen.Consts
  Model.Envelope Model.EnvelopeOld.

Definition mk_ks := Build_keyset.

Inductive expected := XOk (vals : list bytes) | XErr | XPanic.

Inductive op :=
| AsCreate (tape : list bytes) (data pub ctx : bytes)
| AbCreate (tape : list bytes) (data key ctx : bytes)
| EncHandler (id : bytes) (ks : keyset) (tape : list bytes) (data : bytes)
| Process (ks : keyset) (data : bytes)
(* OldContainerDetectorWrapper.OnColumn, detector callbacks = [wrapper; DecryptHandler(RegistryHandler)] *)
| OnColumnOld (ks : keyset) (data : bytes)
(* acrastruct.ProcessAcraStructs(ctx, data, make(len data), wrapper) *)
| ProcessAcraStructs (ks : keyset) (data : bytes)
(* acrablock.ProcessAcraBlocks(ctx, buf, buf, wrapper): pure model / in-place model *)
| ProcessAcraBlocks (ks : keyset) (data : bytes)
| ProcessAcraBlocksAliased (ks : keyset) (data : bytes)
(* ReEncryptHandler.EncryptWithClientID; flags: envelope is acrablock, OnlyEncryption, reencrypting_to_acrablocks *)
| ReEnc (env_ab only_enc reenc : bool) (ks : keyset) (tape : list bytes) (data : bytes).

Definition flag (b : bool) : bytes := [if b then x01 else x00].

Definition canon1 (r : res bytes) : expected :=
  match r with Ok x => XOk [x] | Err _ => XErr | Panic => XPanic end.

Definition run (o : op) : expected :=
  match o with
  | AsCreate tape data pub ctx => canon1 (as_create Stub tape data pub ctx)
  | AbCreate tape data key ctx => canon1 (ab_create Stub tape data key ctx)
  | EncHandler id ks tape data => canon1 (encrypt_with_handler Stub (nthb 0 id) ks tape data)
  | Process ks data => canon1 (registry_process Stub ks data)
  | OnColumnOld ks data =>
      match on_column_old (old_cbs Stub ks) data with
      | Ok (out, ch) => XOk [out; flag ch] | Err _ => XErr | Panic => XPanic end
  | ProcessAcraStructs ks data => canon1 (process_acrastructs (proc_as Stub ks) data)
  | ProcessAcraBlocks ks data => canon1 (process_acrablocks (proc_ab Stub ks) data)
  | ProcessAcraBlocksAliased ks data =>
      if Nat.ltb (length data) AB_MIN_SIZE then XOk [data] else
      match raw_scan_inplace ab_tag ab_candidate (proc_ab Stub ks) (S (length data)) data 0 0 with
      | Ok (Some o) => XOk [o]
      | Ok None => XErr          (* capacity exceeded: unreachable under the wrapper *)
      | Err _ => XErr
      | Panic => XPanic
      end
  | ReEnc a b c ks tape data => canon1 (reencrypt Stub a b c ks tape data)
  end.

Fixpoint list_bytes_eqb (a b : list bytes) : bool :=
  match a, b with
  | [], [] => true
  | x :: a', y :: b' => bytes_eqb x y && list_bytes_eqb a' b'
  | _, _ => false
  end.

Definition expected_eqb (a b : expected) : bool :=
  match a, b with
  | XOk x, XOk y => list_bytes_eqb x y
  | XErr, XErr => true
  | XPanic, XPanic => true
  | _, _ => false
  end.

(** indices (from 0) of the cases on which model and implementation differ, with the model's answer *)
Fixpoint mismatches_from (i : nat) (cs : list (op * expected)) : list (nat * expected) :=
  match cs with
  | [] => []
  | (o, e) :: rest =>
      let m := run o in
      if expected_eqb m e then mismatches_from (S i) rest else (i, m) :: mismatches_from (S i) rest
  end.
Definition mismatches := mismatches_from 0.
