(** Replay of implementation observations (domain c14trans, harness/cmd/acra-vh/xtr_dom.go) on
    - [T]: the definitions of Gen/Trans.v, TRANSLATED from the Go source by `acra-vh transgo` (validates the translator);
    - [H]: the hand-written checked models that the C12/C14 theorems are about (a disagreement is a concrete
      input on which the code differs from the model).
    Proofs/TransEquiv.v proves the two columns equal for all inputs. *)
From Acra Require Import Lib.Bytes Lib.Outcome Lib.GoSlice Gen.Consts Gen.Trans Model.EnvelopeChecked.
From Acra Require Model.MysqlWire Model.PgWire Model.KeystoreV2 Model.Bytea.
Local Open Scope Z_scope.

Inductive expected := XOk (vals : list bytes) | XErr | XPanic.
Inductive which := T | H.

Inductive op :=
| LEI (w : which) (data : bytes)
| LES (w : which) (data : bytes)
| SLES (w : which) (data : bytes)
| PLEI (w : which) (n : N)
| U16 (w : which) (n : N)
| U32 (w : which) (n : N)
| U64B (w : which) (n : N)
| AsMin (w : which)
| AsDataLen (w : which) (data : bytes)
| AsValidate (w : which) (data : bytes)
| AsExtract (w : which) (data : bytes)
| AbKeyLen (w : which) (b : bytes)
| AbKeyId (w : which) (b : bytes)
| AbExtract (w : which) (data : bytes)
| ScLen (w : which) (data : bytes)
| PgFmt (w : which) (i : Z) (fmts : list N)
| KsTrans (w : which) (a b : Z)
(* xtr2: append / make / nil-sensitive parameter / loops *)
| PLES (w : which) (isnil : bool) (b : bytes)
| PrintCh (w : which) (c : N)
| EncOct (w : which) (d : bytes)
| StSum (w : which) (d : bytes) (from to : Z)
| StScan (w : which) (d : bytes)
| StPad (w : which) (src : bytes) (n : Z).

Definition u8 (n : N) : bytes := le_enc 8 n.
Definition z8 (z : Z) : bytes := le_enc 8 (Z.to_N (z mod 18446744073709551616)).
Definition flag (b : bool) : bytes := [if b then x01 else x00].
Definition opt_bytes (o : option bytes) : bytes := match o with Some d => d | None => [] end.

Definition canon {A} (f : A -> list bytes) (r : res A) : expected :=
  match r with Ok a => XOk (f a) | Err _ => XErr | Panic => XPanic end.

(** the hand-written models, brought to the result shape of the Go functions *)
Definition h_lei (data : bytes) : res (N * bool * Z) :=
  res_map (fun '(num, isNull, n) => (num, isNull, Z.of_nat n)) (MysqlWire.lenenc_int data).
Definition h_les (data : bytes) : res (bytes * Z) :=
  res_map (fun '(v, n) => (opt_bytes v, Z.of_nat n)) (MysqlWire.lenenc_string data).
Definition h_sles (data : bytes) : res Z := res_map Z.of_nat (MysqlWire.skip_lenenc_string data).
Definition h_validate (data : bytes) : res unit :=
  match as_validate_checked data with Ok true => Ok tt | Ok false => Err E_GENERIC | Err e => Err e | Panic => Panic end.
Definition h_pgfmt (i : Z) (fmts : list N) : res N := PgWire.param_format (Z.to_nat i) fmts.
Definition h_kstrans (a b : Z) : res bool := Ok (KeystoreV2.transition_valid (Z.to_N a) (Z.to_N b)).

(** xtr2: hand-written specifications of the translator self-test functions (harness/xtr/selftest, not acra code) *)
Definition st_sum (l : bytes) : N := fold_left (fun s b => ((s + b2n b) mod 4294967296)%N) l 0%N.
Definition h_stsum (d : bytes) (from to : Z) : res N :=
  if to <=? from then Ok 0%N
  else if (0 <=? from) && (to <=? len d) then Ok (st_sum (sub (Z.to_nat from) (Z.to_nat (to - from)) d)) else Panic.
Definition h_stpad (src : bytes) (n : Z) : res bytes :=
  do k <- gmake n; Ok (firstn k src ++ repeat x00 (k - length src)).
Definition h_ples (isnil : bool) (b : bytes) : res bytes :=
  Ok (MysqlWire.put_lenenc_string (if isnil then None else Some b)).

Definition run (o : op) : expected :=
  match o with
  | LEI T d => canon (fun '(num, isNull, n) => [u8 num; flag isNull; z8 n]) (LengthEncodedInt d)
  | LEI H d => canon (fun '(num, isNull, n) => [u8 num; flag isNull; z8 n]) (h_lei d)
  | LES T d => canon (fun '(v, n) => [v; z8 n]) (LengthEncodedString d)
  | LES H d => canon (fun '(v, n) => [v; z8 n]) (h_les d)
  | SLES T d => canon (fun n => [z8 n]) (SkipLengthEncodedString d)
  | SLES H d => canon (fun n => [z8 n]) (h_sles d)
  | PLEI T n => canon (fun b => [b]) (PutLengthEncodedInt n)
  | PLEI H n => XOk [MysqlWire.put_lenenc_int n]
  | U16 T n => canon (fun b => [b]) (Uint16ToBytes n)
  | U16 H n => XOk [le_enc 2 n]
  | U32 T n => canon (fun b => [b]) (Uint32ToBytes n)
  | U32 H n => XOk [le_enc 4 n]
  | U64B T n => canon (fun b => [b]) (Uint64ToBytes n)
  | U64B H n => XOk [le_enc 8 n]
  | AsMin T => canon (fun n => [z8 n]) GetMinAcraStructLength
  | AsMin H => XOk [z8 as_min_z]
  | AsDataLen T d => canon (fun n => [z8 n]) (GetDataLengthFromAcraStruct d)
  | AsDataLen H d => canon (fun n => [z8 n]) (as_data_length_checked d)
  | AsValidate T d => canon (fun _ => []) (ValidateAcraStructLength d)
  | AsValidate H d => canon (fun _ => []) (h_validate d)
  | AsExtract T d => canon (fun '(n, s) => [z8 n; s]) (ExtractAcraStruct d)
  | AsExtract H d => canon (fun '(n, s) => [z8 n; s]) (as_extract_checked d)
  | AbKeyLen T d => canon (fun n => [z8 n]) (AcraBlock_EncryptedDataEncryptionKeyLength d)
  | AbKeyLen H d => canon (fun n => [z8 n]) (ab_key_len_checked d)
  | AbKeyId T d => canon (fun b => [b]) (AcraBlock_getKeyEncryptionKeyID d)
  | AbKeyId H d => canon (fun b => [b]) (ab_block_key_id_checked d)
  | AbExtract T d => canon (fun '(n, s) => [z8 n; s]) (ExtractAcraBlockFromData d)
  | AbExtract H d => canon (fun '(n, s) => [z8 n; s]) (ab_extract_checked d)
  | ScLen T d => canon (fun n => [u8 n]) (getSerializedContainerLength d)
  | ScLen H d => canon (fun n => [u8 n]) (sc_internal_length_checked d)
  | PgFmt T i f => canon (fun n => [u8 n]) (GetParameterFormatByIndex i f)
  | PgFmt H i f => canon (fun n => [u8 n]) (h_pgfmt i f)
  | KsTrans T a b => canon (fun x => [flag x]) (KeyStateTransitionValid a b)
  | KsTrans H a b => canon (fun x => [flag x]) (h_kstrans a b)
  | PLES T i b => canon (fun x => [x]) (PutLengthEncodedString i b)
  | PLES H i b => canon (fun x => [x]) (h_ples i b)
  | PrintCh T c => canon (fun x => [flag x]) (IsPrintableEscapeChar (n2b c))
  | PrintCh H c => XOk [flag (Bytea.is_printable c)]
  | EncOct T d => canon (fun x => [x]) (EncodeToOctal d)
  | EncOct H d => XOk [Bytea.encode_octal d]
  | StSum T d a b => canon (fun x => [u8 x]) (Selftest_SumWindow d a b)
  | StSum H d a b => canon (fun x => [u8 x]) (h_stsum d a b)
  | StScan _ d => canon (fun '(c, t) => [z8 c; z8 t]) (Selftest_ScanRecords d)
  | StPad T s n => canon (fun x => [x]) (Selftest_PadCopy s n)
  | StPad H s n => canon (fun x => [x]) (h_stpad s n)
  end.

Fixpoint list_bytes_eqb (a b : list bytes) : bool :=
  match a, b with
  | [], [] => true
  | x :: a', y :: b' => bytes_eqb x y && list_bytes_eqb a' b'
  | _, _ => false
  end.

Definition expected_eqb (a b : expected) : bool :=
  match a, b with
  | XOk x, XOk y => list_bytes_eqb x y
  | XErr, XErr => true
  | XPanic, XPanic => true
  | _, _ => false
  end.

Fixpoint mismatches_from (i : nat) (cs : list (op * expected)) : list (nat * expected) :=
  match cs with
  | [] => []
  | (o, e) :: rest =>
      let m := run o in
      if expected_eqb m e then mismatches_from (S i) rest else (i, m) :: mismatches_from (S i) rest
  end.
Definition mismatches := mismatches_from 0.
