(** Keystore v1 write operations as PROGRAMS over the calls of the [filesystem.Storage]
    interface, run by the fault interpreter of Model/KeystoreWrite.v (C08, keystore v1).

    Anchors (acra, with the fix: patch of C08_v1 applied):
      keystore/filesystem/storage.go          Storage: MkdirAll/TempFile/WriteFile/Stat/Link/Copy/Rename/Remove/ReadDir/ReadFile
      keystore/filesystem/server_keystore.go  WriteKeyFile + replaceKeyFile (fixed: the temporary file is removed when
                                              the update fails), backupHistoricalKeyFile, SaveKeyPairWithFilename,
                                              generateAndSaveSymmetricKey/GenerateHmacKey/GenerateLogKey (one WriteKeyFile),
                                              destroyKeyWithFilename, destroySymmetricKeyWithFilename,
                                              destroyRotatedKeyByIndex (+ the ...KeyPair variants),
                                              describeDir (fixed: leftover temporary files are skipped), ListKeys,
                                              ListRotatedKeys, CacheOnStart, the key readers
      keystore/filesystem/filenames.go        getHistoricalFilePaths (newest first), getNewHistoricalFileName

    Reused from Model/KeystoreWrite.v: [fname] ([FKey k] key file, [FTmp k rnd] "<name><digits>",
    [FOld k ts] "<name>.old/<timestamp>"), [content] ([CKey ord whole]), [storage], the back-end
    calls [bcall] with [do_call]/[torn_call], [fkind]/[fault]/[mres].  The interpreter [vexec] below is
    [exec] extended with the two Storage calls that have no v2 counterpart ([VMkdirAll], the ATOMIC
    hard link [VLink]); on the embedded v2 calls it IS [exec] (Proofs: vexec_inj).

    Abstractions: a key file name is a number k = kind + 8*client (kinds below); file content is
    (ordinal of the key material, all bytes present); directories are not represented (MkdirAll has
    no effect on the key files; an empty "<name>.old" is indistinguishable from a missing one, both
    make destroyRotatedKeyByIndex fail).  The clock and the choice of TempFile are inputs ([ts], [rnd]).
    No proofs in this file. *)
From Acra Require Import Lib.Bytes Lib.Outcome Model.KeystoreWrite.
Local Open Scope N_scope.

(** * Storage calls *)
Definition E_NOTSUP : N := 14.          (* Link on a storage without hard links *)
Definition E_INVALID_INDEX : N := 40.   (* filesystem.ErrInvalidIndex *)

Inductive vcall :=
| VB (c : bcall)            (* a call with the semantics of Model/KeystoreWrite.v *)
| VMkdirAll                 (* MkdirAll: no effect on key files *)
| VLink (o n : fname).      (* Link: atomic; fails if the target exists or links are unsupported *)

(** the Storage calls of v1 that coincide with back-end calls of Model/KeystoreWrite.v *)
Definition VTempFile (k rnd : N) : vcall := VB (BPut (FTmp k rnd) (CKey 0 true)).  (* exclusive create, empty *)
Definition VWriteFile (n : fname) (c : content) : vcall := VB (BWrite n c).     (* can be cut *)
Definition VStat (n : fname) : vcall := VB (BStat n).
Definition VCopy (o n : fname) : vcall := VB (BLink o n).   (* refuses to overwrite; creates a NEW file: can be cut *)
Definition VRename (o n : fname) : vcall := VB (BRename o n).
Definition VRemove (n : fname) : vcall := VB (BRemove n).
Definition VReadDir : vcall := VB BList.

(** [links]: does the storage support hard links (FileStorage: yes; acra's Redis storage: no) *)
Definition v_do_call (links : bool) (c : vcall) (st : storage) : res bval * storage :=
  match c with
  | VB b => do_call b st
  | VMkdirAll => (Ok VUnit, st)
  | VLink o n =>
      if links then
        match lookup o st, lookup n st with
        | Some x, None => (Ok VUnit, put n x st)
        | None, _ => (Err E_NOTEXIST, st)
        | _, Some _ => (Err E_EXIST, st)
        end
      else (Err E_NOTSUP, st)
  end.

Definition v_torn_call (c : vcall) (st : storage) : storage :=
  match c with
  | VB b => torn_call b st
  | _ => st
  end.

(** * Programs and the fault interpreter ([exec] of Model/KeystoreWrite.v over [vcall]) *)
Inductive vprog (A : Type) : Type :=
| VDone (a : A)
| VCall (c : vcall) (k : res bval -> vprog A).
Arguments VDone {A} a.
Arguments VCall {A} c k.

Fixpoint vbind {A B} (p : vprog A) (f : A -> vprog B) : vprog B :=
  match p with
  | VDone a => f a
  | VCall c k => VCall c (fun v => vbind (k v) f)
  end.
Notation "'vexe' x <- p ; q" := (vbind p (fun x => q)) (at level 200, x pattern, p at level 100, q at level 200).

Definition vc (c : vcall) : vprog (res bval) := VCall c (fun v => VDone v).

Fixpoint vexec {A} (links : bool) (p : vprog A) (f : fault) (st : storage) (k : nat) : mres A :=
  match p with
  | VDone a => Ret a st k
  | VCall c cont =>
      let normal := vexec links (cont (fst (v_do_call links c st))) f (snd (v_do_call links c st)) (S k) in
      match f with
      | Some (kf, kind) =>
          if Nat.eqb k kf then
            match kind with
            | KErr => vexec links (cont (Err E_IO)) f st (S k)
            | KCrashBefore => Crash st
            | KCrashAfter => Crash (snd (v_do_call links c st))
            | KTorn => Crash (v_torn_call c st)
            | KErrTorn => vexec links (cont (Err E_IO)) f (v_torn_call c st) (S k)
            end
          else normal
      | None => normal
      end
  end.

(** a program of Model/KeystoreWrite.v as a [vprog] *)
Fixpoint inj {A} (p : prog A) : vprog A :=
  match p with
  | Done a => VDone a
  | Call c k => VCall (VB c) (fun v => inj (k v))
  end.

Definition vafter {A} (m : mres A) : storage :=
  match m with Ret _ st _ => st | Crash st => st end.

(** * WriteKeyFile *)
Definition is_not_exist (r : res bval) : bool :=       (* os.IsNotExist(err) *)
  match r with Err e => N.eqb e E_NOTEXIST | _ => false end.

Definition unit_of (r : res bval) : res unit :=
  match r with Ok _ => Ok tt | Err e => Err e | Panic => Panic end.

(** backupHistoricalKeyFile: Stat; only os.IsNotExist means "nothing to back up" (any other Stat
    error goes on); MkdirAll "<name>.old"; Link, and Copy if Link failed for whatever reason *)
Definition k1_backup (k ts : N) : vprog (res unit) :=
  vexe s <- vc (VStat (FKey k));
  if is_not_exist s then VDone (Ok tt) else
  vexe m <- vc VMkdirAll;
  match m with
  | Ok _ =>
      vexe l <- vc (VLink (FKey k) (FOld k ts));
      match l with
      | Ok _ => VDone (Ok tt)
      | _ => vexe c <- vc (VCopy (FKey k) (FOld k ts)); VDone (unit_of c)
      end
  | e => VDone (unit_of e)
  end.

(** replaceKeyFile: WriteFile(tmp), backup, Rename(tmp, name) *)
Definition k1_replace (k ord rnd ts : N) : vprog (res unit) :=
  vexe w <- vc (VWriteFile (FTmp k rnd) (CKey ord true));
  match w with
  | Ok _ =>
      vexe b <- k1_backup k ts;
      match b with
      | Ok _ => vexe r <- vc (VRename (FTmp k rnd) (FKey k)); VDone (unit_of r)
      | e => VDone e
      end
  | e => VDone (unit_of e)
  end.

(** WriteKeyFile (fixed): MkdirAll, TempFile, replaceKeyFile; on error Remove(tmp) (its own
    result is only logged) *)
Definition k1_write_key_file (k ord rnd ts : N) : vprog (res unit) :=
  vexe m <- vc VMkdirAll;
  match m with
  | Ok _ =>
      vexe t <- vc (VTempFile k rnd);
      match t with
      | Ok _ =>
          vexe r <- k1_replace k ord rnd ts;
          match r with
          | Ok _ => VDone (Ok tt)
          | e => vexe _ <- vc (VRemove (FTmp k rnd)); VDone e
          end
      | e => VDone (unit_of e)
      end
  | e => VDone (unit_of e)
  end.

(** SaveKeyPairWithFilename: MkdirAll x2, (encrypt), WritePrivateKey, WritePublicKey *)
Definition k1_save_key_pair (kpriv kpub o1 o2 r1 r2 ts1 ts2 : N) : vprog (res unit) :=
  vexe m1 <- vc VMkdirAll;
  match m1 with
  | Ok _ =>
      vexe m2 <- vc VMkdirAll;
      match m2 with
      | Ok _ =>
          vexe a <- k1_write_key_file kpriv o1 r1 ts1;
          match a with
          | Ok _ => k1_write_key_file kpub o2 r2 ts2
          | e => VDone e
          end
      | e => VDone (unit_of e)
      end
  | e => VDone (unit_of e)
  end.

(** Remove where "already removed" is fine: err != nil && !os.IsNotExist(err) -> err *)
Definition k1_remove_if_exists (n : fname) : vprog (res unit) :=
  vexe r <- vc (VRemove n);
  VDone (if is_not_exist r then Ok tt else unit_of r).

(** destroyKeyWithFilename: private key file, then public key file *)
Definition k1_destroy_pair (kpriv kpub : N) : vprog (res unit) :=
  vexe a <- k1_remove_if_exists (FKey kpriv);
  match a with
  | Ok _ => k1_remove_if_exists (FKey kpub)
  | e => VDone e
  end.

(** destroySymmetricKeyWithFilename *)
Definition k1_destroy_sym (k : N) : vprog (res unit) := k1_remove_if_exists (FKey k).

(** the entries of "<k>.old" as ReadDir returns them: sorted by name = by time *)
Fixpoint old_names (k : N) (l : list fname) : list N :=
  match l with
  | [] => []
  | FOld k' ts :: t => if N.eqb k k' then ts :: old_names k t else old_names k t
  | _ :: t => old_names k t
  end.

Fixpoint insert_u (x : N) (l : list N) : list N :=
  match l with
  | [] => [x]
  | y :: t => if N.ltb x y then x :: l else if N.eqb x y then l else y :: insert_u x t
  end.
Definition sort_u (l : list N) : list N := fold_right insert_u [] l.

Definition old_ts (k : N) (st : storage) : list N := sort_u (old_names k (names st)).

(** destroyRotatedKeyByIndex: ReadDir("<k>.old"); index 2 = the oldest rotated version (the entry
    ListRotatedKeys shows with that index); Remove, "already removed" is fine *)
Definition k1_destroy_rotated (k : N) (idx : Z) : vprog (res unit) :=
  vexe d <- vc VReadDir;
  match d with
  | Ok (VNames l) =>
      let olds := sort_u (old_names k l) in
      let n := Z.of_nat (length olds) in
      if (Z.eqb n 0 || Z.ltb idx 2 || Z.gtb idx (n + 1))%bool then VDone (Err E_INVALID_INDEX) else
      match nth_error olds (Z.to_nat (idx - 2)) with
      | Some ts => k1_remove_if_exists (FOld k ts)
      | None => VDone Panic      (* out of range slice index: excluded by the check above *)
      end
  | Ok _ => VDone (Err E_GENERIC)
  | e => VDone (unit_of e)
  end.

(** DestroyRotatedClientIDEncryptionKeyPair / DestroyRotatedPoisonKeyPair: private, then public *)
Definition k1_destroy_rotated_pair (kpriv kpub : N) (idx : Z) : vprog (res unit) :=
  vexe a <- k1_destroy_rotated kpriv idx;
  match a with
  | Ok _ => k1_destroy_rotated kpub idx
  | e => VDone e
  end.

(** * The write operations of keystore v1 *)
Inductive v1op :=
| V1Write (k ord rnd ts : N)                             (* one WriteKeyFile: symmetric/HMAC/log key generation *)
| V1SavePair (kpriv kpub o1 o2 r1 r2 ts1 ts2 : N)       (* key pair generation/import *)
| V1DestroyPair (kpriv kpub : N)
| V1DestroySym (k : N)
| V1DestroyRotated (k : N) (idx : Z)
| V1DestroyRotatedPair (kpriv kpub : N) (idx : Z).

Definition v1_prog (o : v1op) : vprog (res unit) :=
  match o with
  | V1Write k ord rnd ts => k1_write_key_file k ord rnd ts
  | V1SavePair a b o1 o2 r1 r2 t1 t2 => k1_save_key_pair a b o1 o2 r1 r2 t1 t2
  | V1DestroyPair a b => k1_destroy_pair a b
  | V1DestroySym k => k1_destroy_sym k
  | V1DestroyRotated k i => k1_destroy_rotated k i
  | V1DestroyRotatedPair a b i => k1_destroy_rotated_pair a b i
  end.

Definition v1_after (links : bool) (st : storage) (o : v1op) (f : fault) : storage :=
  vafter (vexec links (v1_prog o) f st 0).

(** * Readers (a fresh keystore object: nothing cached) *)

(** a key file reads iff all its bytes are there (an incomplete file does not decrypt) and it
    holds key material (ordinal 0 = the empty file TempFile creates) *)
Definition read_file (n : fname) (st : storage) : res N :=
  match lookup n st with
  | Some (CKey o true) => if N.eqb o 0 then Err E_VERIFY else Ok o
  | Some _ => Err E_VERIFY
  | None => Err E_NOTEXIST
  end.

(** kinds of key files (harness numbering, harness/vhv1/rig.go):
    0 "<id>_storage"  1 "<id>_storage.pub"  2 "<id>_storage_sym"  3 "<id>_hmac"  4 "secure_log_key"
    5 ".poison_key/poison_key"  6 ".poison_key/poison_key.pub"  7 ".poison_key/poison_key_sym" *)
Definition kind_of (k : N) : N := N.land k 7.

(** GetPoisonKeyPair reads both halves *)
Definition read_pair (kpriv kpub : N) (st : storage) : res (N * N) :=
  do a <- read_file (FKey kpriv) st; do b <- read_file (FKey kpub) st; Ok (a, b).

(** the "current key" reader of each kind *)
Definition read_cur (k : N) (st : storage) : res N :=
  if N.eqb (kind_of k) 5 then do p <- read_pair k (k + 1) st; Ok (fst p)
  else if N.eqb (kind_of k) 6 then do p <- read_pair (k - 1) k st; Ok (snd p)
  else read_file (FKey k) st.

Fixpoint read_olds (k : N) (tss : list N) (st : storage) : res (list N) :=
  match tss with
  | [] => Ok []
  | ts :: rest => do a <- read_file (FOld k ts) st; do r <- read_olds k rest st; Ok (a :: r)
  end.

(** the "all versions" readers (GetClientIDSymmetricKeys, GetServerDecryptionPrivateKeys,
    GetPoison...Keys): current first, then the rotated versions from newest to oldest; one
    unreadable version fails the whole read *)
Definition read_all (k : N) (st : storage) : res (list N) :=
  do c <- read_file (FKey k) st;
  do r <- read_olds k (rev (old_ts k st)) st;
  Ok (c :: r).

Definition has_all (k : N) : bool :=
  N.eqb (kind_of k) 0 || N.eqb (kind_of k) 2 || N.eqb (kind_of k) 5 || N.eqb (kind_of k) 7.

Fixpoint key_names (l : list fname) : list N :=
  match l with
  | [] => []
  | FKey k :: t => k :: key_names t
  | _ :: t => key_names t
  end.

Definition E_UNRECOGNIZED : N := 41.   (* filesystem.ErrUnrecognizedKeyPurpose *)

(** describeDir over the directory entries: key files are described; the entries of the
    "<name>.old" directories are not in this listing; a leftover temporary file "<name><digits>" is
    skipped by the FIXED code and made the original code fail; key ring files of keystore v2 do not
    belong here *)
Fixpoint describe_dir (fixed : bool) (l : list fname) : res (list N) :=
  match l with
  | [] => Ok []
  | FKey k :: t => do r <- describe_dir fixed t; Ok (k :: r)
  | FOld _ _ :: t => describe_dir fixed t
  | FTmp _ _ :: t => if fixed then describe_dir fixed t else Err E_UNRECOGNIZED
  | _ :: _ => Err E_UNRECOGNIZED
  end.

(** ListKeys (fixed code) *)
Definition k1_list_keys (st : storage) : res (list N) := describe_dir true (names st).
(** ListKeys as it was before the fix *)
Definition k1_list_keys_unfixed (st : storage) : res (list N) := describe_dir false (names st).

(** ListRotatedKeys: one entry per file of every "<name>.old" *)
Fixpoint count_old (l : list fname) : nat :=
  match l with
  | [] => O
  | FOld _ _ :: t => S (count_old t)
  | _ :: t => count_old t
  end.
Definition k1_list_rotated (st : storage) : nat := count_old (names st).

(** CacheOnStart: ListKeys, then per description the reader of its purpose *)
Definition cache_read (k : N) (st : storage) : res unit :=
  if N.eqb (kind_of k) 2 || N.eqb (kind_of k) 7 then do _ <- read_all k st; Ok tt
  else if N.eqb (kind_of k) 5 then do _ <- read_pair k (k + 1) st; Ok tt
  else if N.eqb (kind_of k) 6 then do _ <- read_pair (k - 1) k st; Ok tt
  else do _ <- read_file (FKey k) st; Ok tt.

Fixpoint cache_all (ks : list N) (st : storage) : res unit :=
  match ks with
  | [] => Ok tt
  | k :: rest => do _ <- cache_read k st; cache_all rest st
  end.
Definition k1_cache_on_start (st : storage) : res unit :=
  do ks <- k1_list_keys st; cache_all ks st.
