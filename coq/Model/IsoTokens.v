(** Executable model of acra's tokenization stack (part of C02):
      pseudonymization/tokenizer.go          generateDataID, Anonymize, AnonymizeConsistently, Deanonymize
      pseudonymization/common/common.go      TokenContext, AggregateTokenContextToBytes
      pseudonymization/common/tokenTypes.go  EncodeTokenValue / TokenValueFromData (protobuf, canonical forms)
      pseudonymization/storage/memory.go     MemoryTokenStorage.Save / Get
      pseudonymization/storage/storageTokenEncryptor.go + encryptedStorageWrapper.go
    Token type modelled: TokenType_Bytes (random value = [len value] bytes from crypto/rand = tape chunk).
    No proofs here. *)
From Acra Require Import Lib.Bytes Lib.Outcome Lib.Sha256 Crypto.Interface Gen.Consts Gen.IsoTokenConsts Model.Envelope.
Local Open Scope N_scope.

Definition E_TOKEN_EXISTS : N := 20.     (* common.ErrTokenExists *)
Definition E_TOKEN_NOT_FOUND : N := 21.  (* common.ErrTokenNotFound *)
Definition E_KEYS_NOT_FOUND : N := 22.   (* keystore.ErrKeysNotFound *)
Definition E_TYPE_MISMATCH : N := 23.    (* ErrDataTypeMismatch *)
Definition E_GEN_RANDOM : N := 24.       (* ErrGenerationRandomValue *)
Definition E_PROTO : N := 25.            (* proto.Unmarshal error *)
Definition E_TAPE : N := 98.             (* model artefact: tape shorter than the draws of the code *)

(** * common.TokenContext, AggregateTokenContextToBytes *)
Record token_context := { tc_client : bytes; tc_additional : bytes }.

(* the literals `zone` / `client` written inline in common.go and tokenizer.go (not exported by the
   package: checked by the correspondence replay of CtxBytes / DataId on every run) *)
Definition STR_ZONE : bytes := hb 0x17a6f6e65.
Definition STR_CLIENT : bytes := hb 0x1636c69656e74.

(* what both generateDataID and AggregateTokenContextToBytes write into the hash for a context *)
Definition ctx_part (c : token_context) : bytes :=
  if is_nil (tc_additional c) then STR_CLIENT ++ tc_client c else STR_ZONE ++ tc_additional c.

Definition aggregate_token_context (c : token_context) : bytes := sha256 (ctx_part c).

(** strconv.Itoa for a non-negative int *)
Fixpoint itoa_aux (fuel : nat) (n : N) (acc : bytes) : bytes :=
  match fuel with
  | O => acc
  | S f =>
      let d := n2b (48 + N.modulo n 10) in
      if N.ltb n 10 then d :: acc else itoa_aux f (N.div n 10) (d :: acc)
  end.
Definition itoa (n : N) : bytes := itoa_aux 20 n [].

(** pseudoanonymizer.generateDataID: no separator / length prefix between [data] and the context part *)
Definition data_id_preimage (data : bytes) (c : token_context) (ty : N) : bytes :=
  TOK_DATA_ID_DELIM ++ data ++ ctx_part c ++ TOK_DATA_ID_DELIM ++ itoa ty.
Definition generate_data_id (data : bytes) (c : token_context) (ty : N) : bytes :=
  sha256 (data_id_preimage data c ty).

Definition key_for_hash (k : bytes) : bytes := TOK_KEY_PREFIX_HASH ++ k.
Definition key_for_token (k : bytes) : bytes := TOK_KEY_PREFIX_TOKEN ++ k.

(** * TokenValue protobuf (field 1 bytes value, field 2 varint type; proto3 omits zero values) *)
Fixpoint varint_enc (fuel : nat) (n : N) : bytes :=
  match fuel with
  | O => []
  | S f => if N.ltb n 128 then [n2b n] else n2b (128 + N.land n 127) :: varint_enc f (N.shiftr n 7)
  end.
Fixpoint varint_dec (fuel : nat) (s : bytes) : option (N * bytes) :=
  match fuel, s with
  | S f, b :: r =>
      if N.ltb (b2n b) 128 then Some (b2n b, r)
      else match varint_dec f r with
           | Some (m, r') => Some (N.land (b2n b) 127 + N.shiftl m 7, r')
           | None => None
           end
  | _, _ => None
  end.

Definition encode_token_value (v : bytes) (ty : N) : bytes :=
  (if is_nil v then [] else x0a :: varint_enc 10 (N.of_nat (length v)) ++ v)
  ++ (if N.eqb ty 0 then [] else x10 :: varint_enc 10 ty).

(* TokenValueFromData restricted to the canonical encodings above (the only plaintexts the storage
   ever holds); any other byte string is answered Err here, whereas proto.Unmarshal accepts more
   (unknown fields, repeated fields, other field order).  Reachable only through a decryption that
   succeeds on a ciphertext not produced by Save under the same key, i.e. never under [Correct C]
   round trips; see REPORT. *)
Definition decode_token_value (d : bytes) : res (bytes * N) :=
  let field1 : option (bytes * bytes) :=
    match d with
    | x0a :: r =>
        match varint_dec 10 r with
        | Some (n, r') =>
            if N.leb n (N.of_nat (length r')) then Some (firstn (N.to_nat n) r', skipn (N.to_nat n) r') else None
        | None => None
        end
    | _ => Some ([], d)
    end in
  match field1 with
  | None => Err E_PROTO
  | Some (v, rest) =>
      match rest with
      | [] => Ok (v, 0)
      | x10 :: r =>
          match varint_dec 10 r with
          | Some (ty, []) => Ok (v, ty)
          | _ => Err E_PROTO
          end
      | _ => Err E_PROTO
      end
  end.

(** * MemoryTokenStorage: map[hex ctx digest]map[hex id]data.
    hex.EncodeToString is injective, so the two-level Go map is modelled as one association list keyed
    by the pair (context digest, id); newest first, Save refuses an existing pair. *)
Definition entry := (bytes * bytes * bytes)%type.
Definition store := list entry.
Definition init_store : store := [].

Fixpoint mem_get (st : store) (h id : bytes) : option bytes :=
  match st with
  | [] => None
  | (h', id', d) :: r => if bytes_eqb h' h && bytes_eqb id' id then Some d else mem_get r h id
  end.

Definition mem_save (st : store) (h id d : bytes) : res store :=
  match mem_get st h id with
  | Some _ => Err E_TOKEN_EXISTS
  | None => Ok ((h, id, d) :: st)
  end.

(* Save / Get of the storage interface: the scope is AggregateTokenContextToBytes(context) *)
Definition storage_save (st : store) (c : token_context) (id d : bytes) : res store :=
  mem_save st (aggregate_token_context c) id d.
Definition storage_get (st : store) (c : token_context) (id : bytes) : res bytes :=
  of_option E_TOKEN_NOT_FOUND (mem_get st (aggregate_token_context c) id).

(** * keystore view: client id -> symmetric keys, newest first (GetClientIDSymmetricKey(s)) *)
Definition keystore := list (bytes * list bytes).
Fixpoint sym_keys (ks : keystore) (cid : bytes) : list bytes :=
  match ks with
  | [] => []
  | (id, keys) :: r => if bytes_eqb id cid then keys else sym_keys r cid
  end.

Section Tokens.
Variable C : crypto.

(** * scellEncryptor (storageTokenEncryptor.go) *)
Definition enc_context (c : token_context) : bytes :=
  if is_nil (tc_additional c) then tc_client c else tc_additional c.

(* tape = the draws of CreateAcraBlock: [dek32; data nonce; key nonce] *)
Definition tok_encrypt (ks : keystore) (tape : list bytes) (data : bytes) (c : token_context) : res bytes :=
  match sym_keys ks (tc_client c) with
  | [] => Err E_KEYS_NOT_FOUND
  | k :: _ => ab_create C tape data k (enc_context c)
  end.

Definition tok_decrypt (ks : keystore) (data : bytes) (c : token_context) : res bytes :=
  do nb <- ab_extract data;
  match sym_keys ks (tc_client c) with
  | [] => Err E_KEYS_NOT_FOUND
  | keys => ab_decrypt C (snd nb) keys (enc_context c)
  end.

(** * secureWrapper (encryptedStorageWrapper.go); [enc = false] is the bare storage.
    Save returns the tape that is left (3 draws are consumed when the block is created). *)
Definition wrap_save (enc : bool) (ks : keystore) (st : store) (tape : list bytes)
           (c : token_context) (id d : bytes) : res store * list bytes :=
  if enc then
    match tok_encrypt ks (firstn 3 tape) d c with
    | Ok e => (storage_save st c id e, skipn 3 tape)
    | Err e => (Err e, skipn 3 tape)
    | Panic => (Panic, skipn 3 tape)
    end
  else (storage_save st c id d, tape).

Definition wrap_get (enc : bool) (ks : keystore) (st : store) (c : token_context) (id : bytes) : res bytes :=
  do v <- storage_get st c id;
  if enc then tok_decrypt ks v c else Ok v.

(** * pseudoanonymizer *)
(* anonymizer.AnonymizeBytes: rand.Read of len(value) bytes; io.ReadFull does not call the reader for
   an empty buffer *)
Definition draw (n : nat) (tape : list bytes) : option (bytes * list bytes) :=
  match n with
  | O => Some ([], tape)
  | _ => match tape with
         | ch :: r => if Nat.eqb (length ch) n then Some (ch, r) else None
         | [] => None
         end
  end.

(* generateNewValue: up to dataGenerationLoopLimit tries; ErrTokenExists => next try *)
Fixpoint gen_new_value (fuel : nat) (enc : bool) (ks : keystore) (st : store) (tape : list bytes)
         (c : token_context) (value : bytes) : store * list bytes * res bytes :=
  match fuel with
  | O => (st, tape, Err E_GEN_RANDOM)
  | S f =>
      match draw (length value) tape with
      | None => (st, tape, Err E_TAPE)
      | Some (nv, tape1) =>
          let key := key_for_token (generate_data_id nv c TOKEN_TYPE_BYTES) in
          let data := encode_token_value value TOKEN_TYPE_BYTES in
          match wrap_save enc ks st tape1 c key data with
          | (Ok st', tape2) => (st', tape2, Ok nv)
          | (Err e, tape2) =>
              if N.eqb e E_TOKEN_EXISTS then gen_new_value f enc ks st tape2 c value
              else (st, tape2, Err e)
          | (Panic, tape2) => (st, tape2, Panic)
          end
      end
  end.

Definition anonymize (enc : bool) (ks : keystore) (st : store) (tape : list bytes)
           (c : token_context) (value : bytes) : store * list bytes * res bytes :=
  gen_new_value TOK_LOOP_LIMIT enc ks st tape c value.

(* AnonymizeConsistently; [tries] = 2: the `goto tryGetAgain` is taken at most once *)
Fixpoint anonymize_consistently_aux (tries : nat) (enc : bool) (ks : keystore) (st : store) (tape : list bytes)
         (c : token_context) (value : bytes) : store * res bytes :=
  match tries with
  | O => (st, Err E_OUT_OF_FUEL)
  | S t =>
      let dk := key_for_hash (generate_data_id value c TOKEN_TYPE_BYTES) in
      match wrap_get enc ks st c dk with
      | Ok v => (st, Ok v)
      | Panic => (st, Panic)
      | Err _ =>
          match anonymize enc ks st tape c value with
          | (st1, tape1, Ok nv) =>
              match wrap_save enc ks st1 tape1 c dk nv with
              | (Ok st2, _) => (st2, Ok nv)
              | (Err e, tape2) =>
                  if N.eqb e E_TOKEN_EXISTS && negb (Nat.eqb t 0)
                  then anonymize_consistently_aux t enc ks st1 tape2 c value
                  else (st1, Err e)
              | (Panic, _) => (st1, Panic)
              end
          | (st1, _, Err e) => (st1, Err e)
          | (st1, _, Panic) => (st1, Panic)
          end
      end
  end.
Definition anonymize_consistently := anonymize_consistently_aux 2.

(* Deanonymize: ANY error of storage.Get (not found, disabled, decryption failure, missing keys)
   is swallowed and the token is returned as is *)
Definition deanonymize (enc : bool) (ks : keystore) (st : store) (c : token_context) (token : bytes) : res bytes :=
  let key := key_for_token (generate_data_id token c TOKEN_TYPE_BYTES) in
  match wrap_get enc ks st c key with
  | Err _ => Ok token
  | Panic => Panic
  | Ok data =>
      do tv <- decode_token_value data;
      if N.eqb (snd tv) TOKEN_TYPE_BYTES then Ok (fst tv) else Err E_TYPE_MISMATCH
  end.

(** * the stack as a state machine *)
Inductive tok_op :=
| TTokenize (consistent : bool) (c : token_context) (tape : list bytes) (value : bytes)
| TDetokenize (c : token_context) (token : bytes).

Definition op_ctx (o : tok_op) : token_context :=
  match o with TTokenize _ c _ _ => c | TDetokenize c _ => c end.

Definition step (enc : bool) (ks : keystore) (st : store) (o : tok_op) : store * res bytes :=
  match o with
  | TTokenize false c tape v => let '(st', _, r) := anonymize enc ks st tape c v in (st', r)
  | TTokenize true c tape v => anonymize_consistently enc ks st tape c v
  | TDetokenize c t => (st, deanonymize enc ks st c t)
  end.

Fixpoint run_from (enc : bool) (ks : keystore) (st : store) (ops : list tok_op) : store * list (res bytes) :=
  match ops with
  | [] => (st, [])
  | o :: r => let '(st1, out) := step enc ks st o in
              let '(st2, outs) := run_from enc ks st1 r in (st2, out :: outs)
  end.
Definition run_hist (enc : bool) (ks : keystore) (ops : list tok_op) := run_from enc ks init_store ops.
Definition final_store (enc : bool) (ks : keystore) (ops : list tok_op) : store := fst (run_hist enc ks ops).

End Tokens.
