(** C06 (extension x06list) — key listings and DATA under rotation / destruction.

    (1) Listings.  [acra-keys list] = ListKeys (current keys) and ListRotatedKeys (rotated keys) of
        both keystore generations, as observations of the existing state machines
        (Model/KeystoreV1.v, Model/KeystoreV2.v).  A row is (part, index, state, creation time):
        keystore v1 has one row per key FILE (private/symmetric file and, for key pairs, the
        [.pub] file; rotated rows per entry of [<file>.old] in ReadDir order, creation time = the
        time stamp in the entry's name); keystore v2 has one row per key RING (index 1 = the ring's
        Current seqnum, rotated rows = the non-destroyed seqnums below the newest one).
        Rows are restricted to one slot (the harness filters the real listing by the slot's key
        ids and checks purpose / client id / global order itself).
    (2) Data.  The composition with the C01 envelope model (Model/Envelope.v): a history
        interleaves keystore operations with PROTECT operations that run the registry handlers
        with the keys the keystore hands out at that moment
        (AcraStruct: GetClientIDEncryptionPublicKey; AcraBlock: GetClientIDSymmetricKey;
        blind index: GetHMACSecretKey) and REVEAL operations that run the decrypt handlers with
        the keystore's "all keys" getters (GetServerDecryptionPrivateKeys /
        GetClientIDSymmetricKeys); the search of a blind index uses GetHMACSecretKey, i.e. the
        CURRENT HMAC key only (hmac/hash.go HashData.IsEqual, hmac/decryptor/*/hashQuery.go).
    Key versions are labels ([ord]); [km] maps a label to the key material (secret, public).
    No proofs in this file. *)
From Coq Require Import List NArith ZArith Bool.
From Acra Require Import Lib.Bytes Lib.Outcome Lib.Sha256 Crypto.Interface Gen.Consts Gen.KeyStates
  Model.KeySpec Model.KeystoreV1 Model.KeystoreV2 Model.Envelope.
Import ListNotations.
Local Open Scope N_scope.

(** * listings *)
Definition ST_CURRENT : N := 1.
Definition ST_ROTATED : N := 2.
Definition part_code (p : part) : N := match p with Priv => 0 | Pub => 1 end.

(** one row = four numbers: part, index, state, creation time (0 where the model has none) *)
Definition row (p : part) (i st t : N) : list N := [part_code p; i; st; t].

(** ** specification: index 1 = the current key; rotated keys have 2,3,… oldest first *)
Definition spec_list_cur (e : sslot) : list N :=
  match s_cur e with Some _ => row Priv 1 ST_CURRENT 0 | None => [] end.
Fixpoint rot_rows (p : part) (i : N) (ts : list N) : list N :=
  match ts with [] => [] | t :: r => row p i ST_ROTATED t ++ rot_rows p (i + 1) r end.
Definition spec_list_rot (e : sslot) : list N := rot_rows Priv 2 (map (fun _ => 0) (s_rot e)).

(** ** keystore v1: describeDir / describeOldDir over the files of one slot *)
Definition v1_has_pub (k : kind) : bool := is_pair k.
Definition v1_file_cur (fs : fsT) (f : fname) : list N :=
  match f_cur (fs f) with Some _ => row (snd f) 1 ST_CURRENT 0 | None => [] end.
Definition v1_list_cur (st : v1state) (s : slot) : list N :=
  v1_file_cur (v_fs st) (s, Priv) ++ (if v1_has_pub (fst s) then v1_file_cur (v_fs st) (s, Pub) else []).
Definition v1_file_rot (fs : fsT) (f : fname) : list N :=
  rot_rows (snd f) 2 (map fst (f_old (fs f))).
Definition v1_list_rot (st : v1state) (s : slot) : list N :=
  v1_file_rot (v_fs st) (s, Priv) ++ (if v1_has_pub (fst s) then v1_file_rot (v_fs st) (s, Pub) else []).

(** ** keystore v2: ServerKeyStore.ListKeys / listRotatedRings over the ring of one slot.
    FIXED code (patch fix_v2_list_keys_destroyed_current): a ring whose Current key is destroyed
    is not listed as having a current key. *)
Definition v2_list_cur (st : v2state) (s : slot) : res (list N) :=
  match st s with
  | None => Ok []
  | Some r =>
      if (r_cur r =? V2_NOKEY)%Z then Ok []
      else match key_with_seqnum (r_keys r) (r_cur r) with
           | None => Err E_GENERIC
           | Some k => if destroyed k then Ok [] else Ok (row Priv 1 ST_CURRENT 0)
           end
  end.
Definition v2_list_rot (st : v2state) (s : slot) : res (list N) :=
  match st s with
  | None => Ok []
  | Some r =>
      match rotated_active_of r with
      | Ok l => Ok (rot_rows Priv 2 (map (fun _ => 0) l))
      | Err e => Err e
      | Panic => Panic
      end
  end.

(** * current PUBLIC key of a pair slot (label) *)
(** v1 getPublicKeyByFilename: cache, else load the [.pub] file and cache it *)
Definition v1_cur_pub (m : cmode) (st : v1state) (s : slot) : v1state * res ord :=
  read_key m st (s, Pub) PCur.
(** v2 currentPairPublicKey: the ring's Current key (its data is gone once destroyed) *)
Definition v2_cur_pub (st : v2state) (s : slot) : res ord :=
  match st s with
  | None => Err E_GENERIC
  | Some r => if (r_cur r =? V2_NOKEY)%Z then Err E_GENERIC else key_data r (r_cur r)
  end.

(** * the composed machine *)
Inductive dop :=
| DK (o : kop)
| DListCur (s : slot)
| DListRot (s : slot)
| DCurPub (s : slot)
| DProtect (s : slot) (tape : list bytes) (data : bytes)   (* container (or blind index for KHmac) *)
| DReveal (s : slot) (n : nat)                             (* decrypt the n-th value produced so far *)
| DSearch (s : slot) (n : nat) (data : bytes).             (* does the n-th blind index match [data] now *)

Inductive dout := DN (r : res (list N)) | DB (r : res bytes).

(** what a keystore generation offers to the data layer *)
Record ksys := {
  K_state : Type;
  K_step : K_state -> kop -> K_state * res (list N);
  K_pub : K_state -> slot -> K_state * res ord;
  K_list_cur : K_state -> slot -> res (list N);
  K_list_rot : K_state -> slot -> res (list N)
}.

Definition v1_sys (m : cmode) : ksys :=
  {| K_state := v1state; K_step := v1_step m; K_pub := v1_cur_pub m;
     K_list_cur := fun st s => Ok (v1_list_cur st s); K_list_rot := fun st s => Ok (v1_list_rot st s) |}.
Definition v2_sys : ksys :=
  {| K_state := v2state; K_step := v2_step; K_pub := fun st s => (st, v2_cur_pub st s);
     K_list_cur := v2_list_cur; K_list_rot := v2_list_rot |}.

Definition labels_of (r : res (list N)) : list N := match r with Ok l => l | _ => [] end.

Section Data.
Variable C : crypto.
Variable km : ord -> bytes * bytes.     (* key material of a version: (secret, public) *)
Variable K : ksys.

Definition sec (k : ord) : bytes := fst (km k).
Definition pubk (k : ord) : bytes := snd (km k).

Record dstate := { d_ks : K_state K; d_vals : list bytes }.
Definition d_init (k0 : K_state K) : dstate := {| d_ks := k0; d_vals := [] |}.

Definition ks_only_pub (p : option bytes) : keyset := {| ks_pub := p; ks_privs := []; ks_syms := []; ks_hmac := None |}.
Definition ks_only_privs (l : list bytes) : keyset := {| ks_pub := None; ks_privs := l; ks_syms := []; ks_hmac := None |}.
Definition ks_only_syms (l : list bytes) : keyset := {| ks_pub := None; ks_privs := []; ks_syms := l; ks_hmac := None |}.
Definition ks_only_hmac (h : option bytes) : keyset := {| ks_pub := None; ks_privs := []; ks_syms := []; ks_hmac := h |}.

(** the keys the protecting side gets *)
Definition protect_with (k : kind) (st : K_state K) (s : slot) (tape : list bytes) (data : bytes)
  : K_state K * res bytes :=
  match k with
  | KStoragePair =>
      let (st1, r) := K_pub K st s in
      (st1, encrypt_with_handler C ENVELOPE_ID_ACRASTRUCT
              (ks_only_pub (match r with Ok l => Some (pubk l) | _ => None end)) tape data)
  | KStorageSym =>
      let (st1, r) := K_step K st (Cur s) in
      (st1, encrypt_with_handler C ENVELOPE_ID_ACRABLOCK (ks_only_syms (map sec (labels_of r))) tape data)
  | KHmac =>
      let (st1, r) := K_step K st (Cur s) in
      (st1, match labels_of r with
            | l :: _ => Ok (generate_hmac (sec l) data)
            | [] => Err E_GENERIC
            end)
  | _ => (st, Err E_GENERIC)
  end.

(** the keys the revealing side gets: the "all keys" getters *)
Definition reveal_with (k : kind) (st : K_state K) (s : slot) (v : bytes) : K_state K * res bytes :=
  match k with
  | KStoragePair =>
      let (st1, r) := K_step K st (All s) in
      (st1, decrypt_with_handler C ENVELOPE_ID_ACRASTRUCT (ks_only_privs (map sec (labels_of r))) v)
  | KStorageSym =>
      let (st1, r) := K_step K st (All s) in
      (st1, decrypt_with_handler C ENVELOPE_ID_ACRABLOCK (ks_only_syms (map sec (labels_of r))) v)
  | _ => (st, Err E_GENERIC)
  end.

(** HashData.IsEqual(data, clientID, keystore) on the stored blind index *)
Definition search_with (st : K_state K) (s : slot) (idx data : bytes) : K_state K * res bytes :=
  let (st1, r) := K_step K st (Cur s) in
  (st1, match extract_hash idx with
        | None => Err E_GENERIC
        | Some (h, _) =>
            let ks := ks_only_hmac (match labels_of r with l :: _ => Some (sec l) | [] => None end) in
            Ok [if hash_is_equal h data ks then x01 else x00]
        end).

Definition d_step (st : dstate) (o : dop) : dstate * dout :=
  match o with
  | DK op => let (k1, r) := K_step K (d_ks st) op in ({| d_ks := k1; d_vals := d_vals st |}, DN r)
  | DListCur s => (st, DN (K_list_cur K (d_ks st) s))
  | DListRot s => (st, DN (K_list_rot K (d_ks st) s))
  | DCurPub s =>
      let (k1, r) := K_pub K (d_ks st) s in
      ({| d_ks := k1; d_vals := d_vals st |}, DN (match r with Ok l => Ok [l] | Err e => Err e | Panic => Panic end))
  | DProtect s tape data =>
      let (k1, r) := protect_with (fst s) (d_ks st) s tape data in
      ({| d_ks := k1; d_vals := match r with Ok v => d_vals st ++ [v] | _ => d_vals st end |}, DB r)
  | DReveal s n =>
      let (k1, r) := reveal_with (fst s) (d_ks st) s (nth n (d_vals st) []) in
      ({| d_ks := k1; d_vals := d_vals st |}, DB r)
  | DSearch s n data =>
      let (k1, r) := search_with (d_ks st) s (nth n (d_vals st) []) data in
      ({| d_ks := k1; d_vals := d_vals st |}, DB r)
  end.

Fixpoint d_run (st : dstate) (ops : list dop) : list dout :=
  match ops with
  | [] => []
  | o :: rest => let (st', r) := d_step st o in r :: d_run st' rest
  end.

Fixpoint d_state_after (st : dstate) (ops : list dop) : dstate :=
  match ops with
  | [] => st
  | o :: rest => d_state_after (fst (d_step st o)) rest
  end.
End Data.

(** the keystore operations of a data history, in order (protect / reveal / search read keys:
    [Cur] / [All] for the kinds whose getter is a [kop]; the public-key read is not a [kop]) *)
Fixpoint kops_of (ops : list dop) : list kop :=
  match ops with
  | [] => []
  | DK o :: r => o :: kops_of r
  | DProtect s _ _ :: r =>
      match fst s with KStorageSym | KHmac => Cur s :: kops_of r | _ => kops_of r end
  | DReveal s _ :: r =>
      match fst s with KStoragePair | KStorageSym => All s :: kops_of r | _ => kops_of r end
  | DSearch s _ _ :: r => Cur s :: kops_of r
  | _ :: r => kops_of r
  end.
