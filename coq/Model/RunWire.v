(** Replay of implementation observations on the wire-codec models (C12; totality part reused by C14). *)
From Acra Require Import Lib.Bytes Lib.Outcome Gen.WireConsts Model.MysqlWire Model.PgWire Model.Bytea.
Local Open Scope N_scope.

Inductive expected := XOk (vals : list bytes) | XErr | XPanic.

(** the per-message rewrites of [Model.PgWire.rw], visible to the generated case files (they import this module only) *)
Notation RwKeep := Acra.Model.PgWire.RwKeep (only parsing).
Notation RwQuery := Acra.Model.PgWire.RwQuery (only parsing).
Notation RwBind := Acra.Model.PgWire.RwBind (only parsing).
Notation RwRow := Acra.Model.PgWire.RwRow (only parsing).

Inductive op :=
| MyInt (data : bytes)
| MyStr (data : bytes)
| MySkip (data : bytes)
| MyPutInt (n : bytes)                 (* uint64, 8 bytes little endian *)
| MyPutStr (v : option bytes)
| MyTextRow (k : N) (data : bytes)
| PgRead (stream : bytes)              (* ReadPacket / ReadClientPacket(started) + Marshal *)
| PgStartup (stream : bytes)           (* ReadClientPacket(not started) + Marshal *)
| PgRelay (stream : bytes)             (* read/send loop until the first error *)
| PgParseCols (fmts : list N) (desc : bytes)
| PgRow (fmts : list N) (tr : list (option bytes)) (stream : bytes)
| PgQuery (stream q : bytes)
| PgBind (data : bytes)
| PgBindRewrite (stream : bytes) (tr : list (option bytes))
| PgParse (data : bytes)               (* NewParsePacket + Name/QueryString/Marshal *)
| PgParseReplace (stream q : bytes)    (* ReadClientPacket + ReplaceQuery (Parse branch) + Marshal *)
| PgExecute (data : bytes)             (* NewExecutePacket *)
| PgSimpleQuery (stream : bytes)       (* ReadClientPacket + GetSimpleQuery *)
| PgSession (stream : bytes) (rws : list rw)  (* several messages through ONE handler: read, rewrite, send each *)
| BaEncOct (d : bytes)
| BaDecOct (d : bytes)
| BaEncHex (d : bytes)
| BaDecEsc (d : bytes).

Definition n8 (n : nat) : bytes := le_enc 8 (N.of_nat n).
Definition flag (b : bool) : bytes := [if b then x01 else x00].
Definition ov (v : option bytes) : list bytes :=
  match v with None => [flag true; []] | Some d => [flag false; d] end.

Definition canon {A} (f : A -> list bytes) (r : res A) : expected :=
  match r with Ok x => XOk (f x) | Err _ => XErr | Panic => XPanic end.


Definition col_view (c : column) : list bytes := [c_lenbuf c; c_data c; flag (c_null c)].

Definition run (o : op) : expected :=
  match o with
  | MyInt d => canon (fun '(num, isnull, n) => [le_enc 8 num; flag isnull; n8 n]) (lenenc_int d)
  | MyStr d => canon (fun '(v, n) => ov v ++ [n8 n]) (lenenc_string d)
  | MySkip d => canon (fun n => [n8 n]) (skip_lenenc_string d)
  | MyPutInt n => XOk [put_lenenc_int (le_dec n)]
  | MyPutStr v => XOk [put_lenenc_string v]
  | MyTextRow k d => canon (fun '(vs, rest) => flat_map ov vs ++ [rest]) (text_row (N.to_nat k) d)
  | PgRead s => canon (fun '(p, rest) => [marshal p; rest; [p_type p]; p_lenbuf p; p_desc p]) (read_msg s)
  | PgStartup s => canon (fun '(p, rest) => [marshal p; rest; p_desc p]) (read_startup s)
  | PgRelay s => XOk [relay (S (length s)) s]
  | PgParseCols fmts d => canon (fun '(count, cs) => be_enc 2 count :: flat_map col_view cs) (parse_columns fmts d)
  | PgRow fmts tr s =>
      canon (fun p => [marshal p])
            (do (p, _) <- read_msg s; process_datarow fmts (tr_of_list tr) p)
  | PgQuery s q => canon (fun '(p, _) => [marshal (replace_query p q)]) (read_msg s)
  | PgBind d =>
      canon (fun b => [b_portal b; b_stmt b; concat (map (be_enc 2) (b_pfmts b)); concat (map (be_enc 2) (b_rfmts b))]
                        ++ flat_map ov (b_params b))
            (new_bind_packet d)
  | PgBindRewrite s tr =>
      canon (fun p => [marshal p])
            (do (p, _) <- read_msg s;
             do b <- new_bind_packet (p_desc p);
             replace_bind p (mk_bind (b_portal b) (b_stmt b) (b_pfmts b) (set_params (b_params b) tr) (b_rfmts b)))
  | PgParse d =>
      canon (fun x => x)
            (do pp <- new_parse_packet d; do n <- parse_name pp; do q <- parse_query_string pp;
             Ok [pp_name pp; pp_query pp; pp_num pp; concat (pp_params pp); marshal_parse pp; n; q])
  | PgParseReplace s q =>
      canon (fun p => [marshal p])
            (do (p, _) <- read_msg s;
             if byte_eqb (p_type p) PG_PARSE_TYPE then replace_parse_query p q else Ok p)
  | PgExecute d => canon (fun '(portal, n) => [portal; be_enc 4 n]) (new_execute_packet d)
  | PgSimpleQuery s => canon (fun q => [q]) (do (p, _) <- read_msg s; get_simple_query p)
  | PgSession s rws => canon (fun outs => outs) (session rws s)
  | BaEncOct d => XOk [encode_octal d]
  | BaDecOct d => canon (fun x => [x]) (decode_octal d)
  | BaEncHex d => XOk [pg_encode_hex d]
  | BaDecEsc d => canon (fun x => [x]) (decode_escaped d)
  end.

Fixpoint list_bytes_eqb (a b : list bytes) : bool :=
  match a, b with
  | [], [] => true
  | x :: a', y :: b' => bytes_eqb x y && list_bytes_eqb a' b'
  | _, _ => false
  end.

Definition expected_eqb (a b : expected) : bool :=
  match a, b with
  | XOk x, XOk y => list_bytes_eqb x y
  | XErr, XErr => true
  | XPanic, XPanic => true
  | _, _ => false
  end.

(** indices (from 0) of the cases on which model and implementation differ, with the model's answer *)
Fixpoint mismatches_from (i : nat) (cs : list (op * expected)) : list (nat * expected) :=
  match cs with
  | [] => []
  | (o, e) :: rest =>
      let m := run o in
      if expected_eqb m e then mismatches_from (S i) rest else (i, m) :: mismatches_from (S i) rest
  end.
Definition mismatches := mismatches_from 0.
