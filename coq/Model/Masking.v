(** Executable model of acra's masking layer (masking/dataEncryptor.go, masking/dataProcessor.go,
    masking/common/patterns.go) and of its embedding in the column scanner exactly as
    decryptor/{postgresql,mysql}/proxy.go chain it:
      decryptorDataProcessor = masking.NewProcessor(registryHandler)
      envelopeDetector.AddCallback(crypto.NewDecryptHandler(keystore, decryptorDataProcessor)).
    No proofs here. *)
From Acra Require Import Lib.Bytes Lib.Outcome Lib.Sha256 Crypto.Interface Gen.Consts Gen.MaskConsts Model.Envelope.

(** the part of config.ColumnEncryptionSetting masking reads *)
Record mask_setting := {
  ms_pattern : bytes;     (* GetMaskingPattern *)
  ms_plen : Z;            (* GetPartialPlaintextLen : Go int *)
  ms_side : bytes;        (* PlaintextSide string *)
  ms_dtype : N            (* GetEncryptedDataType *)
}.

(* BasicColumnEncryptionSetting.IsEndMasking: PlaintextSide == "left"; every other string behaves as "right" *)
Definition is_end_masking (s : mask_setting) : bool := bytes_eqb (ms_side s) MASK_SIDE_LEFT.

(* masking/common.ValidateMaskingParams = nil *)
Definition mask_type_ok (dt : N) : bool :=
  if N.eqb dt ENC_TYPE_STRING then MASK_TYPE_OK_STRING
  else if N.eqb dt ENC_TYPE_BYTES then MASK_TYPE_OK_BYTES
  else if N.eqb dt ENC_TYPE_UNKNOWN then MASK_TYPE_OK_UNKNOWN
  else if N.eqb dt ENC_TYPE_INT32 then MASK_TYPE_OK_INT32
  else if N.eqb dt ENC_TYPE_INT64 then MASK_TYPE_OK_INT64
  else false.

Definition validate_masking_params (s : mask_setting) : bool :=
  if is_nil (ms_pattern s) then false
  else if Z.ltb (ms_plen s) 0 then false
  else if negb (bytes_eqb (ms_side s) MASK_SIDE_RIGHT || bytes_eqb (ms_side s) MASK_SIDE_LEFT) then false
  else mask_type_ok (ms_dtype s).

(** DataEncryptor.encryptByFunction; [enc] is the wrapped encryptor (ChainDataEncryptor[registryHandler]).
    Go slice expressions with a negative bound panic. *)
Definition encrypt_by_function (enc : bytes -> res bytes) (s : mask_setting) (data : bytes) : res bytes :=
  if is_nil (ms_pattern s) then Ok data
  else if Z.geb (ms_plen s) (Z.of_nat (length data)) then enc data
  else if Z.ltb (ms_plen s) 0 then Panic
  else
    let n := Z.to_nat (ms_plen s) in
    if is_end_masking s then
      do a <- enc (skipn n data); Ok (firstn n data ++ a)
    else
      let k := length data - n in
      do a <- enc (firstn k data); Ok (a ++ skipn k data).

(** ChainDataEncryptor.EncryptWithClientID over [registryHandler] only (as the proxies build it for masking) *)
Definition mask_encryptor (C : crypto) (id : byte) (ks : keyset) (tape : list bytes) (s : mask_setting) (data : bytes)
  : res bytes := encrypt_by_function (encrypt_with_handler C id ks tape) s data.

(** masking.Processor.Process; [s] = the column's setting found in the context (None = no setting);
    [dec]/[matches] = Process / MatchDataSignature of the wrapped ExtendedDataProcessor (the registry handler).
    Only data that IS an envelope is replaced by the pattern (fix_masking_forged_header). *)
Definition masking_processor (s : option mask_setting) (dec : bytes -> res bytes) (matches : bytes -> bool)
  (data : bytes) : res bytes :=
  match s with
  | Some st =>
      if is_nil (ms_pattern st) then dec data
      else
        let mask := if matches data then Ok (ms_pattern st) else Ok data in
        match dec data with
        | Panic => Panic
        | Err _ => mask
        | Ok nd => if bytes_eqb nd data then mask else Ok nd
        end
  | None => dec data
  end.

(** the callback list of the envelope detector for a proxy whose schema uses masking *)
Definition masked_cbs (C : crypto) (s : option mask_setting) (ks : keyset) : list (bytes -> res bytes) :=
  [decrypt_handler (masking_processor s (registry_process C ks) registry_match)].

Definition masked_read (C : crypto) (s : option mask_setting) (ks : keyset) (col : bytes) : res (bytes * bool) :=
  on_column (masked_cbs C s ks) col.
