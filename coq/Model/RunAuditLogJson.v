(** Replay of implementation observations (harness domain c20json) on the byte-level JSON model. *)
From Acra Require Import Lib.Bytes Lib.Outcome Lib.Sha256 Gen.AuditLogConsts.
From Acra Require Export Model.AuditLog Model.AuditLogJsonNum Model.AuditLogJson.

Inductive expected := XOk (vals : list bytes) | XErr | XPanic.

Inductive op :=
(* probes come in batches (a shard of the replay has a fixed start-up cost); two values per probe *)
| NumProbe (lits : list bytes)             (* json.Unmarshal of a number: [bits LE; json.Marshal of it] / [[]; []] out of range *)
| FloatProbe (bits : list N)               (* json.Marshal(float64): [text; bits of the text read back] *)
| StrProbe (ss : list bytes)               (* [json.Marshal(string); the string read back] *)
| JWrite (key : bytes) (evs : list jbev)   (* per written entry: the line, the syntax tree of the line *)
| JWf (key : bytes) (evs : list jbev)      (* [[1]] iff the history is outside the recorded defect classes *)
| JParse (ls : list wline)                 (* JSONLogParser.ParseEntry, five values per line: [0]; RawData; Integrity; [new]; [end]
                                              ([1] = no integrity member, [2] = error; the other four empty) *)
| JVerify (key : bytes) (lines : list wline).

Definition len4 {A} (l : list A) : bytes := le_enc 4 (N.of_nat (length l)).

(** injective byte form of a syntax tree (twin of c20jW.enc) *)
Fixpoint wenc (w : wv) : bytes :=
  match w with
  | WNull => [x6e]
  | WBool b => if b then [x74] else [x66]
  | WNum l => x23 :: len4 l ++ l
  | WStr s => x73 :: len4 s ++ s
  | WArr l => x5b :: len4 l ++ flat_map wenc l
  | WObj m => x7b :: len4 m ++ flat_map (fun kv : bytes * wv => let (k, x) := kv in len4 k ++ k ++ wenc x) m
  end.

Definition canon_verdict (v : verdict) : expected :=
  match v with
  | VAccept => XOk [[x00]]
  | VFail i c => XOk [[n2b c]; le_enc 8 (N.of_nat i)]
  end.

Definition flag (b : bool) : bytes := [if b then x01 else x00].

Definition run (o : op) : expected :=
  match o with
  | NumProbe lits =>
      XOk (flat_map (fun lit => match parse_float lit with
                                | Some b => [le_enc 8 b; render_num (NumF b)]
                                | None => [[]; []]
                                end) lits)
  | FloatProbe bs =>
      XOk (flat_map (fun bits => let s := render_num (NumF bits) in
                                 [s; match parse_float s with Some b => le_enc 8 b | None => [] end]) bs)
  | StrProbe ss => XOk (flat_map (fun s => [quote s; sanitize s]) ss)
  | JWrite key evs =>
      XOk (flat_map (fun m => [json_line m; wenc (to_wire (JObj m))]) (json_writer (calc_new key) evs))
  | JWf key evs => XOk [flag (wf_jb_evs AL_JSON_WRITER_USENUMBER key true None evs)]
  | JParse ls =>
      XOk (flat_map (fun l => match wline_pres AL_JSON_VERIFIER_USENUMBER l with
                              | POk p => [[x00]; p_raw p; p_integ p; flag (p_new p); flag (p_end p)]
                              | PSkip => [[x01]; []; []; []; []]
                              | PErr => [[x02]; []; []; []; []]
                              end) ls)
  | JVerify key ls => canon_verdict (json_verifier key ls)
  end.

Fixpoint list_bytes_eqb (a b : list bytes) : bool :=
  match a, b with
  | [], [] => true
  | x :: a', y :: b' => bytes_eqb x y && list_bytes_eqb a' b'
  | _, _ => false
  end.

Definition expected_eqb (a b : expected) : bool :=
  match a, b with
  | XOk x, XOk y => list_bytes_eqb x y
  | XErr, XErr => true
  | XPanic, XPanic => true
  | _, _ => false
  end.

Fixpoint mismatches_from (i : nat) (cs : list (op * expected)) : list (nat * expected) :=
  match cs with
  | [] => []
  | (o, e) :: rest =>
      let m := run o in
      if expected_eqb m e then mismatches_from (S i) rest else (i, m) :: mismatches_from (S i) rest
  end.
Definition mismatches := mismatches_from 0.
