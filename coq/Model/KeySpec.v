(** C06 — abstract specification of key rotation and destruction.

    Per key slot (kind, owner) the keystore holds at most one CURRENT key version and a list of
    ROTATED versions, newest first.  Versions are identified by the label ([ord]) given when they
    are generated (the harness uses the ordinal of the generation).  Operations and what each one
    lets a caller observe are below; both keystore formats are proved to refine this machine
    (Proofs/KeystoreV1.v, Proofs/KeystoreV2.v).

    Reading of the property text fixed here:
    - "destroy current" removes the current version and no other; the slot then has NO current
      key until the next generation (no older key is silently promoted to encrypt new data);
    - the key listing shows rotated versions with indices 2,3,… in chronological order (index 2 =
      oldest), index 1 is the current key; "destroy rotated i" removes the version listed as i;
    - [hide]: what "read all keys" offers while the slot has no current key.  The property asks
      for [hide = false] (surviving rotated keys stay offered).  Keystore v2 meets it; keystore v1
      returns an error in that state ([hide = true]) — recorded as a known finding. *)
From Coq Require Import List NArith ZArith Bool Lia.
Import ListNotations.
Local Open Scope N_scope.

Inductive kind := KStoragePair | KStorageSym | KHmac | KPoisonPair | KPoisonSym | KAudit.
Definition slot : Type := kind * N.      (* owner: client number; 0 for keystore-global kinds *)
Definition ord := N.

Definition kind_eqb (a b : kind) : bool :=
  match a, b with
  | KStoragePair, KStoragePair | KStorageSym, KStorageSym | KHmac, KHmac
  | KPoisonPair, KPoisonPair | KPoisonSym, KPoisonSym | KAudit, KAudit => true
  | _, _ => false
  end.
Definition slot_eqb (a b : slot) : bool := kind_eqb (fst a) (fst b) && (snd a =? snd b).

(** operations (shared by the spec and both implementation models).  [ts1], [ts2]: the clock
    readings keystore v1 uses to name the backup of the private / public file (ignored elsewhere). *)
Inductive kop :=
| Gen (s : slot) (o : ord) (ts1 ts2 : N)
| Cur (s : slot)
| All (s : slot)
| ListRot (s : slot)
| DestroyCur (s : slot)
| DestroyRot (s : slot) (i : Z)
| Reset
| Reopen.

(** canonical observations *)
Inductive obs :=
| OKeys (l : list N)   (* keys returned (labels, in the order returned) / indices listed *)
| ONone                (* nothing offered (error, "not found", empty) *)
| ODone                (* a mutator returned (its status is not an observation of the property) *)
| OPanic.

Record sslot := { s_cur : option ord; s_rot : list ord }.
Definition sstate := slot -> sslot.
Definition s_init : sstate := fun _ => {| s_cur := None; s_rot := [] |}.
Definition supd (st : sstate) (s : slot) (v : sslot) : sstate :=
  fun x => if slot_eqb x s then v else st x.

Definition s_all (hide : bool) (e : sslot) : list ord :=
  match s_cur e with
  | Some c => c :: s_rot e
  | None => if hide then [] else s_rot e
  end.

Definition remove_nth {A} (n : nat) (l : list A) : list A := firstn n l ++ skipn (S n) l.

Fixpoint indices_from (i : N) (n : nat) : list N :=
  match n with O => [] | S n' => i :: indices_from (i + 1) n' end.

Definition keys_obs (l : list N) : obs := match l with [] => ONone | _ => OKeys l end.

(** position (newest first) of the rotated key listed with index [i] among [n] rotated keys *)
Definition rot_pos (n : nat) (i : Z) : option nat :=
  if ((2 <=? i)%Z && (i <=? Z.of_nat n + 1)%Z)%bool then Some (n - 1 - Z.to_nat (i - 2))%nat else None.

Definition spec_step (hide : bool) (st : sstate) (o : kop) : sstate * obs :=
  match o with
  | Gen s k _ _ =>
      let e := st s in
      (supd st s {| s_cur := Some k;
                    s_rot := match s_cur e with Some c => c :: s_rot e | None => s_rot e end |}, ODone)
  | Cur s => (st, match s_cur (st s) with Some c => OKeys [c] | None => ONone end)
  | All s => (st, keys_obs (s_all hide (st s)))
  | ListRot s => (st, OKeys (indices_from 2 (length (s_rot (st s)))))
  | DestroyCur s => (supd st s {| s_cur := None; s_rot := s_rot (st s) |}, ODone)
  | DestroyRot s i =>
      let e := st s in
      (match rot_pos (length (s_rot e)) i with
       | Some p => supd st s {| s_cur := s_cur e; s_rot := remove_nth p (s_rot e) |}
       | None => st
       end, ODone)
  | Reset | Reopen => (st, ODone)
  end.

Fixpoint spec_run (hide : bool) (st : sstate) (ops : list kop) : list obs :=
  match ops with
  | [] => []
  | o :: rest => let (st', r) := spec_step hide st o in r :: spec_run hide st' rest
  end.

Fixpoint spec_state_after (hide : bool) (st : sstate) (ops : list kop) : sstate :=
  match ops with
  | [] => st
  | o :: rest => spec_state_after hide (fst (spec_step hide st o)) rest
  end.

(** labels handed to [Gen] along a history *)
Fixpoint gen_labels (ops : list kop) : list ord :=
  match ops with
  | [] => []
  | Gen _ o _ _ :: rest => o :: gen_labels rest
  | _ :: rest => gen_labels rest
  end.

(** clock readings along a history, in the order they are taken *)
Fixpoint clock_readings (ops : list kop) : list N :=
  match ops with
  | [] => []
  | Gen _ _ t1 t2 :: rest => t1 :: t2 :: clock_readings rest
  | _ :: rest => clock_readings rest
  end.

Fixpoint increasing_from (lo : N) (l : list N) : Prop :=
  match l with [] => True | x :: r => lo < x /\ increasing_from x r end.
