(** Keystore v2 export WITHOUT the private bit ("public only": `acra-keys export <id>` without
    --private_keys = keystore.ExportPublicOnly; also keystore.ExportAllKeys alone) — what the mode-dependent
    export of Model/KeyRingV2Ext.v ([decrypt_key_data], [export_key], [export_ring], [export_rings]: exactly
    keystore/v2/keystore/filesystem/export.go decryptKeyData PER STORED FORMAT, decryptAllKeyData per key,
    exportASN1 per ring, exportKeyRings per selection) comes to in that mode, and the PUBLIC VIEW of a ring.

    export.go, mode & ExportPrivateKeys == 0, for each stored format of each key of the ring:
        data.PrivateKey = nil; data.SymmetricKey = nil
        if len(data.PublicKey) == 0 { return ErrNoPublicData }     // aborts the whole ring; exportKeyRings skips it
    A DESTROYED key stays in its ring as a marker with an EMPTY data set: the loop over its formats has
    no iteration, the marker is exported as it is.  The decision is taken per FORMAT, never per key
    ("this key has no format with public data" would also be true of every destroyed marker).
    No proofs here (Proofs/PublicExportV2Ext.v). *)
From Coq Require Import List NArith ZArith Bool.
From Acra Require Import Lib.Bytes Lib.Outcome Crypto.Interface Gen.KsConsts Gen.X18Consts
  Model.KeyAtRest Model.DerV2Ext Model.KeyRingV2Ext.
Import ListNotations.
Local Open Scope Z_scope.

(** the export mode lacks keystore.ExportPrivateKeys *)
Definition public_mode (mode : N) : Prop := (N.land mode EXPORT_PRIVATE_KEYS =? 0)%N = true.

(** ---------------- what decryptKeyData leaves of one stored format ---------------- *)
Definition strip_data (d : kdata) : kdata :=
  {| kd_format := kd_format d; kd_pub := kd_pub d; kd_priv := []; kd_sym := [] |}.
Definition strip_key (k : rkey) : rkey :=
  {| k_seq := k_seq k; k_state := k_state k; k_since := k_since k; k_until := k_until k;
     k_data := map strip_data (k_data k) |}.
Definition strip_ring (r : ring) : ring :=
  {| r_purpose := r_purpose r; r_keys := map strip_key (r_keys r); r_current := r_current r |}.

(** the ring goes into a public-only bundle iff EVERY stored format of EVERY key has public key data
    (a destroyed marker has no format: it never stands in the way) *)
Definition data_has_public (d : kdata) : bool := negb (is_nil (kd_pub d)).
Definition key_all_public (k : rkey) : bool := forallb data_has_public (k_data k).
Definition ring_all_public (r : ring) : bool := forallb key_all_public (r_keys r).

(** what exportKeyRings puts into the bundle for one selected path *)
Definition pub_pick (b : backend) (p : bytes) : list ring :=
  match b_get p b with
  | Some r => if ring_all_public r then [strip_ring r] else []
  | None => []
  end.

(** nothing private: every private / symmetric field of the ring is absent *)
Definition stripped_data (d : kdata) : Prop := kd_priv d = [] /\ kd_sym d = [].
Definition stripped_key (k : rkey) : Prop := Forall stripped_data (k_data k).
Definition stripped_ring (r : ring) : Prop := Forall stripped_key (r_keys r).

(** ---------------- the public view of a ring ---------------- *)
(** keys in ring order with sequence number, state (destroyed markers included), validity period, and
    per stored format the format and the public key; the current-key marker.  No crypto is involved in
    reading it. *)
Record pvdata := { pd_format : Z; pd_pub : bytes }.
Record pvkey := { pk_seq : Z; pk_state : Z; pk_since : bytes; pk_until : bytes; pk_data : list pvdata }.
Record pvring := { pr_keys : list pvkey; pr_current : Z }.

Definition pub_data (d : kdata) : pvdata := {| pd_format := kd_format d; pd_pub := kd_pub d |}.
Definition pub_key (k : rkey) : pvkey :=
  {| pk_seq := k_seq k; pk_state := k_state k; pk_since := k_since k; pk_until := k_until k;
     pk_data := map pub_data (k_data k) |}.
Definition pub_ring (r : ring) : pvring := {| pr_keys := map pub_key (r_keys r); pr_current := r_current r |}.
Definition store_pub_view (b : backend) (path : bytes) : option pvring := option_map pub_ring (b_get path b).
(** the ring stored at [path] has no private / symmetric field at all *)
Definition stored_stripped (b : backend) (path : bytes) : Prop :=
  exists r, b_get path b = Some r /\ stripped_ring r.

(** the getters of api.KeyRing that a holder of public data may use, as functions of the public view
    (the same code as [g_current] ... [g_public] of Model/KeyRingV2Ext.v reads, see
    Proofs/PublicExportV2Ext.v [public_getters_of_pub_view]) *)
Definition pv_key (v : pvring) (seq : Z) : option pvkey := find (fun k => pk_seq k =? seq) (rev (pr_keys v)).
Definition pg_current (v : pvring) : res Z := if pr_current v =? NOKEY then Err E_NO_CURRENT else Ok (pr_current v).
Definition pg_all_keys (v : pvring) : list Z := rev (map pk_seq (pr_keys v)).
Definition pg_state (v : pvring) (seq : Z) : res Z :=
  match pv_key v seq with Some k => Ok (pk_state k) | None => Err E_KEY_NOT_EXIST end.
Definition pg_since (v : pvring) (seq : Z) : res bytes :=
  match pv_key v seq with Some k => Ok (pk_since k) | None => Err E_KEY_NOT_EXIST end.
Definition pg_until (v : pvring) (seq : Z) : res bytes :=
  match pv_key v seq with Some k => Ok (pk_until k) | None => Err E_KEY_NOT_EXIST end.
Definition pg_formats (v : pvring) (seq : Z) : res (list Z) :=
  match pv_key v seq with Some k => Ok (map pd_format (pk_data k)) | None => Err E_KEY_NOT_EXIST end.
Definition pg_public (v : pvring) (seq format : Z) : res bytes :=
  match pv_key v seq with
  | None => Err E_KEY_NOT_EXIST
  | Some k =>
      if pk_state k =? STATE_DESTROYED then Err E_KEY_DESTROYED else
      match find (fun d => pd_format d =? format) (pk_data k) with
      | Some d => if is_nil (pd_pub d) then Err E_INVALID_FORMAT else Ok (pd_pub d)
      | None => Err E_FORMAT_MISSING
      end
  end.

(** ---------------- histories ---------------- *)
Definition rop_path (o : rop) : bytes :=
  match o with RAddKey p _ _ _ => p | RSetCurrent p _ => p | RSetState p _ _ => p | RDestroy p _ => p end.
(** the operation adds key-pair data only (or adds nothing) *)
Definition keypair_op (o : rop) : Prop :=
  match o with
  | RAddKey _ _ _ ds => Forall (fun d => kd_format d = FORMAT_KEYPAIR) ds
  | _ => True
  end.
(** ring [p] is a key-pair ring of the history: whatever else the history does (other rings of any kind;
    rotation, state changes, DESTRUCTION of any key of [p]), every key ever added to [p] is a key pair *)
Definition keypair_ring (p : bytes) (ops : list rop) : Prop := Forall (fun o => rop_path o = p -> keypair_op o) ops.
