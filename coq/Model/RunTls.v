(** Replay of observations made through the real TLSDecryptServiceWrapper (spy service) on the model. *)
From Acra Require Import Lib.Bytes Lib.Outcome Gen.TlsWrapper Model.TlsWrapper.

Inductive expected := XOk (vals : list bytes) | XErr | XPanic.
Inductive op := TlsCall (rpc : bytes) (conn : option bytes) (forged : bytes).

Definition run (o : op) : expected :=
  match o with
  | TlsCall rpc conn forged =>
      match tls_seen rpc conn forged with Ok id => XOk [id] | Err _ => XErr | Panic => XPanic end
  end.

Fixpoint list_bytes_eqb (a b : list bytes) : bool :=
  match a, b with
  | [], [] => true
  | x :: a', y :: b' => bytes_eqb x y && list_bytes_eqb a' b'
  | _, _ => false
  end.

Definition expected_eqb (a b : expected) : bool :=
  match a, b with
  | XOk x, XOk y => list_bytes_eqb x y
  | XErr, XErr => true
  | XPanic, XPanic => true
  | _, _ => false
  end.

Fixpoint mismatches_from (i : nat) (cs : list (op * expected)) : list (nat * expected) :=
  match cs with
  | [] => []
  | (o, e) :: rest =>
      let m := run o in
      if expected_eqb m e then mismatches_from (S i) rest else (i, m) :: mismatches_from (S i) rest
  end.
