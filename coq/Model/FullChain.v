(** Executable model of the COMPLETE transparent write chain and read chain a proxy of acra installs
    (decryptor/postgresql/proxy.go and decryptor/mysql/proxy.go, proxyFactory.New; both build the same lists):

      write  (encryptor.ChainDataEncryptor.EncryptWithClientID, every encryptor gets the previous one's output;
              the first error ends the chain):
        [pseudonymization.TokenEncryptor]            only when some column of the schema is tokenized
        crypto.EncryptHandler(registryHandler)
        [hmac.SearchableDataEncryptor(registryHandler, registryHandler)]   only when some column is searchable
        [masking.DataEncryptor(ChainDataEncryptor[registryHandler])]       only when some column is masked
        crypto.ReEncryptHandler

      read   (base.ColumnDecryptionObserver.OnColumnDecryption, subscribers in this order, PostgreSQL):
        PgSQLDataDecoderProcessor
        [pseudonymization.TokenProcessor]            only when some column is tokenized
        [hmac.Processor]                             only when some column is searchable
        OldContainerDetectorWrapper(EnvelopeDetector[wrapper; DecryptHandler(processor)])
              processor = masking.Processor(registryHandler) when some column is masked, else registryHandler
        [hmac.Processor.Verifier()]                  only when some column is searchable
        PgSQLDataEncoderProcessor
      (MySQL: the same subscribers between its own decoder and encoder.)

    This file only COMPOSES the models of the stages:
      Model/Envelope.v     RegistryHandler.EncryptWithClientID / Process, DecryptHandler
      Model/EnvelopeOld.v  OldContainerDetectorWrapper.OnColumn, ReEncryptHandler
      Model/Search.v       SearchableDataEncryptor.EncryptWithClientID
      Model/SearchExt.v    hmac.Processor (strip) / Verifier, EnvelopeMatcher
      Model/Masking.v      masking.DataEncryptor / masking.Processor
      Model/Bytea.v        bytea text codecs of the PostgreSQL decoder / encoder
    The settings in scope are NOT tokenized: TokenEncryptor and TokenProcessor hand such a value on unchanged
    (IsTokenized() = false); no poison-record callback storage is configured.  No proofs here. *)
From Acra Require Import Lib.Bytes Lib.Outcome Lib.GoSlice Lib.Sha256 Crypto.Interface Gen.Consts Gen.MaskConsts
  Model.Envelope Model.EnvelopeOld Model.Masking Model.Search Model.SearchExt Model.Bytea Model.LegacyChain.

(** which optional stages proxyFactory.New installed (TableSchemaStore.GetGlobalSettingsMask) *)
Record fc_schema := { fc_tok : bool; fc_search : bool; fc_mask : bool }.

(** the part of config.ColumnEncryptionSetting the chains read *)
Record fc_setting := {
  fs_env_ab : bool;          (* GetCryptoEnvelope() == acrablock *)
  fs_reenc : bool;           (* ShouldReEncryptAcraStructToAcraBlock() *)
  fs_searchable : bool;      (* IsSearchable() *)
  fs_mask : mask_setting     (* GetMaskingPattern() etc.; empty pattern = not masked *)
}.

Definition fs_id (st : fc_setting) : byte :=
  if fs_env_ab st then ENVELOPE_ID_ACRABLOCK else ENVELOPE_ID_ACRASTRUCT.

(* BasicColumnEncryptionSetting.OnlyEncryption(): no masking / tokenization / search flag *)
Definition fs_only_enc (st : fc_setting) : bool := negb (fs_searchable st) && is_nil (ms_pattern (fs_mask st)).

Section FullChain.
Variable C : crypto.

(** * write chain, stage by stage *)
(* crypto.EncryptHandler.EncryptWithClientID *)
Definition fc_stage_encrypt (st : fc_setting) (ks : keyset) (tape : list bytes) (data : bytes) : res bytes :=
  if fs_only_enc st then encrypt_with_handler C (fs_id st) ks tape data else Ok data.

(* hmac.SearchableDataEncryptor.EncryptWithClientID *)
Definition fc_stage_search (st : fc_setting) (ks : keyset) (tape : list bytes) (data : bytes) : res bytes :=
  if fs_searchable st then searchable_encrypt C (fs_id st) ks tape data else Ok data.

(* masking.DataEncryptor.EncryptWithClientID (an empty pattern hands the value on) *)
Definition fc_stage_mask (st : fc_setting) (ks : keyset) (tape : list bytes) (data : bytes) : res bytes :=
  mask_encryptor C (fs_id st) ks tape (fs_mask st) data.

(* crypto.ReEncryptHandler.EncryptWithClientID *)
Definition fc_stage_reenc (st : fc_setting) (ks : keyset) (tape : list bytes) (data : bytes) : res bytes :=
  reencrypt C (fs_env_ab st) (fs_only_enc st) (fs_reenc st) ks tape data.

(** ChainDataEncryptor.EncryptWithClientID.  [tape] = the crypto/rand draws of the whole call in draw order; every
    stage is offered the same tape: at most one stage of a call creates an envelope (Proofs/FullChain.v,
    [fc_write_plain] / [fc_write_searchable] / [fc_write_masked]) *)
Definition fc_write (sch : fc_schema) (st : fc_setting) (ks : keyset) (tape : list bytes) (data : bytes) : res bytes :=
  do d1 <- fc_stage_encrypt st ks tape data;
  do d2 <- (if fc_search sch then fc_stage_search st ks tape d1 else Ok d1);
  do d3 <- (if fc_mask sch then fc_stage_mask st ks tape d2 else Ok d2);
  fc_stage_reenc st ks tape d3.

(** * read chain *)
(* decryptorDataProcessor *)
Definition fc_processor (sch : fc_schema) (st : option fc_setting) (ks : keyset) : bytes -> res bytes :=
  if fc_mask sch then legacy_proc C (option_map fs_mask st) ks else registry_process C ks.

(* callbacks of the EnvelopeDetector behind the wrapper *)
Definition fc_cbs (sch : fc_schema) (st : option fc_setting) (ks : keyset) : list (bytes -> res bytes) :=
  [wrapper_cb; decrypt_handler (fc_processor sch st ks)].

(* the container detector subscriber: (output, marked decrypted) *)
Definition fc_detector (sch : fc_schema) (st : option fc_setting) (ks : keyset) (data : bytes) : res (bytes * bool) :=
  on_column_old (fc_cbs sch st ks) data.

(** the subscribers between the database's decoder and encoder:
    [TokenProcessor] ; [hmac.Processor] ; detector ; [hmac.Processor.Verifier()] :
    (delivered bytes, IsDecryptedFromContext) *)
Definition fc_read_core (sch : fc_schema) (st : option fc_setting) (ks : keyset) (col : bytes) : res (bytes * bool) :=
  if fc_search sch then snd (hp_column envelope_match (fc_detector sch st ks) ks None col)
  else fc_detector sch st ks col.

(** PgProxy.onColumnDecryption for a column whose setting has no data type: decoder ; core ; encoder *)
Definition fc_read_pg (sch : fc_schema) (st : option fc_setting) (ks : keyset) (binary : bool) (data : bytes)
  : res bytes :=
  let run (d : bytes) (encoded : option bytes) : res bytes :=
    match fc_read_core sch st ks d with
    | Ok (out, decrypted) =>
        Ok (if is_nil out then out
            else if decrypted then (if binary then out else pg_encode_hex out)
            else match encoded with Some e => e | None => out end)
    | Err e => Err e
    | Panic => Panic
    end in
  match decode_escaped data with
  | Ok d => run d (Some data)
  | Err e => if N.eqb e E_OCTAL then run data None else Err e
  | Panic => Panic
  end.

End FullChain.
