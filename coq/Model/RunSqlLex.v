(** Replay of the domain c13lex (token ADJACENCY): real String() and the real Tokenizer on trees and lexeme pairs,
    replayed on the text printer, the tokenizer model and the decidable adjacency condition of C13_lex.
    [run] answers [XOk []] iff the model agrees with what the Go code produced. *)
From Acra Require Import Lib.Bytes Lib.Outcome Gen.Prec.
From Acra Require Export Gen.SqlWords Model.SqlStmt Model.SqlStmtParse Model.SqlStmtText Model.RunSqlStmt
  Proofs.SqlLexRoundtripDefs.

Inductive op :=
| LAdj (pg : bool) (t : stmt) (ts : option (list tok)) (txt : list bytes) (same must : bool)
    (* txt = String(t) in chunks, ts = Tokenizer(String(t)) (None: lexical error), same = Parse(String(t)) is
       structurally t on the REAL parser, must = the tree was built by the real parser from text, round-trips there
       and has no named bind variables: the adjacency condition is expected to HOLD (keeps the replay non-vacuous) *)
| LLex (pg : bool) (cs : list (list bytes * option (list tok))). (* the real Tokenizer on a batch of lexeme pairs *)

Definition otoks_eqb := opt_eqb (list_eqb tok_eqb).

Definition run (o : op) : expected :=
  match o with
  | LAdj pg t ts txt same must =>
      let ps := pp_stmt t in
      let adj := adj_ok pg ps in
      agree (bytes_eqb (stext pg t) (concat txt)                      (* text printer = String(t), byte for byte *)
             && otoks_eqb (lex pg (concat txt)) ts                    (* model tokenizer = real Tokenizer on that text *)
             && implb adj (otoks_eqb ts (Some (print_stmt pg t)))     (* C13_lex_adjacent_pieces_lex_back on the REAL tokens *)
             && implb (wf_stmt pg t) (sepd pg true ps KEnd)           (* C13_lex_separator_discipline_partial, executed *)
             && implb (wf_stmt pg t && adj) same                      (* end to end on the REAL parser *)
             && implb must adj)
  | LLex pg cs => agree (forallb (fun c => otoks_eqb (lex pg (concat (fst c))) (snd c)) cs)
  end.

Fixpoint mismatches_from (i : nat) (cs : list (op * expected)) : list (nat * expected) :=
  match cs with
  | [] => []
  | (o, e) :: rest =>
      let m := run o in
      if expected_eqb m e then mismatches_from (S i) rest else (i, m) :: mismatches_from (S i) rest
  end.
Definition mismatches := mismatches_from 0.
