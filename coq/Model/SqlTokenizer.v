(** C14 (SQL side): CHECKED model of the hand-written SQL tokenizer, sqlparser/token.go
    (Tokenizer.Scan and everything it calls) for string tokenizers (InStream == nil: NewStringTokenizer*,
    the only constructors acra's parser entry points use).  Every index / slice expression of the Go code
    goes through [gindex] / [gslice] (Lib/GoSlice.v) and therefore can yield [Panic]; the explicit
    [panic("unexpected EOF")] of consumeNext is [Panic] too.  The cursor bookkeeping ([lastChar], [Position],
    [bufPos]) is explicit; [bufSize] is [len buf] (set once by the constructor, never changed when
    InStream == nil).  The dialect is a parameter of the state; the default dialect (global [defaultDialect],
    used for the nested tokenizer of a MySQL version comment) is a second one.

    The model follows the code AFTER the two `fix:` patches of this work package
    (patches/fix_mysql_comment_version_only.diff: ExtractMysqlComment with IndexFunc == -1;
     patches/fix_mysql_comment_recursion.diff: Scan is a loop around scanToken instead of a recursion).

    Tables (token numbers, keywords, quote handlers, stringTokenType, unicode.IsDigit / IsSpace) come from
    Gen/SqlKeywords.v; SQLDecodeMap from Gen/Prec.v (shared with the C13 model).  No proofs here. *)
From Coq Require Import List NArith ZArith Bool.
From Acra Require Import Lib.Bytes Lib.Outcome Lib.GoSlice Gen.Prec Gen.SqlKeywords.
Import ListNotations.
Local Open Scope Z_scope.

Inductive dialect := DMySQL | DMySQLAnsi | DPostgres.

(** *Tokenizer (the fields Scan reads or writes) *)
Inductive tkn : Type := Tkn {
  t_buf : bytes;            (* buf (immutable) *)
  t_bufpos : Z;             (* bufPos *)
  t_pos : Z;                (* Position *)
  t_last : N;               (* lastChar: 0 (nothing read / NUL), a byte, or EOF_CHAR *)
  t_pvi : Z;                (* posVarIndex *)
  t_feof : bool;            (* ForceEOF *)
  t_multi : bool;           (* multi *)
  t_dia : dialect;          (* dialect *)
  t_ddef : dialect;         (* defaultDialect (package variable) *)
  t_special : option tkn    (* specialComment *)
}.

Definition fresh (d ddef : dialect) (sql : bytes) : tkn :=
  Tkn sql 0 0 0%N 0 false false d ddef None.

Definition with_cur (t : tkn) (bp p : Z) (l : N) : tkn :=
  Tkn (t_buf t) bp p l (t_pvi t) (t_feof t) (t_multi t) (t_dia t) (t_ddef t) (t_special t).
Definition set_special (t : tkn) (s : option tkn) : tkn :=
  Tkn (t_buf t) (t_bufpos t) (t_pos t) (t_last t) (t_pvi t) (t_feof t) (t_multi t) (t_dia t) (t_ddef t) s.
Definition set_pvi (t : tkn) (v : Z) : tkn :=
  Tkn (t_buf t) (t_bufpos t) (t_pos t) (t_last t) v (t_feof t) (t_multi t) (t_dia t) (t_ddef t) (t_special t).
Definition set_feof (t : tkn) (b : bool) : tkn :=
  Tkn (t_buf t) (t_bufpos t) (t_pos t) (t_last t) (t_pvi t) b (t_multi t) (t_dia t) (t_ddef t) (t_special t).
Definition set_multi (t : tkn) (b : bool) : tkn :=
  Tkn (t_buf t) (t_bufpos t) (t_pos t) (t_last t) (t_pvi t) (t_feof t) b (t_dia t) (t_ddef t) (t_special t).

(** * characters ([uint16]: a byte or eofChar) *)
Definition c_eof : N := EOF_CHAR.
Definition is_eof (c : N) : bool := (c =? c_eof)%N.
Definition byte_of (c : N) : byte := n2b c.          (* byte(ch): low 8 bits *)

Definition is_letter (c : N) : bool :=
  ((97 <=? c) && (c <=? 122) || (65 <=? c) && (c <=? 90) || (c =? 95) || (c =? 64))%N.
Definition is_digit (c : N) : bool := ((48 <=? c) && (c <=? 57))%N.
Definition digit_val (c : N) : N :=
  (if (48 <=? c) && (c <=? 57) then c - 48
   else if (97 <=? c) && (c <=? 102) then c - 97 + 10
   else if (65 <=? c) && (c <=? 70) then c - 65 + 10
   else 16)%N.
Definition is_blank (c : N) : bool := ((c =? 32) || (c =? 10) || (c =? 13) || (c =? 9))%N.

Definition mem_n (c : N) (l : list N) : bool := existsb (N.eqb c) l.
(** QuoteHandler().IsIdentifierQuote(byte(ch)) etc. *)
Definition ident_quote (d : dialect) (c : N) : bool :=
  mem_n (c mod 256)%N
    match d with DMySQL => IDENT_QUOTES_MYSQL | DMySQLAnsi => IDENT_QUOTES_MYSQL_ANSI | DPostgres => IDENT_QUOTES_POSTGRES end.
Definition string_quote (d : dialect) (c : N) : bool :=
  mem_n (c mod 256)%N
    match d with DMySQL => STRING_QUOTES_MYSQL | DMySQLAnsi => STRING_QUOTES_MYSQL_ANSI | DPostgres => STRING_QUOTES_POSTGRES end.
Definition get_ident_quote (d : dialect) : byte :=
  match d with DMySQL => IDENT_QUOTE_MYSQL | DMySQLAnsi => IDENT_QUOTE_MYSQL_ANSI | DPostgres => IDENT_QUOTE_POSTGRES end.
Definition is_postgres (d : dialect) : bool := match d with DPostgres => true | _ => false end.
Definition is_carat (d : dialect) (c : N) : bool := ((c =? 46)%N || ident_quote d c || string_quote d c).

Fixpoint assoc_nz (m : list (N * Z)) (c : N) : Z :=
  match m with [] => 0 | (a, v) :: m' => if (a =? c)%N then v else assoc_nz m' c end.
Definition string_token_type (c : N) : Z := assoc_nz STRING_TOKEN_TYPE c.   (* map lookup: 0 when absent *)

Fixpoint kw_lookup (m : list (bytes * Z)) (s : bytes) : option Z :=
  match m with [] => None | (k, v) :: m' => if bytes_eqb k s then Some v else kw_lookup m' s end.

(** bytes.ToLower on ASCII text (identifier bytes are ASCII: letters, digits, '_', '@', '.', quotes) *)
Definition lower_byte (b : byte) : byte :=
  let n := b2n b in if ((65 <=? n) && (n <=? 90))%N then n2b (n + 32) else b.
Definition to_lower (s : bytes) : bytes := map lower_byte s.

(** * next / consumeNext *)
Definition next (t : tkn) : res tkn :=
  if len (t_buf t) <=? t_bufpos t then
    (if is_eof (t_last t) then Ok t else Ok (with_cur t (t_bufpos t) (t_pos t + 1) c_eof))
  else
    do b <- gindex (t_bufpos t) (t_buf t);
    Ok (with_cur t (t_bufpos t + 1) (t_pos t + 1) (b2n b)).

Definition consume_next (t : tkn) (acc : bytes) : res (tkn * bytes) :=
  if is_eof (t_last t) then Panic   (* panic("unexpected EOF") *)
  else do t' <- next t; Ok (t', acc ++ [byte_of (t_last t)]).

(** [for cond(lastChar) { buffer.WriteByte(byte(lastChar)); next() }] (skipBlank / skipStatement: buffer unused) *)
Fixpoint scan_while (fuel : nat) (cond : N -> bool) (t : tkn) (acc : bytes) : res (tkn * bytes) :=
  match fuel with
  | O => Err E_OUT_OF_FUEL
  | S f => if cond (t_last t) then do t' <- next t; scan_while f cond t' (acc ++ [byte_of (t_last t)])
           else Ok (t, acc)
  end.
(** [for cond(lastChar) { consumeNext(buffer) }] *)
Fixpoint consume_while (fuel : nat) (cond : N -> bool) (t : tkn) (acc : bytes) : res (tkn * bytes) :=
  match fuel with
  | O => Err E_OUT_OF_FUEL
  | S f => if cond (t_last t) then do (t', acc') <- consume_next t acc; consume_while f cond t' acc'
           else Ok (t, acc)
  end.

Definition skip_blank (lf : nat) (t : tkn) : res tkn :=
  do (t', _) <- scan_while lf is_blank t []; Ok t'.
Definition skip_statement (lf : nat) (t : tkn) : res tkn :=
  do (t', _) <- scan_while lf (fun c => negb (c =? 59)%N && negb (is_eof c)) t []; Ok t'.

Definition scan_mantissa (lf : nat) (base : N) (t : tkn) (acc : bytes) : res (tkn * bytes) :=
  consume_while lf (fun c => (digit_val c <? base)%N) t acc.

Definition tokres := (tkn * Z * bytes)%type.

(** * scanIdentifier *)
Definition x_dual : bytes := [x64; x75; x61; x6c].
Definition scan_identifier (lf : nat) (t : tkn) (first : byte) (sysvar : bool) : res tokres :=
  do (t', b) <- scan_while lf (fun c => is_letter c || is_digit c || (sysvar && is_carat (t_dia t) c)) t [first];
  let lowered := to_lower b in
  match kw_lookup KEYWORDS lowered with
  | Some id => Ok (t', id, lowered)
  | None => if bytes_eqb lowered x_dual then Ok (t', TK_ID, lowered) else Ok (t', TK_ID, b)
  end.

(** * scanHex / scanBitLiteral *)
Definition scan_hex (lf : nat) (t : tkn) : res tokres :=
  do (t1, b) <- scan_mantissa lf 16 t [];
  if negb (t_last t1 =? 39)%N then Ok (t1, TK_LEX_ERROR, b)
  else do t2 <- next t1;
       if negb (len b mod 2 =? 0) then Ok (t2, TK_LEX_ERROR, b) else Ok (t2, TK_HEX, b).
Definition scan_bit_literal (lf : nat) (t : tkn) : res tokres :=
  do (t1, b) <- scan_mantissa lf 2 t [];
  if negb (t_last t1 =? 39)%N then Ok (t1, TK_LEX_ERROR, b)
  else do t2 <- next t1; Ok (t2, TK_BIT_LITERAL, b).

(** * scanLiteralIdentifier ([qs] = quoteSeen) *)
Fixpoint lit_ident_loop (fuel : nat) (t : tkn) (acc : bytes) (qs : option N)
  : res (tkn * bytes * option N * bool) :=      (* bool: returned from inside the loop (premature EOF) *)
  match fuel with
  | O => Err E_OUT_OF_FUEL
  | S f =>
      match qs with
      | Some _ =>
          if negb (ident_quote (t_dia t) (t_last t)) then Ok (t, acc, qs, false)
          else do t' <- next t; lit_ident_loop f t' (acc ++ [get_ident_quote (t_dia t)]) None
      | None =>
          if ident_quote (t_dia t) (t_last t) then do t' <- next t; lit_ident_loop f t' acc (Some (t_last t))
          else if is_eof (t_last t) then Ok (t, acc, qs, true)
          else do t' <- next t; lit_ident_loop f t' (acc ++ [byte_of (t_last t)]) None
      end
  end.
Definition scan_literal_identifier (lf : nat) (t : tkn) : res tokres :=
  do (t', b, qs, eof) <- lit_ident_loop lf t [] None;
  if eof then Ok (t', TK_LEX_ERROR, b)
  else if len b =? 0 then Ok (t', TK_LEX_ERROR, b)
  else match qs with
       | Some q => if is_postgres (t_dia t) then Ok (t', string_token_type q, b) else Ok (t', TK_ID, b)
       | None => Ok (t', TK_ID, b)
       end.

(** * scanBindVar *)
Definition scan_bind_var (lf : nat) (t : tkn) : res tokres :=
  let b0 := [byte_of (t_last t)] in
  do t1 <- next t;
  do (t2, tok, b1) <- (if (t_last t1 =? 58)%N
                        then do t2 <- next t1; Ok (t2, TK_LIST_ARG, b0 ++ [byte_of (t_last t1)])
                        else Ok (t1, TK_VALUE_ARG, b0));
  if negb (is_letter (t_last t2)) then Ok (t2, TK_LEX_ERROR, b1)
  else do (t3, b) <- scan_while lf (fun c => is_letter c || is_digit c || (c =? 46)%N) t2 b1;
       Ok (t3, tok, b).

(** * scanNumber *)
Definition scan_exponent (lf : nat) (t : tkn) (tok : Z) (b : bytes) : res tokres :=
  if ((t_last t =? 101) || (t_last t =? 69))%N then
    do (t1, b1) <- consume_next t b;
    do (t2, b2) <- (if ((t_last t1 =? 43) || (t_last t1 =? 45))%N then consume_next t1 b1 else Ok (t1, b1));
    do (t3, b3) <- scan_mantissa lf 10 t2 b2;
    Ok (t3, TK_FLOAT, b3)
  else Ok (t, tok, b).
Definition number_exit (r : tokres) : tokres :=
  let '(t, tok, b) := r in if is_letter (t_last t) then (t, TK_LEX_ERROR, b) else (t, tok, b).
Definition scan_number (lf : nat) (t : tkn) (seen_point : bool) : res tokres :=
  if seen_point then
    do (t1, b1) <- scan_mantissa lf 10 t [x2e];
    do r <- scan_exponent lf t1 TK_FLOAT b1; Ok (number_exit r)
  else
    (* 0x construct *)
    do (t1, b1, hex) <-
      (if (t_last t =? 48)%N then
         do (t1, b1) <- consume_next t [];
         if ((t_last t1 =? 120) || (t_last t1 =? 88))%N then
           do (t2, b2) <- consume_next t1 b1;
           do (t3, b3) <- scan_mantissa lf 16 t2 b2; Ok (t3, b3, true)
         else Ok (t1, b1, false)
       else Ok (t, [], false));
    if hex : bool then Ok (number_exit (t1, TK_HEXNUM, b1))
    else
      do (t2, b2) <- scan_mantissa lf 10 t1 b1;
      do (t3, tok, b3) <-
        (if (t_last t2 =? 46)%N then
           do (t3, b3) <- consume_next t2 b2;
           do (t4, b4) <- scan_mantissa lf 10 t3 b3; Ok (t4, TK_FLOAT, b4)
         else Ok (t2, TK_INTEGRAL, b2));
      do r <- scan_exponent lf t3 tok b3; Ok (number_exit r).

Definition scan_dollar_parameter (lf : nat) (t : tkn) : res tokres :=
  do (t', tok, v) <- scan_number lf t false;
  if tok =? TK_INTEGRAL then Ok (t', TK_DOLLAR_SIGN, x24 :: v) else Ok (t', TK_LEX_ERROR, []).

(** * scanString *)
(** [for ; bufPos < bufSize; bufPos++ { ch = uint16(buf[bufPos]); if ch == delim || ch == '\\' { break } }] *)
Fixpoint scan_ahead (fuel : nat) (buf : bytes) (delim : N) (bp : Z) (ch : N) : res (Z * N) :=
  match fuel with
  | O => Err E_OUT_OF_FUEL
  | S f =>
      if bp <? len buf then
        do b <- gindex bp buf;
        let c := b2n b in
        if ((c =? delim) || (c =? 92))%N then Ok (bp, c) else scan_ahead f buf delim (bp + 1) c
      else Ok (bp, ch)
  end.

Fixpoint assoc_b (m : list (byte * byte)) (c : byte) : option byte :=
  match m with [] => None | (a, b) :: m' => if byte_eqb a c then Some b else assoc_b m' c end.
Definition sql_decode (c : N) : N :=    (* SQLDecodeMap[byte(c)], DontEscape => c itself *)
  match assoc_b SQL_DECODE_MAP (byte_of c) with Some o => b2n o | None => c end.

(** first half of one turn of scanString's loop ([ch := lastChar] is not EOF): a plain character is copied with
    everything up to the next delimiter / backslash.  [inl]: the buffer ended, [continue]; [inr (t, acc, ch)]:
    go on with the delimiter or backslash [ch] *)
Definition scan_string_plain (delim : N) (t : tkn) (acc : bytes) : res (tkn * bytes + tkn * bytes * N) :=
  let ch := t_last t in
  if negb (ch =? delim)%N && negb (ch =? 92)%N then
    let acc1 := acc ++ [byte_of ch] in
    let start := t_bufpos t in
    do (bp, ch') <- scan_ahead (S (length (t_buf t))) (t_buf t) delim start ch;
    do seg <- gslice start bp (t_buf t);
    let acc2 := acc1 ++ seg in
    let t1 := with_cur t bp (t_pos t + (bp - start)) (t_last t) in
    if len (t_buf t) <=? bp then do t2 <- next t1; Ok (inl (t2, acc2))     (* continue *)
    else Ok (inr (with_cur t1 (bp + 1) (t_pos t1 + 1) (t_last t1), acc2, ch'))
  else Ok (inr (t, acc, ch)).

(** second half of one turn: [ch] (delimiter or backslash) has been reached; [k] = the next turn of the loop *)
Definition scan_string_special (k : tkn -> bytes -> res tokres) (delim : N) (typ : Z) (index : Z)
    (t1 : tkn) (acc2 : bytes) (ch : N) : res tokres :=
  do t2 <- next t1;          (* read one past the delim or escape character *)
  if (ch =? 92)%N then
    if is_eof (t_last t2) then Ok (t2, TK_LEX_ERROR, acc2)   (* string terminates mid escape *)
    else if (index =? 0) && ((t_last t2 =? 120) || (t_last t2 =? 88))%N then
      do t3 <- next t2;
      k t3 (acc2 ++ [byte_of ch; byte_of (t_last t2)])
    else
      do t3 <- next t2;
      k t3 (acc2 ++ [byte_of (sql_decode (t_last t2))])
  else if (ch =? delim)%N && negb (t_last t2 =? delim)%N then Ok (t2, typ, acc2)
  else
    do t3 <- next t2;
    k t3 (acc2 ++ [byte_of ch]).

Fixpoint scan_string_loop (fuel : nat) (delim : N) (typ : Z) (t : tkn) (acc : bytes) (index : Z) : res tokres :=
  match fuel with
  | O => Err E_OUT_OF_FUEL
  | S f =>
      let index := index + 1 in
      if is_eof (t_last t) then Ok (t, TK_LEX_ERROR, acc)      (* unterminated string *)
      else
        do r <- scan_string_plain delim t acc;
        match r with
        | inl (t2, acc2) => scan_string_loop f delim typ t2 acc2 index
        | inr (t1, acc2, ch) =>
            scan_string_special (fun t3 acc3 => scan_string_loop f delim typ t3 acc3 index) delim typ index t1 acc2 ch
        end
  end.
Definition scan_string (lf : nat) (t : tkn) (delim : N) (typ : Z) : res tokres :=
  scan_string_loop lf delim typ t [] (-1).

(** * comments *)
Fixpoint comment1_loop (fuel : nat) (t : tkn) (acc : bytes) : res (tkn * bytes) :=
  match fuel with
  | O => Err E_OUT_OF_FUEL
  | S f =>
      if is_eof (t_last t) then Ok (t, acc)
      else if (t_last t =? 10)%N then consume_next t acc
      else do (t', acc') <- consume_next t acc; comment1_loop f t' acc'
  end.
Definition scan_comment_type1 (lf : nat) (t : tkn) (prefix : bytes) : res tokres :=
  do (t', b) <- comment1_loop lf t prefix; Ok (t', TK_COMMENT, b).

(** the loop shared by scanCommentType2 and scanMySQLSpecificComment; false = EOF inside the comment *)
Fixpoint comment2_loop (fuel : nat) (t : tkn) (acc : bytes) : res (tkn * bytes * bool) :=
  match fuel with
  | O => Err E_OUT_OF_FUEL
  | S f =>
      if (t_last t =? 42)%N then
        do (t1, acc1) <- consume_next t acc;
        if (t_last t1 =? 47)%N then do (t2, acc2) <- consume_next t1 acc1; Ok (t2, acc2, true)
        else comment2_loop f t1 acc1
      else if is_eof (t_last t) then Ok (t, acc, false)
      else do (t1, acc1) <- consume_next t acc; comment2_loop f t1 acc1
  end.
Definition x_slash_star : bytes := [x2f; x2a].
Definition scan_comment_type2 (lf : nat) (t : tkn) : res tokres :=
  do (t', b, closed) <- comment2_loop lf t x_slash_star;
  if closed : bool then Ok (t', TK_COMMENT, b) else Ok (t', TK_LEX_ERROR, b).

(** ** ExtractMysqlComment: utf8.DecodeRuneInString / DecodeLastRuneInString, strings.IndexFunc / TrimFunc *)
Definition RUNE_ERROR : Z := 65533.
Definition bz (b : byte) : Z := Z.of_N (b2n b).
Definition utf8_decode (s : bytes) : Z * nat :=
  match s with
  | [] => (RUNE_ERROR, 0%nat)
  | b0 :: r =>
      let s0 := bz b0 in
      if s0 <? 128 then (s0, 1%nat)
      else if (s0 <? 194) || (244 <? s0) then (RUNE_ERROR, 1%nat)
      else
        let sz := if s0 <? 224 then 2%nat else if s0 <? 240 then 3%nat else 4%nat in
        let lo := if s0 =? 224 then 160 else if s0 =? 240 then 144 else 128 in
        let hi := if s0 =? 237 then 159 else if s0 =? 244 then 143 else 191 in
        let cont c := (128 <=? c) && (c <=? 191) in
        if (length s <? sz)%nat then (RUNE_ERROR, 1%nat)
        else match r with
             | b1 :: r1 =>
                 let s1 := bz b1 in
                 if (s1 <? lo) || (hi <? s1) then (RUNE_ERROR, 1%nat)
                 else if (sz <=? 2)%nat then (Z.land s0 31 * 64 + Z.land s1 63, 2%nat)
                 else match r1 with
                      | b2 :: r2 =>
                          let s2 := bz b2 in
                          if negb (cont s2) then (RUNE_ERROR, 1%nat)
                          else if (sz <=? 3)%nat then (Z.land s0 15 * 4096 + Z.land s1 63 * 64 + Z.land s2 63, 3%nat)
                          else match r2 with
                               | b3 :: _ =>
                                   let s3 := bz b3 in
                                   if negb (cont s3) then (RUNE_ERROR, 1%nat)
                                   else (Z.land s0 7 * 262144 + Z.land s1 63 * 4096 + Z.land s2 63 * 64 + Z.land s3 63, 4%nat)
                               | [] => (RUNE_ERROR, 1%nat)
                               end
                      | [] => (RUNE_ERROR, 1%nat)
                      end
             | [] => (RUNE_ERROR, 1%nat)
             end
  end.

Definition rune_start (b : byte) : bool := negb (Z.land (bz b) 192 =? 128).
(** the backward search of DecodeLastRuneInString: [for start--; start >= lim; start-- { if RuneStart(s[start]) { break } }] *)
Fixpoint find_start (k : nat) (s : bytes) (start lim : Z) : Z :=
  match k with
  | O => start
  | S k' => if start <? lim then start
            else if rune_start (nth (Z.to_nat start) s x00) then start
            else find_start k' s (start - 1) lim
  end.
Definition utf8_decode_last (s : bytes) : Z * nat :=
  match length s with
  | O => (RUNE_ERROR, 0%nat)
  | S e1 =>
      let e := len s in
      let r := bz (nth e1 s x00) in
      if r <? 128 then (r, 1%nat)
      else
        let lim := Z.max 0 (e - 4) in
        let start := Z.max 0 (find_start 5 s (e - 2) lim) in
        let '(r, size) := utf8_decode (skipn (Z.to_nat start) s) in
        if start + Z.of_nat size =? e then (r, size) else (RUNE_ERROR, 1%nat)
  end.

Fixpoint in_ranges (rs : list (Z * Z)) (r : Z) : bool :=
  match rs with [] => false | (lo, hi) :: rs' => ((lo <=? r) && (r <=? hi)) || in_ranges rs' r end.
Definition uni_is_digit (r : Z) : bool := in_ranges UNI_DIGIT r.
Definition uni_is_space (r : Z) : bool := in_ranges UNI_SPACE r.

(** strings.IndexFunc(sql, func(c) { digitCount++; return !unicode.IsDigit(c) || digitCount == 6 }): byte index or -1 *)
Fixpoint version_end (fuel : nat) (s : bytes) (i cnt : Z) : Z :=
  match fuel with
  | O => -1
  | S f =>
      match s with
      | [] => -1
      | _ => let '(r, w) := utf8_decode s in
             let cnt' := cnt + 1 in
             if negb (uni_is_digit r) || (cnt' =? 6) then i
             else version_end f (skipn w s) (i + Z.of_nat w) cnt'
      end
  end.
(** strings.TrimLeftFunc(s, unicode.IsSpace) *)
Fixpoint trim_left (fuel : nat) (s : bytes) : bytes :=
  match fuel with
  | O => []
  | S f => match s with
           | [] => []
           | _ => let '(r, w) := utf8_decode s in if uni_is_space r then trim_left f (skipn w s) else s
           end
  end.
(** lastIndexFunc(s, unicode.IsSpace, false): start index of the last rune that is not a space, or -1 *)
Fixpoint last_non_space (fuel : nat) (s : bytes) (i : nat) : Z :=
  match fuel with
  | O => -1
  | S f => match i with
           | O => -1
           | _ => let '(r, size) := utf8_decode_last (firstn i s) in
                  let i' := (i - size)%nat in
                  if negb (uni_is_space r) then Z.of_nat i' else last_non_space f s i'
           end
  end.
Definition trim_right (s : bytes) : bytes :=
  let i := last_non_space (S (length s)) s (length s) in
  if (0 <=? i) && (128 <=? bz (nth (Z.to_nat i) s x00)) then
    let '(_, wid) := utf8_decode (skipn (Z.to_nat i) s) in firstn (Z.to_nat i + wid) s
  else firstn (Z.to_nat (i + 1)) s.
Definition trim_space (s : bytes) : bytes := trim_right (trim_left (S (length s)) s).

(** ExtractMysqlComment(sql) -> innerSQL (the version string is dropped by the caller) *)
Definition extract_mysql_comment (sql : bytes) : res bytes :=
  do body <- gslice 3 (len sql - 2) sql;
  let idx := version_end (S (length body)) body 0 0 in
  if idx <? 0 then Ok []                      (* fix: version-only / empty comment *)
  else do _version <- gslice 0 idx body;
       do rest <- gslice_from idx body;
       Ok (trim_space rest).

(** ExtractMysqlComment as it was BEFORE patches/fix_mysql_comment_version_only.diff (no test for IndexFunc == -1):
    kept for the refutation witness C14_tok_extract_mysql_comment_old_refuted *)
Definition extract_mysql_comment_old (sql : bytes) : res bytes :=
  do body <- gslice 3 (len sql - 2) sql;
  let idx := version_end (S (length body)) body 0 0 in
  do _version <- gslice 0 idx body;
  do rest <- gslice_from idx body;
  Ok (trim_space rest).

(** * Scan *)
Definition TK_RESCAN : Z := -1.     (* rescanToken (patches/fix_mysql_comment_recursion) *)

(** fmt.Fprintf(buf, ":v%d", posVarIndex) *)
Fixpoint dec_digits (fuel : nat) (n : N) (acc : bytes) : bytes :=
  match fuel with
  | O => acc
  | S f => let acc' := n2b (48 + n mod 10) :: acc in
           if (n / 10 =? 0)%N then acc' else dec_digits f (n / 10) acc'
  end.
(** fuel: a number has no more decimal digits than bits *)
Definition dec_fuel (n : N) : nat := S (N.to_nat (N.log2 n)).
Definition dec_z (z : Z) : bytes :=
  if z <? 0 then x2d :: dec_digits (dec_fuel (Z.to_N (- z))) (Z.to_N (- z)) []
  else dec_digits (dec_fuel (Z.to_N z)) (Z.to_N z) [].
Definition pos_var (i : Z) : bytes := [x3a; x76] ++ dec_z i.

Definition x_mysql_comment_prefix : bytes := [x2f; x2a; x21].   (* "/*!" *)

(** scanMySQLSpecificComment (lastChar == '!' on entry) *)
Definition scan_mysql_specific_comment (lf : nat) (t : tkn) : res tokres :=
  do t0 <- next t;
  do (t1, b, closed) <- comment2_loop lf t0 x_mysql_comment_prefix;
  if closed : bool then
    do sql <- extract_mysql_comment b;
    Ok (set_special t1 (Some (fresh (t_ddef t1) (t_ddef t1) sql)), TK_RESCAN, [])
  else Ok (t1, TK_LEX_ERROR, b).

Definition tokc (c : N) : Z := Z.of_N c.    (* int(ch) *)

(** scanToken without its first block (the nested tokenizer of a version comment): [t_special t = None] *)
Definition scan_body (lf : nat) (t : tkn) : res tokres :=
  do t <- (if (t_last t =? 0)%N then next t else Ok t);
  if t_feof t then do t' <- skip_statement lf t; Ok (t', 0, [])
  else
  do t <- skip_blank lf t;
  let ch := t_last t in
  let d := t_dia t in
  if is_letter ch then
    do t1 <- next t;
    if ((ch =? 88) || (ch =? 120))%N && (t_last t1 =? 39)%N then do t2 <- next t1; scan_hex lf t2
    else if ((ch =? 66) || (ch =? 98))%N && (t_last t1 =? 39)%N then do t2 <- next t1; scan_bit_literal lf t2
    else if ((ch =? 69) || (ch =? 101))%N && (t_last t1 =? 39)%N then
      do t2 <- next t1; scan_string lf t2 39%N TK_PG_ESCAPE_STRING
    else scan_identifier lf t1 (byte_of ch) ((ch =? 64)%N && (t_last t1 =? 64)%N)
  else if is_digit ch then scan_number lf t false
  else if (ch =? 58)%N then scan_bind_var lf t
  else if (ch =? 59)%N && t_multi t then Ok (t, 0, [])
  else
    do t1 <- next t;
    let l1 := t_last t1 in
    if is_eof ch then Ok (t1, 0, [])
    else if mem_n ch [61; 44; 59; 40; 41; 43; 42; 37; 94; 126]%N then Ok (t1, tokc ch, [])
    else if (ch =? 38)%N then
      if (l1 =? 38)%N then do t2 <- next t1; Ok (t2, TK_AND, []) else Ok (t1, tokc ch, [])
    else if (ch =? 124)%N then
      if (l1 =? 124)%N then do t2 <- next t1; Ok (t2, TK_OR, []) else Ok (t1, tokc ch, [])
    else if (ch =? 63)%N then
      let i := t_pvi t1 + 1 in Ok (set_pvi t1 i, TK_VALUE_ARG, pos_var i)
    else if (ch =? 46)%N then
      if is_digit l1 then scan_number lf t1 true else Ok (t1, tokc ch, [])
    else if (ch =? 47)%N then
      if (l1 =? 47)%N then do t2 <- next t1; scan_comment_type1 lf t2 [x2f; x2f]
      else if (l1 =? 42)%N then
        do t2 <- next t1;
        if (t_last t2 =? 33)%N then scan_mysql_specific_comment lf t2 else scan_comment_type2 lf t2
      else Ok (t1, tokc ch, [])
    else if (ch =? 35)%N then scan_comment_type1 lf t1 [x23]
    else if (ch =? 45)%N then
      if (l1 =? 45)%N then do t2 <- next t1; scan_comment_type1 lf t2 [x2d; x2d]
      else if (l1 =? 62)%N then
        do t2 <- next t1;
        if (t_last t2 =? 62)%N then do t3 <- next t2; Ok (t3, TK_JSON_UNQUOTE_EXTRACT_OP, [])
        else Ok (t2, TK_JSON_EXTRACT_OP, [])
      else Ok (t1, tokc ch, [])
    else if (ch =? 60)%N then
      if (l1 =? 62)%N then do t2 <- next t1; Ok (t2, TK_NE, [])
      else if (l1 =? 60)%N then do t2 <- next t1; Ok (t2, TK_SHIFT_LEFT, [])
      else if (l1 =? 61)%N then
        do t2 <- next t1;
        if (t_last t2 =? 62)%N then do t3 <- next t2; Ok (t3, TK_NULL_SAFE_EQUAL, []) else Ok (t2, TK_LE, [])
      else Ok (t1, tokc ch, [])
    else if (ch =? 62)%N then
      if (l1 =? 61)%N then do t2 <- next t1; Ok (t2, TK_GE, [])
      else if (l1 =? 62)%N then do t2 <- next t1; Ok (t2, TK_SHIFT_RIGHT, [])
      else Ok (t1, tokc ch, [])
    else if (ch =? 33)%N then
      if (l1 =? 61)%N then do t2 <- next t1; Ok (t2, TK_NE, []) else Ok (t1, tokc ch, [])
    else if (ch =? 36)%N then scan_dollar_parameter lf t1
    else if ident_quote d ch then scan_literal_identifier lf t1
    else if string_quote d ch then scan_string lf t1 ch (string_token_type ch)
    else Ok (t1, TK_LEX_ERROR, [byte_of ch]).

Definition loop_fuel (t : tkn) : nat := S (S (length (t_buf t))).

(** Scan: [for { typ, val := scanToken(); if typ != rescanToken { return } }]; scanToken = the nested
    tokenizer's Scan first (its token is returned unless it is 0, in which case specialComment = nil),
    then [scan_body].  [fuel] bounds the number of loop turns plus nested calls. *)
Fixpoint scan (fuel : nat) (t : tkn) : res tokres :=
  match fuel with
  | O => Err E_OUT_OF_FUEL
  | S f =>
      do r <- match t_special t with
              | Some s =>
                  do (s', tok, val) <- scan f s;
                  if negb (tok =? 0) then Ok (inl (set_special t (Some s'), tok, val))
                  else Ok (inr (set_special t None))
              | None => Ok (inr t)
              end;
      match r with
      | inl out => Ok out
      | inr t0 =>
          do (t1, tok, val) <- scan_body (loop_fuel t0) t0;
          if tok =? TK_RESCAN then scan f t1 else Ok (t1, tok, val)
      end
  end.

(** total size of a tokenizer and its nested ones: enough fuel for [scan] *)
Fixpoint depth_size (t : tkn) : nat :=
  match t with
  | Tkn b _ _ _ _ _ _ _ _ sp => S (S (length b)) + match sp with Some s => S (depth_size s) | None => O end
  end.
Definition scan_fuel (t : tkn) : nat := S (depth_size t).

Definition Scan (t : tkn) : res tokres := scan (scan_fuel t) t.

(** * the other state changes a parser makes on a Tokenizer *)
(** Tokenizer.Error: re-sync to the next statement *)
Definition error_resync (t : tkn) : res tkn :=
  if negb (t_last t =? 59)%N then skip_statement (loop_fuel t) t else Ok t.
(** Tokenizer.reset *)
Definition reset (t : tkn) : tkn :=
  Tkn (t_buf t) (t_bufpos t) (t_pos t) (t_last t) 0 false (t_multi t) (t_dia t) (t_ddef t) None.

(** all tokens up to the first 0, at most [calls] calls of Scan *)
Fixpoint tokenize (calls : nat) (t : tkn) : res (list (Z * bytes)) :=
  match calls with
  | O => Err E_OUT_OF_FUEL
  | S c =>
      do (t', tok, val) <- Scan t;
      if tok =? 0 then Ok [] else do rest <- tokenize c t'; Ok ((tok, val) :: rest)
  end.
