(** C17, serializability: the handle machine of Model/KeystoreWrite.v made generic in the operation
    alphabet, so that READERS (OpenKeyRing, ListKeys: sections under the SHARED lock) run next to the
    writers, and the vocabulary of the serializability theorem (Proofs/KeystoreSerial.v):
    locked sections, serial executions, commit / acquisition order of a schedule.

    [xstep]/[xrun] are [gstep]/[grun] of Model/KeystoreWrite.v with the operation type [Op], the local
    state [Loc] of a handle (its key ring object) and the result type [Res] as parameters; for
    [Op := hop] they coincide with them (Proofs/KeystoreSerial.v, [to_x_step]).

    Anchors: keystore/v2/keystore/filesystem/keyStoreLoad.go (readKeyRing/writeKeyRing/openKeyRing),
    keystore/v2/keystore/filesystem/keyStore.go OpenKeyRing (read-only: RLock, Get, RUnlock),
    keystore/v2/keystore/keyStore.go ListKeys.  No proofs in this file. *)
From Acra Require Import Lib.Bytes Lib.Outcome Gen.KswConsts Model.KeystoreWrite.
Local Open Scope Z_scope.

Section XMachine.
  Variables (Op Loc Res : Type).
  (** the program of one operation, given the local state of the handle (in acra: the key ring
      object with its possibly STALE snapshot): everything the operation computes before its first
      back-end call is computed from [Loc] alone *)
  Variable oprog : Loc -> Op -> prog (Res * Loc).

  Record xhandle := mk_xh {
    xh_loc : Loc;
    xh_todo : list Op;
    xh_cur : option (prog (Res * Loc));
    xh_out : list Res
  }.

  Fixpoint xsettle (fuel : nat) (h : xhandle) : xhandle :=
    match fuel with
    | O => h
    | S fuel' =>
        match xh_cur h with
        | Some (Done (r, s)) => xsettle fuel' (mk_xh s (xh_todo h) None (r :: xh_out h))
        | Some (Call _ _) => h
        | None =>
            match xh_todo h with
            | [] => h
            | o :: rest => xsettle fuel' (mk_xh (xh_loc h) rest (Some (oprog (xh_loc h) o)) (xh_out h))
            end
        end
    end.
  Definition xsettled (h : xhandle) : xhandle := xsettle (2 * length (xh_todo h) + 2) h.

  Definition xhead_call (h : xhandle) : option bcall :=
    match xh_cur h with Some (Call c _) => Some c | _ => None end.

  Record xstate := mk_x { x_st : storage; x_lock : lockst; x_hs : list xhandle }.

  (** one back-end call of handle [i] ([None]: finished or blocked) = [gstep] *)
  Definition xstep (g : xstate) (i : nat) : option xstate :=
    match nth_error (x_hs g) i with
    | None => None
    | Some h0 =>
        let h := xsettled h0 in
        match xh_cur h with
        | Some (Call c k) =>
            match lock_step i c (x_lock g) with
            | None => None
            | Some l' =>
                let (v, st') := do_call c (x_st g) in
                let h' := xsettled (mk_xh (xh_loc h) (xh_todo h) (Some (k v)) (xh_out h)) in
                Some (mk_x st' l' (set_nth i h' (x_hs g)))
            end
        | _ => None
        end
    end.

  Fixpoint xrun (g : xstate) (sched : list nat) : xstate :=
    match sched with
    | [] => g
    | i :: rest => match xstep g i with Some g' => xrun g' rest | None => xrun g rest end
    end.

  (** the call handle [i] makes when it is granted its next step *)
  Definition xnext_call (g : xstate) (i : nat) : option bcall :=
    match nth_error (x_hs g) i with Some h => xhead_call (xsettled h) | None => None end.

  (** ** locked sections *)

  (** handle [i] ALONE makes [n] back-end calls and still holds a lock after each of them:
      a started section that is not finished *)
  Fixpoint xpart (n : nat) (g : xstate) (i : nat) : option xstate :=
    match n with
    | O => Some g
    | S m =>
        match xstep g i with
        | None => None
        | Some g' => match x_lock g' with LFree => None | _ => xpart m g' i end
        end
    end.

  (** handle [i] ALONE runs until the lock is free again: one whole locked section (= [run_section]) *)
  Fixpoint xrun_section (fuel : nat) (g : xstate) (i : nat) : option xstate :=
    match fuel with
    | O => None
    | S f =>
        match xstep g i with
        | None => None
        | Some g' => match x_lock g' with LFree => Some g' | _ => xrun_section f g' i end
        end
    end.

  (** from a state in which nobody holds a lock, handle [i] runs one whole locked section
      (Lock ... Unlock or RLock ... RUnlock) and nobody else makes a call meanwhile *)
  Definition xsection (g : xstate) (i : nat) (g' : xstate) : Prop :=
    x_lock g = LFree /\ exists fuel, xrun_section fuel g i = Some g'.

  (** a SERIAL execution: whole sections one after the other, in the order [ser] *)
  Inductive xserial : xstate -> list nat -> xstate -> Prop :=
  | xserial_nil g : xserial g [] g
  | xserial_cons g i g1 rest g' : xsection g i g1 -> xserial g1 rest g' -> xserial g (i :: rest) g'.

  (** ** the order of a schedule *)
  Definition is_release (c : option bcall) : option bool :=
    match c with Some BUnlock => Some true | Some BRUnlock => Some false | _ => None end.
  Definition is_acquire (c : option bcall) : option bool :=
    match c with Some BLock => Some true | Some BRLock => Some false | _ => None end.

  (** the completed sections of a run, in the order of their RELEASE (handle, exclusive?) *)
  Fixpoint xcommits (g : xstate) (sched : list nat) : list (nat * bool) :=
    match sched with
    | [] => []
    | i :: rest =>
        match xstep g i with
        | Some g' =>
            match is_release (xnext_call g i) with
            | Some e => (i, e) :: xcommits g' rest
            | None => xcommits g' rest
            end
        | None => xcommits g rest
        end
    end.

  (** the sections of a run, completed or not, in the order in which they ACQUIRED their lock *)
  Fixpoint xacquires (g : xstate) (sched : list nat) : list (nat * bool) :=
    match sched with
    | [] => []
    | i :: rest =>
        match xstep g i with
        | Some g' =>
            match is_acquire (xnext_call g i) with
            | Some e => (i, e) :: xacquires g' rest
            | None => xacquires g' rest
            end
        | None => xacquires g rest
        end
    end.

  Definition xholds (j : nat) (hs : list nat) : bool := existsb (Nat.eqb j) hs.

  (** [xrel g a]: the concurrent state [g] is the serial state [a] (no lock held, every completed
      section executed) plus the started, unfinished sections of the handles that hold a lock in
      [g]:
      - nobody holds a lock: [g] IS [a];
      - handle [i] holds the exclusive lock: [g] is [a] after [n] calls of [i] alone;
      - handles [hs] hold the shared lock: the storage is the one of [a]; a handle that is not a
        holder is as in [a]; holder [j] is as after [n] calls of [j] alone from [a] (which leave
        the storage of [a] untouched). *)
  Definition xrel (g a : xstate) : Prop :=
    x_lock a = LFree /\
    match x_lock g with
    | LFree => g = a
    | LExcl i => exists n, xpart n a i = Some g
    | LShared hs =>
        x_st g = x_st a /\
        forall j,
          if xholds j hs
          then exists n b, xpart (S n) a j = Some b /\ x_lock b = LShared [j] /\ x_st b = x_st a /\
                           nth_error (x_hs b) j = nth_error (x_hs g) j
          else nth_error (x_hs g) j = nth_error (x_hs a) j
    end.

  (** the schedule in which handle [i] makes [n] calls in a row, for each (i, n) *)
  Definition xblocks (l : list (nat * nat)) : list nat := flat_map (fun p => repeat (fst p) (snd p)) l.
End XMachine.

Arguments mk_xh {Op Loc Res}.
Arguments xh_loc {Op Loc Res}.
Arguments xh_todo {Op Loc Res}.
Arguments xh_cur {Op Loc Res}.
Arguments xh_out {Op Loc Res}.
Arguments mk_x {Op Loc Res}.
Arguments x_st {Op Loc Res}.
Arguments x_lock {Op Loc Res}.
Arguments x_hs {Op Loc Res}.
Arguments xsettle {Op Loc Res}.
Arguments xsettled {Op Loc Res}.
Arguments xhead_call {Op Loc Res}.
Arguments xstep {Op Loc Res}.
Arguments xrun {Op Loc Res}.
Arguments xnext_call {Op Loc Res}.
Arguments xpart {Op Loc Res}.
Arguments xrun_section {Op Loc Res}.
Arguments xsection {Op Loc Res}.
Arguments xserial {Op Loc Res}.
Arguments xcommits {Op Loc Res}.
Arguments xacquires {Op Loc Res}.
Arguments xrel {Op Loc Res}.

(** * The extended operation alphabet: writers and readers *)
Inductive xop :=
| XHop (o : hop)          (* everything a writer handle runs (Model/KeystoreWrite.v) *)
| XOpenRO (rid : N)       (* object := OpenKeyRing rid (read-only open: RLock, Get, RUnlock) *)
| XListKeys.              (* ListKeys: ListKeyRings, then OpenKeyRing of every ring: shared sections *)

Inductive xres :=
| XZ (r : res Z)
| XKeys (r : res (list (N * Z))).

Definition xop_prog (hr : option hring) (o : xop) : prog (xres * option hring) :=
  match o with
  | XHop o => exe r <- hop_prog hr o; Done (XZ (fst r), snd r)
  | XOpenRO rid =>
      exe r <- open_key_ring rid;
      Done (match fst r with Ok _ => (XZ (Ok 0), Some (snd r)) | e => (XZ (err_of e), hr) end)
  | XListKeys => exe r <- list_keys; Done (XKeys r, hr)
  end.

Definition xhandle' := xhandle xop (option hring) xres.
Definition xstate' := xstate xop (option hring) xres.
Definition xfresh (p : list xop) : xhandle' := mk_xh None p None [].

(** the machine of Model/KeystoreWrite.v seen as an instance ([Op := hop]) *)
Definition to_xh (h : handle) : xhandle hop (option hring) (res Z) :=
  mk_xh (hd_ring h) (hd_todo h) (hd_cur h) (hd_out h).
Definition to_x (g : gstate) : xstate hop (option hring) (res Z) :=
  mk_x (g_st g) (g_lock g) (map to_xh (g_hs g)).

(** serial executions of the machine of Model/KeystoreWrite.v, with its own [run_section] *)
Definition gsection (g : gstate) (i : nat) (g' : gstate) : Prop :=
  g_lock g = LFree /\ exists fuel, run_section fuel g i = Some g'.
Inductive gserial : gstate -> list nat -> gstate -> Prop :=
| gserial_nil g : gserial g [] g
| gserial_cons g i g1 rest g' : gsection g i g1 -> gserial g1 rest g' -> gserial g (i :: rest) g'.

(** commit / acquisition order of a schedule of that machine *)
Definition gcommits (g : gstate) (sched : list nat) : list (nat * bool) := xcommits hop_prog (to_x g) sched.
Definition gacquires (g : gstate) (sched : list nat) : list (nat * bool) := xacquires hop_prog (to_x g) sched.
