(** Replay of implementation observations of the statement analysis on the model (domain c04col).
    Trees travel as one byte string each (Model.CensorTree.decode); a configuration is
    [(table, columns, [(encrypted column, setting number)])].

    [OpWrite d cfg t]   the REAL QueryDataEncryptor.OnQuery (encrypting instance) on the statement whose tree is t:
                        XOk [status; literals handed to the encryptor (path, setting) in call order;
                             placeholder settings registered; wf t;
                             SPEC: literal positions of configured columns; SPEC: placeholders of configured columns]
                        the first three are the observation, the last two are the specification evaluated by the
                        model, expected as the GENERATOR knows them (it knows which column every value it wrote
                        belongs to)
    [OpBind d cfg t n]  the REAL OnBind with n bound values:
                        XOk [status (0 / 1 + error); parameters encrypted (number, setting); wf t; SPEC placeholders]
    [OpRead d cfg t]    the REAL settings-only instance: XOk [status (0 items / 1 error / 2 nothing computed);
                        per-result-column settings (setting, table, column, alias); wf t;
                        SPEC: setting of every result column, or "unknown number of columns"]
    XPanic = the call panicked. *)
From Coq Require Import String.
From Coq Require Import List Bool NArith ZArith Arith.
From Acra Require Import Lib.Bytes Lib.Outcome.
From Acra Require Export Model.ColumnResolveSpec.
Import ListNotations.

Inductive expected := XOk (vals : list bytes) | XErr | XPanic.

Inductive op :=
| OpWrite (d : dialect) (cfg : rcfg) (t : bytes)
| OpBind (d : dialect) (cfg : rcfg) (t : bytes) (n : nat)
| OpRead (d : dialect) (cfg : rcfg) (t : bytes).

(** * Encodings *)

Definition enc_nat (n : nat) : byte := n2b (N.of_nat n).
Definition enc_sid (s : N) : bytes := be_enc 2 s.
Definition enc_z (z : Z) : bytes := be_enc 8 (Z.to_N (z mod 2 ^ 64)%Z).
Definition enc_str (s : bytes) : bytes := enc_nat (length s) :: s.
Definition flagb (b : bool) : bytes := [if b then x01 else x00].

Definition enc_lit (ps : list nat * N) : bytes := enc_nat (length (fst ps)) :: map enc_nat (fst ps) ++ enc_sid (snd ps).
Definition enc_zn (zs : Z * N) : bytes := enc_z (fst zs) ++ enc_sid (snd zs).

(** lexicographic order on paths, insertion sort *)
Fixpoint path_leb (a b : list nat) : bool :=
  match a, b with
  | [], _ => true
  | _ :: _, [] => false
  | x :: a', y :: b' => if Nat.ltb x y then true else if Nat.ltb y x then false else path_leb a' b'
  end.
Fixpoint pinsert (x : list nat * N) (l : list (list nat * N)) : list (list nat * N) :=
  match l with
  | [] => [x]
  | y :: tl => if path_leb (fst x) (fst y) then x :: l else y :: pinsert x tl
  end.
Definition psort (l : list (list nat * N)) : list (list nat * N) := fold_right pinsert [] l.

(** the events of the write path: literals in call order, the placeholder map as a sorted list (a later
    assignment to the same number replaces the earlier one) *)
Definition lits_of (evs : list sel) : list (list nat * N) :=
  flat_map (fun e => match e with SLit p s => [(p, s)] | SBind _ _ => [] end) evs.
Definition binds_of (evs : list sel) : list (Z * N) :=
  zsort (rev (flat_map (fun e => match e with SBind i s => [(i, s)] | SLit _ _ => [] end) evs)).

Definition enc_item (it : option item) : bytes :=
  match it with
  | None => [x00]
  | Some (sid, table, col, alias) => x01 :: enc_sid sid ++ enc_str table ++ enc_str col ++ enc_str alias
  end.

Definition enc_spec_item (it : option (N * bytes * bytes)) : bytes :=
  match it with
  | None => [x00]
  | Some (sid, table, col) => x01 :: enc_sid sid ++ enc_str table ++ enc_str col
  end.

Definition enc_spec_result (r : option (list (option (N * bytes * bytes)))) : bytes :=
  match r with
  | None => [xff]
  | Some l => flat_map enc_spec_item l
  end.

(** * Well-shaped trees: what the parser produces and the totality theorem assumes - the Go types of the fields
      the analysis walks without a check (assignment lists hold UpdateExpr nodes), no nil where the Go code
      dereferences without a check (UpdateExpr.Name, AliasedTableExpr.Expr), SELECT with a non-empty FROM *)
Definition nil_or (k : kind) (t : tree) : bool := is_nil t || isk k t.

Fixpoint wf (t : tree) : bool :=
  let '(T k _ cs) := t in
  forallb wf cs &&
  match k with
  | K_UpdateExpr => negb (is_nil (nth (fnum K_UpdateExpr "Name") cs tnil))
  | K_AliasedTableExpr => negb (is_nil (nth (fnum K_AliasedTableExpr "Expr") cs tnil))
  | K_Select => nonempty (tkids (nth (fnum K_Select "From") cs tnil))
  | K_UpdateExprs | K_OnDup => forallb (isk K_UpdateExpr) cs
  | K_Insert => nil_or K_OnDup (nth (fnum K_Insert "OnDup") cs tnil)
  | K_Update => nil_or K_UpdateExprs (nth (fnum K_Update "Exprs") cs tnil)
  | K_nil => negb (nonempty cs)
  | _ => true
  end.

Definition run (o : op) : expected :=
  match o with
  | OpWrite d cfg b =>
      match decode b with
      | None => XErr
      | Some t =>
          match impl_write d cfg t with
          | Ok evs => XOk [[x00]; flat_map enc_lit (lits_of evs); flat_map enc_zn (binds_of evs); flagb (wf t);
                           flat_map enc_lit (psort (spec_lits d cfg t)); flat_map enc_zn (zsort (spec_phs d cfg t))]
          | Err e => XOk [[x01; n2b e]]
          | Panic => XPanic
          end
      end
  | OpBind d cfg b n =>
      match decode b with
      | None => XErr
      | Some t =>
          match impl_bind d cfg t n with
          | Ok l => XOk [[x00]; flat_map enc_zn l; flagb (wf t); flat_map enc_zn (zsort (spec_phs d cfg t))]
          | Err e => XOk [[x01; n2b e]; []; flagb (wf t); flat_map enc_zn (zsort (spec_phs d cfg t))]
          | Panic => XPanic
          end
      end
  | OpRead d cfg b =>
      match decode b with
      | None => XErr
      | Some t =>
          match impl_read d cfg t with
          | Ok (RItems l) => XOk [[x00]; flat_map enc_item l; flagb (wf t); enc_spec_result (spec_result d cfg t)]
          | Ok RNone => XOk [[x02]; []; flagb (wf t); enc_spec_result (spec_result d cfg t)]
          | Err _ => XOk [[x01]; []; flagb (wf t); enc_spec_result (spec_result d cfg t)]
          | Panic => XPanic
          end
      end
  end.

Fixpoint list_bytes_eqb (a b : list bytes) : bool :=
  match a, b with
  | [], [] => true
  | x :: a', y :: b' => bytes_eqb x y && list_bytes_eqb a' b'
  | _, _ => false
  end.

Definition expected_eqb (a b : expected) : bool :=
  match a, b with
  | XOk x, XOk y => list_bytes_eqb x y
  | XErr, XErr => true
  | XPanic, XPanic => true
  | _, _ => false
  end.

Fixpoint mismatches_from (i : nat) (cs : list (op * expected)) : list (nat * expected) :=
  match cs with
  | [] => []
  | (o, e) :: rest =>
      let m := run o in
      if expected_eqb m e then mismatches_from (S i) rest else (i, m) :: mismatches_from (S i) rest
  end.
