(** MySQL wire format, second part (C12 / C14): CHECKED model (Lib/GoSlice.v: every Go slice / index
    expression keeps its run-time check) of
    - decryptor/mysql/packet.go: 3-byte length + sequence id framing (readPacket incl. payloads of
      2^24-1 bytes and more, Dump, SetData/updatePacketSize, replaceQuery), IsOK / IsEOF / IsErr /
      isResultSetRowsEnd, GetBindParameters / SetParameters (COM_STMT_EXECUTE parameter block);
    - decryptor/mysql/response_proxy.go: processBinaryDataRow / extractData (binary protocol rows);
    - decryptor/mysql/column_field.go: ParseResultField / ColumnDescription.Dump.
    The functions that were repaired take a flag [g]: [g = true] is the code as it is now (with the
    added length checks), [g = false] the code as found (the checks answer "fine"), kept to state
    what the fixes removed ([…_old_refuted] in Proofs/MysqlWireExt.v).
    [maxp] is MaxPayloadLen (Gen.WireMysqlConsts.MY_MAX_PAYLOAD = 2^24-1); it is a parameter so that the
    multi-packet theorems hold for every value >= 1 and can be run on small instances.
    No proofs here. *)
From Acra Require Import Lib.Bytes Lib.Outcome Lib.GoSlice Gen.WireMysqlConsts Model.MysqlWire.
Local Open Scope Z_scope.

Definition E_INVALID_LEN : N := 22%N.   (* "invalid payload length" *)
Definition E_UNKNOWN_TYPE : N := 23%N.  (* "found unknown FieldType/Type in MySQL response packet" *)
Definition E_CALLBACK : N := 24%N.      (* error returned by a subscriber / by BoundValue.Encode *)

Definition lenN (s : bytes) : N := N.of_nat (length s).

(** * 1. Packet framing (packet.go) *)

(** header = 4 bytes (NewPacket: make([]byte, PacketHeaderSize)); data = payload *)
Record packet := mk_packet { p_header : bytes; p_data : bytes }.

(** GetPacketPayloadLength / GetSequenceNumber (the header always has 4 bytes) *)
Definition hdr_len (h : bytes) : N := le_dec (firstn 3 h).
Definition hdr_seq (h : bytes) : byte := nth 3 h x00.

(** io.ReadFull on the rest of a byte stream: the next n bytes or an error *)
Definition read_full (n : N) (s : bytes) : res (bytes * bytes) :=
  if (lenN s <? n)%N then Err E_EOF else Ok (firstn (N.to_nat n) s, skipn (N.to_nat n) s).

(** continuation packets of a payload of [maxp] bytes or more (a length of 0 is the mandatory last
    part of a payload that is a multiple of [maxp]); fuel = length of the stream + 1 *)
Fixpoint read_cont (maxp : N) (fuel : nat) (s : bytes) : res (bytes * bytes) :=
  match fuel with
  | O => Err E_OUT_OF_FUEL
  | S f =>
      do (h, s1) <- read_full MY_HEADER_SIZE s;
      let n := hdr_len h in
      do (part, s2) <- read_full n s1;
      if (n <? maxp)%N then Ok (part, s2)
      else do (more, s3) <- read_cont maxp f s2; Ok (part ++ more, s3)
  end.

(** ReadPacket: the packet keeps the header of the FIRST part *)
Definition read_packet (maxp : N) (s : bytes) : res (packet * bytes) :=
  do (h, s1) <- read_full MY_HEADER_SIZE s;
  let n := hdr_len h in
  if (n <? 1)%N then Err E_INVALID_LEN else
  do (d, s2) <- read_full n s1;
  if (n <? maxp)%N then Ok (mk_packet h d, s2)
  else do (more, s3) <- read_cont maxp (S (length s2)) s2; Ok (mk_packet h (d ++ more), s3).

(** Dump: a payload below [maxp] goes out behind the header as it is; a larger one is split again,
    sequence ids counting up (a byte: wraps) from the one in the header *)
Fixpoint dump_split (maxp : N) (fuel : nat) (seq : N) (d : bytes) : bytes :=
  match fuel with
  | O => []
  | S f =>
      let n := N.min (lenN d) maxp in
      le_enc 3 n ++ [n2b seq] ++ firstn (N.to_nat n) d ++
      (if (n <? maxp)%N then [] else dump_split maxp f (seq + 1)%N (skipn (N.to_nat n) d))
  end.
Definition dump (maxp : N) (p : packet) : bytes :=
  if (lenN (p_data p) <? maxp)%N then p_header p ++ p_data p
  else dump_split maxp (S (length (p_data p))) (b2n (hdr_seq (p_header p))) (p_data p).

(** the code as found: readPacket read every header into packet.header (the last one stayed) and
    refused a length of 0 also for the last part; Dump = header ++ data *)
Fixpoint read_packet_old (maxp : N) (fuel : nat) (s : bytes) : res (packet * bytes) :=
  match fuel with
  | O => Err E_OUT_OF_FUEL
  | S f =>
      do (h, s1) <- read_full MY_HEADER_SIZE s;
      let n := hdr_len h in
      if (n <? 1)%N then Err E_INVALID_LEN else
      do (d, s2) <- read_full n s1;
      if (n <? maxp)%N then Ok (mk_packet h d, s2)
      else do (p, s3) <- read_packet_old maxp f s2; Ok (mk_packet (p_header p) (d ++ p_data p), s3)
  end.
Definition dump_old (p : packet) : bytes := p_header p ++ p_data p.

(** updatePacketSize / SetData: the three length bytes are byte(n), byte(n>>8), byte(n>>16) *)
Definition update_size (h : bytes) (n : N) : bytes := le_enc 3 n ++ skipn 3 h.
Definition set_data (p : packet) (d : bytes) : packet := mk_packet (update_size (p_header p) (lenN d)) d.

(** replaceQuery: both branches leave data[:1] ++ newQuery; data[1:] is evaluated first *)
Definition replace_query (p : packet) (q : bytes) : res packet :=
  do _ <- gslice_from 1 (p_data p);
  do c <- gslice_to 1 (p_data p);
  Ok (mk_packet (update_size (p_header p) (lenN q + 1)%N) (c ++ q)).

(** IsOK / IsEOF / IsErr / isResultSetRowsEnd: data[0] is indexed first *)
Definition first_byte (p : packet) : res N := do b <- gindex 0 (p_data p); Ok (b2n b).
Definition is_ok (p : packet) : res bool :=
  do b <- first_byte p; Ok ((b =? MY_OK)%N && (7 <=? hdr_len (p_header p))%N).
Definition is_eof (p : packet) : res bool :=
  do b <- first_byte p;
  Ok (((b =? MY_OK)%N && (7 <? hdr_len (p_header p))%N) || ((b =? MY_EOF)%N && (hdr_len (p_header p) <? 9)%N)).
Definition is_err (p : packet) : res bool := do b <- first_byte p; Ok (b =? MY_ERR)%N.
Definition is_rows_end (maxp : N) (p : packet) : res bool :=
  do b <- first_byte p; Ok ((b =? MY_EOF)%N && (hdr_len (p_header p) <? maxp)%N).

(** * 2. Binary protocol rows (response_proxy.go) *)

Fixpoint assoc (k : N) (l : list (N * N)) : option N :=
  match l with
  | [] => None
  | (k', v) :: r => if (k =? k')%N then Some v else assoc k r
  end.

Inductive kind := KFixed (w : Z) | KLenenc | KUnknown.
(** the switch of extractData, probed for all 256 type bytes (Gen) *)
Definition extract_kind (ty : N) : kind :=
  match assoc ty MY_EXTRACT_KIND with
  | None => KUnknown
  | Some k => if (k =? MY_KIND_LENENC)%N then KLenenc else KFixed (Z.of_N k)
  end.
(** base.NumericTypesStorageBytes *)
Definition storage_width (ty : N) : option Z := option_map Z.of_N (assoc ty MY_NUMERIC_STORAGE).

(** length-encoded string at data[pos:]; value ([None] = Go nil) and bytes consumed *)
Definition lstr_at (pos : Z) (data : bytes) : res (option bytes * Z) :=
  do r <- gslice_from pos data;
  do (v, n) <- lenenc_string r;
  Ok (v, Z.of_nat n).

(** extractData: (value, n).  [Some []] is the empty non-nil slice of TypeNull *)
Definition extract_data (g : bool) (pos : Z) (row : bytes) (ty : N) : res (option bytes * Z) :=
  if g && match storage_width ty with Some w => len row - pos <? w | None => false end
  then Err E_MALFORMED else
  match extract_kind ty with
  | KFixed w => if w =? 0 then Ok (Some [], 0) else do v <- gslice pos (pos + w) row; Ok (Some v, w)
  | KLenenc => lstr_at pos row
  | KUnknown => Err E_UNKNOWN_TYPE
  end.

(** nullBitmap[k/8] & (1 << (k%8)) > 0 *)
Definition bitmap_bit (bm : bytes) (k : Z) : res bool :=
  do b <- gindex (k / 8) bm; Ok (N.testbit (b2n b) (Z.to_N (k mod 8))).

(** the subscribers (onColumnDecryption) of column i as one function: bytes to append or an error *)
Definition cell_tr := nat -> option bytes -> res bytes.

(** the loop over the columns: output so far, and (for the replay) the values handed to the subscribers *)
Fixpoint bin_cols (g : bool) (tr : cell_tr) (row bm : bytes) (i : nat) (tys : list N) (pos : Z) (out : bytes)
  : res (bytes * list (option bytes)) :=
  match tys with
  | [] => Ok (out, [])
  | ty :: rest =>
      do isnull <- bitmap_bit bm (Z.of_nat i + 2);
      if isnull then bin_cols g tr row bm (S i) rest pos out
      else
        do (v, n) <- extract_data g pos row ty;
        do v' <- tr i v;
        do (o, seen) <- bin_cols g tr row bm (S i) rest (pos + n) (out ++ v');
        Ok (o, v :: seen)
  end.

(** processBinaryDataRow; [tys] = the type each column is cut out with (originType of a changed column) *)
Definition process_binary_row_seen (g : bool) (tr : cell_tr) (row : bytes) (tys : list N)
  : res (bytes * list (option bytes)) :=
  if g && (len row =? 0) then Err E_MALFORMED else
  do b0 <- gindex 0 row;
  if (b2n b0 =? MY_EOF)%N then Ok (row, [])
  else if negb (b2n b0 =? MY_OK)%N then Err E_MALFORMED
  else
    let pos := 1 + (Z.of_nat (length tys) + 9) / 8 in
    if g && (len row <? pos) then Err E_MALFORMED else
    do bm <- gslice 1 pos row;
    do hd <- gslice_to pos row;
    bin_cols g tr row bm 0 tys pos hd.
Definition process_binary_row (g : bool) (tr : cell_tr) (row : bytes) (tys : list N) : res bytes :=
  res_map fst (process_binary_row_seen g tr row tys).

(** * 3. Column definition packets (column_field.go) *)

Record coldef := mk_coldef {
  cd_schema : option bytes; cd_table : option bytes; cd_org_table : option bytes;
  cd_name : option bytes; cd_org_name : option bytes;
  cd_ext : bytes;                 (* ExtendedTypeInfo (MariaDB), raw; only len > 0 is tested *)
  cd_charset : N; cd_collen : N; cd_type : N; cd_flag : N; cd_decimal : N;
  cd_deflen : N; cd_default : option bytes }.

Definition byte_at (pos : Z) (data : bytes) : res N := do b <- gindex pos data; Ok (b2n b).
(** binary.LittleEndian.UintNN(data[pos:]) *)
Definition le_at_pos (w : nat) (pos : Z) (data : bytes) : res N :=
  do r <- gslice_from pos data;
  do _ <- gindex (Z.of_nat w - 1) r;
  Ok (le_dec (firstn w r)).

(** the MariaDB extended type info at [pos]: (raw bytes, new position) *)
Definition parse_ext (g : bool) (pos : Z) (data : bytes) : res (bytes * Z) :=
  if g && (len data <=? pos) then Err E_MALFORMED else
  do b <- byte_at pos data;
  if (b =? 0)%N then Ok ([], pos + 1)
  else
    do r <- gslice_from pos data;
    do (num, _, _) <- lenenc_int r;
    if g && (u64_of_int (len data - pos) <=? num)%N then Err E_MALFORMED else
    let offset := int_of_u64 (u64_add num 1) in
    do ext <- gslice pos (int_add pos offset) data;
    Ok (ext, int_add pos offset).

(** ParseResultField *)
Definition parse_result_field (g maria : bool) (data : bytes) : res coldef :=
  do n0 <- skip_lenenc_string data;
  let pos := Z.of_nat n0 in
  do (schema, n) <- lstr_at pos data; let pos := pos + n in
  do (table, n) <- lstr_at pos data; let pos := pos + n in
  do (org_table, n) <- lstr_at pos data; let pos := pos + n in
  do (name, n) <- lstr_at pos data; let pos := pos + n in
  do (org_name, n) <- lstr_at pos data; let pos := pos + n in
  do (ext, pos) <- (if maria then parse_ext g pos data else Ok ([], pos));
  if g && (len data - pos <? 11) then Err E_MALFORMED else
  let pos := pos + 1 in
  do charset <- le_at_pos 2 pos data; let pos := pos + 2 in
  do collen <- le_at_pos 4 pos data; let pos := pos + 4 in
  do ty <- byte_at pos data; let pos := pos + 1 in
  do flag <- le_at_pos 2 pos data; let pos := pos + 2 in
  do dec <- byte_at pos data; let pos := pos + 1 in
  let pos := pos + 2 in
  if len data <=? pos
  then Ok (mk_coldef schema table org_table name org_name ext charset collen ty flag dec 0%N None)
  else
    do r <- gslice_from pos data;
    do (deflen, _, n) <- lenenc_int r;
    let pos := pos + Z.of_nat n in
    if (if g then (u64_of_int (len data - pos) <? deflen)%N
        else len data <? int_add pos (int_of_u64 deflen))
    then Err E_MALFORMED else
    do dv <- gslice pos (int_add pos (int_of_u64 deflen)) data;
    Ok (mk_coldef schema table org_table name org_name ext charset collen ty flag dec deflen (Some dv)).

(** the payload ColumnDescription.Dump builds for a changed definition *)
Definition dump_field_payload (g maria : bool) (f : coldef) : bytes :=
  put_lenenc_string (Some (hb 0x1646566)) ++
  put_lenenc_string (cd_schema f) ++ put_lenenc_string (cd_table f) ++ put_lenenc_string (cd_org_table f) ++
  put_lenenc_string (cd_name f) ++ put_lenenc_string (cd_org_name f) ++
  (if maria then (if (0 <? length (cd_ext f))%nat then cd_ext f else [x00]) else []) ++
  [x0c] ++ le_enc 2 (cd_charset f) ++ le_enc 4 (cd_collen f) ++ [n2b (cd_type f)] ++ le_enc 2 (cd_flag f) ++
  [n2b (cd_decimal f)] ++ [x00; x00] ++
  match cd_default f with
  | Some d => (if g then put_lenenc_int (cd_deflen f) else le_enc 8 (cd_deflen f)) ++ d
  | None => []
  end.

(** Dump of a definition parsed from the packet (header, data) *)
Definition dump_field (g maria changed : bool) (p : packet) (f : coldef) : bytes :=
  if negb changed then p_header p ++ p_data p
  else
    let d := dump_field_payload g maria f in
    (if g && (length (p_header p) =? 4)%nat then le_enc 3 (lenN d) ++ [hdr_seq (p_header p)] else p_header p) ++ d.

(** * 4. COM_STMT_EXECUTE parameter block (packet.go GetBindParameters / SetParameters) *)

(** NewMysqlBoundValue, structure only: the bytes of the value and how many were consumed.  Numeric
    types are read with binary.Read (an error when fewer than the width remain); everything else is a
    length-encoded string.  The conversion of numbers to decimal text is outside this model. *)
Definition bound_value (r : bytes) (ty : N) : res (option bytes * Z) :=
  match storage_width ty with
  | None => do (v, n) <- lenenc_string r; Ok (Some (match v with Some d => d | None => [] end), Z.of_nat n)
  | Some w =>
      if w =? 0 then Ok (None, 0)
      else if len r <? w then Err E_EOF
      else Ok (Some (firstn (Z.to_nat w) r), w)
  end.

Fixpoint param_types (data : bytes) (pos : Z) (k : nat) : res (list N) :=
  match k with
  | O => Ok []
  | S k' => do t <- byte_at pos data; do ts <- param_types data (pos + 2) k'; Ok (t :: ts)
  end.

(** values: (type, [None] = NULL in the bitmap / TypeNull, else the value bytes) *)
Fixpoint param_values (data bm : bytes) (i : nat) (tys : list N) (pos : Z) : res (list (N * option bytes)) :=
  match tys with
  | [] => Ok []
  | ty :: rest =>
      do isnull <- (if (0 <? length bm)%nat then bitmap_bit bm (Z.of_nat i) else Ok false);
      if isnull then do vs <- param_values data bm (S i) rest pos; Ok ((ty, None) :: vs)
      else
        do r <- gslice_from pos data;
        do (v, n) <- bound_value r ty;
        do vs <- param_values data bm (S i) rest (pos + n);
        Ok ((ty, v) :: vs)
  end.

(** GetBindParameters(paramNum): [None] = the parameters are not re-bound (paramNum nil values) *)
Definition get_bind_parameters (g : bool) (data : bytes) (pn : nat) : res (option (list (N * option bytes))) :=
  let pnz := Z.of_nat pn in
  if (pn =? 0)%nat then Ok None else
  let bl := (pnz + 7) / 8 in
  if g && (len data <? 10 + bl + 1) then Err E_MALFORMED else
  do bm <- gslice 10 (10 + bl) data;
  let pos := 10 + bl in
  do flag <- byte_at pos data;
  if negb (flag =? 1)%N then Ok None else
  let pos := pos + 1 in
  if g && (len data <? pos + 2 * pnz) then Err E_MALFORMED else
  do tys <- param_types data pos pn;
  do vs <- param_values data bm 0 tys (pos + 2 * pnz);
  Ok (Some vs).

(** SetParameters.  A new value is given by what the calls on the BoundValue return: GetType(), for
    TypeLong / TypeLongLong whether the decimal text is negative ([Err] = GetData / ParseInt failed), and
    Encode() ([Err] = it failed). *)
Record new_param := mk_new_param { np_type : N; np_negative : res bool; np_encoded : res bytes }.
Definition MY_TYPE_LONG : N := 3%N.
Definition MY_TYPE_LONGLONG : N := 8%N.

Fixpoint set_types (g : bool) (data bm : bytes) (i : nat) (pos : Z) (vals : list new_param) (out : bytes) : res bytes :=
  match vals with
  | [] => Ok out
  | v :: rest =>
      do pt <- gslice pos (pos + 2) data;
      let f0 := nth 1 pt x00 in
      do f <- (if (np_type v =? MY_TYPE_LONG)%N || (np_type v =? MY_TYPE_LONGLONG)%N
               then
                 (* a NULL parameter keeps its flag ([g]: the code as found parsed its empty text) *)
                 do isnull <- (if g then bitmap_bit bm (Z.of_nat i) else Ok false);
                 if isnull then Ok f0
                 else do neg <- np_negative v; Ok (if neg then x00 else x80)
               else Ok f0);
      set_types g data bm (S i) (pos + 2) rest (out ++ [n2b (np_type v); f])
  end.

Fixpoint set_values (bm : bytes) (i : nat) (vals : list new_param) (out : bytes) : res bytes :=
  match vals with
  | [] => Ok out
  | v :: rest =>
      do isnull <- bitmap_bit bm (Z.of_nat i);
      if isnull then set_values bm (S i) rest out
      else do e <- np_encoded v; set_values bm (S i) rest (out ++ e)
  end.

Definition set_parameters (g : bool) (p : packet) (vals : list new_param) : res packet :=
  let k := Z.of_nat (length vals) in
  if (length vals =? 0)%nat then Ok p else
  let data := p_data p in
  let bl := (k + 7) / 8 in
  if g && (len data <? 10 + bl + 1 + 2 * k) then Err E_MALFORMED else
  do bm <- gslice 10 (10 + bl) data;
  let pos := 10 + bl + 1 in
  do hd <- gslice_to pos data;
  do out <- set_types g data bm 0 pos vals hd;
  do out <- set_values bm 0 vals out;
  Ok (set_data p out).
