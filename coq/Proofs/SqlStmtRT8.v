(** C13_statements, round trip, part 8: tails of a select statement, base selects, union chains, table
    expressions (tables, sub-selects, parenthesised lists, joins). *)
From Acra Require Import Lib.Bytes Gen.Prec Gen.SqlWords Model.SqlStmt Model.SqlStmtParse
  Proofs.SqlStmtUnfold Proofs.SqlStmtFacts Proofs.SqlStmtEqns Proofs.SqlStmtHeads Proofs.SqlStmtRT1 Proofs.SqlStmtRT2 Proofs.SqlStmtRT3
  Proofs.SqlStmtRT4 Proofs.SqlStmtRT5 Proofs.SqlStmtRT6 Proofs.SqlStmtRT7.
From Coq Require Import Arith Lia.

Section RT.
Variable pg : bool.
Notation Cst := (Cst pg). Notation Pe := (Pe pg). Notation Pxs := (Pxs pg). Notation Pses := (Pses pg).
Notation Ssel := (Ssel pg). Notation Bsel := (Bsel pg). Notation Psel := (Psel pg). Notation Poe := (Poe pg).
Notation Pos := (Pos pg). Notation Plm := (Plm pg). Notation Pts := (Pts pg). Notation ord_body := (ord_body pg).
Notation Tst := (Tst pg). Notation Fst := (Fst pg). Notation Pt := (Pt pg). Notation Pjc := (Pjc pg).

Ltac KL := unfold K in *; lia.
Ltac fuel f := destruct f as [|f]; [KL|].
Ltac napp := repeat (progress (rewrite <- ?app_assoc; cbn [app])).

(* ---------- order_by_opt limit_opt lock_opt ---------- *)
(** what follows a complete select statement *)
Definition tlstop (rest : list tok) : bool :=
  match rest with
  | [] => true
  | TP PRParen :: _ | TW W_union :: _ | TW W_returning :: _ | TW W_on :: _ => true
  | _ => false
  end.
Lemma selstop_tl s rest : selstop s rest = true -> tlstop rest = true.
Proof. destruct rest as [|[| | | |p|w|] ?]; try discriminate; try reflexivity; [destruct p|destruct w]; try discriminate; reflexivity. Qed.

Lemma lock_rest_lstop lk rest : tlstop rest = true -> lstop (lock_toks lk ++ rest) = true.
Proof.
  intros H. destruct lk; cbn [lock_toks app]; try reflexivity.
  destruct rest as [|[| | | |p|w|] ?]; try discriminate; try reflexivity; [destruct p|destruct w]; try discriminate; reflexivity.
Qed.
Lemma lim_rest_ostop lm lk rest : tlstop rest = true -> ostop (print_lim pg lm ++ lock_toks lk ++ rest) = true.
Proof.
  intros H. destruct lm; try (rewrite ?print_lim_LOnly, ?print_lim_LOffset, ?print_lim_LComma, ?print_lim_LAll, ?print_lim_LAllOffset; reflexivity).
  rewrite print_lim_LNone. cbn [app]. destruct lk; cbn [lock_toks app]; try reflexivity.
  destruct rest as [|[| | | |p|w|] ?]; try discriminate; try reflexivity; [destruct p|destruct w]; try discriminate; reflexivity.
Qed.
Lemma plock_toks lk rest : tlstop rest = true -> plock (lock_toks lk ++ rest) = (lk, rest).
Proof.
  intros H. destruct lk; cbn [lock_toks app]; try reflexivity.
  destruct rest as [|[| | | |p|w|] ?]; try discriminate; try reflexivity; destruct w; try discriminate; reflexivity.
Qed.

Lemma tails_ok ob lm lk rest f :
  Pos ob -> Plm lm -> wf_orders pg ob = true -> wf_lim pg lm = true -> tlstop rest = true ->
  S (S (need_orders ob + need_lim lm)) <= f ->
  ptails pg f (print_orders pg true ob ++ print_lim pg lm ++ lock_toks lk ++ rest) = Some (ob, lm, lk, rest).
Proof.
  intros Po Pl Hwo Hwl Hst Hf. destruct f as [|f]; [lia|]. rewrite ptails_S.
  assert (Hlm : plim pg (pexpr pg f 0) (print_lim pg lm ++ lock_toks lk ++ rest) = Some (lm, lock_toks lk ++ rest))
    by (apply Pl; [assumption|apply lock_rest_lstop; exact Hst|lia]).
  destruct ob as [|x d os].
  - rewrite print_orders_ONil. cbn [app].
    replace (expect_w W_order (print_lim pg lm ++ lock_toks lk ++ rest)) with (@None (list tok)).
    + rewrite Hlm. rewrite (plock_toks lk rest Hst). reflexivity.
    + symmetry. apply expect_w_miss. intros r E.
      pose proof (lim_rest_ostop lm lk rest Hst) as Ho. rewrite E in Ho.
      destruct lm; try (rewrite ?print_lim_LOnly, ?print_lim_LOffset, ?print_lim_LComma, ?print_lim_LAll, ?print_lim_LAllOffset in E; discriminate E).
      rewrite print_lim_LNone in E. cbn [app] in E. destruct lk; cbn [lock_toks app] in E; try discriminate E.
      subst rest. discriminate Hst.
  - rewrite print_orders_true_cons. napp. rewrite !expect_w_hit.
    rewrite (Po Hwo ltac:(discriminate) (print_lim pg lm ++ lock_toks lk ++ rest)) by first [apply lim_rest_ostop; exact Hst | lia].
    rewrite Hlm. rewrite (plock_toks lk rest Hst). reflexivity.
Qed.

(* ---------- base select ---------- *)
Lemma bstop_hard s rest : bstop s rest = true -> hard rest = true.
Proof. destruct rest as [|[| | | |p|w|] ?]; try discriminate; try reflexivity; [destruct p|destruct w]; try discriminate; reflexivity. Qed.

Lemma bstop_facts s rest : bstop s rest = true ->
  hard rest = true /\ expect_p PComma rest = None /\ expect_w W_group rest = None /\ expect_w W_where rest = None
  /\ expect_w W_having rest = None.
Proof.
  destruct rest as [|t r]; [intros _; repeat split; reflexivity|].
  destruct t as [| | | |p|w|]; try discriminate; [destruct p|destruct w]; try discriminate; intros _; repeat split; reflexivity.
Qed.

Lemma bstop_tsstop d xs from ob lm lk rest :
  bstop (Select d xs from NoE XNil NoE ob lm lk) rest = true -> tsstop from rest = true.
Proof.
  unfold tsstop. destruct rest as [|t r]; [intros _; cbn; rewrite !Bool.orb_true_r; reflexivity|].
  destruct t as [| | | |p|w|]; try discriminate; [destruct p|destruct w]; try discriminate;
    try (intros _; cbn; rewrite !Bool.orb_true_r; reflexivity).
  cbn [bstop base_open]. intros H. apply Bool.negb_true_iff in H. unfold last_open_on. rewrite H. cbn. rewrite !Bool.orb_true_r. reflexivity.
Qed.

Lemma tsstop_w from w r : clause_word w = true -> word_eqb w W_on = false -> word_eqb w W_using = false ->
  tsstop from (TW w :: r) = true.
Proof.
  unfold tsstop. destruct w; try discriminate; intros _ _ _; cbn; rewrite !Bool.orb_true_r; reflexivity.
Qed.

(** the clauses after FROM *)
Definition clauses (wh : oexpr) (gb : exprs) (hv : oexpr) : list tok :=
  print_oexpr pg [TW W_where] wh ++
  (match gb with XNil => [] | _ => TW W_group :: TW W_by :: print_exprs pg gb end) ++
  print_oexpr pg [TW W_having] hv.

Lemma base_print d xs from wh gb hv :
  print_sel pg (Select d xs from wh gb hv ONil LNone LkNone) =
  TW W_select :: (if d then [TW W_distinct] else []) ++ print_selexprs pg xs ++ TW W_from :: print_texprs pg from ++ clauses wh gb hv.
Proof.
  rewrite print_sel_Select, print_orders_ONil, print_lim_LNone. cbn [lock_toks]. unfold clauses. rewrite !app_nil_r. napp. reflexivity.
Qed.
Lemma sel_print d xs from wh gb hv ob lm lk :
  print_sel pg (Select d xs from wh gb hv ob lm lk) =
  print_sel pg (Select d xs from wh gb hv ONil LNone LkNone) ++ print_orders pg true ob ++ print_lim pg lm ++ lock_toks lk.
Proof. rewrite base_print, print_sel_Select. unfold clauses. napp. reflexivity. Qed.

Lemma base_ok d xs from wh gb hv rest f :
  Pses xs -> Pts from -> Poe wh -> Pxs gb -> Poe hv ->
  wf_sel pg (Select d xs from wh gb hv ONil LNone LkNone) = true ->
  bstop (Select d xs from wh gb hv ONil LNone LkNone) rest = true ->
  need_sel (Select d xs from wh gb hv ONil LNone LkNone) <= f + K ->
  pbase pg f (print_sel pg (Select d xs from wh gb hv ONil LNone LkNone) ++ rest)
  = Some (Select d xs from wh gb hv ONil LNone LkNone, rest).
Proof.
  intros Pxs' Pts' Pwh Pgb Phv Hwf Hst Hf. pose proof (bstop_hard _ _ Hst) as Hh.
  rewrite wf_sel_Select in Hwf. split_andb. rewrite need_sel_Select in Hf. rewrite need_orders_ONil, need_lim_LNone in Hf.
  rewrite base_print. fuel f. cbn [app]. rewrite pbase_S, expect_w_hit. napp.
  assert (Hxs : xs <> SNil) by (destruct xs; [discriminate|discriminate]).
  assert (Hfr : from <> TNil) by (destruct from; [discriminate|discriminate]).
  (* DISTINCT *)
  replace (match expect_w W_distinct ((if d then [TW W_distinct] else []) ++ print_selexprs pg xs ++ TW W_from :: print_texprs pg from ++ clauses wh gb hv ++ rest) with
           | Some r => (true, r) | None => (false, (if d then [TW W_distinct] else []) ++ print_selexprs pg xs ++ TW W_from :: print_texprs pg from ++ clauses wh gb hv ++ rest) end)
    with (d, print_selexprs pg xs ++ TW W_from :: print_texprs pg from ++ clauses wh gb hv ++ rest).
  2:{ destruct d; cbn [app]; [rewrite expect_w_hit; reflexivity|].
      destruct (selexprs_head pg xs (TW W_from :: print_texprs pg from ++ clauses wh gb hv ++ rest) ltac:(assumption) Hxs) as [t0 [r0 [E Hs]]].
      rewrite E. destruct Hs as [Hs| ->]; [rewrite (estart_not_w t0 r0 W_distinct Hs eq_refl)|]; reflexivity. }
  rewrite (Pxs' ltac:(assumption) Hxs (TW W_from :: print_texprs pg from ++ clauses wh gb hv ++ rest)) by first [reflexivity | KL].
  rewrite expect_w_hit.
  (* the heads of the remaining clauses *)
  assert (Hhv : hard (print_oexpr pg [TW W_having] hv ++ rest) = true
                /\ expect_p PComma (print_oexpr pg [TW W_having] hv ++ rest) = None
                /\ expect_w W_group (print_oexpr pg [TW W_having] hv ++ rest) = None
                /\ expect_w W_where (print_oexpr pg [TW W_having] hv ++ rest) = None).
  { destruct hv; [rewrite print_oexpr_NoE|rewrite print_oexpr_SomeE; repeat split; reflexivity]. cbn [app].
    destruct (bstop_facts _ _ Hst) as [B1 [B2 [B3 [B4 _]]]]. repeat split; assumption. }
  destruct Hhv as [Hhv1 [Hhv2 [Hhv3 Hhv4]]].
  set (G := (match gb with XNil => [] | _ => TW W_group :: TW W_by :: print_exprs pg gb end) ++ print_oexpr pg [TW W_having] hv ++ rest).
  assert (HG : hard G = true /\ expect_w W_where G = None).
  { unfold G. destruct gb; [cbn [app]; split; assumption|split; reflexivity]. }
  destruct HG as [HG1 HG2].
  assert (Eclauses : clauses wh gb hv ++ rest = print_oexpr pg [TW W_where] wh ++ G) by (unfold clauses, G; napp; reflexivity).
  rewrite Eclauses.
  (* FROM *)
  assert (Hts : tsstop from (print_oexpr pg [TW W_where] wh ++ G) = true).
  { destruct wh as [|w].
    - rewrite print_oexpr_NoE. cbn [app]. unfold G. destruct gb.
      + cbn [app]. destruct hv.
        * rewrite print_oexpr_NoE. cbn [app]. fold (tsstop from rest). eapply bstop_tsstop. exact Hst.
        * rewrite print_oexpr_SomeE. napp. apply tsstop_w; reflexivity.
      + napp. apply tsstop_w; reflexivity.
    - rewrite print_oexpr_SomeE. napp. apply tsstop_w; reflexivity. }
  rewrite (Pts' ltac:(assumption) Hfr _ Hts) by KL.
  (* WHERE *)
  assert (Hwh : popt (pexpr pg f 0) W_where (print_oexpr pg [TW W_where] wh ++ G) = Some (wh, G)).
  { unfold popt. destruct wh as [|w].
    - rewrite print_oexpr_NoE. cbn [app]. rewrite HG2. reflexivity.
    - rewrite print_oexpr_SomeE. napp. rewrite expect_w_hit. cbn [SqlStmtRT1.Poe] in Pwh. rewrite wf_oexpr_SomeE in *.
      rewrite need_oexpr_SomeE in *. rewrite (pexpr_of_C pg w G f Pwh) by first [assumption | KL]. reflexivity. }
  rewrite Hwh. unfold G.
  (* GROUP BY *)
  destruct gb as [|g gs].
  - cbn [app]. rewrite Hhv3.
    unfold popt. destruct hv as [|h].
    + rewrite print_oexpr_NoE. cbn [app].
      destruct (bstop_facts _ _ Hst) as [_ [_ [_ [_ B5]]]]. rewrite B5. reflexivity.
    + rewrite print_oexpr_SomeE. napp. rewrite expect_w_hit. cbn [SqlStmtRT1.Poe] in Phv. rewrite wf_oexpr_SomeE in *.
      rewrite need_oexpr_SomeE in *. rewrite (pexpr_of_C pg h rest f Phv) by first [assumption | KL]. reflexivity.
  - napp. rewrite !expect_w_hit.
    rewrite (Pgb ltac:(assumption) ltac:(discriminate) _ Hhv1 Hhv2) by KL.
    unfold popt. destruct hv as [|h].
    + rewrite print_oexpr_NoE. cbn [app].
      destruct (bstop_facts _ _ Hst) as [_ [_ [_ [_ B5]]]]. rewrite B5. reflexivity.
    + rewrite print_oexpr_SomeE. napp. rewrite expect_w_hit. cbn [SqlStmtRT1.Poe] in Phv. rewrite wf_oexpr_SomeE in *.
      rewrite need_oexpr_SomeE in *. rewrite (pexpr_of_C pg h rest f Phv) by first [assumption | KL]. reflexivity.
Qed.
End RT.
