(** Proofs about the extended-protocol session model (Model/PgPrepared.v), property C05:
    a rejected Parse changes nothing; the registry entry of a name is always the last ACCEPTED Parse of
    that name; no rejected statement is forwarded; and against a database that keeps its own
    registries from what it receives, every Bind, every Execute and every data row is processed by
    Acra with the statement the DATABASE associates with that name / portal / execution. *)
From Coq Require Import List Bool NArith Lia.
From Acra Require Import Model.PgPrepared.
Import ListNotations.

(** ** association lists *)
Lemma lookup_remove_same {A : Type} (k : N) (m : list (N * A)) : lookup k (remove k m) = None.
Proof.
  induction m as [|[k' v] tl IH]; [reflexivity|].
  unfold remove in *. cbn [filter fst]. destruct (N.eqb k k') eqn:E; cbn [negb].
  - exact IH.
  - cbn [lookup]. rewrite E. exact IH.
Qed.

Lemma lookup_remove_other {A : Type} (k k' : N) (m : list (N * A)) :
  N.eqb k k' = false -> lookup k (remove k' m) = lookup k m.
Proof.
  intros Hne. induction m as [|[k2 v] tl IH]; [reflexivity|].
  unfold remove in *. cbn [filter fst lookup]. destruct (N.eqb k' k2) eqn:E; cbn [negb].
  - apply N.eqb_eq in E. subst k2. rewrite Hne. exact IH.
  - cbn [lookup]. rewrite IH. reflexivity.
Qed.

Lemma lookup_update {A : Type} (k k' : N) (v : A) (m : list (N * A)) :
  lookup k (update k' v m) = if N.eqb k k' then Some v else lookup k m.
Proof.
  unfold update. cbn [lookup]. destruct (N.eqb k k') eqn:E; [reflexivity|].
  apply lookup_remove_other. exact E.
Qed.

Lemma lookup_remove_all_some {A : Type} (k : N) (ks : list N) (m : list (N * A)) (v : A) :
  lookup k (remove_all ks m) = Some v -> lookup k m = Some v.
Proof.
  induction m as [|[k2 v2] tl IH]; [intros H; exact H|].
  unfold remove_all in *. cbn [filter fst lookup].
  destruct (existsb (N.eqb k2) ks) eqn:Ex; cbn [negb].
  - intros H. specialize (IH H). destruct (N.eqb k k2) eqn:E; [|exact IH].
    (* the entry for k was dropped, so the filtered tail cannot hold k either: contradiction *)
    exfalso. apply N.eqb_eq in E. subst k2.
    clear IH. revert H. induction tl as [|[k3 v3] tl IH2]; [discriminate|].
    cbn [filter fst]. destruct (existsb (N.eqb k3) ks) eqn:Ex3; cbn [negb]; [exact IH2|].
    cbn [lookup]. destruct (N.eqb k k3) eqn:E3; [|exact IH2].
    apply N.eqb_eq in E3. subst k3. rewrite Ex in Ex3. discriminate.
  - cbn [lookup]. destruct (N.eqb k k2); [intros H; exact H|exact IH].
Qed.

(** ** the registry *)
Section Registry.
  Variable strict : N -> bool.

  (** a rejected Parse changes nothing in the session state; the client gets the error *)
  Theorem rejected_parse_changes_nothing st nm s :
    dead st = false ->
    step strict st (ClientParse nm s true) = (st, [ToClientError]).
  Proof. intros Hd. unfold step, step_gen. rewrite Hd. reflexivity. Qed.

  Theorem rejected_query_changes_nothing st s :
    dead st = false ->
    step strict st (ClientQuery s true) = (st, [ToClientError]).
  Proof. intros Hd. unfold step, step_gen. rewrite Hd. reflexivity. Qed.

  Lemma reg_text_add_statement st nm' s nm :
    reg_text (add_statement st nm' s) nm = if N.eqb nm nm' then Some s else reg_text st nm.
  Proof.
    unfold reg_text, add_statement.
    destruct (lookup nm' (stmts st)) as [[ps o]|]; cbn [stmts]; rewrite lookup_update;
      destruct (N.eqb nm nm'); reflexivity.
  Qed.

  Lemma reg_text_add_cursor st p nm' ps o nm :
    lookup nm' (stmts st) = Some (ps, o) ->
    reg_text (add_cursor st p nm' ps o) nm = reg_text st nm.
  Proof.
    intros Hl. unfold reg_text, add_cursor. cbn [stmts]. rewrite lookup_update.
    destruct (N.eqb nm nm') eqn:E; [|reflexivity].
    apply N.eqb_eq in E. subst nm'. rewrite Hl. reflexivity.
  Qed.

  (** last Parse of [nm] in a stream of forwarded packets / last accepted Parse in a history *)
  Definition last_parse_step (nm : N) (a : option N) (o : out) : option N :=
    match o with
    | ToDbParse nm' s => if N.eqb nm nm' then Some s else a
    | _ => a
    end.
  Definition last_forwarded_parse (nm : N) (os : list out) (a : option N) : option N :=
    fold_left (last_parse_step nm) os a.

  Definition last_accepted_step (nm : N) (a : option N) (e : event) : option N :=
    match e with
    | ClientParse nm' s false => if N.eqb nm nm' then Some s else a
    | _ => a
    end.
  Definition last_accepted_parse (nm : N) (evs : list event) (a : option N) : option N :=
    fold_left (last_accepted_step nm) evs a.

  Lemma step_registry st e nm :
    reg_text (fst (step strict st e)) nm
    = last_forwarded_parse nm (snd (step strict st e)) (reg_text st nm).
  Proof.
    unfold step, step_gen, last_forwarded_parse.
    destruct e as [s c|nm' s c|p nm'|p| |bad| | | ].
    - destruct (dead st); [reflexivity|]. destruct c; reflexivity.
    - destruct (dead st); [reflexivity|]. destruct c; cbn [fst snd fold_left last_parse_step]; [reflexivity|].
      apply reg_text_add_statement.
    - destruct (dead st); [reflexivity|].
      destruct (lookup nm' (stmts st)) as [[ps o]|] eqn:Hl; cbn [fst snd fold_left last_parse_step]; [|reflexivity].
      apply reg_text_add_cursor. exact Hl.
    - destruct (dead st); [reflexivity|].
      destruct (lookup p (cursors st)) as [[s o]|]; reflexivity.
    - destruct (dead st); reflexivity.
    - destruct (skip st); [reflexivity|].
      destruct (fails strict _ bad); reflexivity.
    - destruct (skip st); reflexivity.
    - destruct (skip st); reflexivity.
    - destruct (skip st); reflexivity.
  Qed.

  (** for every session history (client and database events in any order, from any state) and every
      name: the registry entry of the name is the last Parse of that name that was FORWARDED to the
      database, i.e. the statement the database holds under that name *)
  Theorem registry_is_last_forwarded evs : forall st nm,
    reg_text (fst (run_session strict st evs)) nm
    = last_forwarded_parse nm (snd (run_session strict st evs)) (reg_text st nm).
  Proof.
    unfold run_session.
    induction evs as [|e tl IH]; intros st nm; [reflexivity|].
    cbn [run_with]. pose proof (step_registry st e nm) as Hs.
    destruct (step strict st e) as [st1 o1]. specialize (IH st1 nm).
    destruct (run_with (step strict) st1 tl) as [st2 o2]. cbn [fst snd] in *.
    unfold last_forwarded_parse in *. rewrite fold_left_app, <- Hs. exact IH.
  Qed.

  Lemma step_dead_monotone st e : dead (fst (step strict st e)) = false -> dead st = false.
  Proof.
    unfold step, step_gen.
    destruct e as [s c|nm' s c|p nm'|p| |bad| | | ]; destruct (dead st) eqn:Hd; try reflexivity;
      cbn [fst]; try (intros H; exact H).
    all: try (destruct (skip st); [intros H; rewrite <- H; symmetry; exact Hd|]);
      try (destruct (fails strict _ bad); cbn [fst set_skip dead]; intros H; rewrite <- H; symmetry; exact Hd).
    all: cbn [set_pending set_skip dead]; intros H; rewrite <- H; symmetry; exact Hd.
  Qed.

  Lemma run_dead_monotone evs : forall st,
    dead (fst (run_session strict st evs)) = false -> dead st = false.
  Proof.
    unfold run_session.
    induction evs as [|e tl IH]; intros st; [intros H; exact H|].
    cbn [run_with]. pose proof (step_dead_monotone st e) as Hs.
    destruct (step strict st e) as [st1 o1]. specialize (IH st1).
    destruct (run_with (step strict) st1 tl) as [st2 o2]. cbn [fst] in *.
    intros H. apply Hs, IH, H.
  Qed.

  Lemma step_registry_events st e nm :
    dead (fst (step strict st e)) = false ->
    reg_text (fst (step strict st e)) nm = last_accepted_step nm (reg_text st nm) e.
  Proof.
    intros Hd. pose proof (step_dead_monotone st e Hd) as Hd0.
    rewrite step_registry. revert Hd. unfold step, step_gen, last_forwarded_parse. rewrite ?Hd0.
    destruct e as [s c|nm' s c|p nm'|p| |bad| | | ]; cbn [last_accepted_step].
    - destruct c; reflexivity.
    - destruct c; reflexivity.
    - destruct (lookup nm' (stmts st)) as [[ps o]|]; reflexivity.
    - destruct (lookup p (cursors st)) as [[s o]|]; reflexivity.
    - reflexivity.
    - destruct (skip st); [reflexivity|]. destruct (fails strict _ bad); reflexivity.
    - destruct (skip st); reflexivity.
    - destruct (skip st); reflexivity.
    - destruct (skip st); reflexivity.
  Qed.

  (** ... and, as long as the session is alive, it is the last ACCEPTED Parse of that name in the
      history: rejected Parse messages, whatever their number and position, never show *)
  Theorem registry_is_last_accepted evs : forall st nm,
    dead (fst (run_session strict st evs)) = false ->
    reg_text (fst (run_session strict st evs)) nm = last_accepted_parse nm evs (reg_text st nm).
  Proof.
    induction evs as [|e tl IH]; intros st nm Hd; [reflexivity|].
    unfold run_session in *. cbn [run_with] in *.
    pose proof (step_registry_events st e nm) as Hs.
    destruct (step strict st e) as [st1 o1] eqn:Hstep. specialize (IH st1 nm).
    pose proof (run_dead_monotone tl st1) as Hm. unfold run_session in Hm.
    destruct (run_with (step strict) st1 tl) as [st2 o2]. cbn [fst snd] in *.
    specialize (Hm Hd). rewrite (IH Hd), (Hs Hm). reflexivity.
  Qed.

  (** what is forwarded as a statement was accepted *)
  Lemma step_forwarded_statement st e :
    (forall nm s, In (ToDbParse nm s) (snd (step strict st e)) -> e = ClientParse nm s false)
    /\ (forall s, In (ToDb s) (snd (step strict st e)) -> e = ClientQuery s false).
  Proof.
    unfold step, step_gen.
    destruct e as [s c|nm' s c|p nm'|p| |bad| | | ]; split; intros *; cbn [snd].
    all: try (destruct (dead st); cbn [snd In]; [intros [H|[]]; discriminate H|]).
    all: try (destruct c; cbn [snd In]; intros [H|[]]; try discriminate H; injection H as <-; try subst; reflexivity).
    all: try (destruct (lookup nm' (stmts st)) as [[ps o]|]; cbn [snd In]; intros [H|[]]; discriminate H).
    all: try (destruct (lookup p (cursors st)) as [[s1 o]|]; cbn [snd In]; intros [H|[]]; discriminate H).
    all: try (cbn [In]; intros [H|[]]; discriminate H).
    all: try (destruct (skip st); cbn [snd In]; [intros [H|[]]; discriminate H|]).
    all: try (destruct (fails strict _ bad); cbn [snd In]; intros [H|[]]; discriminate H).
    all: try (destruct (skip st); cbn [In]; intros [H|[]]; discriminate H).
  Qed.

  Theorem denied_never_forwarded (v : N -> bool) evs : forall st,
    (forall nm s c, In (ClientParse nm s c) evs -> c = v s) ->
    (forall s c, In (ClientQuery s c) evs -> c = v s) ->
    (forall nm s, In (ToDbParse nm s) (snd (run_session strict st evs)) -> v s = false)
    /\ (forall s, In (ToDb s) (snd (run_session strict st evs)) -> v s = false).
  Proof.
    unfold run_session.
    induction evs as [|e tl IH]; intros st Hp Hq; [split; intros *; intros []|].
    cbn [run_with]. destruct (step_forwarded_statement st e) as [F1 F2].
    destruct (step strict st e) as [st1 o1].
    assert (Hp' : forall nm s c, In (ClientParse nm s c) tl -> c = v s) by (intros; eapply Hp; right; eassumption).
    assert (Hq' : forall s c, In (ClientQuery s c) tl -> c = v s) by (intros; eapply Hq; right; eassumption).
    destruct (IH st1 Hp' Hq') as [I1 I2].
    destruct (run_with (step strict) st1 tl) as [st2 o2]. cbn [snd] in *.
    split; intros *; intros Hin; apply in_app_or in Hin; destruct Hin as [Hin|Hin].
    - symmetry. apply (Hp nm s false). left. apply F1. exact Hin.
    - eapply I1. exact Hin.
    - symmetry. apply (Hq s false). left. apply F2. exact Hin.
    - eapply I2. exact Hin.
  Qed.
End Registry.

(** ** Alignment with the database's own view *)
Section Aligned.
  Variable strict : N -> bool.

  Definition sys_inv (y : sys) : Prop :=
    (forall nm, reg_text (proxy y) nm = lookup nm (dstmts (db y)))
    /\ (forall p s, cursor_text (proxy y) p = Some s -> lookup p (dportals (db y)) = Some s)
    /\ map qtext (pending (proxy y)) = bq (db y).

  Lemma sys_inv_init : sys_inv sys_init.
  Proof. repeat split. intros p s H. discriminate H. Qed.

  Lemma cursor_text_add_statement st nm s p t :
    cursor_text (add_statement st nm s) p = Some t -> cursor_text st p = Some t.
  Proof.
    unfold cursor_text, add_statement.
    destruct (lookup nm (stmts st)) as [[ps o]|]; cbn [cursors]; [|intros H; exact H].
    destruct (lookup p (remove_all (pportals ps) (cursors st))) as [x|] eqn:Hl; [|discriminate].
    apply lookup_remove_all_some in Hl. rewrite Hl. intros H. exact H.
  Qed.

  Lemma client_step_inv p d ce :
    is_client ce = true ->
    sys_inv (Sys p d) ->
    sys_inv (fst (sys_step (step strict) (Sys p d) (Client ce)))
    /\ forallb aligned (snd (sys_step (step strict) (Sys p d) (Client ce))) = true.
  Proof.
    intros Hc (J1 & J2 & J3). cbn [proxy db] in *.
    unfold sys_step. rewrite Hc. cbn [proxy db]. unfold step, step_gen.
    destruct ce as [s c|nm s c|pt nm|pt| |bad| | | ]; try discriminate Hc; clear Hc.
    - (* simple query *)
      destruct (dead p); [cbn; repeat split; assumption|].
      destruct c; [cbn; repeat split; assumption|].
      cbn [db_recv_all db_view db_recv fst snd forallb aligned].
      split; [|reflexivity]. unfold sys_inv. cbn [proxy db set_pending stmts cursors pending dstmts dportals bq].
      repeat split; try assumption. rewrite map_app, J3. reflexivity.
    - (* Parse *)
      destruct (dead p); [cbn; repeat split; assumption|].
      destruct c; [cbn; repeat split; assumption|].
      cbn [db_recv_all db_view db_recv fst snd forallb aligned].
      split; [|reflexivity]. unfold sys_inv. cbn [proxy db dstmts dportals bq]. repeat split.
      + intros nm'. rewrite reg_text_add_statement, lookup_update, J1. reflexivity.
      + intros p' t H. apply cursor_text_add_statement in H. apply J2. exact H.
      + unfold add_statement. destruct (lookup nm (stmts p)) as [[ps o]|]; cbn [pending]; exact J3.
    - (* Bind *)
      destruct (dead p); [cbn; repeat split; assumption|].
      destruct (lookup nm (stmts p)) as [[ps o]|] eqn:Hl.
      + assert (Hd : lookup nm (dstmts d) = Some (ptext ps)).
        { rewrite <- J1. unfold reg_text. rewrite Hl. reflexivity. }
        cbn [db_recv_all db_view db_recv fst snd]. rewrite Hd.
        cbn [forallb aligned]. rewrite N.eqb_refl. split; [|reflexivity].
        unfold sys_inv. cbn [proxy db dstmts dportals bq]. repeat split.
        * intros nm'. rewrite (reg_text_add_cursor p pt nm ps o nm' Hl). apply J1.
        * intros p' t. unfold cursor_text, add_cursor. cbn [cursors]. rewrite !lookup_update.
          destruct (N.eqb p' pt); [cbn [option_map fst]; intros H; exact H|]. apply J2.
        * exact J3.
      + cbn. repeat split; assumption.
    - (* Execute *)
      destruct (dead p); [cbn; repeat split; assumption|].
      destruct (lookup pt (cursors p)) as [[s o]|] eqn:Hl.
      + assert (Hd : lookup pt (dportals d) = Some s).
        { apply J2. unfold cursor_text. rewrite Hl. reflexivity. }
        cbn [db_recv_all db_view db_recv fst snd]. rewrite Hd.
        cbn [forallb aligned]. rewrite N.eqb_refl. split; [|reflexivity].
        unfold sys_inv. cbn [proxy db set_pending stmts cursors pending dstmts dportals bq].
        repeat split; try assumption. rewrite map_app, J3. reflexivity.
      + cbn. repeat split; assumption.
    - destruct (dead p); cbn; repeat split; assumption.
  Qed.

  Ltac unchanged := cbn [fst snd proxy db forallb map aligned]; unfold sys_inv; cbn [proxy db]; repeat split; try assumption; congruence.

  Lemma sys_step_inv y e :
    sys_inv y ->
    sys_inv (fst (sys_step (step strict) y e))
    /\ forallb aligned (snd (sys_step (step strict) y e)) = true.
  Proof.
    intros Hy. destruct y as [p d]. destruct e as [ce|bad| | | ].
    - destruct (is_client ce) eqn:Hc; [apply client_step_inv; assumption|].
      unfold sys_step. rewrite Hc. split; [exact Hy|reflexivity].
    - destruct Hy as (J1 & J2 & J3). cbn [proxy db] in *.
      unfold sys_step. cbn [proxy db].
      destruct (bq d) as [|producer rest] eqn:Hq; [unchanged|].
      destruct (owed d); [unchanged|].
      unfold step, step_gen. destruct (skip p); [unchanged|].
      unfold head_settings, packet_settings.
      destruct (pending p) as [|q qs] eqn:Hp; [discriminate J3|].
      cbn [map] in J3. injection J3 as Hq1 Hq2.
      destruct (fails strict (Some (qtext q)) bad); cbn [fst snd map forallb aligned];
        rewrite Hq1, N.eqb_refl; (split; [|reflexivity]); unfold sys_inv;
        cbn [proxy db set_skip stmts cursors pending]; repeat split; try assumption;
        rewrite Hp, Hq; cbn [map]; f_equal; assumption.
    - destruct Hy as (J1 & J2 & J3). cbn [proxy db] in *.
      unfold sys_step. cbn [proxy db].
      destruct (bq d) as [|producer rest] eqn:Hq; [unchanged|].
      destruct (owed d); [unchanged|].
      unfold step, step_gen. cbn [fst snd map forallb aligned]. split; [|destruct (skip p); reflexivity].
      unfold sys_inv. cbn [proxy db set_pending stmts cursors pending dstmts dportals bq].
      repeat split; try assumption.
      destruct (pending p) as [|q qs]; [discriminate J3|]. cbn [map tl] in *. injection J3 as _ H. exact H.
    - destruct Hy as (J1 & J2 & J3). cbn [proxy db] in *.
      unfold sys_step. cbn [proxy db].
      destruct (owed d); [|unchanged].
      unfold step, step_gen. cbn [fst snd map forallb aligned]. split; [|destruct (skip p); reflexivity].
      unfold sys_inv. cbn [proxy db set_skip stmts cursors pending dstmts dportals bq].
      repeat split; assumption.
    - destruct Hy as (J1 & J2 & J3). cbn [proxy db] in *.
      unfold sys_step. cbn [proxy db]. unfold step, step_gen.
      cbn [fst snd map forallb aligned]. split; [|destruct (skip p); reflexivity].
      repeat split; assumption.
  Qed.

  Lemma sys_run_inv evs : forall y,
    sys_inv y ->
    sys_inv (fst (sys_run (step strict) y evs))
    /\ forallb aligned (snd (sys_run (step strict) y evs)) = true.
  Proof.
    induction evs as [|e tl IH]; intros y Hy; [split; [exact Hy|reflexivity]|].
    cbn [sys_run]. destruct (sys_step_inv y e Hy) as [H1 H2].
    destruct (sys_step (step strict) y e) as [y1 o1]. cbn [fst snd] in *.
    destruct (IH y1 H1) as [H3 H4].
    destruct (sys_run (step strict) y1 tl) as [y2 o2]. cbn [fst snd] in *.
    split; [exact H3|]. rewrite forallb_app, H2, H4. reflexivity.
  Qed.

  (** the registries of Acra and of the database agree after every history; the pending queue is what
      the database still has to answer *)
  Theorem registries_agree evs :
    let y := fst (sys_run (step strict) sys_init evs) in
    (forall nm, reg_text (proxy y) nm = lookup nm (dstmts (db y)))
    /\ (forall p s, cursor_text (proxy y) p = Some s -> lookup p (dportals (db y)) = Some s)
    /\ map qtext (pending (proxy y)) = bq (db y).
  Proof. cbn zeta. exact (proj1 (sys_run_inv evs sys_init sys_inv_init)). Qed.

  (** every Bind is processed with the statement the database binds, every Execute is queued with
      the statement the database executes, every data row is handled with the settings of the
      statement that produced it *)
  Theorem prepared_aligned evs :
    (forall dbs seen, In (BindObs dbs seen) (snd (sys_run (step strict) sys_init evs)) -> dbs = Some seen)
    /\ (forall dbs queued, In (ExecObs dbs queued) (snd (sys_run (step strict) sys_init evs)) -> dbs = Some queued)
    /\ (forall producer settings, In (RowObs producer settings) (snd (sys_run (step strict) sys_init evs)) ->
                                  settings = Some producer).
  Proof.
    destruct (sys_run_inv evs sys_init sys_inv_init) as [_ H].
    rewrite forallb_forall in H.
    repeat split; intros a b Hin; specialize (H _ Hin); cbn [aligned] in H.
    - destruct a as [x|]; [|discriminate H]. apply N.eqb_eq in H. subst. reflexivity.
    - destruct a as [x|]; [|discriminate H]. apply N.eqb_eq in H. subst. reflexivity.
    - destruct b as [x|]; [|discriminate H]. apply N.eqb_eq in H. subst. reflexivity.
  Qed.
End Aligned.

(** ** Refutations *)

(** the seeded defect (a rejected Parse is registered all the same): statement 8 accepted as the unnamed
    statement, statement 17 rejected under the same name, then Bind / Execute / a row *)
Definition m43_witness : list sys_event :=
  [Client (ClientParse 0 8 false); Client (ClientParse 0 17 true);
   Client (ClientBind 0 0); Client (ClientExecute 0); BRow true].

Theorem prepared_aligned_refuted_if_rejected_registered :
  exists strict evs,
    In (BindObs (Some 8%N) 17%N) (snd (sys_run (step_m43 strict) sys_init evs))
    /\ In (ExecObs (Some 8%N) 17%N) (snd (sys_run (step_m43 strict) sys_init evs))
    /\ In (RowObs 8%N (Some 17%N)) (snd (sys_run (step_m43 strict) sys_init evs)).
Proof.
  exists (fun _ => false), m43_witness.
  repeat split; vm_compute; repeat (try (left; reflexivity); right).
Qed.

(** the pinned tree (the queued packet reads the text of the registry object): two ACCEPTED statements
    re-use the unnamed statement before the first one is answered; the rows of the first are handled
    without settings *)
Definition pinned_witness : list sys_event :=
  [Client (ClientParse 0 9 false); Client (ClientBind 0 0); Client (ClientExecute 0);
   Client (ClientParse 0 16 false); BRow true].

Theorem prepared_aligned_refuted_pinned :
  exists strict evs,
    In (RowObs 9%N None) (snd (sys_run (step_pinned strict) sys_init evs)).
Proof.
  exists (fun _ => false), pinned_witness.
  vm_compute. repeat (try (left; reflexivity); right).
Qed.
