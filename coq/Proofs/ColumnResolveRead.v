(** Result columns: for SELECT statements over a list of plain tables (aliases, qualified and unqualified columns,
    `*` and `t.*`, other expressions) the per-column settings the analysis computes are the settings the
    specification assigns, position by position. *)
From Coq Require Import String.
From Coq Require Import List Bool NArith ZArith Arith Lia.
From Acra Require Import Lib.Bytes Lib.Outcome Model.RunColumnResolve Proofs.CensorTree Proofs.ColumnResolveBase Proofs.ColumnResolveTotal.
Import ListNotations.
Local Open Scope nat_scope.

Definition strip (l : list (option item)) : list (option (N * bytes * bytes)) :=
  map (option_map (fun it : item => let '(sid, tb, c, _) := it in (sid, tb, c))) l.

Section R.
Variable d : dialect.
Variable cfg : rcfg.

(** * the supported shape *)

Definition base_table (e : tree) : bool := isk K_AliasedTableExpr e && isk K_TableName (at_expr e).
Definition vis (e : tree) : bytes := alias_or_name d e.
Definition tbl_of (e : tree) : bytes := vfc_tab d (tn_name (at_expr e)).

Fixpoint nodupb (l : list bytes) : bool :=
  match l with [] => true | x :: tl => negb (existsb (bytes_eqb x) tl) && nodupb tl end.

Definition item_ok (it : tree) : bool :=
  isk K_StarExpr it ||
  (isk K_AliasedExpr it
   && negb (isk K_Subquery (at_expr it) && isk K_Select (fld "Select" (at_expr it)))
   && negb (isk K_ColName (at_expr it) && bytes_eqb (vfc_col d (fld "Name" (at_expr it))) STAR)).

Definition read_supported (t : tree) : bool :=
  let from := tkids (fld "From" t) in
  let se := fld "SelectExprs" t in
  isk K_Select t && nonempty from && forallb base_table from
  && nodupb (map vis from) && forallb (fun e => negb (empty (vis e))) from
  && ((is_nil se && negb (nonempty (tkids se))) || isk K_SelectExprs se) && forallb item_ok (tkids se).

(** * the specification, unfolded one level *)

Definition sp_cols_of (f : nat) (e : entry) : option (list outcol) :=
  match snd e with
  | SBase tbl => option_map (map (fun c => (c, Some (tbl, c)))) (base_cols cfg tbl)
  | SDerived sub => outputs d cfg f sub
  end.
Definition sp_has (f : nat) (e : entry) (c : bytes) : bool :=
  match snd e with
  | SBase tbl => base_has cfg tbl c
  | SDerived sub => match outputs d cfg f sub with
                    | Some os => existsb (fun o => bytes_eqb (fst o) c) os
                    | None => false
                    end
  end.
Definition sp_via (f : nat) (e : entry) (c : bytes) : option (bytes * bytes) :=
  match snd e with
  | SBase tbl => Some (tbl, c)
  | SDerived sub => match outputs d cfg f sub with
                    | Some os => match find (fun o => bytes_eqb (fst o) c) os with Some o => snd o | None => None end
                    | None => None
                    end
  end.
Definition sp_resolve (f : nat) (sc : scope) (q c : bytes) : option (bytes * bytes) :=
  if empty q then
    match filter (fun e => sp_has f e c) sc with [e] => sp_via f e c | _ => None end
  else
    match find (fun e => bytes_eqb (fst e) q) sc with Some e => sp_via f e c | None => None end.
Definition sp_item (f : nat) (sc : scope) (it : tree) : option (list outcol) :=
  if isk K_StarExpr it then
    let q := vfc_tab d (tn_name (fld "TableName" it)) in
    if empty q then opt_concat (map (sp_cols_of f) sc)
    else match find (fun e => bytes_eqb (fst e) q) sc with Some e => sp_cols_of f e | None => None end
  else if isk K_AliasedExpr it then
    let x := fld "Expr" it in
    let a := fld "As" it in
    if isk K_ColName x then
      Some [(if ci_empty a then ref_col d x else vfc_col d a, sp_resolve f sc (ref_qual d x) (ref_col d x))]
    else if isk K_Subquery x && isk K_Select (fld "Select" x) then
      match outputs d cfg f (fld "Select" x) with
      | Some [o] => Some [(vfc_col d a, snd o)]
      | _ => None
      end
    else Some [(vfc_col d a, None)]
  else Some [([], None)].

Lemma outputs_S f sel :
  outputs d cfg (S f) sel =
  opt_concat (map (sp_item f (scope_of_list d (tkids (fld "From" sel)))) (tkids (fld "SelectExprs" sel))).
Proof. reflexivity. Qed.

(** * a list of plain tables *)

Definition entry_of (e : tree) : entry := (vis e, SBase (tbl_of e)).

Lemma scope_of_base e : base_table e = true -> scope_of d e tt = [entry_of e].
Proof.
  unfold base_table. intro H. apply andb_true_iff in H. destruct H as [Hk Ht].
  destruct e as [k l cs]. apply isk_eq in Hk. cbn [tkind] in Hk. subst k.
  cbn [scope_of]. change (nth (fnum K_AliasedTableExpr "Expr") cs tnil) with (at_expr (T K_AliasedTableExpr l cs)).
  change (nth (fnum K_AliasedTableExpr "As") cs tnil) with (at_as (T K_AliasedTableExpr l cs)).
  rewrite Ht. reflexivity.
Qed.

Lemma scope_of_list_base from : forallb base_table from = true -> scope_of_list d from = map entry_of from.
Proof.
  induction from as [|e from IH]; intro H; [reflexivity|].
  cbn [forallb] in H. apply andb_true_iff in H. destruct H as [H1 H2].
  unfold scope_of_list. cbn [flat_map map]. rewrite (scope_of_base e H1). fold (scope_of_list d from). rewrite (IH H2). reflexivity.
Qed.

(** findTableName on a plain table *)
Lemma ftn_base e q c : base_table e = true ->
  ftn d e q c = if bytes_eqb (vis e) q then Ok (c, tbl_of e) else Err E_NOTFOUND.
Proof.
  unfold base_table. intro H. apply andb_true_iff in H. destruct H as [Hk Ht].
  destruct e as [k l cs]. apply isk_eq in Hk. cbn [tkind] in Hk. subst k.
  cbn [ftn]. rewrite !ftn_at.
  change (nth (fnum K_AliasedTableExpr "Expr") cs tnil) with (at_expr (T K_AliasedTableExpr l cs)).
  change (nth (fnum K_AliasedTableExpr "As") cs tnil) with (at_as (T K_AliasedTableExpr l cs)).
  set (e := T K_AliasedTableExpr l cs) in *. rewrite Ht.
  assert (Hx : forall a, ftn d (at_expr e) a c = if bytes_eqb a (tbl_of e) then Ok (c, a) else Err E_NOTFOUND).
  { intro a. destruct (at_expr e) as [k2 l2 cs2] eqn:Ex. apply isk_eq in Ht. cbn [tkind] in Ht. subst k2.
    cbn [ftn]. unfold tbl_of. rewrite Ex. reflexivity. }
  unfold vis, alias_or_name. fold (tbl_of e).
  destruct (ti_empty (at_as e)).
  - rewrite Hx. rewrite (bytes_eqb_sym_local q (tbl_of e)).
    destruct (bytes_eqb (tbl_of e) q) eqn:E; [apply bytes_eqb_eq in E; subst q; reflexivity|reflexivity].
  - destruct (bytes_eqb (vfc_tab d (at_as e)) q); [|reflexivity].
    rewrite Hx, bytes_eqb_refl. reflexivity.
Qed.

Lemma ftn_list_base from q c : forallb base_table from = true ->
  ftn_list d from q c =
  match find (fun e => bytes_eqb (vis e) q) from with Some e => Ok (c, tbl_of e) | None => Err E_NOTFOUND end.
Proof.
  unfold ftn_list. induction from as [|e from IH]; intro H; [reflexivity|].
  cbn [forallb] in H. apply andb_true_iff in H. destruct H as [H1 H2].
  cbn [map first_ok find]. rewrite (ftn_base e q c H1).
  destruct (bytes_eqb (vis e) q); [reflexivity|exact (IH H2)].
Qed.

(** getMatchedTable on a list of plain tables *)
Definition knows_e (c : bytes) (e : tree) : bool := base_has cfg (tbl_of e) c.

Lemma matched_loop_base c : forall from found,
  forallb base_table from = true -> forallb (fun e => negb (empty (vis e))) from = true ->
  matched_loop d cfg from c found =
  match filter (knows_e c) from with
  | [] => if empty found then Err E_NOTMATCHED else Ok found
  | [e] => if empty found then Ok (vis e) else Err E_MATCHED
  | _ => Err E_MATCHED
  end.
Proof.
  induction from as [|e from IH]; intros found Hb Hv; [reflexivity|].
  cbn [forallb] in Hb, Hv. apply andb_true_iff in Hb. destruct Hb as [Hb1 Hb2]. apply andb_true_iff in Hv. destruct Hv as [Hv1 Hv2].
  cbn [matched_loop filter]. pose proof Hb1 as Hb1'. unfold base_table in Hb1'. apply andb_true_iff in Hb1'. destruct Hb1' as [Hk Ht].
  rewrite Hk, Ht. cbn [negb]. unfold knows_e at 1, base_has, tab_schema. fold (tbl_of e).
  destruct (get_schema cfg (tbl_of e)) as [s|]; [|apply (IH found Hb2 Hv2)].
  destruct (knows_col s c); [|apply (IH found Hb2 Hv2)].
  assert (Hn : (if ti_empty (at_as e) then non_aliased_name d e else aliased_name d e) = Some (vis e)).
  { unfold non_aliased_name, aliased_name, vis, alias_or_name. rewrite Ht.
    destruct (ti_empty (at_as e)); reflexivity. }
  rewrite Hn. destruct (empty found) eqn:Ef.
  - rewrite (IH (vis e) Hb2 Hv2). apply negb_true_iff in Hv1. rewrite Hv1.
    destruct (filter (knows_e c) from) as [|e2 [|e3 rest]]; reflexivity.
  - destruct (filter (knows_e c) from) as [|e2 [|e3 rest]]; reflexivity.
Qed.

Lemma existsb_find_none l q : existsb (bytes_eqb q) (map vis l) = false -> find (fun e => bytes_eqb (vis e) q) l = None.
Proof.
  induction l as [|e l IH]; [reflexivity|]. cbn [map existsb find]. intro H. apply orb_false_iff in H. destruct H as [H1 H2].
  rewrite (bytes_eqb_sym_local (vis e) q), H1. exact (IH H2).
Qed.

(** with distinct visible names, the first entry visible as [vis e] is e itself *)
Lemma find_vis_self from e : nodupb (map vis from) = true -> In e from ->
  exists e', find (fun x => bytes_eqb (vis x) (vis e)) from = Some e' /\ tbl_of e' = tbl_of e /\ vis e' = vis e.
Proof.
  induction from as [|x from IH]; intros Hnd Hin; [destruct Hin|].
  cbn [map nodupb] in Hnd. apply andb_true_iff in Hnd. destruct Hnd as [Hx Hnd]. apply negb_true_iff in Hx.
  cbn [find]. destruct Hin as [->|Hin].
  - rewrite bytes_eqb_refl. exists e. auto.
  - destruct (bytes_eqb (vis x) (vis e)) eqn:E.
    + exfalso. apply bytes_eqb_eq in E.
      assert (existsb (bytes_eqb (vis x)) (map vis from) = true).
      { apply existsb_exists. exists (vis e). split; [apply in_map; exact Hin|rewrite E; apply bytes_eqb_refl]. }
      congruence.
    + exact (IH Hnd Hin).
Qed.

(** * a column reference *)

Lemma find_entry from q :
  find (fun e : entry => bytes_eqb (fst e) q) (map entry_of from) = option_map entry_of (find (fun e => bytes_eqb (vis e) q) from).
Proof.
  induction from as [|e from IH]; [reflexivity|]. cbn [map find fst entry_of].
  destruct (bytes_eqb (vis e) q); [reflexivity|exact IH].
Qed.

Lemma filter_entry f from c :
  filter (fun e : entry => sp_has f e c) (map entry_of from) = map entry_of (filter (knows_e c) from).
Proof.
  induction from as [|e from IH]; [reflexivity|]. cbn [map filter]. unfold sp_has at 1, knows_e at 1. cbn [entry_of snd].
  destruct (base_has cfg (tbl_of e) c); cbn [map]; rewrite IH; reflexivity.
Qed.

(** FindColumnInfo against the reference resolution of the specification *)
Lemma find_column_info_base f from cn :
  forallb base_table from = true -> nodupb (map vis from) = true ->
  forallb (fun e => negb (empty (vis e))) from = true -> nonempty from = true ->
  isk K_JoinTableExpr (hd tnil from) = false ->
  match find_column_info d cfg from cn with
  | Ok (n, tb, _) => n = ref_col d cn /\ sp_resolve f (map entry_of from) (ref_qual d cn) (ref_col d cn) = Some (tb, n)
  | Err _ => sp_resolve f (map entry_of from) (ref_qual d cn) (ref_col d cn) = None
  | Panic => False
  end.
Proof.
  intros Hb Hnd Hv Hne Hj. unfold find_column_info, sp_resolve. fold (ref_qual d cn). fold (ref_col d cn).
  destruct (empty (ref_qual d cn)) eqn:Eq.
  - (* unqualified *)
    unfold matched_table. destruct from as [|f0 ftl] eqn:Efrom; [discriminate|]. cbn [hd] in Hj. rewrite Hj. rewrite <- Efrom in *.
    rewrite (matched_loop_base (ref_col d cn) from [] Hb Hv). cbn [empty].
    rewrite filter_entry.
    destruct (filter (knows_e (ref_col d cn)) from) as [|e [|e2 rest]] eqn:Ef; cbn [bind map]; try reflexivity.
    assert (Hin : In e from).
    { assert (H : In e (filter (knows_e (ref_col d cn)) from)) by (rewrite Ef; left; reflexivity). apply filter_In in H. exact (proj1 H). }
    destruct (find_vis_self from e Hnd Hin) as [e' [Hf [Ht _]]].
    rewrite (ftn_list_base from (vis e) (ref_col d cn) Hb), Hf. cbn [bind fst snd].
    split; [reflexivity|]. unfold sp_via. cbn [entry_of snd]. rewrite Ht. reflexivity.
  - (* qualified *)
    cbn [bind]. rewrite (ftn_list_base from (ref_qual d cn) (ref_col d cn) Hb). rewrite find_entry.
    destruct (find (fun e => bytes_eqb (vis e) (ref_qual d cn)) from) as [e|]; cbn [bind option_map fst snd]; [|reflexivity].
    split; reflexivity.
Qed.

(** ParseQuerySettings on one resolved column *)
Lemma expand_col n tb al : bytes_eqb n STAR = false ->
  strip (expand_info cfg (Some (n, tb, al))) = [setting_of cfg (Some (tb, n))].
Proof.
  intro Hs. unfold expand_info, setting_of. destruct (get_schema cfg tb) as [s|]; [|reflexivity].
  rewrite Hs. destruct (col_setting s n); reflexivity.
Qed.

(** ... and on `tbl.*` when the column list of tbl is known *)
Lemma expand_star tb cols : base_cols cfg tb = Some cols ->
  strip (expand_info cfg (Some (STAR, tb, STAR))) = map (fun c => setting_of cfg (Some (tb, c))) cols.
Proof.
  unfold base_cols, expand_info. destruct (get_schema cfg tb) as [s|] eqn:Es; [|discriminate].
  destruct (nonempty (rt_cols s)); [|discriminate]. intro H; inversion H; subst cols.
  rewrite bytes_eqb_refl. unfold strip. rewrite map_map. apply map_ext. intro c.
  unfold setting_of. rewrite Es. destruct (col_setting s c); reflexivity.
Qed.

Lemma strip_app a b : strip (a ++ b) = strip a ++ strip b.
Proof. unfold strip. apply map_app. Qed.

(** `*` over the whole list *)
Lemma star_all_base f from outs :
  forallb base_table from = true ->
  opt_concat (map (sp_cols_of f) (map entry_of from)) = Some outs ->
  exists infos,
    (fix all (from : list tree) : res (list (option colinfo)) :=
       match from with
       | [] => Ok []
       | x :: tl => do n <- table_name_without_aliases d x; do rest <- all tl; Ok (Some (STAR, n, STAR) :: rest)
       end) from = Ok infos /\
    strip (flat_map (expand_info cfg) infos) = map (fun o => setting_of cfg (snd o)) outs.
Proof.
  revert outs. induction from as [|e from IH]; intros outs Hb Ho.
  - cbn in Ho. inversion Ho; subst. exists []. split; reflexivity.
  - cbn [forallb] in Hb. apply andb_true_iff in Hb. destruct Hb as [Hb1 Hb2].
    cbn [map opt_concat] in Ho. unfold sp_cols_of at 1 in Ho. cbn [entry_of snd] in Ho.
    destruct (base_cols cfg (tbl_of e)) as [cols|] eqn:Ec; cbn [option_map] in Ho; [|discriminate].
    destruct (opt_concat (map (sp_cols_of f) (map entry_of from))) as [outs'|] eqn:Eo; cbn [option_map] in Ho; [|discriminate].
    inversion Ho; subst outs. destruct (IH outs' Hb2 eq_refl) as [infos [Hi Hs]].
    pose proof Hb1 as Hb1'. unfold base_table in Hb1'. apply andb_true_iff in Hb1'. destruct Hb1' as [Hk Ht].
    unfold table_name_without_aliases at 1. rewrite Hk, Ht. cbn [negb bind]. rewrite Hi. cbn [bind].
    exists (Some (STAR, tbl_of e, STAR) :: infos). split; [reflexivity|].
    cbn [flat_map]. rewrite strip_app, Hs, (expand_star _ cols Ec), map_app, map_map. reflexivity.
Qed.

(** * one select item *)

Lemma vfc_tab_empty' t : empty (vfc_tab d t) = ti_empty t.
Proof.
  unfold vfc_tab, ti_empty, ti_lowered.
  assert (L : forall v, empty (lower v) = empty v) by (intros [|? ?]; reflexivity).
  destruct d as [[|]|].
  - reflexivity.
  - destruct (empty (ti_v t)) eqn:E; [reflexivity|].
    destruct (empty (tlab (fld "lowered" t))) eqn:E2; [rewrite L; exact E|exact E2].
  - destruct (ti_quoted t); [reflexivity|].
    destruct (empty (ti_v t)) eqn:E; [reflexivity|].
    destruct (empty (tlab (fld "lowered" t))) eqn:E2; [rewrite L; exact E|exact E2].
Qed.

Definition plain_ctx (from : list tree) : sctx := {| cx_from := from; cx_tabs := []; cx_aliases := [] |}.

Lemma item_base f from it outs :
  forallb base_table from = true -> nodupb (map vis from) = true ->
  forallb (fun e => negb (empty (vis e))) from = true -> nonempty from = true ->
  isk K_JoinTableExpr (hd tnil from) = false ->
  item_ok it = true -> sp_item f (map entry_of from) it = Some outs ->
  exists infos, mca d cfg it (plain_ctx from) = Ok infos /\
    strip (flat_map (expand_info cfg) infos) = map (fun o => setting_of cfg (snd o)) outs.
Proof.
  intros Hb Hnd Hv Hne Hj Hok Hsp. unfold item_ok in Hok. unfold sp_item in Hsp.
  destruct (isk K_StarExpr it) eqn:Estar.
  - (* star *)
    destruct it as [k l cs]. apply isk_eq in Estar. cbn [tkind] in Estar. subst k. cbn [mca].
    unfold star_info. cbn [plain_ctx cx_tabs cx_from nonempty].
    rewrite vfc_tab_empty' in Hsp. fold (tn_name (fld "TableName" (T K_StarExpr l cs))) in Hsp.
    destruct (ti_empty (tn_name (fld "TableName" (T K_StarExpr l cs)))) eqn:Eq; cbn [negb].
    + exact (star_all_base f from outs Hb Hsp).
    + rewrite find_entry in Hsp. rewrite (ftn_list_base _ _ _ Hb).
      destruct (find (fun e => bytes_eqb (vis e) (vfc_tab d (tn_name (fld "TableName" (T K_StarExpr l cs))))) from) as [e|]; cbn [option_map] in Hsp; [|discriminate].
      unfold sp_cols_of in Hsp. cbn [entry_of snd] in Hsp.
      destruct (base_cols cfg (tbl_of e)) as [cols|] eqn:Ec; cbn [option_map] in Hsp; [|discriminate].
      inversion Hsp; subst outs. cbn [bind snd]. eexists. split; [reflexivity|].
      cbn [flat_map]. rewrite app_nil_r, (expand_star _ cols Ec), map_map. reflexivity.
  - (* an aliased expression *)
    cbn [orb] in Hok. apply andb_true_iff in Hok. destruct Hok as [Hok Hnstar]. apply andb_true_iff in Hok. destruct Hok as [Hk Hnsub].
    rewrite Hk in Hsp. destruct it as [k l cs]. apply isk_eq in Hk. cbn [tkind] in Hk. subst k. cbn [mca].
    change (nth (fnum K_AliasedExpr "Expr") cs tnil) with (at_expr (T K_AliasedExpr l cs)).
    change (fld "Expr" (T K_AliasedExpr l cs)) with (at_expr (T K_AliasedExpr l cs)) in Hsp.
    set (x := at_expr (T K_AliasedExpr l cs)) in *.
    apply negb_true_iff in Hnsub. rewrite Hnsub. rewrite Hnsub in Hsp.
    destruct (isk K_ColName x) eqn:Ecol.
    + inversion Hsp; subst outs. cbn [andb] in Hnstar. apply negb_true_iff in Hnstar.
      pose proof (find_column_info_base f from x Hb Hnd Hv Hne Hj) as Hf. cbn [plain_ctx cx_from].
      destruct (find_column_info d cfg from x) as [[[n tb] al]| |].
      * destruct Hf as [Hn Hr]. eexists. split; [reflexivity|]. cbn [flat_map map snd]. rewrite app_nil_r, Hr.
        apply expand_col. rewrite Hn. exact Hnstar.
      * eexists. split; [reflexivity|]. cbn [flat_map map snd]. rewrite Hf. reflexivity.
      * destruct Hf.
    + inversion Hsp; subst outs. eexists. split; [reflexivity|]. reflexivity.
Qed.

Lemma items_base f from : forall items outs,
  forallb base_table from = true -> nodupb (map vis from) = true ->
  forallb (fun e => negb (empty (vis e))) from = true -> nonempty from = true ->
  isk K_JoinTableExpr (hd tnil from) = false ->
  forallb item_ok items = true ->
  opt_concat (map (sp_item f (map entry_of from)) items) = Some outs ->
  exists infos,
    fold_right (fun g acc => do l <- g (plain_ctx from); do r <- acc; Ok (l ++ r)) (Ok []) (map (mca d cfg) items) = Ok infos /\
    strip (flat_map (expand_info cfg) infos) = map (fun o => setting_of cfg (snd o)) outs.
Proof.
  induction items as [|it items IH]; intros outs Hb Hnd Hv Hne Hj Hok Hsp.
  - cbn in Hsp. inversion Hsp; subst. exists []. split; reflexivity.
  - cbn [forallb] in Hok. apply andb_true_iff in Hok. destruct Hok as [Hok1 Hok2].
    cbn [map opt_concat] in Hsp.
    destruct (sp_item f (map entry_of from) it) as [o1|] eqn:E1; [|discriminate].
    destruct (opt_concat (map (sp_item f (map entry_of from)) items)) as [o2|] eqn:E2; cbn [option_map] in Hsp; [|discriminate].
    inversion Hsp; subst outs.
    destruct (item_base f from it o1 Hb Hnd Hv Hne Hj Hok1 E1) as [i1 [H1 S1]].
    destruct (IH o2 Hb Hnd Hv Hne Hj Hok2 eq_refl) as [i2 [H2 S2]].
    cbn [map fold_right]. rewrite H1. cbn [bind]. rewrite H2. cbn [bind].
    exists (i1 ++ i2). split; [reflexivity|]. rewrite flat_map_app, strip_app, S1, S2, map_app. reflexivity.
Qed.

Lemma base_not_join e : base_table e = true -> isk K_JoinTableExpr e = false.
Proof.
  unfold base_table. intro H. apply andb_true_iff in H. destruct H as [H _]. apply isk_eq in H.
  unfold isk. rewrite H. reflexivity.
Qed.

(** (2) result columns of a SELECT over a list of plain tables *)
Theorem read_select_spec t l :
  read_supported t = true -> spec_result d cfg t = Some l ->
  exists l', impl_read d cfg t = Ok (RItems l') /\ strip l' = l.
Proof.
  unfold read_supported. intros Hs Hspec.
  repeat (apply andb_true_iff in Hs; destruct Hs as [Hs ?]).
  rename H into Hitems. rename H0 into Hse. rename H1 into Hv. rename H2 into Hnd. rename H3 into Hb. rename H4 into Hne.
  apply isk_eq in Hs. unfold impl_read, spec_result in *. rewrite Hs in *.
  destruct t as [k lab cs]. cbn [tkind] in Hs. subst k.
  unfold spec_select in Hspec. cbn [tree_size] in Hspec. rewrite outputs_S in Hspec.
  set (t := T K_Select lab cs) in *. set (from := tkids (fld "From" t)) in *.
  rewrite (scope_of_list_base from Hb) in Hspec.
  destruct (opt_concat (map (sp_item _ (map entry_of from)) (tkids (fld "SelectExprs" t)))) as [outs|] eqn:Eo; cbn [option_map] in Hspec; [|discriminate].
  inversion Hspec; subst l. clear Hspec.
  assert (Hj : isk K_JoinTableExpr (hd tnil from) = false).
  { destruct from as [|f0 ftl]; [discriminate|]. cbn [hd forallb] in *. apply andb_true_iff in Hb. apply base_not_join. exact (proj1 Hb). }
  destruct (items_base _ from _ outs Hb Hnd Hv Hne Hj Hitems Eo) as [infos [Hi Hst]].
  unfold read_select. subst t. cbn [mca].
  change (tkids (nth (fnum K_Select "From") cs tnil)) with from.
  destruct from as [|f0 ftl] eqn:Efrom; [discriminate|]. cbn [hd] in Hj. rewrite Hj. cbn [bind fst snd].
  change (nth (fnum K_Select "SelectExprs") cs tnil) with (fld "SelectExprs" (T K_Select lab cs)).
  set (se := fld "SelectExprs" (T K_Select lab cs)) in *.
  apply orb_true_iff in Hse. destruct Hse as [Hse|Hse].
  - apply andb_true_iff in Hse. destruct Hse as [Hn Hk]. rewrite Hn. cbn [bind].
    apply negb_true_iff in Hk. apply nonempty_false in Hk. rewrite Hk in Eo. cbn in Eo. inversion Eo; subst outs.
    exists []. split; reflexivity.
  - assert (Hn : is_nil se = false).
    { rewrite is_nil_isk. apply isk_eq in Hse. unfold isk. rewrite Hse. reflexivity. }
    rewrite Hn.
    rewrite (nth_map_present (mca d cfg) cs (fnum K_Select "SelectExprs") _ Hn).
    change (nth (fnum K_Select "SelectExprs") cs tnil) with se.
    destruct se as [k2 l2 items] eqn:Ese. apply isk_eq in Hse. cbn [tkind] in Hse. subst k2. cbn [mca].
    cbn [tkids] in Hi. unfold plain_ctx in Hi. rewrite Hi. cbn [bind].
    exists (flat_map (expand_info cfg) infos). split; [reflexivity|exact Hst].
Qed.

End R.
