(** Proofs about Model/MysqlSession.v (C05, MySQL path). *)
From Coq Require Import List Bool NArith Lia ZifyN ZifyNat ZifyBool.
From Acra Require Import Lib.Bytes Gen.MysqlSessionConsts Gen.WireMysqlConsts.
From Acra Require Import Model.Censor Proofs.Censor Model.MysqlSession.
Import ListNotations.
Local Open Scope N_scope.

(** * 1. The answer to a rejected statement (any state, hence any history before it) *)

Lemma denied_query_step st s seq parts :
  closed st = false ->
  client_step st (CP (CQuery s true) seq parts)
  = (St (handler st) MYS_COM_QUERY (cur st) (pparse st) (registry st) false, [ErrToClient (answer_seq seq parts)]).
Proof. intros Hc. unfold client_step. rewrite Hc. reflexivity. Qed.

Lemma denied_prepare_step st s seq parts :
  closed st = false ->
  client_step st (CP (CPrepare s true) seq parts)
  = (St (handler st) MYS_COM_STMT_PREPARE (cur st) None (registry st) false, [ErrToClient (answer_seq seq parts)]).
Proof. intros Hc. unfold client_step. rewrite Hc. reflexivity. Qed.

Definition is_rejected (c : cmd) : bool :=
  match c with CQuery _ true | CPrepare _ true => true | _ => false end.

(** a rejected statement: nothing goes to the database, exactly one ERR packet goes to the client, it carries
    the sequence id of the command's last packet + 1, and handler, settings in force and registry stay *)
Theorem rejected_statement_answer st p :
  is_rejected (c_cmd p) = true ->
  let '(st', os) := client_step st p in
  forwarded_of os = []
  /\ (closed st = false -> os = [ErrToClient (answer_seq (c_seq p) (c_parts p))])
  /\ handler st' = handler st /\ cur st' = cur st /\ registry st' = registry st /\ closed st' = closed st.
Proof.
  destruct p as [c seq parts]. cbn [c_cmd c_seq c_parts]. intros Hr.
  unfold client_step. cbn [c_cmd c_seq c_parts].
  destruct (closed st) eqn:Hc.
  - cbn. repeat split; try reflexivity; try exact Hc. intros H; discriminate H.
  - destruct c as [s d|s d| | | | | | ]; try discriminate Hr; destruct d; try discriminate Hr;
      cbn; repeat split; reflexivity.
Qed.

(** the sequence id of the answer to a command that fits one wire packet is the command's id + 1 *)
Lemma answer_seq_single first len :
  len < MY_MAX_PAYLOAD -> answer_seq first (wire_parts len) = N.land (first + 1) 255.
Proof.
  intros H. unfold answer_seq, wire_parts. rewrite N.div_small by exact H. reflexivity.
Qed.

Lemma answer_seq_byte first parts : answer_seq first parts < 256.
Proof.
  unfold answer_seq. change 255 with (N.ones 8). rewrite N.land_ones.
  apply N.mod_lt. discriminate.
Qed.

(** the bytes: a well-formed packet (3-byte length of the payload, sequence id, ERR marker, error code) *)
Theorem command_error_packet_wellformed p41 msg first len :
  N.of_nat (length (interrupted_error p41 msg)) < 256 ^ 3 ->
  let pkt := command_error_packet p41 msg first len in
  le_dec (firstn 3 pkt) = N.of_nat (length pkt) - 4
  /\ nth_error pkt 3 = Some (n2b (answer_seq first (wire_parts len)))
  /\ nth_error pkt 4 = Some (n2b MY_ERR)
  /\ le_dec (firstn 2 (skipn 5 pkt)) = MYS_ER_QUERY_INTERRUPTED.
Proof.
  intros Hlen pkt. subst pkt. unfold command_error_packet.
  set (payload := interrupted_error p41 msg) in *.
  assert (Hdec : le_dec (le_enc 3 (N.of_nat (length payload))) = N.of_nat (length payload))
    by (apply le_dec_enc_small; exact Hlen).
  pose proof (le_enc_length 3 (N.of_nat (length payload))) as HL.
  destruct (le_enc 3 (N.of_nat (length payload))) as [|a [|b [|c [|d l]]]]; try discriminate HL.
  cbn [app firstn nth_error skipn length].
  split; [|split; [|split]].
  - rewrite Hdec. lia.
  - reflexivity.
  - unfold payload, interrupted_error. reflexivity.
  - unfold payload, interrupted_error. cbn [skipn app le_enc firstn]. vm_compute. reflexivity.
Qed.

(** * 2. What reaches the database was sent by the client and accepted (arbitrary database packets) *)

Lemma db_step_no_todb strict depeof st d f seq parts :
  ~ In (ToDb f seq parts) (snd (db_step strict depeof st d)).
Proof.
  unfold db_step. destruct (closed st); [cbn; tauto|].
  set (st1 := match d with DErr => set_handler st HDefault | _ => st end).
  destruct (handler st1) eqn:Hh.
  - destruct d; cbn; try (intros [H|[]]; discriminate H).
    intros [H|H]; [discriminate H|]. apply in_map_iff in H. destruct H as [x [H _]]. discriminate H.
  - destruct d; cbn; try (intros [H|[]]; discriminate H).
    unfold process_rows. destruct (existsb _ _); cbn.
    + intros [H|[]]; discriminate H.
    + intros [H|H]; [discriminate H|]. apply in_map_iff in H. destruct H as [x [H _]]. discriminate H.
  - destruct d; try (cbn; intros [H|[]]; discriminate H).
    destruct (pparse st1); cbn; intros [H|[]]; discriminate H.
  - destruct d; cbn; intros [H|[]]; discriminate H.
  - destruct d; cbn; intros [H|[]]; discriminate H.
  - cbn; intros [H|[]]; discriminate H.
Qed.

Lemma db_run_no_todb strict depeof ds : forall st f seq parts,
  ~ In (ToDb f seq parts) (snd (db_run strict depeof st ds)).
Proof.
  induction ds as [|d tl IH]; intros st f seq parts; cbn [db_run].
  - cbn. tauto.
  - destruct (db_step strict depeof st d) as [st1 o1] eqn:E1.
    destruct (db_run strict depeof st1 tl) as [st2 o2] eqn:E2. cbn [snd].
    intros H. apply in_app_or in H. destruct H as [H|H].
    + apply (db_step_no_todb strict depeof st d f seq parts). rewrite E1. exact H.
    + apply (IH st1 f seq parts). rewrite E2. exact H.
Qed.

(** the statement commands: what the client sent *)
Definition stmt_of_fwd (f : fwd) : option (cmd) :=
  match f with
  | FQuery s => Some (CQuery s false)
  | FPrepare s => Some (CPrepare s false)
  | _ => None
  end.

Lemma client_step_todb st p f seq parts :
  In (ToDb f seq parts) (snd (client_step st p)) ->
  seq = c_seq p /\ parts = c_parts p /\
  match f with
  | FQuery s => c_cmd p = CQuery s false
  | FPrepare s => c_cmd p = CPrepare s false
  | FExecute id => c_cmd p = CExecute (Some id)
  | FClose id => c_cmd p = CClose id
  | FReset id => c_cmd p = CReset id
  | FLongData id => c_cmd p = CLongData id
  | FOther => c_cmd p = COther
  | FQuit => c_cmd p = CQuit
  end.
Proof.
  destruct p as [c sq pt]. unfold client_step. cbn [c_cmd c_seq c_parts].
  destruct (closed st); [cbn; tauto|].
  destruct c as [s d|s d|[id|]|id|id|id| | ]; cbn [snd].
  - destruct d; cbn; intros [H|[]]; inversion H; subst; repeat split; reflexivity.
  - destruct d; cbn; intros [H|[]]; inversion H; subst; repeat split; reflexivity.
  - destruct (N.eqb id MYS_DIRECT_ID).
    + cbn [pparse]. destruct (pparse st); cbn; intros [H|[]]; inversion H; subst; repeat split; reflexivity.
    + cbn. intros [H|[]]; inversion H; subst; repeat split; reflexivity.
  - cbn. intros [H|[]]; discriminate H.
  - cbn. intros [H|[]]; inversion H; subst; repeat split; reflexivity.
  - cbn. intros [H|[]]; inversion H; subst; repeat split; reflexivity.
  - cbn. intros [H|[]]; inversion H; subst; repeat split; reflexivity.
  - cbn. intros [H|[]]; inversion H; subst; repeat split; reflexivity.
  - cbn. intros [H|[]]; inversion H; subst; repeat split; reflexivity.
Qed.

(** for every session history and whatever the database sends: a statement that is written to the database
    connection is a statement the client sent in a command AcraCensor accepted, with that command's sequence id *)
Theorem forwarded_was_accepted strict depeof evs : forall st f seq parts,
  In (ToDb f seq parts) (snd (run_session strict depeof st evs)) ->
  exists p ds, In (p, ds) evs /\ c_seq p = seq /\ c_parts p = parts /\
    match f with
    | FQuery s => c_cmd p = CQuery s false
    | FPrepare s => c_cmd p = CPrepare s false
    | _ => True
    end.
Proof.
  induction evs as [|[p ds] tl IH]; intros st f seq parts; cbn [run_session].
  - cbn. tauto.
  - unfold exchange.
    destruct (client_step st p) as [st1 o1] eqn:E1.
    destruct (db_run strict depeof st1 ds) as [st2 o2] eqn:E2.
    destruct (run_session strict depeof st2 tl) as [st3 o3] eqn:E3. cbn [snd].
    intros H. apply in_app_or in H. destruct H as [H|H].
    + apply in_app_or in H. destruct H as [H|H].
      * pose proof (client_step_todb st p f seq parts) as C. rewrite E1 in C. specialize (C H).
        destruct C as [Hs [Hp Hc]]. exists p, ds. repeat split; try (symmetry; assumption); [left; reflexivity|].
        destruct f; try exact Logic.I; exact Hc.
      * exfalso. apply (db_run_no_todb strict depeof ds st1 f seq parts). rewrite E2. exact H.
    + specialize (IH st2 f seq parts). rewrite E3 in IH. destruct (IH H) as [p' [ds' [Hin R]]].
      exists p', ds'. split; [right; exact Hin|exact R].
Qed.

(** the verdict as a function of the statement: a rejected statement is never forwarded *)
Theorem denied_never_forwarded strict depeof (v : N -> bool) evs st :
  (forall p ds s d, In (p, ds) evs -> c_cmd p = CQuery s d \/ c_cmd p = CPrepare s d -> d = v s) ->
  forall s seq parts,
    In (ToDb (FQuery s) seq parts) (snd (run_session strict depeof st evs))
    \/ In (ToDb (FPrepare s) seq parts) (snd (run_session strict depeof st evs)) ->
    v s = false.
Proof.
  intros Hv s seq parts [H|H];
    destruct (forwarded_was_accepted strict depeof evs st _ seq parts H) as [p [ds [Hin [_ [_ Hc]]]]];
    symmetry; eapply Hv; try exact Hin; [left|right]; exact Hc.
Qed.

(** composition with the chain model: whatever statement reaches the database is allowed by the independent
    chain specification ([view s] = what the configured chain sees of statement [s]) *)
Theorem rejected_never_reaches_database strict depeof (c : censor) (view : N -> bool * list Acra.Model.Censor.handler) evs st :
  (forall p ds s d, In (p, ds) evs -> c_cmd p = CQuery s d \/ c_cmd p = CPrepare s d ->
                    d = is_denied (handle_query c (fst (view s)) (snd (view s)))) ->
  forall s seq parts,
    In (ToDb (FQuery s) seq parts) (snd (run_session strict depeof st evs))
    \/ In (ToDb (FPrepare s) seq parts) (snd (run_session strict depeof st evs)) ->
    spec_verdict c (fst (view s)) (snd (view s)) = Allowed.
Proof.
  intros Hv s seq parts Hin.
  pose proof (denied_never_forwarded strict depeof
                (fun s => is_denied (handle_query c (fst (view s)) (snd (view s)))) evs st Hv s seq parts Hin) as H.
  cbn beta in H. rewrite first_decisive_wins in H.
  destruct (spec_verdict c (fst (view s)) (snd (view s))); [reflexivity|discriminate H].
Qed.

(** * 3. The registry holds accepted statements only (arbitrary database packets) *)

Definition accepted_prepare (evs : list (cpacket * list dpkt)) (s : N) : Prop :=
  exists p ds, In (p, ds) evs /\ c_cmd p = CPrepare s false.

Definition reg_ok (acc : N -> Prop) (st : state) : Prop :=
  (forall id s, In (id, s) (registry st) -> acc s) /\ (forall s, pparse st = Some s -> acc s).

Lemma remove_incl id r kv : In kv (remove id r) -> In kv r.
Proof. unfold remove. intros H. apply filter_In in H. tauto. Qed.

Lemma client_step_reg_ok (acc : N -> Prop) st p :
  reg_ok acc st ->
  (forall s, c_cmd p = CPrepare s false -> acc s) ->
  reg_ok acc (fst (client_step st p)).
Proof.
  intros [Hr Hp] Hacc. destruct p as [c sq pt]. cbn [c_cmd] in Hacc.
  unfold client_step. cbn [c_cmd c_seq c_parts].
  destruct (closed st); [split; assumption|].
  destruct c as [s d|s d|[id|]|id|id|id| | ]; cbn [fst].
  - destruct d; split; cbn; assumption.
  - destruct d; split; cbn; try assumption.
    + intros s' H; discriminate H.
    + intros s' H. inversion H; subst. apply Hacc. reflexivity.
  - destruct (N.eqb id MYS_DIRECT_ID).
    + cbn [pparse]. destruct (pparse st) eqn:E; split; cbn; try assumption.
      all: try (intros s' H; rewrite E in Hp; apply Hp; exact H).
      all: rewrite E in Hp; exact Hp.
    + split; cbn; assumption.
  - split; cbn; assumption.
  - split; cbn; [|assumption]. intros id' s H. apply remove_incl in H. eapply Hr; exact H.
  - split; cbn; assumption.
  - split; cbn; assumption.
  - split; cbn; assumption.
  - split; cbn; assumption.
Qed.

Lemma db_step_reg_ok strict depeof (acc : N -> Prop) st d :
  reg_ok acc st -> reg_ok acc (fst (db_step strict depeof st d)).
Proof.
  intros [Hr Hp]. unfold db_step. destruct (closed st); [split; assumption|].
  assert (H1 : reg_ok acc (match d with DErr => set_handler st HDefault | _ => st end))
    by (destruct d; split; cbn; assumption).
  set (st1 := match d with DErr => set_handler st HDefault | _ => st end) in *.
  destruct H1 as [Hr1 Hp1].
  destruct (handler st1).
  - split; cbn; assumption.
  - destruct d; split; cbn; assumption.
  - destruct d; try (split; cbn; assumption).
    destruct (pparse st1) eqn:E; [|split; cbn; assumption].
    split; cbn.
    + intros id' s [H|H]; [inversion H; subst; apply Hp1; reflexivity| eapply Hr1; exact H].
    + intros s H. apply Hp1. exact H.
  - destruct d; split; cbn; assumption.
  - destruct d; split; cbn; assumption.
  - split; cbn; assumption.
Qed.

Lemma db_run_reg_ok strict depeof (acc : N -> Prop) ds : forall st,
  reg_ok acc st -> reg_ok acc (fst (db_run strict depeof st ds)).
Proof.
  induction ds as [|d tl IH]; intros st H; cbn [db_run]; [exact H|].
  pose proof (db_step_reg_ok strict depeof acc st d H) as H1.
  destruct (db_step strict depeof st d) as [st1 o1]. cbn [fst] in H1.
  specialize (IH st1 H1). destruct (db_run strict depeof st1 tl) as [st2 o2]. exact IH.
Qed.

(** for every session history and whatever the database sends: every registered statement (and the pending one)
    is the statement of an accepted COM_STMT_PREPARE of that history *)
Theorem registry_only_accepted strict depeof evs :
  let st := fst (run_session strict depeof init evs) in
  (forall id s, In (id, s) (registry st) -> accepted_prepare evs s)
  /\ (forall s, pparse st = Some s -> accepted_prepare evs s).
Proof.
  assert (G : forall evs pre st, reg_ok (accepted_prepare (pre ++ evs)) st ->
                reg_ok (accepted_prepare (pre ++ evs)) (fst (run_session strict depeof st evs))).
  { clear evs. induction evs as [|[p ds] tl IH]; intros pre st H; cbn [run_session]; [exact H|].
    unfold exchange.
    assert (H1 : reg_ok (accepted_prepare (pre ++ (p, ds) :: tl)) (fst (client_step st p))).
    { apply client_step_reg_ok; [exact H|]. intros s Hc. exists p, ds. split; [|exact Hc].
      apply in_or_app. right. left. reflexivity. }
    destruct (client_step st p) as [st1 o1]. cbn [fst] in H1.
    pose proof (db_run_reg_ok strict depeof _ ds st1 H1) as H2.
    destruct (db_run strict depeof st1 ds) as [st2 o2]. cbn [fst] in H2.
    replace (pre ++ (p, ds) :: tl) with ((pre ++ [(p, ds)]) ++ tl) in * by (rewrite <- app_assoc; reflexivity).
    specialize (IH (pre ++ [(p, ds)]) st2 H2).
    destruct (run_session strict depeof st2 tl) as [st3 o3]. exact IH. }
  specialize (G evs [] init). cbn [app] in G. apply G.
  split; cbn; [intros id s []|intros s H; discriminate H].
Qed.

(** a rejected statement never gets into the registry: if AcraCensor rejects [s] whenever it is prepared *)
Corollary rejected_never_registered strict depeof evs s :
  (forall p ds d, In (p, ds) evs -> c_cmd p = CPrepare s d -> d = true) ->
  let st := fst (run_session strict depeof init evs) in
  (forall id, ~ In (id, s) (registry st)) /\ pparse st <> Some s.
Proof.
  intros Hd st. destruct (registry_only_accepted strict depeof evs) as [Hr Hp]. fold st in Hr, Hp.
  split.
  - intros id Hin. destruct (Hr id s Hin) as [p [ds [Hi Hc]]]. specialize (Hd p ds false Hi Hc). discriminate Hd.
  - intros E. destruct (Hp s E) as [p [ds [Hi Hc]]]. specialize (Hd p ds false Hi Hc). discriminate Hd.
Qed.

(** * 4. Proxy + in-order MySQL server: registry = server, rows with their own settings, the session stays up *)

Lemma lookup_remove k id r : lookup k (remove id r) = if N.eqb k id then None else lookup k r.
Proof.
  induction r as [|[a b] tl IH]; cbn [remove filter lookup fst].
  - destruct (N.eqb k id); reflexivity.
  - fold (remove id tl). destruct (N.eqb a id) eqn:Ea; cbn [negb].
    + rewrite IH. destruct (N.eqb k id) eqn:Ek; [reflexivity|].
      destruct (N.eqb a k) eqn:Eak; [|reflexivity].
      apply N.eqb_eq in Ea, Eak. subst. rewrite N.eqb_refl in Ek. discriminate Ek.
    + cbn [lookup]. destruct (N.eqb a k) eqn:Eak.
      * apply N.eqb_eq in Eak. subst. rewrite Ea. reflexivity.
      * exact IH.
Qed.

Section Sys.
  Variable strict : N -> bool.
  Variable depeof : bool.
  Variable nparams ncols : N -> N.

  Definition resting (h : rh) : Prop := h = HDefault \/ h = HQuery.

  Record inv (y : sys) : Prop := Inv {
    i_open : closed (proxy y) = false;
    i_reg : forall id, lookup id (registry (proxy y)) = lookup id (bstmts (be y));
    i_zero : lookup 0 (bstmts (be y)) = None;
    i_last : forall s s', pparse (proxy y) = Some s ->
                          lookup (lastprep (be y)) (bstmts (be y)) = Some s' -> s = s';
    i_rest : resting (handler (proxy y))
  }.

  Definition good (o : obs) : Prop :=
    match o with RowObs p st => st = Some p | _ => True end.

  Definition not_raw (o : obs) : Prop :=
    match o with RawObs _ => False | _ => True end.

  Definition no_close (o : obs) : Prop :=
    match o with Other SessionClosed => False | _ => True end.

  (** running definition packets through the field trackers *)
  Lemma run_cols k : forall st seen nc,
    closed st = false -> handler st = HCols seen nc -> seen + N.of_nat k = nc -> (0 < k)%nat ->
    exists os, db_run strict depeof st (repeat DDef k ++ (if depeof then [] else [DEof]))
               = (set_handler st HQuery, os) /\ Forall (fun o => o = Pass \/ o = PassDef) os.
  Proof.
    induction k as [|k IH]; intros st seen nc Hc Hh Hn Hk; [lia|].
    cbn [repeat app db_run]. unfold db_step at 1. rewrite Hc, Hh.
    destruct k as [|k'].
    - cbn [repeat app]. replace (nc <=? seen + 1) with true by lia.
      destruct depeof; cbn [andb db_run].
      + eexists. split; [reflexivity|]. repeat constructor; tauto.
      + unfold db_step. cbn [closed set_handler handler]. rewrite Hc.
        eexists. split; [reflexivity|]. repeat constructor; tauto.
    - replace (nc <=? seen + 1) with false by lia. rewrite andb_false_r.
      destruct (IH (set_handler st (HCols (seen + 1) nc)) (seen + 1) nc) as [os [E F]];
        try reflexivity; try exact Hc; try lia.
      rewrite E. eexists. split; [reflexivity|]. constructor; [tauto|exact F].
  Qed.

  Lemma run_params k : forall st seen np nc,
    closed st = false -> handler st = HParams seen np nc -> seen + N.of_nat k = np -> (0 < k)%nat ->
    exists os, db_run strict depeof st (repeat DDef k ++ (if depeof then [] else [DEof]))
               = (set_handler st (after_params nc), os) /\ Forall (fun o => o = Pass \/ o = PassDef) os.
  Proof.
    induction k as [|k IH]; intros st seen np nc Hc Hh Hn Hk; [lia|].
    cbn [repeat app db_run]. unfold db_step at 1. rewrite Hc, Hh.
    destruct k as [|k'].
    - cbn [repeat app]. replace (np <=? seen + 1) with true by lia.
      destruct depeof; cbn [andb db_run].
      + eexists. split; [reflexivity|]. repeat constructor; tauto.
      + unfold db_step. cbn [closed set_handler handler]. rewrite Hc.
        eexists. split; [reflexivity|]. repeat constructor; tauto.
    - replace (np <=? seen + 1) with false by lia. rewrite andb_false_r.
      destruct (IH (set_handler st (HParams (seen + 1) np nc)) (seen + 1) np nc) as [os [E F]];
        try reflexivity; try exact Hc; try lia.
      rewrite E. eexists. split; [reflexivity|]. constructor; [tauto|exact F].
  Qed.

  Lemma db_run_app ds1 : forall st ds2,
    db_run strict depeof st (ds1 ++ ds2)
    = let '(st1, o1) := db_run strict depeof st ds1 in
      let '(st2, o2) := db_run strict depeof st1 ds2 in (st2, o1 ++ o2).
  Proof.
    induction ds1 as [|d tl IH]; intros st ds2; cbn [app db_run].
    - destruct (db_run strict depeof st ds2); reflexivity.
    - destruct (db_step strict depeof st d) as [st1 o1]. rewrite IH.
      destruct (db_run strict depeof st1 tl) as [st2 o2].
      destruct (db_run strict depeof st2 ds2) as [st3 o3]. rewrite app_assoc. reflexivity.
  Qed.

  Lemma defs_shape n : 0 < n ->
    defs depeof n = repeat DDef (N.to_nat n) ++ (if depeof then [] else [DEof]).
  Proof. intros H. unfold defs. replace (0 <? n) with true by lia. reflexivity. Qed.

  Lemma defs_zero n : n = 0 -> defs depeof n = [].
  Proof. intros H. subst. reflexivity. Qed.

  (** the whole COM_STMT_PREPARE_OK answer: the statement is registered under the id of the database and the
      handler comes to rest *)
  Lemma prep_ok_step st id s np nc :
    closed st = false -> handler st = HPrep -> pparse st = Some s ->
    db_step strict depeof st (DPrepOk id np nc)
    = (St (if 0 <? np then HParams 0 np nc else if 0 <? nc then HCols 0 nc else HDefault)
          (curcmd st) (cur st) (pparse st) ((id, s) :: registry st) false, [Pass]).
  Proof. intros Hc Hh Hp. unfold db_step. rewrite Hc, Hh, Hp. reflexivity. Qed.

  Lemma run_prepare_ok st id s np nc :
    closed st = false -> handler st = HPrep -> pparse st = Some s ->
    exists os h,
      db_run strict depeof st (DPrepOk id np nc :: defs depeof np ++ defs depeof nc)
      = (St h (curcmd st) (cur st) (pparse st) ((id, s) :: registry st) false, os)
      /\ resting h /\ Forall (fun o => o = Pass \/ o = PassDef) os.
  Proof.
    intros Hc Hh Hp. cbn [db_run]. rewrite (prep_ok_step st id s np nc Hc Hh Hp).
    set (reg' := (id, s) :: registry st).
    rewrite db_run_app.
    destruct (0 <? np) eqn:Enp.
    - set (st1 := St (HParams 0 np nc) (curcmd st) (cur st) (pparse st) reg' false).
      rewrite (defs_shape np) by lia.
      destruct (run_params (N.to_nat np) st1 0 np nc) as [os1 [E1 F1]]; try reflexivity; try lia.
      rewrite E1. unfold after_params.
      destruct (0 <? nc) eqn:Enc.
      + rewrite (defs_shape nc) by lia.
        destruct (run_cols (N.to_nat nc) (set_handler st1 (HCols 0 nc)) 0 nc) as [os2 [E2 F2]];
          try reflexivity; try lia.
        rewrite E2. eexists. eexists. split; [reflexivity|]. split; [right; reflexivity|].
        constructor; [tauto|]. apply Forall_app. split; assumption.
      + rewrite (defs_zero nc) by lia. cbn [db_run].
        eexists. eexists. split; [reflexivity|]. split; [right; reflexivity|].
        constructor; [tauto|]. rewrite app_nil_r. exact F1.
    - rewrite (defs_zero np) by lia. cbn [db_run].
      destruct (0 <? nc) eqn:Enc.
      + set (st1 := St (HCols 0 nc) (curcmd st) (cur st) (pparse st) reg' false).
        rewrite (defs_shape nc) by lia.
        destruct (run_cols (N.to_nat nc) st1 0 nc) as [os2 [E2 F2]]; try reflexivity; try lia.
        rewrite E2. eexists. eexists. split; [reflexivity|]. split; [right; reflexivity|].
        constructor; [tauto|exact F2].
      + rewrite (defs_zero nc) by lia. cbn [db_run].
        eexists. eexists. split; [reflexivity|]. split; [left; reflexivity|].
        constructor; [tauto|constructor].
  Qed.

  Lemma pass_obs producer os :
    Forall (fun o => o = Pass \/ o = PassDef) os ->
    Forall (fun o => good o /\ not_raw o /\ no_close o) (map (observe producer) os).
  Proof.
    intros H. induction H as [|o tl [Ho|Ho] _ IH]; cbn [map]; constructor; try exact IH;
      subst; destruct producer; cbn; tauto.
  Qed.

  (** a one-packet or result-set answer handled from a resting handler *)
  Lemma run_answer_obs st ch producer :
    closed st = false -> resting (handler st) ->
    (handler st = HQuery -> cur st = Some producer) ->
    let '(st', os) := db_run strict depeof st (run_answer ch) in
    st' = set_handler st HDefault
    /\ Forall (fun o => good o /\ no_close o) (map (observe (Some producer)) os)
    /\ (handler st = HQuery -> Forall not_raw (map (observe (Some producer)) os)).
  Proof.
    intros Hc Hr Hcur.
    assert (Eset : handler st = HDefault -> set_handler st HDefault = st)
      by (intros E; destruct st; cbn in *; subst; reflexivity).
    destruct ch as [| |rows]; cbn [run_answer db_run]; unfold db_step; rewrite Hc.
    - destruct Hr as [Hr|Hr]; rewrite Hr; cbn.
      + rewrite (Eset Hr). repeat split; repeat constructor; cbn; tauto.
      + repeat split; repeat constructor; cbn; tauto.
    - cbn [set_handler handler]. repeat split; repeat constructor; cbn; tauto.
    - destruct Hr as [Hr|Hr]; rewrite Hr.
      + rewrite (Eset Hr). cbn [app]. rewrite app_nil_r. split; [reflexivity|]. split.
        * cbn [map]. constructor; [cbn; tauto|]. rewrite map_map. apply Forall_forall.
          intros o Ho. apply in_map_iff in Ho. destruct Ho as [b [Ho _]]. subst. cbn. tauto.
        * intros E. first [discriminate E | rewrite E in Hr; discriminate Hr].
      + rewrite app_nil_r. rewrite (Hcur Hr). split; [reflexivity|].
        unfold process_rows. destruct (existsb _ rows); cbn [map].
        * split; [|intros _]; repeat constructor; cbn; tauto.
        * split; [|intros _]; (constructor; [cbn; tauto|]); rewrite map_map; apply Forall_forall;
            intros o Ho; apply in_map_iff in Ho; destruct Ho as [b [Ho _]]; subst; cbn; tauto.
  Qed.

  Definition ends_session (c : cmd) : bool :=
    match c with CQuit | CExecute None => true | _ => false end.

  Definition is_direct (c : cmd) : bool :=
    match c with CExecute (Some id) => N.eqb id MYS_DIRECT_ID | _ => false end.

  Lemma set_handler_default_rest st : resting (handler (set_handler st HDefault)).
  Proof. left. reflexivity. Qed.

  Definition step_ok (c : cmd) (y' : sys) (os : list obs) : Prop :=
    Forall good os
    /\ (is_direct c = false -> Forall not_raw os)
    /\ (ends_session c = false -> inv y' /\ Forall no_close os)
    /\ (closed (proxy y') = true \/ inv y').

  Lemma ok_inv c y' os :
    inv y' -> Forall (fun o => good o /\ no_close o) os -> (is_direct c = false -> Forall not_raw os) ->
    step_ok c y' os.
  Proof.
    intros Hi G NR. unfold step_ok. split; [|split; [|split]].
    - eapply Forall_impl; [|exact G]. cbn. tauto.
    - exact NR.
    - intros _. split; [exact Hi|]. eapply Forall_impl; [|exact G]. cbn. tauto.
    - right. exact Hi.
  Qed.

  Lemma ok_end c y' os :
    ends_session c = true -> closed (proxy y') = true -> Forall good os -> Forall not_raw os -> step_ok c y' os.
  Proof.
    intros He Hc G NR. unfold step_ok. split; [|split; [|split]].
    - exact G.
    - intros _. exact NR.
    - intros H. rewrite He in H. discriminate H.
    - left. exact Hc.
  Qed.

  Ltac triv := repeat constructor; cbn; tauto.
  Ltac last_tac Hl El :=
    let s0 := fresh "s0" in let s1 := fresh "s1" in let H0 := fresh "H0" in let H1 := fresh "H1" in
    intros s0 s1 H0 H1; cbn in H0, H1;
    first [ discriminate H0
          | rewrite El in H1; first [discriminate H1 | eapply Hl; eassumption]
          | eapply Hl; eassumption ].

  (** one exchange from a state of the invariant *)
  Lemma sys_step_inv y p ch :
    inv y ->
    let '(y', os) := sys_step strict depeof nparams ncols y (p, ch) in step_ok (c_cmd p) y' os.
  Proof.
    intros [Ho Hreg Hz Hl Hrest]. destruct y as [st b]. cbn [proxy be] in *.
    destruct p as [c sq pt]. unfold sys_step. cbn [proxy be c_cmd].
    unfold client_step. cbn [c_cmd c_seq c_parts]. rewrite Ho.
    destruct c as [s d|s d|[id|]|id|id|id| | ].
    - (* COM_QUERY *)
      destruct d; cbn [forwarded_of flat_map app map].
      + apply ok_inv; [|triv|intros _; triv].
        constructor; cbn; first [assumption|reflexivity].
      + cbn [be_answer cmd_code].
        pose proof (run_answer_obs (St HQuery MYS_COM_QUERY (Some s) (pparse st) (registry st) false) ch s
                      eq_refl (or_intror eq_refl) (fun _ => eq_refl)) as R.
        destruct (db_run strict depeof _ (run_answer ch)) as [st2 o2]. destruct R as [E [G NR]]. subst st2.
        apply ok_inv.
        * constructor; cbn; try assumption; try reflexivity; left; reflexivity.
        * constructor; [cbn; tauto|exact G].
        * intros _. constructor; [exact I|]. apply NR. reflexivity.
    - (* COM_STMT_PREPARE *)
      destruct d; cbn [forwarded_of flat_map app map].
      + apply ok_inv; [|triv|intros _; triv].
        constructor; cbn; try assumption; try reflexivity. intros s0 s' H. discriminate H.
      + cbn [be_answer cmd_code curcmd cur pparse registry handler closed].
        set (st1 := St HPrep MYS_COM_STMT_PREPARE (Some s) (Some s) (registry st) false).
        assert (PrepOK :
                  let '(st2, o2) := db_run strict depeof st1
                                      (DPrepOk (nextid b + 1) (nparams s) (ncols s) :: defs depeof (nparams s) ++ defs depeof (ncols s)) in
                  step_ok (CPrepare s false)
                    (Sys st2 (BE ((nextid b + 1, s) :: bstmts b) (nextid b + 1) (nextid b + 1)))
                    (Other (ToDb (FPrepare s) sq pt) :: map (observe None) o2)).
        { destruct (run_prepare_ok st1 (nextid b + 1) s (nparams s) (ncols s) eq_refl eq_refl eq_refl)
            as [os [h [E [Hh F]]]]. rewrite E. cbn [st1 curcmd cur pparse registry].
          pose proof (pass_obs None os F) as PO.
          apply ok_inv.
          - constructor; cbn [proxy be closed registry bstmts lastprep pparse handler]; try reflexivity; try exact Hh.
            + intros id. cbn [lookup]. destruct (N.eqb (nextid b + 1) id); [reflexivity|apply Hreg].
            + cbn [lookup]. replace (N.eqb (nextid b + 1) 0) with false by lia. exact Hz.
            + intros s0 s' H0 H1. cbn [lookup] in H1. rewrite N.eqb_refl in H1. congruence.
          - constructor; [cbn; tauto|]. eapply Forall_impl; [|exact PO]. cbn. tauto.
          - intros _. constructor; [exact I|]. eapply Forall_impl; [|exact PO]. cbn. tauto. }
        destruct ch as [| |rows];
          [ revert PrepOK; destruct (db_run strict depeof st1 _) as [st2 o2]; intros PrepOK; exact PrepOK
          |
          | revert PrepOK; destruct (db_run strict depeof st1 _) as [st2 o2]; intros PrepOK; exact PrepOK ].
        (* the database refuses the statement *)
        cbn [db_run]. unfold db_step. cbn [closed st1 set_handler handler].
        apply ok_inv; [|triv|intros _; triv].
        constructor; cbn; try assumption; try reflexivity.
        * intros s0 s' _ H. rewrite Hz in H. discriminate H.
        * left. reflexivity.
    - (* COM_STMT_EXECUTE *)
      destruct (N.eqb id MYS_DIRECT_ID) eqn:Ed.
      + cbn [pparse]. destruct (pparse st) as [s|] eqn:Ep; cbn [forwarded_of flat_map app map].
        * cbn [be_answer cmd_code]. rewrite Ed. cbn [curcmd cur pparse registry handler closed].
          set (st1 := St (handler st) MYS_COM_STMT_EXECUTE (Some s) (Some s) (registry st) false).
          destruct (lookup (lastprep b) (bstmts b)) as [s'|] eqn:El.
          -- assert (s = s') by (first [eapply Hl; [exact Ep|exact El] | apply Hl; reflexivity]). subst s'.
             pose proof (run_answer_obs st1 ch s eq_refl Hrest (fun _ => eq_refl)) as R.
             destruct (db_run strict depeof st1 (run_answer ch)) as [st2 o2]. destruct R as [E [G NR]]. subst st2.
             apply ok_inv.
             ++ constructor; cbn; try assumption; try reflexivity; [|left; reflexivity]. last_tac Hl El.
             ++ constructor; [cbn; tauto|exact G].
             ++ cbn. rewrite Ed. intros H; discriminate H.
          -- cbn [db_run]. unfold db_step. cbn [closed st1 set_handler handler].
             apply ok_inv; [|triv|intros _; triv].
             constructor; cbn; try assumption; try reflexivity; [|left; reflexivity]. last_tac Hl El.
        * apply ok_inv; [|triv|intros _; triv].
          constructor; cbn; try assumption; try reflexivity; try (intros s0 s' H; discriminate H).
      + cbn [forwarded_of flat_map app map be_answer cmd_code]. rewrite Ed.
        cbn [curcmd cur pparse registry handler closed].
        set (cur' := match lookup id (registry st) with Some s => Some s | None => cur st end).
        set (st1 := St HQuery MYS_COM_STMT_EXECUTE cur' (pparse st) (registry st) false).
        destruct (lookup id (bstmts b)) as [s'|] eqn:El.
        * assert (Hc' : cur' = Some s') by (unfold cur'; rewrite Hreg, El; reflexivity).
          pose proof (run_answer_obs st1 ch s' eq_refl (or_intror eq_refl) (fun _ => Hc')) as R.
          destruct (db_run strict depeof st1 (run_answer ch)) as [st2 o2]. destruct R as [E [G NR]]. subst st2.
          apply ok_inv.
          -- constructor; cbn; try assumption; try reflexivity; left; reflexivity.
          -- constructor; [cbn; tauto|exact G].
          -- intros _. constructor; [exact I|]. apply NR. reflexivity.
        * cbn [db_run]. unfold db_step. cbn [closed st1 set_handler handler].
          apply ok_inv; [|triv|intros _; triv].
          constructor; cbn; try assumption; try reflexivity; left; reflexivity.
    - (* COM_STMT_EXECUTE too short *)
      cbn [forwarded_of flat_map app map].
      apply ok_end; [reflexivity|reflexivity|triv|triv].
    - (* COM_STMT_CLOSE *)
      cbn [forwarded_of flat_map app map be_answer db_run].
      apply ok_inv; [|triv|intros _; triv].
      constructor; cbn [proxy be closed registry bstmts lastprep pparse handler]; try assumption; try reflexivity.
      + intros k. rewrite !lookup_remove, Hreg. reflexivity.
      + rewrite lookup_remove, Hz. destruct (N.eqb 0 id); reflexivity.
      + intros s0 s' H0 H1. rewrite lookup_remove in H1.
        destruct (N.eqb (lastprep b) id); [discriminate H1|]. eapply Hl; eassumption.
    - (* COM_STMT_RESET *)
      cbn [forwarded_of flat_map app map be_answer].
      set (st1 := set_handler (St (handler st) (cmd_code (CReset id)) (cur st) (pparse st) (registry st) false) HReset).
      assert (HI : inv (Sys (set_handler st1 HDefault) b))
        by (constructor; cbn; try assumption; try reflexivity; left; reflexivity).
      destruct (lookup id (bstmts b)); cbn [db_run]; unfold db_step; cbn [closed st1 set_handler handler];
        (apply ok_inv; [exact HI|triv|intros _; triv]).
    - (* COM_STMT_SEND_LONG_DATA *)
      cbn [forwarded_of flat_map app map be_answer db_run].
      apply ok_inv; [|triv|intros _; triv].
      constructor; cbn; first [assumption|reflexivity].
    - (* COM_INIT_DB, COM_PING, ... *)
      cbn [forwarded_of flat_map app map be_answer db_run]. unfold db_step. cbn [closed].
      set (st1 := St (handler st) (cmd_code COther) (cur st) (pparse st) (registry st) false).
      assert (HI : inv (Sys (set_handler st1 HDefault) b))
        by (constructor; cbn; try assumption; try reflexivity; left; reflexivity).
      assert (Eset : handler st = HDefault -> st1 = set_handler st1 HDefault)
        by (intros E; unfold st1, set_handler; cbn; rewrite E; reflexivity).
      destruct Hrest as [Hr|Hr]; cbn [handler st1]; rewrite Hr.
      + rewrite (Eset Hr). apply ok_inv; [exact HI|triv|intros _; triv].
      + apply ok_inv; [exact HI|triv|intros _; triv].
    - (* COM_QUIT *)
      cbn [forwarded_of flat_map app map be_answer db_run].
      apply ok_end; [reflexivity|reflexivity|triv|triv].
  Qed.

  Lemma sys_step_closed y e :
    closed (proxy y) = true -> sys_step strict depeof nparams ncols y e = (y, []).
  Proof.
    intros Hc. destruct y as [st b]. destruct e as [p ch]. unfold sys_step, client_step.
    cbn [proxy] in *. rewrite Hc. reflexivity.
  Qed.

  Lemma inv_init : inv sys_init.
  Proof. constructor; cbn; try reflexivity; [intros s s' H; discriminate H|left; reflexivity]. Qed.

  Lemma sys_run_closed evs : forall y,
    closed (proxy y) = true -> sys_run strict depeof nparams ncols y evs = (y, []).
  Proof.
    induction evs as [|e tl IH]; intros y Hc; cbn [sys_run]; [reflexivity|].
    rewrite (sys_step_closed y e Hc). rewrite (IH y Hc). reflexivity.
  Qed.

  (** every row the database sends for a statement reaches the client decoded with the settings of THAT
      statement — for every session history *)
  Lemma sys_run_good evs : forall y,
    closed (proxy y) = true \/ inv y ->
    Forall good (snd (sys_run strict depeof nparams ncols y evs)).
  Proof.
    induction evs as [|[p ch] tl IH]; intros y H; cbn [sys_run]; [constructor|].
    destruct H as [Hc|Hi].
    - rewrite (sys_step_closed y (p, ch) Hc). rewrite (sys_run_closed tl y Hc). constructor.
    - pose proof (sys_step_inv y p ch Hi) as S.
      destruct (sys_step strict depeof nparams ncols y (p, ch)) as [y1 o1].
      destruct S as [G [_ [_ Hn]]]. specialize (IH y1 Hn).
      destruct (sys_run strict depeof nparams ncols y1 tl) as [y2 o2]. cbn [snd] in *.
      apply Forall_app. split; assumption.
  Qed.

  Theorem rows_own_settings evs producer settings :
    In (RowObs producer settings) (snd (sys_run strict depeof nparams ncols sys_init evs)) ->
    settings = Some producer.
  Proof.
    intros H. pose proof (sys_run_good evs sys_init (or_intror inv_init)) as G.
    rewrite Forall_forall in G. exact (G _ H).
  Qed.

  (** histories that do not end the session themselves (no COM_QUIT, no truncated COM_STMT_EXECUTE) *)
  Definition stays (evs : list (cpacket * choice)) : Prop :=
    forall p ch, In (p, ch) evs -> ends_session (c_cmd p) = false.

  Lemma sys_run_inv evs : forall y,
    inv y -> stays evs ->
    inv (fst (sys_run strict depeof nparams ncols y evs))
    /\ Forall no_close (snd (sys_run strict depeof nparams ncols y evs)).
  Proof.
    induction evs as [|[p ch] tl IH]; intros y Hi Hs; cbn [sys_run]; [split; [exact Hi|constructor]|].
    pose proof (sys_step_inv y p ch Hi) as S.
    destruct (sys_step strict depeof nparams ncols y (p, ch)) as [y1 o1].
    destruct S as [_ [_ [Hn _]]].
    destruct (Hn (Hs p ch (or_introl eq_refl))) as [Hi1 Hc1].
    assert (Hs' : stays tl) by (intros p' ch' H; apply (Hs p' ch'); right; exact H).
    destruct (IH y1 Hi1 Hs') as [Hi2 Hc2].
    destruct (sys_run strict depeof nparams ncols y1 tl) as [y2 o2]. cbn [fst snd] in *.
    split; [exact Hi2|]. apply Forall_app. split; assumption.
  Qed.

  (** the session stays usable and the registry is the set of statements the server holds — whatever mix of
      accepted and rejected statements, in both EOF modes *)
  Theorem session_stays_usable evs :
    stays evs ->
    let y := fst (sys_run strict depeof nparams ncols sys_init evs) in
    closed (proxy y) = false
    /\ (forall id, lookup id (registry (proxy y)) = lookup id (bstmts (be y)))
    /\ resting (handler (proxy y))
    /\ ~ In (Other SessionClosed) (snd (sys_run strict depeof nparams ncols sys_init evs)).
  Proof.
    intros Hs. destruct (sys_run_inv evs sys_init inv_init Hs) as [[Ho Hreg _ _ Hrest] Hc].
    repeat split; try assumption.
    intros Hin. rewrite Forall_forall in Hc. exact (Hc _ Hin).
  Qed.

  (** without MariaDB direct execution every row is decoded (never passed unprocessed) *)
  Lemma sys_run_not_raw evs : forall y,
    closed (proxy y) = true \/ inv y ->
    (forall p ch, In (p, ch) evs -> is_direct (c_cmd p) = false) ->
    Forall not_raw (snd (sys_run strict depeof nparams ncols y evs)).
  Proof.
    induction evs as [|[p ch] tl IH]; intros y H Hd; cbn [sys_run]; [constructor|].
    destruct H as [Hc|Hi].
    - rewrite (sys_step_closed y (p, ch) Hc). rewrite (sys_run_closed tl y Hc). constructor.
    - pose proof (sys_step_inv y p ch Hi) as S.
      destruct (sys_step strict depeof nparams ncols y (p, ch)) as [y1 o1].
      destruct S as [_ [NR [_ Hn]]].
      assert (Hd' : forall p' ch', In (p', ch') tl -> is_direct (c_cmd p') = false)
        by (intros p' ch' H; apply (Hd p' ch'); right; exact H).
      specialize (IH y1 Hn Hd').
      destruct (sys_run strict depeof nparams ncols y1 tl) as [y2 o2]. cbn [snd] in *.
      apply Forall_app. split; [apply NR, (Hd p ch); left; reflexivity|exact IH].
  Qed.

  Theorem rows_always_decoded evs producer :
    (forall p ch, In (p, ch) evs -> is_direct (c_cmd p) = false) ->
    ~ In (RawObs producer) (snd (sys_run strict depeof nparams ncols sys_init evs)).
  Proof.
    intros Hd Hin. pose proof (sys_run_not_raw evs sys_init (or_intror inv_init) Hd) as G.
    rewrite Forall_forall in G. exact (G _ Hin).
  Qed.
End Sys.

(** * 5. Witnesses *)

Definition w_np (s : N) : N := if N.eqb (N.land s 7) 0 then 0 else 1.
Definition w_nc (_ : N) : N := 1.
Definition w_strict (s : N) : bool := 6 <=? N.land s 7.
Definition cp0 (c : cmd) : cpacket := CP c 0 1.

(** PREPARE a; PREPARE b (rejected); PREPARE c; EXECUTE -1 (= c); EXECUTE a; CLOSE a; ... on the fixed code *)
Definition w_history : list (cpacket * choice) :=
  [ (cp0 (CPrepare 9 false), ChOk); (cp0 (CPrepare 19 true), ChOk); (cp0 (CPrepare 18 false), ChOk);
    (cp0 (CExecute (Some MYS_DIRECT_ID)), ChRows [true]);
    (cp0 (CExecute (Some 1)), ChRows [true; false]); (cp0 (CClose 1), ChOk); (cp0 (CQuery 27 true), ChOk);
    (cp0 (CQuery 33 false), ChRows [false]) ].

Definition w_obs := Eval vm_compute in snd (sys_run w_strict false w_np w_nc sys_init w_history).
Definition w_final := Eval vm_compute in fst (sys_run w_strict false w_np w_nc sys_init w_history).

Lemma w_history_rows :
  In (RowObs 9 (Some 9)) w_obs /\ In (RowObs 18 (Some 18)) w_obs /\ In (RowObs 33 (Some 33)) w_obs
  /\ In (Other (ErrToClient 1)) w_obs
  /\ registry (proxy w_final) = [(2, 18)] /\ bstmts (be w_final) = [(2, 18)].
Proof. vm_compute. repeat split; tauto. Qed.

(** the code before the fix, (a): rows of EXECUTE a decoded with the settings of the statement prepared last *)
Theorem own_settings_refuted_pinned :
  exists evs producer settings,
    In (RowObs producer settings) (snd (sys_run_pinned w_strict false w_np w_nc sys_init evs))
    /\ settings <> Some producer.
Proof.
  exists [ (cp0 (CPrepare 9 false), ChOk); (cp0 (CPrepare 18 false), ChOk); (cp0 (CExecute (Some 1)), ChRows [true]) ].
  exists 9, (Some 18). split; [vm_compute; tauto|discriminate].
Qed.

(** (b): the ERR packet carries the command's own sequence id *)
Theorem answer_seq_refuted_pinned :
  exists st p, is_rejected (c_cmd p) = true /\ closed st = false
    /\ snd (client_step_pinned st p) <> [ErrToClient (answer_seq (c_seq p) (c_parts p))].
Proof.
  exists init, (cp0 (CQuery 8 true)). repeat split. vm_compute. discriminate.
Qed.

(** (c): COM_STMT_CLOSE leaves a statement in the registry that the server no longer holds *)
Theorem registry_agrees_refuted_pinned :
  exists evs id,
    let y := fst (sys_run_pinned w_strict false w_np w_nc sys_init evs) in
    lookup id (registry (proxy y)) <> lookup id (bstmts (be y)).
Proof.
  exists [ (cp0 (CPrepare 9 false), ChOk); (cp0 (CClose 1), ChOk) ], 1. vm_compute. discriminate.
Qed.

(** (d): COM_STMT_EXECUTE -1 as first command ends the session (nil dereference in the connection goroutine);
    after a rejected COM_STMT_PREPARE it runs the statement of the PREPARE accepted before *)
Theorem direct_execute_refuted_pinned :
  closed (proxy (fst (sys_run_pinned w_strict false w_np w_nc sys_init [ (cp0 (CExecute (Some MYS_DIRECT_ID)), ChOk) ]))) = true
  /\ In (RowObs 9 (Some 9))
        (snd (sys_run_pinned w_strict false w_np w_nc sys_init
                [ (cp0 (CPrepare 9 false), ChOk); (cp0 (CPrepare 18 true), ChOk);
                  (cp0 (CExecute (Some MYS_DIRECT_ID)), ChRows [true]) ])).
Proof. split; vm_compute; tauto. Qed.

(** still true of the fixed code: a MariaDB direct execution that does not follow its COM_STMT_PREPARE
    immediately finds no QueryResponseHandler installed; its rows pass unprocessed *)
Theorem direct_execute_raw_rows_refuted :
  exists evs producer,
    In (RawObs producer) (snd (sys_run w_strict false w_np w_nc sys_init evs)).
Proof.
  exists [ (cp0 (CPrepare 9 false), ChOk); (cp0 COther, ChOk); (cp0 (CExecute (Some MYS_DIRECT_ID)), ChRows [true]) ], 9.
  vm_compute. tauto.
Qed.
