(** C13_statements: well-formedness is closed under value substitution (any admissible replacement of the
    values of any set of literals / placeholders), hence the substituted statement still round-trips. *)
From Acra Require Import Lib.Bytes Gen.Prec Gen.SqlWords Model.SqlStmt Model.SqlStmtParse Model.SqlStmtSubst
  Proofs.SqlStmtFacts Proofs.SqlStmtEqns Proofs.SqlStmtSubstEqns Proofs.SqlStmtRT1 Proofs.SqlStmtRoundtrip.
From Coq Require Import Arith Lia.

Section Subst.
Variable pg : bool.
Variable g : gfun.
Hypothesis Hadm : forall k uc t v cs, lit_adm uc t v (fst (g k uc t v cs)) (snd (g k uc t v cs)) cs = true.

Notation isub := (isub g). Notation isub_sel := (isub_sel g). Notation isub_exprs := (isub_exprs g).
Notation isub_texpr := (isub_texpr g). Notation isub_texprs := (isub_texprs g).

(* ---------- what substitution leaves unchanged ---------- *)
Ltac shape e := destruct e; rewrite ?isub_EAnd, ?isub_EOr, ?isub_ENot, ?isub_ECmp, ?isub_ECmpEsc, ?isub_ERange, ?isub_EIs, ?isub_EExists,
  ?isub_EBin, ?isub_EUn, ?isub_ECollate, ?isub_ELit, ?isub_ENull, ?isub_EBool, ?isub_EDefault, ?isub_ECol, ?isub_EParen, ?isub_ETuple,
  ?isub_ESubq, ?isub_EFunc, ?isub_ECase, ?isub_EConvert, ?isub_EConvertUsing, ?isub_EInterval, ?isub_EValuesFunc; try reflexivity.
Ltac dlit := try match goal with |- context [g ?k ?uc ?t ?v ?cs] => destruct (g k uc t v cs) end.
Lemma level_isub k uc e : level (isub k uc e) = level e. Proof. shape e. dlit. reflexivity. Qed.
Lemma is_v_isub k uc e : is_v (isub k uc e) = is_v e. Proof. unfold is_v. rewrite level_isub. shape e. dlit. reflexivity. Qed.
Lemma order_plain_isub k uc e : order_plain (isub k uc e) = order_plain e. Proof. shape e. dlit. reflexivity. Qed.

(** what admissibility gives for one literal *)
Lemma adm_cases k uc t v cs :
  (g k uc t v cs = (t, v)) \/
  (wf_lit (fst (g k uc t v cs)) (snd (g k uc t v cs)) cs = true
   /\ (N.eqb (fst (g k uc t v cs)) VT_IntVal = true -> N.eqb t VT_IntVal = true)
   /\ (is_strt (fst (g k uc t v cs)) = true -> is_strt t = true)
   /\ match uc with CxCollate => neg_val (fst (g k uc t v cs)) (snd (g k uc t v cs)) = false
                  | CxPgInterval => is_strt (fst (g k uc t v cs)) = true | CxNone => True end).
Proof.
  pose proof (Hadm k uc t v cs) as H. unfold lit_adm in H. apply Bool.orb_true_iff in H as [H|H].
  - left. apply andb_prop in H as [H1 H2]. apply N.eqb_eq in H1. apply bytes_eqb_eq in H2.
    destruct (g k uc t v cs) as [t' v']. cbn [fst snd] in *. subst. reflexivity.
  - right. split_andb. repeat split; try assumption.
    + intros Hi. match goal with Hx : implb (N.eqb _ VT_IntVal) _ = true |- _ => rewrite Hi in Hx; exact Hx end.
    + intros Hi. match goal with Hx : implb (is_strt _) _ = true |- _ => rewrite Hi in Hx; exact Hx end.
    + destruct uc; [exact I|apply Bool.negb_true_iff; assumption|assumption].
Qed.

Lemma is_intlit_isub k uc e : is_intlit (isub k uc e) = true -> is_intlit e = true.
Proof.
  shape e; try (intros H; exact H). cbn [is_intlit]. destruct (adm_cases k uc t v casts) as [E|[_ [Hi _]]].
  - rewrite E. intros H; exact H.
  - destruct (g k uc t v casts) as [t' v']. cbn [fst snd is_intlit] in *. exact Hi.
Qed.
Lemma starts_str_isub e : forall k uc, starts_str (isub k uc e) = true -> starts_str e = true.
Proof.
  induction e; intros k uc; rewrite ?isub_EAnd, ?isub_EOr, ?isub_ENot, ?isub_ECmp, ?isub_ECmpEsc, ?isub_ERange, ?isub_EIs, ?isub_EExists,
    ?isub_EBin, ?isub_EUn, ?isub_ECollate, ?isub_ELit, ?isub_ENull, ?isub_EBool, ?isub_EDefault, ?isub_ECol, ?isub_EParen, ?isub_ETuple,
    ?isub_ESubq, ?isub_EFunc, ?isub_ECase, ?isub_EConvert, ?isub_EConvertUsing, ?isub_EInterval, ?isub_EValuesFunc; cbn [starts_str];
    try (intros H; exact H); try apply IHe1; try apply IHe.
  destruct (adm_cases k uc t v casts) as [E|[_ [_ [Hs _]]]].
  - rewrite E. intros H; exact H.
  - destruct (g k uc t v casts) as [t' v']. cbn [fst snd starts_str] in *. intros H. apply andb_prop in H as [H1 H2].
    pose proof (Hs H1) as Ht. unfold is_strt in Ht. rewrite Ht, H2. reflexivity.
Qed.
Lemma starts_paren_isub s : forall k, starts_paren (isub_sel k s) = starts_paren s.
Proof.
  induction s; intros k; rewrite ?isub_sel_Select, ?isub_sel_Union, ?isub_sel_ParenSel; cbn [starts_paren]; try reflexivity. apply IHs1.
Qed.
Lemma is_paren_isub k s : is_paren (isub_sel k s) = is_paren s.
Proof. destruct s; rewrite ?isub_sel_Select, ?isub_sel_Union, ?isub_sel_ParenSel; reflexivity. Qed.
Lemma is_factor_isub k t : is_factor (isub_texpr k t) = is_factor t.
Proof. destruct t; rewrite ?isub_texpr_TTable, ?isub_texpr_TSubq, ?isub_texpr_TParen, ?isub_texpr_TJoin; reflexivity. Qed.
Lemma open_on_isub k t : open_on (isub_texpr k t) = open_on t.
Proof.
  destruct t; rewrite ?isub_texpr_TTable, ?isub_texpr_TSubq, ?isub_texpr_TParen, ?isub_texpr_TJoin; try reflexivity.
  destruct c; rewrite ?isub_jcond_JNone, ?isub_jcond_JOn, ?isub_jcond_JUsing; destruct k0; reflexivity.
Qed.
Lemma open_using_isub k t : open_using (isub_texpr k t) = open_using t.
Proof.
  destruct t; rewrite ?isub_texpr_TTable, ?isub_texpr_TSubq, ?isub_texpr_TParen, ?isub_texpr_TJoin; try reflexivity.
  destruct c; rewrite ?isub_jcond_JNone, ?isub_jcond_JOn, ?isub_jcond_JUsing; destruct k0; reflexivity.
Qed.
Lemma is_ttable_isub k t : is_ttable (isub_texpr k t) = is_ttable t.
Proof. destruct t; rewrite ?isub_texpr_TTable, ?isub_texpr_TSubq, ?isub_texpr_TParen, ?isub_texpr_TJoin; reflexivity. Qed.
Lemma last_open_isub ts : forall k,
  match last_texpr (isub_texprs k ts) with Some t => open_on t | None => false end
  = match last_texpr ts with Some t => open_on t | None => false end.
Proof.
  induction ts as [|t ts IH]; intros k; [rewrite isub_texprs_TNil; reflexivity|].
  rewrite isub_texprs_TCons. destruct ts as [|u us].
  - rewrite isub_texprs_TNil. cbn [last_texpr]. apply open_on_isub.
  - specialize (IH (k + nl_texpr t)). rewrite isub_texprs_TCons in *. cbn [last_texpr] in *. exact IH.
Qed.
Lemma all_ttable_isub ts : forall k, all_ttable (isub_texprs k ts) = all_ttable ts.
Proof.
  induction ts as [|t ts IH]; intros k; [rewrite isub_texprs_TNil; reflexivity|].
  rewrite isub_texprs_TCons. cbn [all_ttable]. rewrite is_ttable_isub, IH. reflexivity.
Qed.
Lemma single_isub k ts : single (isub_texprs k ts) = single ts.
Proof.
  destruct ts as [|t [|u us]]; rewrite ?isub_texprs_TCons, ?isub_texprs_TNil; reflexivity.
Qed.

(* ---------- literals ---------- *)
Lemma lit_ok k uc t v cs : wf_lit t v cs = true ->
  (uc = CxCollate -> neg_lit (ELit t v cs) = false) -> (uc = CxPgInterval -> str_lit (ELit t v cs) = true) ->
  wf_lit (fst (g k uc t v cs)) (snd (g k uc t v cs)) cs = true
  /\ (uc = CxCollate -> neg_lit (ELit (fst (g k uc t v cs)) (snd (g k uc t v cs)) cs) = false)
  /\ (uc = CxPgInterval -> str_lit (ELit (fst (g k uc t v cs)) (snd (g k uc t v cs)) cs) = true).
Proof.
  intros Hwf Hn Hs. destruct (adm_cases k uc t v cs) as [E|[H1 [_ [_ Hc]]]].
  - rewrite E. cbn [fst snd]. repeat split; assumption.
  - split; [exact H1|split].
    + intros Hu. subst uc. cbn [neg_lit]. unfold neg_val in Hc. destruct (snd (g k CxCollate t v cs)); [reflexivity|].
      unfold is_int, x_minus. exact Hc.
    + intros Hu. subst uc. specialize (Hs eq_refl). cbn [str_lit] in *. destruct cs; [|discriminate Hs]. exact Hc.
Qed.

(* ---------- the mutual induction ---------- *)
Definition Qxs (xs : exprs) : Prop := forall k, wf_exprs pg xs = true -> wf_exprs pg (isub_exprs k xs) = true.
Definition Qsel (s : sel) : Prop := forall k, wf_sel pg s = true -> wf_sel pg (isub_sel k s) = true.
Definition Qe1 (e : expr) : Prop := forall k uc, wf pg e = true ->
  (uc = CxCollate -> neg_lit e = false) -> (uc = CxPgInterval -> str_lit e = true) ->
  wf pg (isub k uc e) = true /\ (uc = CxCollate -> neg_lit (isub k uc e) = false)
  /\ (uc = CxPgInterval -> str_lit (isub k uc e) = true).
Definition Qi (e : expr) : Prop := match e with ETuple xs => Qxs xs | ESubq q => Qsel q | _ => True end.
Definition Qe (e : expr) : Prop := Qe1 e /\ Qi e.
Definition Qoe (o : oexpr) : Prop := forall k, wf_oexpr pg o = true -> wf_oexpr pg (isub_oexpr g k o) = true.
Definition Qws (ws : whens) : Prop := forall k, wf_whens pg ws = true -> wf_whens pg (isub_whens g k ws) = true.
Definition Qse (s : selexpr) : Prop := forall k, wf_selexpr pg s = true -> wf_selexpr pg (isub_selexpr g k s) = true.
Definition Qses (xs : selexprs) : Prop := forall k, wf_selexprs pg xs = true -> wf_selexprs pg (isub_selexprs g k xs) = true.
Definition Qt (t : texpr) : Prop := forall k, wf_texpr pg t = true -> wf_texpr pg (isub_texpr k t) = true.
Definition Qts (ts : texprs) : Prop := forall k, wf_texprs pg ts = true -> wf_texprs pg (isub_texprs k ts) = true.
Definition Qjc (c : jcond) : Prop := forall k, wf_jcond pg c = true -> wf_jcond pg (isub_jcond g k c) = true.
Definition Qos (os : orders) : Prop := forall k, wf_orders pg os = true -> wf_orders pg (isub_orders g k os) = true.
Definition Qlm (l : lim) : Prop := forall k, wf_lim pg l = true -> wf_lim pg (isub_lim g k l) = true.

Ltac ands := repeat match goal with |- _ && _ = true => apply andb_true_intro; split end.
Ltac nouc := split; [|split; [intros _; reflexivity|intros Hcx; match goal with Hs : _ = CxPgInterval -> str_lit _ = true |- _ => discriminate (Hs Hcx) end]].
Ltac getwf := match goal with Hw : _ = true |- _ => rename Hw into Hwf end.
(** wf of a substituted sub-expression from its induction hypothesis (not under COLLATE) *)
Lemma Q1 e k : Qe e -> wf pg e = true -> wf pg (isub k CxNone e) = true.
Proof. intros [H _] Hwf. apply (H k CxNone Hwf); intros Hx; discriminate Hx. Qed.

Theorem wf_isub_all :
  (forall e, Qe e) /\ (forall xs, Qxs xs) /\ (forall o, Qoe o) /\ (forall ws, Qws ws) /\ (forall s, Qse s)
  /\ (forall xs, Qses xs) /\ (forall s, Qsel s) /\ (forall t, Qt t) /\ (forall ts, Qts ts) /\ (forall c, Qjc c)
  /\ (forall os, Qos os) /\ (forall l, Qlm l).
Proof.
  apply ast_mutind; unfold Qe, Qe1, Qoe, Qws, Qse, Qses, Qt, Qts, Qjc, Qos, Qlm; intros; unfold Qi, Qxs, Qsel in *; intros.
  - split; [|exact I]. intros k uc Hwf Hnn Hss. rewrite isub_EAnd. rewrite wf_EAnd in *. split_andb. nouc. rewrite !level_isub. ands; try assumption; apply Q1; assumption.
  - split; [|exact I]. intros k uc Hwf Hnn Hss. rewrite isub_EOr. rewrite wf_EOr in *. split_andb. nouc. rewrite !level_isub. ands; try assumption; apply Q1; assumption.
  - split; [|exact I]. intros k uc Hwf Hnn Hss. rewrite isub_ENot. rewrite wf_ENot in *. split_andb. nouc. rewrite !level_isub. ands; try assumption; apply Q1; assumption.
  - split; [|exact I]. intros k uc Hwf Hnn Hss. rewrite isub_ECmp. rewrite wf_ECmp in *. split_andb. nouc. rewrite !is_v_isub. ands; try assumption; [apply Q1; assumption|].
    destruct (is_in op).
    + destruct r; try discriminate.
      * rewrite isub_ETuple. split_andb. destruct H0 as [_ H0]. cbn [Qi] in H0.
        ands; [destruct xs; [discriminate|rewrite isub_exprs_XCons; reflexivity]|apply H0; assumption].
      * rewrite isub_ESubq. split_andb. destruct H0 as [_ H0]. cbn [Qi] in H0. rewrite starts_paren_isub. ands; [apply H0; assumption|assumption].
    + split_andb. ands; [apply Q1; assumption|assumption].
  - split; [|exact I]. intros k uc Hwf Hnn Hss. rewrite isub_ECmpEsc. rewrite wf_ECmpEsc in *. split_andb. nouc. rewrite !is_v_isub. ands; try assumption; apply Q1; assumption.
  - split; [|exact I]. intros k uc Hwf Hnn Hss. rewrite isub_ERange. rewrite wf_ERange in *. split_andb. nouc. rewrite !is_v_isub. ands; try assumption; apply Q1; assumption.
  - split; [|exact I]. intros k uc Hwf Hnn Hss. rewrite isub_EIs. rewrite wf_EIs in *. split_andb. nouc. rewrite !level_isub. ands; try assumption; apply Q1; assumption.
  - split; [|exact I]. intros k uc Hwf Hnn Hss. rewrite isub_EExists. rewrite wf_EExists in *. split_andb. nouc. rewrite starts_paren_isub. ands; [apply H|]; assumption.
  - split; [|exact I]. intros k uc Hwf Hnn Hss. rewrite isub_EBin. rewrite wf_EBin in *. split_andb. nouc. rewrite !level_isub, !is_v_isub. ands; try assumption; apply Q1; assumption.
  - split; [|exact I]. intros k uc Hwf Hnn Hss. rewrite isub_EUn. rewrite wf_EUn in *. split_andb. nouc. rewrite !level_isub, !is_v_isub. ands; try assumption; [apply Q1; assumption|].
    destruct op; try reflexivity; negb_hyps; apply Bool.negb_true_iff;
      (destruct (is_intlit (isub k CxNone x)) eqn:Ei; [apply is_intlit_isub in Ei; congruence|reflexivity]).
  - split; [|exact I]. intros k uc Hwf Hnn Hss. rewrite isub_ECollate. rewrite wf_ECollate in *. split_andb. negb_hyps. nouc. rewrite !level_isub, !is_v_isub.
    destruct H as [H _]. destruct (H k CxCollate ltac:(assumption) ltac:(intros _; assumption) ltac:(intros Hx; discriminate Hx)) as [Hc1 [Hc2 _]].
    ands; try assumption. rewrite (Hc2 eq_refl). reflexivity.
  - split; [|exact I]. intros k uc Hwf Hnn Hss. rewrite isub_ELit. rewrite wf_ELit in *.
    pose proof (lit_ok k uc t v casts Hwf Hnn Hss) as L. destruct (g k uc t v casts) as [t' v']. cbn [fst snd] in L. rewrite wf_ELit. exact L.
  - split; [|exact I]. intros k uc Hwf Hnn Hss. rewrite isub_ENull. nouc. assumption.
  - split; [|exact I]. intros k uc Hwf Hnn Hss. rewrite isub_EBool. nouc. assumption.
  - split; [|exact I]. intros k uc Hwf Hnn Hss. rewrite isub_EDefault. nouc. assumption.
  - split; [|exact I]. intros k uc Hwf Hnn Hss. rewrite isub_ECol. nouc. assumption.
  - split; [|exact I]. intros k uc Hwf Hnn Hss. rewrite isub_EParen. rewrite wf_EParen in *. nouc. apply Q1; assumption.
  - split; [|exact H]. intros k uc Hwf Hnn Hss. rewrite isub_ETuple. rewrite wf_ETuple in *. nouc.
    match type of Hwf with context [wf_exprs pg ?X] => destruct X as [|x1 [|x2 xs']]; try discriminate end.
    specialize (H k Hwf). rewrite !isub_exprs_XCons in *. exact H.
  - split; [|exact H]. intros k uc Hwf Hnn Hss. rewrite isub_ESubq. rewrite wf_ESubq in *. split_andb. nouc. rewrite starts_paren_isub. ands; [apply H|]; assumption.
  - split; [|exact I]. intros k uc Hwf Hnn Hss. rewrite isub_EFunc. rewrite wf_EFunc in *. split_andb. nouc. ands; try assumption; [apply H; assumption|].
    destruct (fname_class n) as [cls|]; [|assumption].
    match goal with |- context [SqlStmtSubst.isub_selexprs g k ?A] => destruct A; [rewrite isub_selexprs_SNil|rewrite isub_selexprs_SCons]; assumption end.
  - split; [|exact I]. intros k uc Hwf Hnn Hss. rewrite isub_ECase. rewrite wf_ECase in *. split_andb. nouc. ands; [apply H|apply H0|apply H1|]; try assumption.
    match goal with |- context [SqlStmtSubst.isub_whens g _ ?A] => destruct A; [discriminate|rewrite isub_whens_WCons; reflexivity] end.
  - split; [|exact I]. intros k uc Hwf Hnn Hss. rewrite isub_EConvert. rewrite wf_EConvert in *. split_andb. nouc. ands; [apply Q1|]; assumption.
  - split; [|exact I]. intros k uc Hwf Hnn Hss. rewrite isub_EConvertUsing. rewrite wf_EConvertUsing in *. split_andb. nouc. ands; [apply Q1|]; assumption.
  - split; [|exact I]. intros k uc Hwf Hnn Hss. rewrite isub_EInterval. rewrite wf_EInterval in *. split_andb. nouc.
    destruct unit as [|c0 u0]; cbv iota beta in *.
    + split_andb. destruct H as [H _].
      destruct (H k CxPgInterval ltac:(assumption) ltac:(intros Hx; discriminate Hx) ltac:(intros _; assumption)) as [Hc1 [_ Hc3]].
      ands; [assumption|assumption|apply Hc3; reflexivity].
    + split_andb. rewrite is_v_isub. ands; try assumption; [apply Q1; assumption|].
      negb_hyps. apply Bool.negb_true_iff. destruct (starts_str (isub k CxNone x)) eqn:Es; [apply starts_str_isub in Es; congruence|reflexivity].
  - split; [|exact I]. intros k uc Hwf Hnn Hss. rewrite isub_EValuesFunc. nouc. assumption.
  - rewrite isub_exprs_XNil. reflexivity.
  - getwf. rewrite isub_exprs_XCons. rewrite wf_exprs_XCons in *. split_andb. ands; [apply Q1|apply H0]; assumption.
  - rewrite isub_oexpr_NoE. reflexivity.
  - getwf. rewrite isub_oexpr_SomeE. rewrite wf_oexpr_SomeE in *. apply Q1; assumption.
  - rewrite isub_whens_WNil. reflexivity.
  - getwf. rewrite isub_whens_WCons. rewrite wf_whens_WCons in *. split_andb. ands; [apply Q1|apply Q1|apply H1]; assumption.
  - getwf. rewrite isub_selexpr_SStar. assumption.
  - getwf. rewrite isub_selexpr_SAliased. rewrite wf_selexpr_SAliased in *. split_andb. ands; [apply Q1|]; assumption.
  - rewrite isub_selexprs_SNil. reflexivity.
  - getwf. rewrite isub_selexprs_SCons. rewrite wf_selexprs_SCons in *. split_andb. ands; [apply H|apply H0]; assumption.
  - getwf. rewrite isub_sel_Select. cbv zeta. rewrite wf_sel_Select in *. split_andb.
    ands; try (first [apply H | apply H0 | apply H1 | apply H2 | apply H3 | apply H4 | apply H5]; assumption).
    + match goal with |- context [SqlStmtSubst.isub_selexprs g _ ?A] => destruct A; [discriminate|rewrite isub_selexprs_SCons; reflexivity] end.
    + match goal with |- context [SqlStmtSubst.isub_texprs g _ ?A] => destruct A; [discriminate|rewrite isub_texprs_TCons; reflexivity] end.
  - getwf. rewrite isub_sel_Union. cbv zeta. rewrite wf_sel_Union in *. split_andb.
    ands; try (first [apply H | apply H0 | apply H1 | apply H2]; assumption).
    match goal with Hn : no_tails ?R = true |- _ =>
      destruct R as [d0 xs0 fr0 wh0 gb0 hv0 ob0 lm0 lk0| |]; try discriminate; rewrite ?isub_sel_Select, ?isub_sel_ParenSel; cbv zeta; [|reflexivity];
      cbn [no_tails] in Hn; destruct ob0; try discriminate; destruct lm0; try discriminate; destruct lk0; try discriminate end.
    rewrite isub_orders_ONil, isub_lim_LNone. reflexivity.
  - getwf. rewrite isub_sel_ParenSel. rewrite wf_sel_ParenSel in *. split_andb. rewrite is_paren_isub. ands; [apply H|]; assumption.
  - getwf. rewrite isub_texpr_TTable. assumption.
  - getwf. rewrite isub_texpr_TSubq. rewrite wf_texpr_TSubq in *. split_andb. rewrite starts_paren_isub. ands; [apply H| |]; assumption.
  - getwf. rewrite isub_texpr_TParen. rewrite wf_texpr_TParen in *. split_andb. ands; [apply H; assumption|].
    match goal with |- context [SqlStmtSubst.isub_texprs g _ ?A] => destruct A; [discriminate|rewrite isub_texprs_TCons; reflexivity] end.
  - getwf. rewrite isub_texpr_TJoin. rewrite wf_texpr_TJoin in *. split_andb. ands; [apply H|apply H0|apply H1|]; try assumption.
    match goal with Hj : jcond_ok ?J _ ?C = true |- _ => revert Hj; unfold jcond_ok;
      rewrite is_factor_isub, open_on_isub, open_using_isub;
      destruct C; rewrite ?isub_jcond_JNone, ?isub_jcond_JOn, ?isub_jcond_JUsing; intros Hj; exact Hj end.
  - rewrite isub_texprs_TNil. reflexivity.
  - getwf. rewrite isub_texprs_TCons. rewrite wf_texprs_TCons in *. split_andb. ands; [apply H|apply H0]; assumption.
  - rewrite isub_jcond_JNone. reflexivity.
  - getwf. rewrite isub_jcond_JOn. rewrite wf_jcond_JOn in *. apply Q1; assumption.
  - getwf. rewrite isub_jcond_JUsing. assumption.
  - rewrite isub_orders_ONil. reflexivity.
  - getwf. rewrite isub_orders_OCons. rewrite wf_orders_OCons in *. split_andb. rewrite order_plain_isub. ands; [apply Q1| |apply H0]; assumption.
  - rewrite isub_lim_LNone. reflexivity.
  - getwf. rewrite isub_lim_LOnly. rewrite wf_lim_LOnly in *. apply Q1; assumption.
  - getwf. rewrite isub_lim_LOffset. rewrite wf_lim_LOffset in *. split_andb. ands; apply Q1; assumption.
  - getwf. rewrite isub_lim_LComma. rewrite wf_lim_LComma in *. split_andb. ands; [assumption|apply Q1; assumption|apply Q1; assumption].
  - getwf. rewrite isub_lim_LAll. assumption.
  - getwf. rewrite isub_lim_LAllOffset. rewrite wf_lim_LAllOffset in *. split_andb. ands; [assumption|apply Q1; assumption].
Qed.

Lemma wf_sel_isub k s : wf_sel pg s = true -> wf_sel pg (isub_sel k s) = true.
Proof. exact (proj1 (proj2 (proj2 (proj2 (proj2 (proj2 (proj2 wf_isub_all)))))) s k). Qed.
Lemma wf_e_isub k e : wf pg e = true -> wf pg (isub k CxNone e) = true.
Proof. apply Q1. exact (proj1 wf_isub_all e). Qed.
Lemma wf_exprs_isub k xs : wf_exprs pg xs = true -> wf_exprs pg (isub_exprs k xs) = true.
Proof. exact (proj1 (proj2 wf_isub_all) xs k). Qed.
Lemma wf_oexpr_isub k o : wf_oexpr pg o = true -> wf_oexpr pg (isub_oexpr g k o) = true.
Proof. exact (proj1 (proj2 (proj2 wf_isub_all)) o k). Qed.
Lemma wf_selexprs_isub k xs : wf_selexprs pg xs = true -> wf_selexprs pg (isub_selexprs g k xs) = true.
Proof. exact (proj1 (proj2 (proj2 (proj2 (proj2 (proj2 wf_isub_all))))) xs k). Qed.
Lemma wf_texprs_isub k ts : wf_texprs pg ts = true -> wf_texprs pg (isub_texprs k ts) = true.
Proof. exact (proj1 (proj2 (proj2 (proj2 (proj2 (proj2 (proj2 (proj2 (proj2 wf_isub_all)))))))) ts k). Qed.
Lemma wf_orders_isub k os : wf_orders pg os = true -> wf_orders pg (isub_orders g k os) = true.
Proof. exact (proj1 (proj2 (proj2 (proj2 (proj2 (proj2 (proj2 (proj2 (proj2 (proj2 (proj2 wf_isub_all)))))))))) os k). Qed.
Lemma wf_lim_isub k l : wf_lim pg l = true -> wf_lim pg (isub_lim g k l) = true.
Proof. exact (proj2 (proj2 (proj2 (proj2 (proj2 (proj2 (proj2 (proj2 (proj2 (proj2 (proj2 wf_isub_all)))))))))) l k). Qed.

Lemma wf_updates_isub us : forall k, wf_updates pg us = true -> wf_updates pg (isub_updates g k us) = true.
Proof.
  induction us as [|q n x us IH]; intros k Hwf; [reflexivity|]. cbn [isub_updates wf_updates] in *. split_andb.
  ands; [assumption|apply wf_e_isub; assumption|apply IH; assumption].
Qed.
Lemma wf_rows_isub rs : forall k, wf_rows pg rs = true -> wf_rows pg (isub_rows g k rs) = true.
Proof.
  induction rs as [|r rs IH]; intros k Hwf; [reflexivity|]. cbn [isub_rows wf_rows] in *. split_andb.
  ands; [apply wf_exprs_isub; assumption|apply IH; assumption].
Qed.

Lemma ends_open_isub k q : ends_open (isub_sel k q) = ends_open q.
Proof.
  destruct q as [d xs from wh gb hv ob lm lk|ty l r ob lm lk|s].
  - rewrite isub_sel_Select. cbv zeta. unfold ends_open.
    destruct wh; rewrite ?isub_oexpr_NoE, ?isub_oexpr_SomeE; [|reflexivity].
    destruct gb; rewrite ?isub_exprs_XNil, ?isub_exprs_XCons; [|reflexivity].
    destruct hv; rewrite ?isub_oexpr_NoE, ?isub_oexpr_SomeE; [|reflexivity].
    destruct ob; rewrite ?isub_orders_ONil, ?isub_orders_OCons; [|reflexivity].
    destruct lm; rewrite ?isub_lim_LNone, ?isub_lim_LOnly, ?isub_lim_LOffset, ?isub_lim_LComma, ?isub_lim_LAll, ?isub_lim_LAllOffset; try reflexivity.
    destruct lk; try reflexivity. apply last_open_isub.
  - rewrite isub_sel_Union. cbv zeta. unfold ends_open.
    destruct r as [d xs from wh gb hv ob' lm' lk'| |]; rewrite ?isub_sel_Select, ?isub_sel_Union, ?isub_sel_ParenSel; cbv zeta; try reflexivity.
    destruct wh; rewrite ?isub_oexpr_NoE, ?isub_oexpr_SomeE; [|reflexivity].
    destruct gb; rewrite ?isub_exprs_XNil, ?isub_exprs_XCons; [|reflexivity].
    destruct hv; rewrite ?isub_oexpr_NoE, ?isub_oexpr_SomeE; [|reflexivity].
    destruct ob; rewrite ?isub_orders_ONil, ?isub_orders_OCons; [|reflexivity].
    destruct lm; rewrite ?isub_lim_LNone, ?isub_lim_LOnly, ?isub_lim_LOffset, ?isub_lim_LComma, ?isub_lim_LAll, ?isub_lim_LAllOffset; try reflexivity.
    destruct lk; try reflexivity. apply last_open_isub.
  - rewrite isub_sel_ParenSel. reflexivity.
Qed.

(** well-formedness of whole statements is closed under admissible value substitution *)
Theorem wf_stmt_isub t : wf_stmt pg t = true -> wf_stmt pg (isub_stmt g t) = true.
Proof.
  intros Hwf. destruct t as [q|repl ign tq tn cols r dup ret|repl ign tq tn|ts set from wh ob lm ret|ts wh ob lm ret|targets ts wh ret];
    cbn [isub_stmt wf_stmt] in *; cbv zeta; split_andb.
  - rewrite is_paren_isub. ands; [apply wf_sel_isub|]; assumption.
  - ands; try assumption; [|apply wf_updates_isub; assumption|apply wf_selexprs_isub; assumption].
    destruct r as [rs|q]; cbn [isub_irows]; split_andb.
    + ands; [apply wf_rows_isub; assumption|destruct rs; [discriminate|reflexivity]].
    + rewrite starts_paren_isub, ends_open_isub. ands; [apply wf_sel_isub; assumption|assumption|].
      destruct dup; [reflexivity|assumption].
  - assumption.
  - ands; try assumption; try (first [apply wf_texprs_isub | apply wf_updates_isub | apply wf_oexpr_isub | apply wf_orders_isub
                                     | apply wf_lim_isub | apply wf_selexprs_isub]; assumption).
    + destruct ts; [discriminate|rewrite isub_texprs_TCons; reflexivity].
    + destruct set; [discriminate|reflexivity].
    + destruct from; [rewrite isub_texprs_TNil|rewrite isub_texprs_TCons]; assumption.
    + destruct ret; [rewrite isub_selexprs_SNil|rewrite isub_selexprs_SCons]; assumption.
  - rewrite single_isub, all_ttable_isub.
    ands; try assumption; first [apply wf_texprs_isub | apply wf_oexpr_isub | apply wf_orders_isub | apply wf_lim_isub | apply wf_selexprs_isub]; assumption.
  - rewrite all_ttable_isub.
    ands; try assumption; try (first [apply wf_texprs_isub | apply wf_oexpr_isub | apply wf_selexprs_isub]; assumption).
    + destruct targets; [discriminate|rewrite isub_texprs_TCons; reflexivity].
    + destruct ts; [discriminate|rewrite isub_texprs_TCons; reflexivity].
Qed.

(** ... and the text acra forwards after the substitution parses back to the substituted tree: the original
    structure apart from exactly the substituted values *)
Theorem subst_then_print_parses_back t :
  wf_stmt pg t = true -> parse pg (print_stmt pg (isub_stmt g t)) = Some (isub_stmt g t).
Proof. intros Hwf. apply print_parse_roundtrip. apply wf_stmt_isub. exact Hwf. Qed.
End Subst.
