(** Completeness of the implemented pattern matcher w.r.t. the documented relation: every instance of a
    pattern (WHERE placeholder = the WHERE clause, as documented) is matched:
    [inst false p q = true -> meq where_pat q p = Ok true] for well-shaped trees without node kinds the
    matcher has no comparator for.  Needs that the matcher answers ([Ok]) on well-shaped trees: no [Panic]
    (Proofs/CensorPatternTotal.v) and no [Err] (first section). *)
From Coq Require Import List Bool NArith Arith Lia.
From Acra Require Import Lib.Bytes Lib.Outcome Model.CensorPattern Proofs.CensorTree Proofs.CensorPatternSound
  Proofs.CensorPatternTotal.
Import ListNotations.

(** * The model never yields [Err] *)

Lemma fld_noerr pl q p r e : fld pl q p r = Err e -> r = Err e.
Proof.
  destruct pl; cbn; intro H;
    repeat match type of H with (if ?c then _ else _) = _ => destruct c end; try discriminate H; exact H.
Qed.

Section NoErr.
  Variable wp : tree -> res bool.
  Hypothesis Hwp : forall w e, wp w <> Err e.

  Definition NoErrAt (p : tree) : Prop := forall q e, meq wp q p <> Err e.

  Lemma subs_noerr pcs : Forall NoErrAt pcs -> forall qcs i e, nth i (subs (meq wp) pcs qcs) (Ok false) <> Err e.
  Proof.
    induction 1 as [|p ps Hp _ IHps]; intros qcs i e.
    - destruct i; cbn; discriminate.
    - destruct qcs as [|q qs]; destruct i as [|i]; cbn [subs nth]; auto.
  Qed.

  Lemma run_spec_noerr q p sub sp e :
    (forall i e, nth i sub (Ok false) <> Err e) -> run_spec wp q p sub sp <> Err e.
  Proof.
    intro Hs. induction sp as [|[i c] tl IH]; cbn [run_spec]; [discriminate|].
    destruct c.
    - destruct (fld pl (kid i q) (kid i p) (nth i sub (Ok false))) as [[|]|e0|] eqn:E; auto; try discriminate.
      apply fld_noerr in E. intros _. exact (Hs _ _ E).
    - destruct (tree_eqb _ _); auto; discriminate.
    - destruct (lab_eqb _ _); auto; discriminate.
    - destruct (fld PGuard (kid i q) (kid i p) (nth i sub (Ok false))) as [[|]|e0|] eqn:E; auto; try discriminate.
      apply fld_noerr in E. intros _. exact (Hs _ _ E).
  Qed.

  Lemma pairwise_noerr lp e : forall pcs qcs, Forall NoErrAt pcs -> pairwise (meq wp) lp pcs qcs <> Err e.
  Proof.
    induction pcs as [|p ps IHps]; intros [|q qs] IH; cbn [pairwise]; try discriminate.
    explode. destruct (fld lp q p (meq wp q p)) as [[|]|e0|] eqn:E; auto; try discriminate.
    apply fld_noerr in E. intros _. exact (H _ _ E).
  Qed.

  Lemma tuple_rest_noerr p1 e : NoErrAt p1 -> forall qs,
    tuple_rest (fun q => fld PGuard q p1 (meq wp q p1)) qs <> Err e.
  Proof.
    intros IH. induction qs as [|q qs IHqs]; cbn [tuple_rest]; [discriminate|].
    destruct (fld PGuard q p1 (meq wp q p1)) as [[|]|e0|] eqn:E; auto; try discriminate.
    apply fld_noerr in E. intros _. exact (IH _ _ E).
  Qed.

  Lemma tuple_noerr e : forall pcs qcs, Forall NoErrAt pcs -> tuple (meq wp) pcs qcs <> Err e.
  Proof.
    induction pcs as [|p ps IHps]; intros [|q qs] IH; cbn [tuple]; try discriminate.
    explode. destruct (fld PGuard q p (meq wp q p)) as [[|]|e0|] eqn:E; try discriminate.
    - destruct ps as [|p2 ps].
      + destruct qs; [discriminate|]. destruct (_ && _); [|discriminate]. apply tuple_rest_noerr; auto.
      + apply IHps; auto.
    - apply fld_noerr in E. intros _. exact (H _ _ E).
  Qed.

  Lemma meq_noerr_all : forall p, NoErrAt p.
  Proof.
    induction p as [pk pl pcs IH] using tree_ind'.
    intros q e H. rewrite meq_unfold in H. unfold body in H. cbn [tkind tkids] in H.
    pose proof (subs_noerr pcs IH (tkids q)) as Hsub.
    pose proof (fun sp => run_spec_noerr q (T pk pl pcs) (subs (meq wp) pcs (tkids q)) sp e Hsub) as Hrun.
    destruct pk; cbn [struct_spec stmt_ph list_pol slice_kind] in H;
      repeat match type of H with (if ?c then _ else _) = _ => destruct c end; try discriminate H;
      try (exact (Hrun _ H));
      try (exact (pairwise_noerr _ e pcs (tkids q) IH H));
      try (exact (tuple_noerr e pcs (tkids q) IH H)).
    (* Subquery: the fall-back on the result of the plain comparison *)
    match type of H with match ?r with _ => _ end = _ => destruct r as [[|]|e0|] eqn:E; try discriminate H end.
    injection H as ->. exact (Hrun _ E).
  Qed.
End NoErr.

Lemma where_pat_noerr w e : where_pat w <> Err e.
Proof.
  unfold where_pat. destruct (is_nil w); [discriminate|]. destruct (negb _); [discriminate|].
  intro H. apply fld_noerr in H. revert H. apply meq_noerr_all. intros; discriminate.
Qed.

(** the matcher answers on well-shaped trees *)
Lemma meq_ok p q : wf p = true -> wf q = true -> exists b, meq where_pat q p = Ok b.
Proof.
  intros Hp Hq. destruct (meq where_pat q p) as [b|e|] eqn:E.
  - eauto.
  - exfalso. exact (meq_noerr_all where_pat where_pat_noerr p q e E).
  - exfalso. exact (meq_total_all where_pat where_pat_total p q Hp Hq E).
Qed.

(** * Every instance is matched *)

Definition CompleteAt (p : tree) : Prop :=
  forall q, is_nil p = false -> wf p = true -> wf q = true -> supported p = true -> inst false p q = true ->
            meq where_pat q p = Ok true.

(** only nil (or an empty slice, against a slice) is an instance of nil, and nil is an instance only of nil or
    of a slice pattern *)
Lemma inst_nil_r wt p : inst wt p tnil = true -> is_nil p = true \/ slice_kind (tkind p) = true.
Proof.
  destruct p as [pk pl pcs]. rewrite inst_unfold. cbn beta zeta.
  destruct pk; cbn; intro H;
    repeat match type of H with context [if ?c then _ else _] => destruct c end;
    try discriminate H; auto.
Qed.

Lemma fld_complete pl q p r :
  inst false p q = true -> wf p = true -> wf q = true ->
  match pl with
  | PList => True
  | PGuard => negb (slice_kind (tkind p)) = true /\ negb (slice_kind (tkind q)) = true
  | _ => negb (is_nil p) = true /\ negb (slice_kind (tkind p)) = true
  end ->
  (is_nil p = false -> r = Ok true) ->
  fld pl q p r = Ok true.
Proof.
  intros H Hp Hq Hs Hr.
  assert (Hqn : is_nil q = true -> is_nil p = true \/ slice_kind (tkind p) = true).
  { intro Nq. apply wf_nil in Nq; auto. subst q. eapply inst_nil_r; eauto. }
  destruct pl; cbn [fld].
  - destruct Hs as [Sp Sq]. apply negb_true_iff in Sp, Sq.
    destruct (is_nil p) eqn:Np.
    + apply wf_nil in Np; auto. subst p. rewrite inst_tnil, Sq in H. cbn [andb] in H. rewrite orb_false_r in H.
      rewrite H. reflexivity.
    + destruct (is_nil q) eqn:Nq.
      * destruct (Hqn eq_refl) as [A|A]; congruence.
      * cbn. auto.
  - destruct Hs as [Np Sp]. apply negb_true_iff in Np, Sp. rewrite Np. cbn [orb].
    destruct (is_nil q) eqn:Nq; [destruct (Hqn eq_refl) as [A|A]; congruence | auto].
  - destruct Hs as [Np Sp]. apply negb_true_iff in Np, Sp. rewrite Np. cbn [orb].
    destruct (is_nil q) eqn:Nq; [destruct (Hqn eq_refl) as [A|A]; congruence | auto].
  - destruct (is_nil p) eqn:Np; auto.
    apply wf_nil in Np; auto. subst p. rewrite inst_tnil in H. apply orb_true_iff in H. destruct H as [Nq|H].
    + apply wf_nil in Nq; auto. subst q. reflexivity.
    + apply andb_true_iff in H. destruct H as [_ H]. rewrite H. reflexivity.
  - destruct Hs as [Np _]. apply negb_true_iff in Np. auto.
Qed.

Lemma deep_complete q p :
  inst false p q = true -> wf p = true -> wf q = true ->
  is_nil p || is_k K_Comments p = true -> is_nil q || is_k K_Comments q = true ->
  tree_eqb q p = true.
Proof.
  intros H Hp Hq Kp Kq. apply orb_true_iff in Kp. destruct Kp as [Kp|Kp].
  - apply wf_nil in Kp; auto. subst p. rewrite inst_tnil in H.
    apply orb_true_iff in Kq. destruct Kq as [Kq|Kq].
    + apply wf_nil in Kq; auto. subst q. reflexivity.
    + apply kind_eqb_eq in Kq. rewrite Kq in H. cbn in H.
      destruct q as [k l cs]. cbn in Kq. subst k. discriminate H.
  - destruct p as [k l cs]. apply kind_eqb_eq in Kp. cbn in Kp. subst k. rewrite inst_unfold in H. exact H.
Qed.

Lemma lab_complete q p :
  inst false p q = true -> wf p = true -> is_k K_bool p = true -> lab_eqb q p = true.
Proof.
  intros H Hp Kp. destruct p as [k l cs]. apply kind_eqb_eq in Kp. cbn in Kp. subst k.
  rewrite inst_unfold in H. cbn in H. bsplit. unfold lab_eqb. cbn [tlab]. assumption.
Qed.

Lemma inst_kids_length f wt k : forall ps ss i skip, inst_kids f wt k i ps ss skip = true -> length ss = length ps.
Proof.
  induction ps as [|p ps IH]; intros [|s ss] i skip H; cbn [inst_kids] in H; try discriminate; [reflexivity|].
  cbn [length]. f_equal.
  destruct (ignorable k i || skip && after_where k i); [eauto|].
  destruct (opt_nat_is (where_idx k) i && is_where_ph p); apply andb_true_iff in H; destruct H; eauto.
Qed.

Lemma pairwise_complete k lp : list_kind k = true -> lp <> PList ->
  forall pcs qcs i,
  Forall CompleteAt pcs -> forallb wf pcs = true -> forallb wf qcs = true -> forallb supported pcs = true ->
  forallb (fun c => negb (slice_kind (tkind c))) pcs = true ->
  forallb (fun c => negb (slice_kind (tkind c))) qcs = true ->
  (lp <> PGuard -> forallb (fun c => negb (is_nil c)) pcs = true) ->
  inst_kids (inst false) false k i pcs qcs false = true ->
  pairwise (meq where_pat) lp pcs qcs = Ok true.
Proof.
  intros Hk Hlp. induction pcs as [|p1 ps IHps]; intros [|q1 qs] i IH Hp Hq Hs Sp Sq Hn H;
    cbn [inst_kids] in H; try discriminate; [reflexivity|].
  rewrite (no_ignorable_list k Hk), (no_where_list k Hk) in H. cbn [orb andb opt_nat_is] in H.
  cbn [forallb] in *. bsplit. explode. cbn [pairwise].
  rewrite (fld_complete lp q1 p1); auto.
  - apply (IHps qs (S i)); auto. intro Hg. specialize (Hn Hg). cbn [forallb] in Hn. bsplit. assumption.
  - destruct lp; try (split; assumption); try contradiction.
    + specialize (Hn ltac:(discriminate)). cbn [forallb] in Hn. bsplit. split; assumption.
    + specialize (Hn ltac:(discriminate)). cbn [forallb] in Hn. bsplit. split; assumption.
    + specialize (Hn ltac:(discriminate)). cbn [forallb] in Hn. bsplit. split; assumption.
Qed.

Lemma meq_list_ph p q :
  is_k K_SQLVal p = true -> is_list_ph p = true -> value_class q = true -> meq where_pat q p = Ok true.
Proof.
  intros Kp Lp Vq. destruct p as [k l cs]. apply kind_eqb_eq in Kp. cbn in Kp. subst k.
  rewrite meq_unfold. unfold body. cbn [tkind]. rewrite Lp, orb_true_r.
  unfold value_class in Vq. destruct (is_k K_SQLVal q); cbn [negb]; [reflexivity|].
  cbn [orb] in Vq. rewrite Vq. reflexivity.
Qed.

Lemma value_class_not_nil q : value_class q = true -> is_nil q = false.
Proof.
  destruct q as [k l cs]. unfold value_class, value_like, is_k, is_nil. cbn [tkind].
  destruct k; cbn; intro H; try discriminate H; reflexivity.
Qed.

Lemma tuple_rest_complete p1 : wf p1 = true -> is_k K_SQLVal p1 = true -> is_list_ph p1 = true ->
  forall qs, forallb value_class qs = true ->
  tuple_rest (fun q => fld PGuard q p1 (meq where_pat q p1)) qs = Ok true.
Proof.
  intros Hp Kp Lp. induction qs as [|q qs IH]; intro H; [reflexivity|].
  cbn [forallb] in H. bsplit. cbn [tuple_rest].
  assert (Np : is_nil p1 = false).
  { destruct p1 as [k l cs]. apply kind_eqb_eq in Kp. cbn in Kp. subst k. reflexivity. }
  assert (E : fld PGuard q p1 (meq where_pat q p1) = Ok true).
  { cbn [fld]. rewrite Np. rewrite (value_class_not_nil q) by assumption. cbn [orb andb].
    apply meq_list_ph; assumption. }
  rewrite E. apply IH. assumption.
Qed.

Lemma tuple_complete : forall pcs qcs,
  Forall CompleteAt pcs -> forallb wf pcs = true -> forallb wf qcs = true -> forallb supported pcs = true ->
  forallb (fun c => negb (slice_kind (tkind c))) pcs = true ->
  forallb (fun c => negb (slice_kind (tkind c))) qcs = true ->
  inst_tuple (inst false) pcs qcs = true ->
  tuple (meq where_pat) pcs qcs = Ok true.
Proof.
  induction pcs as [|p1 ps IHps]; intros [|q1 qs] IH Hp Hq Hs Sp Sq H; cbn [inst_tuple] in H; try discriminate;
    [reflexivity|].
  cbn [forallb] in *. bsplit. explode. cbn [tuple].
  destruct ps as [|p2 ps].
  - destruct (is_k K_SQLVal p1 && is_list_ph p1) eqn:Eph.
    + apply andb_true_iff in Eph. destruct Eph as [Kp Lp]. bsplit.
      assert (Np : is_nil p1 = false).
      { destruct p1 as [k l cs]. apply kind_eqb_eq in Kp. cbn in Kp. subst k. reflexivity. }
      assert (E : fld PGuard q1 p1 (meq where_pat q1 p1) = Ok true).
      { cbn [fld]. rewrite Np. rewrite (value_class_not_nil q1) by assumption. cbn [orb andb].
        apply meq_list_ph; assumption. }
      rewrite E.
      destruct qs; [reflexivity|]. apply tuple_rest_complete; auto.
    + bsplit. rewrite (fld_complete PGuard q1 p1); auto.
      destruct qs; [reflexivity | discriminate].
  - bsplit. rewrite (fld_complete PGuard q1 p1); auto.
Qed.

Lemma sqlval_complete pl pcs q :
  inst false (T K_SQLVal pl pcs) q = true ->
  (let p := T K_SQLVal pl pcs in
   if negb (is_k K_SQLVal q) then Ok (value_like q && (is_value_ph p || is_list_ph p)) else
   if is_value_ph p || is_list_ph p then Ok true else
   if is_unknown_val q || is_unknown_val p
   then Ok (tree_eqb q p)
   else Ok (lab_eqb (kid 0 q) (kid 0 p) && lab_eqb (kid 1 q) (kid 1 p) && lab_eqb (kid 2 q) (kid 2 p))) = Ok true.
Proof.
  intro H. rewrite inst_unfold in H. cbn beta zeta iota in *.
  set (p := T K_SQLVal pl pcs) in *.
  destruct (is_value_ph p || is_list_ph p) eqn:Eph.
  - unfold value_class in H. destruct (is_k K_SQLVal q); cbn [negb]; [reflexivity|].
    cbn [orb] in H. rewrite H. reflexivity.
  - apply andb_true_iff in H. destruct H as [Hk H]. rewrite Hk. cbn [negb].
    destruct (is_unknown_val q || is_unknown_val p); [rewrite H; reflexivity|].
    bsplit. repeat match goal with E : lab_eqb _ _ = true |- _ => rewrite E; clear E end. reflexivity.
Qed.

Lemma list_complete k lp pl pcs q :
  list_pol k = Some lp -> lp <> PList -> deep_stmt k = false ->
  Forall CompleteAt pcs -> wf (T k pl pcs) = true -> wf q = true -> supported (T k pl pcs) = true ->
  (if slice_kind k && is_nil q then Nat.eqb (length pcs) 0
   else kind_eqb (tkind q) k && bytes_eqb (tlab q) pl && inst_kids (inst false) false k 0 pcs (tkids q) false) = true ->
  (if negb (is_k k q || (slice_kind k && is_nil q)) then Ok false else
   if negb (Nat.eqb (length (tkids q)) (length pcs)) then Ok false else
   pairwise (meq where_pat) lp pcs (tkids q)) = Ok true.
Proof.
  intros Hlp Hne Hd IH Hp Hq Hs H.
  assert (Hlk : list_kind k = true) by (unfold list_kind; rewrite Hlp; reflexivity).
  destruct (slice_kind k && is_nil q) eqn:Nq.
  - rewrite orb_true_r. cbn [negb]. apply andb_true_iff in Nq. destruct Nq as [_ Nq].
    apply wf_nil in Nq; auto. subst q. unfold tnil. cbn [tkids length].
    apply Nat.eqb_eq in H. destruct pcs; [reflexivity | discriminate].
  - bsplit. unfold is_k.
    match goal with K : kind_eqb (tkind q) k = true |- _ => rewrite K; pose proof K as Hk end. cbn [orb negb].
    match goal with K : inst_kids _ _ _ _ _ _ _ = true |- _ => pose proof (inst_kids_length _ _ _ _ _ _ _ K) as Hlen end.
    rewrite Hlen, Nat.eqb_refl. cbn [negb].
    pose proof (wf_kids _ _ _ Hp) as Hpk.
    rewrite wf_unfold, (leaf_kind_not_list k Hlk), Hlk in Hp. bsplit.
    destruct q as [qk ql qcs]. cbn [tkind tkids tlab] in *. apply kind_eqb_eq in Hk. subst qk.
    pose proof (wf_kids _ _ _ Hq) as Hqk.
    rewrite wf_unfold, (leaf_kind_not_list k Hlk), Hlk in Hq. bsplit.
    cbn [supported] in Hs. rewrite Hd in Hs. cbn [orb] in Hs. bsplit.
    eapply (pairwise_complete k lp); eauto.
    intro Hg. rewrite Hlp in *. destruct lp; try contradiction; assumption.
Qed.

Ltac kind_subst ::= repeat match goal with
  | H : is_k _ _ = true |- _ => unfold is_k in H
  | H : kind_eqb _ _ = true |- _ => apply kind_eqb_eq in H; cbn [tkind] in H; subst
  end.

Lemma where_not_slice c : is_nil c || is_k K_Where c = true -> negb (slice_kind (tkind c)) = true.
Proof.
  intro H. apply orb_true_iff in H. destruct H as [H|H]; apply kind_eqb_eq in H; rewrite H; reflexivity.
Qed.

Ltac csimp := cbn -[fld meq tree_eqb lab_eqb where_pat inst is_subquery_ph].

Ltac solve_fields :=
  repeat match goal with
  | W : is_where_ph ?c = true |- context [fld PGuard ?d ?c ?r] =>
      let E := fresh "E" in
      destruct (fld PGuard d c r) as [[|]|?e|] eqn:E;
      [ csimp
      | unfold is_where_ph in W; destruct (where_pat c) as [[|]| |]; try discriminate W; reflexivity
      | exfalso; apply fld_noerr in E; exact (meq_noerr_all where_pat where_pat_noerr _ _ _ E)
      | exfalso; apply (fld_total _ _ _ _ E); [apply (meq_total_all where_pat where_pat_total); assumption | discriminate] ]
  | |- context [fld ?pl ?d ?c ?r] =>
      let E := fresh "E" in
      assert (E : fld pl d c r = Ok true) by
        (apply fld_complete;
         [ assumption | assumption | assumption
         | cbn; first [exact I | split; first [assumption | apply where_not_slice; assumption]]
         | intros ?Hn; match goal with IH : CompleteAt c |- _ => apply IH; assumption end ]);
      rewrite E; clear E; csimp
  | |- context [tree_eqb ?d ?c] => rewrite (deep_complete d c) by assumption; csimp
  | |- context [lab_eqb ?d ?c] => rewrite (lab_complete d c) by assumption; csimp
  end;
  try reflexivity.

(* H : kind_eqb (tkind q) K && bytes_eqb (tlab q) pl && inst_kids ... = true (the all-fields rule) *)
Ltac cgeneric q Hp Hq Hs H :=
  bsplit; destruct q as [?qk ?ql ?qcs]; cbn [tkind tkids tlab] in *; kind_subst;
  stageB Hp Hq; explode; cbn in Hs; bsplit;
  match goal with K : inst_kids _ _ _ _ _ _ _ = true |- _ =>
    cbn -[inst is_where_ph] in K;
    repeat match type of K with context [is_where_ph ?c] => let W := fresh "W" in destruct (is_where_ph c) eqn:W end;
    cbn -[inst] in K end;
  bsplit; cbn [forallb nth] in *; bsplit.

Ltac cgoal := rewrite meq_unfold; unfold body; cbn [tkind tkids tlab struct_spec stmt_ph list_pol slice_kind].

Ltac cplain q Hp Hq Hs H :=
  rewrite inst_unfold in H; cbn -[inst is_where_ph inst_kids] in H;
  cgeneric q Hp Hq Hs H; cgoal; csimp; solve_fields.

Ltac by_same H := rewrite inst_unfold in H; cbn beta zeta iota in H; cbn [deep_stmt] in H; cgoal; rewrite H; reflexivity.


Ltac cleaf q Hp Hq Hs H :=
  rewrite inst_unfold in H; cbn -[inst inst_kids] in H; bsplit; cgoal;
  match goal with K : inst_kids _ _ _ _ _ _ _ = true |- _ => rewrite (inst_kids_length _ _ _ _ _ _ _ K) end;
  rewrite Nat.eqb_refl; unfold lab_eqb; cbn [tlab];
  repeat match goal with E : ?x = true |- context [?x] => rewrite E end; reflexivity.

Ltac cnullval q Hp Hq Hs H :=
  rewrite inst_unfold in H; cbn -[inst inst_kids] in H; bsplit;
  destruct q as [?qk ?ql ?qcs]; cbn [tkind tkids tlab] in *; kind_subst;
  cbn in Hp; bsplit; explode;
  match goal with K : inst_kids _ _ _ _ _ ?l _ = true |- _ => destruct l; [|discriminate K] end;
  match goal with E : bytes_eqb _ _ = true |- _ => apply bytes_eqb_eq in E; subst end;
  cgoal; rewrite tree_eqb_refl; reflexivity.

Ltac cfallback K q Hp Hq Hs H :=
  rewrite inst_unfold in H; cbn beta zeta iota in H;
  destruct (is_k K q) eqn:Hkq;
  [ cbn -[inst is_where_ph inst_kids] in H; cgeneric q Hp Hq Hs H; cgoal; csimp; solve_fields
  | cgoal; rewrite Hkq; cbn [negb]; rewrite H; reflexivity ].

Ltac kill_bad E :=
  first [ exfalso; apply fld_noerr in E; exact (meq_noerr_all where_pat where_pat_noerr _ _ _ E)
        | exfalso; apply (fld_total _ _ _ _ E); [apply (meq_total_all where_pat where_pat_total); assumption | discriminate] ].

Ltac csubquery pl pcs q Hp Hq Hs H :=
  rewrite inst_unfold in H; cbn beta zeta iota in H; bsplit;
  destruct (is_subquery_ph (T K_Subquery pl pcs)) eqn:Eph;
  [ destruct q as [?qk ?ql ?qcs]; cbn [tkind tkids tlab] in *; kind_subst;
    stageB Hp Hq; explode; cbn [forallb nth] in *; bsplit; cgoal; csimp;
    match goal with |- context [fld ?pl ?d ?c ?r] =>
      let E := fresh "E" in destruct (fld pl d c r) as [[|]|?e|] eqn:E; csimp;
      [ reflexivity | rewrite Eph; reflexivity | kill_bad E | kill_bad E ] end
  | match goal with K : _ || _ = true |- _ => cbn [orb] in K;
      cbn -[inst is_where_ph inst_kids] in K; cgeneric q Hp Hq Hs K; cgoal; csimp; solve_fields end ].

Ltac cstmt q Hp Hq Hs H :=
  rewrite inst_unfold in H; cbn beta zeta iota in H; cbn [stmt_ph] in H; bsplit;
  match goal with K : tree_eqb ?p ?c || _ = true |- _ =>
    let Eph := fresh "Eph" in destruct (tree_eqb p c) eqn:Eph;
    [ destruct q as [?qk ?ql ?qcs]; cbn [tkind tkids tlab] in *; kind_subst;
      stageB Hp Hq; explode; cgoal; csimp; rewrite Eph; reflexivity
    | cbn [orb] in K; cbn -[inst is_where_ph inst_kids] in K; cgeneric q Hp Hq Hs K; cgoal; csimp; rewrite Eph; csimp; solve_fields ]
  end.

Ltac ctuple q Hp Hq Hs H IH :=
  rewrite inst_unfold in H; cbn beta zeta iota in H; bsplit;
  cgoal; match goal with K : is_k K_ValTuple q = true |- _ => rewrite K; pose proof K as Hkq end; cbn [negb];
  pose proof (wf_kids _ _ _ Hp) as Hpk;
  rewrite wf_unfold in Hp; cbn [leaf_kind list_kind list_pol kind_is_slice] in Hp; bsplit;
  destruct q as [?qk ?ql ?qcs]; cbn [tkind tkids] in *; kind_subst;
  pose proof (wf_kids _ _ _ Hq) as Hqk;
  rewrite wf_unfold in Hq; cbn [leaf_kind list_kind list_pol kind_is_slice] in Hq; bsplit;
  cbn in Hs; apply tuple_complete; assumption.

Ltac clist q Hp Hq Hs H IH :=
  rewrite inst_unfold in H; cbn beta zeta iota in H; cbn [deep_stmt] in H; cgoal;
  eapply list_complete; eauto; try reflexivity; discriminate.

Ltac cstarlist q pcs Hp Hq Hs H IH :=
  rewrite inst_unfold in H; cbn beta zeta iota in H; cgoal;
  destruct (is_star_list pcs) eqn:Es;
  [ cbn [andb]; rewrite H; reflexivity
  | eapply list_complete; eauto; try reflexivity; discriminate ].

Ltac cdispatch k q pl pcs Hn Hp Hq Hs H IH :=
  lazymatch k with
  | K_nil => discriminate Hn
  | K_string => by_same H | K_ColIdent => by_same H | K_Comments => by_same H
  | K_Set => by_same H | K_DBDDL => by_same H | K_DDL => by_same H | K_Show => by_same H | K_Use => by_same H
  | K_Begin => by_same H | K_Commit => by_same H | K_Rollback => by_same H | K_OtherRead => by_same H | K_OtherAdmin => by_same H
  | K_bool => cleaf q Hp Hq Hs H | K_int => cleaf q Hp Hq Hs H | K_bytes => cleaf q Hp Hq Hs H
  | K_BoolVal => cleaf q Hp Hq Hs H | K_ListArg => cleaf q Hp Hq Hs H
  | K_NullVal => cnullval q Hp Hq Hs H
  | K_SQLVal => cgoal; exact (sqlval_complete _ _ _ H)
  | K_ColName => cfallback K_ColName q Hp Hq Hs H
  | K_AliasedExpr => cfallback K_AliasedExpr q Hp Hq Hs H
  | K_Subquery => csubquery pl pcs q Hp Hq Hs H
  | K_Union => cstmt q Hp Hq Hs H | K_Select => cstmt q Hp Hq Hs H | K_Insert => cstmt q Hp Hq Hs H
  | K_Update => cstmt q Hp Hq Hs H | K_Delete => cstmt q Hp Hq Hs H
  | K_ValTuple => ctuple q Hp Hq Hs H IH
  | K_SelectExprs => cstarlist q pcs Hp Hq Hs H IH
  | K_Returning => cstarlist q pcs Hp Hq Hs H IH
  | K_TableExprs => clist q Hp Hq Hs H IH | K_GroupBy => clist q Hp Hq Hs H IH | K_Values => clist q Hp Hq Hs H IH
  | K_OrderBy => clist q Hp Hq Hs H IH | K_OnDup => clist q Hp Hq Hs H IH | K_UpdateExprs => clist q Hp Hq Hs H IH
  | K_list => clist q Hp Hq Hs H IH | K_Columns => clist q Hp Hq Hs H IH | K_Partitions => clist q Hp Hq Hs H IH
  | _ => first [ solve [cbn in Hs; discriminate Hs] | cplain q Hp Hq Hs H ]
  end.

Lemma meq_complete_all : forall p, CompleteAt p.
Proof.
  induction p as [pk pl pcs IH] using tree_ind'.
  intros q Hn Hp Hq Hs H.
  destruct pk.
  all: match goal with Hp : wf (T ?k _ _) = true |- _ => cdispatch k q pl pcs Hn Hp Hq Hs H IH end.
Qed.

(** every instance of a pattern (documented reading) is matched *)
Lemma match_impl_complete p s :
  top_kind (tkind p) = true -> wf p = true -> wf s = true -> supported p = true ->
  instance_of p s = true -> match_impl p s = Ok true.
Proof.
  intros Ht Hp Hs Hsup H. unfold match_impl. rewrite Ht. apply meq_complete_all; auto.
  destruct p as [k l cs]. destruct k; try discriminate Ht; reflexivity.
Qed.
