(** C13: main induction — parse (print e) = Some e for every tree the yacc parser can build. *)
From Acra Require Import Lib.Bytes Gen.Prec Model.SqlExpr Proofs.SqlExpr.
From Coq Require Import Arith Lia.

Lemma digit_not_minus d : is_digit d = true -> byte_eqb d x_minus = false.
Proof.
  intros H. destruct (byte_eqb d x_minus) eqn:E; [|reflexivity].
  apply byte_eqb_eq in E. subst d. discriminate H.
Qed.

Definition Pst (e : expr) : Prop := Cst e /\ (Ust e /\ Tst e).

Ltac not_unary := let Hl := fresh in intros _ Hl; cbn [level] in Hl; exfalso; precs.
Ltac ltb_false := symmetry; apply Nat.ltb_ge.
Ltac leb_true := symmetry; apply Nat.leb_le.
Ltac fuel f := destruct f as [|f]; [lia|].

(** left-associative infix node with operand parsers at [S p]: EAnd, EOr, EBin share this script *)

Lemma Pst_all : forall e, Pst e.
Proof.
  induction e using expr_ind'.
  - (* EAnd *)
    destruct IHe1 as [Cl _], IHe2 as [Cr _]. split; [|split; [not_unary|exact I]].
    intros Hwf min rest R a Hmin Hst Hk f Hf.
    cbn [wf] in Hwf. apply andb_prop in Hwf as [Hwf H4]. apply andb_prop in Hwf as [Hwf H3].
    apply andb_prop in Hwf as [Hwl Hwr]. apply Nat.leb_le in H3, H4.
    cbn [print level rbound cost] in *. rewrite <- app_assoc. cbn [app].
    apply (Cl Hwl min (TK KAnd :: print e2 ++ rest) R (a + cost e2 + 2)); [lia| | |lia].
    + apply stops_and. pose proof (level_lt_rbound e1). lia.
    + intros f0 Hf0. fuel f0. rewrite ploop_and.
      replace (L_AND <? min) with false by (ltb_false; lia).
      rewrite (Cr Hwr (S L_AND) rest (Some (e2, rest)) 1); [apply Hk; lia|lia| | |lia].
      * eapply stops_mono; [|exact Hst]. pose proof (level_lt_rbound e2). lia.
      * intros f1 Hf1. fuel f1. apply ploop_stop. exact Hst.
  - (* EOr *)
    destruct IHe1 as [Cl _], IHe2 as [Cr _]. split; [|split; [not_unary|exact I]].
    intros Hwf min rest R a Hmin Hst Hk f Hf.
    cbn [wf] in Hwf. apply andb_prop in Hwf as [Hwf H4]. apply andb_prop in Hwf as [Hwf H3].
    apply andb_prop in Hwf as [Hwl Hwr]. apply Nat.leb_le in H3, H4.
    cbn [print level rbound cost] in *. rewrite <- app_assoc. cbn [app].
    apply (Cl Hwl min (TK KOr :: print e2 ++ rest) R (a + cost e2 + 2)); [lia| | |lia].
    + apply stops_or. pose proof (level_lt_rbound e1). lia.
    + intros f0 Hf0. fuel f0. rewrite ploop_or.
      replace (L_OR <? min) with false by (ltb_false; lia).
      rewrite (Cr Hwr (S L_OR) rest (Some (e2, rest)) 1); [apply Hk; lia|lia| | |lia].
      * eapply stops_mono; [|exact Hst]. pose proof (level_lt_rbound e2). lia.
      * intros f1 Hf1. fuel f1. apply ploop_stop. exact Hst.
  - (* ENot *)
    destruct IHe as [Cx _]. split; [|split; [not_unary|exact I]].
    intros Hwf min rest R a Hmin Hst Hk f Hf.
    cbn [wf] in Hwf. apply andb_prop in Hwf as [Hwx Hlx]. apply Nat.leb_le in Hlx.
    cbn [print level rbound cost app] in *. fuel f.
    rewrite pexpr_not. replace (min <=? L_NOT) with true by (leb_true; lia).
    pose proof (stops_not_level rest Hst) as Hst'.
    rewrite (Cx Hwx L_NOT rest (Some (e, rest)) 1); [apply Hk; lia|lia| | |lia].
    + eapply stops_mono; [|exact Hst']. pose proof (level_lt_rbound e). lia.
    + intros f1 Hf1. fuel f1. apply ploop_stop. exact Hst'.
  - (* ECmp *)
    destruct IHe1 as [Cl _]. destruct IHe2 as [Cr [_ Tr]]. split; [|split; [not_unary|exact I]].
    intros Hwf min rest R a Hmin Hst Hk f Hf.
    cbn [wf] in Hwf. apply andb_prop in Hwf as [Hwf Hr]. apply andb_prop in Hwf as [Hwl Hvl].
    pose proof Hvl as Hvl'. unfold is_v in Hvl'. apply Nat.leb_le in Hvl'.
    cbn [print level rbound cost] in *. rewrite <- !app_assoc.
    apply (Cl Hwl min (cmp_toks o ++ print e2 ++ rest) R (a + cost e2 + 3)); [precs| | |lia].
    + apply stops_cmp. pose proof (level_lt_rbound e1). precs.
    + intros f0 Hf0. destruct f0 as [|[|f0]]; try lia. rewrite ploop_cmp.
      replace (L_CMP <? min) with false by (ltb_false; precs). rewrite Hvl.
      destruct (is_in o) eqn:Ein.
      * destruct e2; try discriminate Hr. apply andb_prop in Hr as [Hne Hwxs].
        rewrite print_tuple. cbn [app]. rewrite <- app_assoc. cbn [app].
        rewrite pcond_in by exact Ein. cbn [Tst] in Tr. rewrite cost_tuple in *.
        rewrite (Tr Hwxs) by first [lia | destruct xs; [discriminate Hne|discriminate]].
        apply Hk. lia.
      * apply andb_prop in Hr as [Hwr Hvr]. unfold is_v in Hvr. apply Nat.leb_le in Hvr.
        assert (Hpr : pexpr f0 L_VAL (print e2 ++ rest) = Some (e2, rest)).
        { apply (Cr Hwr L_VAL rest (Some (e2, rest)) 1); [lia| | |lia].
          - eapply stops_mono; [|exact Hst]. pose proof (level_lt_rbound e2). precs.
          - intros f1 Hf1. fuel f1. apply ploop_stop. eapply stops_mono; [|exact Hst]. precs. }
        destruct (is_like o) eqn:Elike.
        -- rewrite pcond_like by exact Elike. rewrite Hpr.
           rewrite no_escape_head by exact Hst. apply Hk. lia.
        -- rewrite pcond_simple by assumption. rewrite Hpr. apply Hk. lia.
  - (* ECmpEsc *)
    destruct IHe1 as [Cl _], IHe2 as [Cr _], IHe3 as [Cc _]. split; [|split; [not_unary|exact I]].
    intros Hwf min rest R a Hmin Hst Hk f Hf.
    cbn [wf] in Hwf. apply andb_prop in Hwf as [Hwf Hvc]. apply andb_prop in Hwf as [Hwf Hvr].
    apply andb_prop in Hwf as [Hwf Hvl]. apply andb_prop in Hwf as [Hwf Hwc].
    apply andb_prop in Hwf as [Hwf Hwr]. apply andb_prop in Hwf as [Hlike Hwl].
    pose proof Hvl as Hvl'. unfold is_v in Hvl', Hvr, Hvc. apply Nat.leb_le in Hvl', Hvr, Hvc.
    cbn [print level rbound cost] in *. rewrite <- !app_assoc. cbn [app].
    apply (Cl Hwl min (cmp_toks o ++ print e2 ++ TK KEscape :: print e3 ++ rest) R (a + cost e2 + cost e3 + 4)); [precs| | |lia].
    + apply stops_cmp. pose proof (level_lt_rbound e1). precs.
    + intros f0 Hf0. destruct f0 as [|[|f0]]; try lia. rewrite ploop_cmp.
      replace (L_CMP <? min) with false by (ltb_false; precs). rewrite Hvl.
      rewrite pcond_like by exact Hlike.
      rewrite (Cr Hwr L_VAL (TK KEscape :: print e3 ++ rest) (Some (e2, TK KEscape :: print e3 ++ rest)) 1); [|lia| | |lia].
      * rewrite (Cc Hwc L_VAL rest (Some (e3, rest)) 1); [apply Hk; lia|lia| | |lia].
        -- eapply stops_mono; [|exact Hst]. pose proof (level_lt_rbound e3). precs.
        -- intros f1 Hf1. fuel f1. apply ploop_stop. eapply stops_mono; [|exact Hst]. precs.
      * apply stops_escape. pose proof (level_lt_rbound e2). precs.
      * intros f1 Hf1. fuel f1. apply ploop_stop. apply stops_escape. precs.
  - (* ERange *)
    destruct IHe1 as [Cl _], IHe2 as [Ca _], IHe3 as [Cb _]. split; [|split; [not_unary|exact I]].
    intros Hwf min rest R a0 Hmin Hst Hk f Hf.
    cbn [wf] in Hwf. apply andb_prop in Hwf as [Hwf Hvb]. apply andb_prop in Hwf as [Hwf Hva].
    apply andb_prop in Hwf as [Hwf Hvl]. apply andb_prop in Hwf as [Hwf Hwb].
    apply andb_prop in Hwf as [Hwl Hwa].
    pose proof Hvl as Hvl'. unfold is_v in Hvl', Hva, Hvb. apply Nat.leb_le in Hvl', Hva, Hvb.
    cbn [print level rbound cost] in *. fold (between_toks n). rewrite <- !app_assoc. cbn [app].
    apply (Cl Hwl min (between_toks n ++ print e2 ++ TK KAnd :: print e3 ++ rest) R (a0 + cost e2 + cost e3 + 4)); [precs| | |lia].
    + apply stops_between. pose proof (level_lt_rbound e1). precs.
    + intros f0 Hf0. destruct f0 as [|[|f0]]; try lia. rewrite ploop_between.
      replace (L_BETWEEN <? min) with false by (ltb_false; precs). rewrite Hvl.
      rewrite pcond_between.
      rewrite (Ca Hwa L_VAL (TK KAnd :: print e3 ++ rest) (Some (e2, TK KAnd :: print e3 ++ rest)) 1); [|lia| | |lia].
      * rewrite (Cb Hwb L_VAL rest (Some (e3, rest)) 1); [apply Hk; lia|lia| | |lia].
        -- eapply stops_mono; [|exact Hst]. pose proof (level_lt_rbound e3). precs.
        -- intros f1 Hf1. fuel f1. apply ploop_stop. eapply stops_mono; [|exact Hst]. precs.
      * apply stops_and. pose proof (level_lt_rbound e2). precs.
      * intros f1 Hf1. fuel f1. apply ploop_stop. apply stops_and. precs.
  - (* EIs *)
    destruct IHe as [Cx _]. split; [|split; [not_unary|exact I]].
    intros Hwf min rest R a Hmin Hst Hk f Hf.
    cbn [wf] in Hwf. apply andb_prop in Hwf as [Hwx Hlx]. apply Nat.leb_le in Hlx.
    cbn [print level rbound cost] in *. rewrite <- app_assoc.
    apply (Cx Hwx min (is_toks s ++ rest) R (a + 1)); [lia| | |lia].
    + apply stops_is. apply rbound_above_cmp. exact Hlx.
    + intros f0 Hf0. fuel f0. rewrite ploop_is.
      replace (L_CMP <? min) with false by (ltb_false; precs). apply Hk. lia.
  - (* EBin *)
    destruct IHe1 as [Cl _], IHe2 as [Cr _]. split; [|split; [not_unary|exact I]].
    intros Hwf min rest R a Hmin Hst Hk f Hf.
    cbn [wf] in Hwf. apply andb_prop in Hwf as [Hwf H4]. apply andb_prop in Hwf as [Hwf H3].
    apply andb_prop in Hwf as [Hwl Hwr]. apply Nat.leb_le in H3, H4.
    cbn [print level rbound cost] in *. rewrite <- app_assoc. cbn [app].
    apply (Cl Hwl min (TK (bin_tok o) :: print e2 ++ rest) R (a + cost e2 + 2)); [lia| | |lia].
    + apply stops_bin. pose proof (level_lt_rbound e1). lia.
    + intros f0 Hf0. fuel f0. rewrite ploop_bin.
      replace (binprec o <? min) with false by (ltb_false; lia).
      replace (is_v e1) with true by (unfold is_v; leb_true; precs).
      rewrite (Cr Hwr (S (binprec o)) rest (Some (e2, rest)) 1); [apply Hk; lia|lia| | |lia].
      * eapply stops_mono; [|exact Hst]. pose proof (level_lt_rbound e2). lia.
      * intros f1 Hf1. fuel f1. apply ploop_stop. exact Hst.
  - (* EUn *)
    destruct IHe as [_ [Ux _]].
    assert (HU : Ust (EUn o e)).
    { intros Hwf Hl rest Hst f Hf.
      cbn [wf] in Hwf. apply andb_prop in Hwf as [Hwf Hfold]. apply andb_prop in Hwf as [Hwx Hlx].
      apply Nat.leb_le in Hlx. cbn [print cost app] in *. fuel f. rewrite punary_un.
      rewrite (Ux Hwx Hlx rest Hst f) by lia.
      destruct o; cbn [un_result]; try reflexivity.
      - unfold fold_plus. apply Bool.negb_true_iff in Hfold. rewrite Hfold. reflexivity.
      - apply Bool.negb_true_iff in Hfold. rewrite (fold_minus_non_int _ Hfold). reflexivity. }
    split; [apply C_of_U; [cbn [level]; lia|exact HU]|split; [exact HU|exact I]].
  - (* ELit *)
    assert (HU : Ust (ELit t v)).
    { intros Hwf _ rest Hst f Hf. cbn [wf print cost] in *. unfold lit_toks, wf_lit in *.
      destruct (is_int t) eqn:Eint.
      - destruct v as [|c v']; [discriminate|]. destruct (byte_eqb c x_minus) eqn:Ec.
        + apply byte_eqb_eq in Ec. subst c. destruct v' as [|d v'']; [discriminate|].
          cbn [nonempty_digits forallb] in Hwf. apply andb_prop in Hwf as [Hwf _].
          apply digit_not_minus in Hwf. cbn [app]. destruct f as [|[|f]]; try lia.
          change (TK KMinus) with (TK (un_tok UMinus)). rewrite punary_un, punary_lit.
          cbn [un_result fold_minus]. rewrite Eint, Hwf. reflexivity.
        + cbn [app]. fuel f. apply punary_lit.
      - cbn [app]. fuel f. apply punary_lit. }
    split; [apply C_of_U; [cbn [level]; precs|exact HU]|split; [exact HU|exact I]].
  - (* ENull *)
    assert (HU : Ust ENull).
    { intros _ _ rest Hst f Hf. cbn [print cost app] in *. fuel f. apply punary_null. }
    split; [apply C_of_U; [cbn [level]; precs|exact HU]|split; [exact HU|exact I]].
  - (* EBool *)
    assert (HU : Ust (EBool b)).
    { intros _ _ rest Hst f Hf. cbn [print cost app] in *. fuel f. apply punary_bool. }
    split; [apply C_of_U; [cbn [level]; precs|exact HU]|split; [exact HU|exact I]].
  - (* ECol *)
    assert (HU : Ust (ECol q n)).
    { intros Hwf _ rest Hst f Hf. cbn [wf print cost] in *. apply Nat.leb_le in Hwf. fuel f.
      rewrite col_toks_eq. cbn [app]. rewrite punary_id.
      rewrite (pcol_spec q [] n rest) by first [cbn [length]; lia | eapply stops_no_dot; exact Hst].
      cbn [app]. apply (stops_no_lparen L_TOP rest); exact Hst. }
    split; [apply C_of_U; [cbn [level]; precs|exact HU]|split; [exact HU|exact I]].
  - (* EParen *)
    destruct IHe as [Cx _].
    assert (HU : Ust (EParen e)).
    { intros Hwf _ rest Hst f Hf. cbn [wf print cost] in *. fuel f. cbn [app]. rewrite <- app_assoc. cbn [app].
      rewrite punary_paren. change (print e ++ TK KRParen :: rest) with (print_list [e] ++ TK KRParen :: rest).
      rewrite (args_ok [e] (Forall_cons _ Cx (Forall_nil _)) ltac:(cbn [forallb]; rewrite Hwf; reflexivity) ltac:(discriminate) rest f)
        by (cbn [costl]; lia).
      reflexivity. }
    split; [apply C_of_U; [cbn [level]; precs|exact HU]|split; [exact HU|exact I]].
  - (* ETuple *)
    assert (HC : Forall Cst xs) by (eapply Forall_impl; [|exact H]; intros ? [? _]; assumption).
    assert (HU : Ust (ETuple xs)).
    { intros Hwf _ rest Hst f Hf. cbn [wf] in Hwf. apply andb_prop in Hwf as [Hlen Hwxs].
      apply Nat.leb_le in Hlen. rewrite cost_tuple in Hf. rewrite print_tuple. fuel f.
      cbn [app]. rewrite <- app_assoc. cbn [app]. rewrite punary_paren.
      rewrite (args_ok xs HC Hwxs) by first [lia | destruct xs; [cbn in Hlen; lia|discriminate]].
      destruct xs as [|x [|y l]]; cbn [length] in Hlen; try lia. reflexivity. }
    split; [apply C_of_U; [cbn [level]; precs|exact HU]|split; [exact HU|]].
    cbn [Tst]. intros Hwxs Hne rest f Hf. apply (args_ok xs HC Hwxs Hne rest f Hf).
  - (* EFunc *)
    assert (HC : Forall Cst xs) by (eapply Forall_impl; [|exact H]; intros ? [? _]; assumption).
    assert (HU : Ust (EFunc n xs)).
    { intros Hwf _ rest Hst f Hf. cbn [wf] in Hwf. rewrite cost_func in Hf. rewrite print_func. fuel f.
      cbn [app]. rewrite <- app_assoc. cbn [app]. rewrite punary_id.
      rewrite pcol_stop by reflexivity.
      destruct xs as [|x xs'].
      - reflexivity.
      - rewrite (good_head_not_rparen (print_list (x :: xs') ++ TK KRParen :: rest))
          by (apply good_head_app, print_list_good_head).
        rewrite (args_ok (x :: xs') HC Hwf ltac:(discriminate) rest f) by lia. reflexivity. }
    split; [apply C_of_U; [cbn [level]; precs|exact HU]|split; [exact HU|exact I]].
Qed.

(** cost is within the fuel [parse] gives itself *)
Lemma print_nonempty e : 1 <= length (print e).
Proof. pose proof (print_good_head e) as H. destruct (print e); [destruct H|cbn [length]; lia]. Qed.

Lemma print_list_length xs :
  Forall (fun e => cost e <= 8 * length (print e)) xs ->
  costl xs <= 8 * length (print_list xs) + 5.
Proof.
  induction 1 as [|x l Hx Hl IH]; [cbn; lia|].
  destruct l as [|y l'].
  - cbn [costl print_list]. lia.
  - change (print_list (x :: y :: l')) with (print x ++ TK KComma :: print_list (y :: l')).
    cbn [costl] in *. rewrite app_length. cbn [length]. lia.
Qed.

Ltac lens :=
  cbn [length]; repeat (rewrite app_length; cbn [length]);
  repeat match goal with x : expr |- _ => pose proof (print_nonempty x); revert x end; intros; lia.

Lemma cmp_toks_len o : 1 <= length (cmp_toks o). Proof. destruct o; cbn; lia. Qed.

Lemma cost_le_fuel e : cost e <= 8 * length (print e).
Proof.
  induction e using expr_ind'.
  - cbn [cost print]. lens.
  - cbn [cost print]. lens.
  - cbn [cost print]. lens.
  - cbn [cost print]. pose proof (cmp_toks_len o). lens.
  - cbn [cost print]. pose proof (cmp_toks_len o). lens.
  - cbn [cost print]. destruct n; lens.
  - cbn [cost print]. destruct s; cbn [is_toks]; lens.
  - cbn [cost print]. lens.
  - cbn [cost print]. lens.
  - cbn [cost print]. unfold lit_toks. destruct (is_int t); [destruct v as [|c v]; [|destruct (byte_eqb c x_minus)]|]; cbn [length]; lia.
  - cbn [cost print length]. lia.
  - cbn [cost print length]. lia.
  - cbn [cost print]. destruct q; cbn [col_toks length]; lia.
  - cbn [cost print]. lens.
  - rewrite cost_tuple, print_tuple. pose proof (print_list_length xs H). cbn [length]. rewrite app_length. cbn [length]. lia.
  - rewrite cost_func, print_func. pose proof (print_list_length xs H). cbn [length]. rewrite app_length. cbn [length]. lia.
Qed.

(** THE round trip: every tree the yacc parser can build ([wf]) is parsed back from its printed
    token list — any depth, any operators, any literals. *)
Theorem print_parse_roundtrip e : wf e = true -> parse (print e) = Some e.
Proof.
  intros Hwf. unfold parse. rewrite prec_sane_true.
  destruct (Pst_all e) as [C _].
  pose proof (C Hwf 0 [] (Some (e, [])) 1) as K. rewrite app_nil_r in K.
  rewrite K; [reflexivity|lia|apply stops_nil| |].
  - intros f Hf. fuel f. apply ploop_stop. apply stops_nil.
  - unfold parse_fuel. pose proof (cost_le_fuel e). lia.
Qed.

(** also inside a longer token stream: the parser stops exactly at a token that cannot continue the
    expression (closing parenthesis, comma, or a lower-precedence operator) *)
Theorem print_parse_prefix e rest :
  wf e = true -> stopsb (rbound e) rest = true -> stopsb 0 rest = true ->
  forall f, 1 + cost e <= f -> pexpr f 0 (print e ++ rest) = Some (e, rest).
Proof.
  intros Hwf Hst H0 f Hf. destruct (Pst_all e) as [C _].
  apply (C Hwf 0 rest (Some (e, rest)) 1); [lia|exact Hst| |exact Hf].
  intros f0 Hf0. fuel f0. apply ploop_stop. exact H0.
Qed.
