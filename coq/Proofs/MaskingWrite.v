(** The write-side decision "already encrypted on the application side, store as is" and the masked write path:
    what counts as a protected value ([looks_protected] = the handler's own signature or a COMPLETE valid container:
    tag, registered envelope id, a declared length that fits, and the signature of the inner envelope), hence what
    does not: every look-alike is encrypted.  The encryptor chain around the masking encryptor is transparent for a
    masked column. *)
From Acra Require Import Lib.Bytes Lib.Outcome Lib.Sha256 Crypto.Interface Gen.Consts Gen.MaskConsts
  Model.Envelope Model.EnvelopeOld Model.Masking Model.MaskingWrite
  Proofs.Envelope Proofs.EnvelopeHandlers Proofs.Scanner Proofs.Containers Proofs.Masking.
From Coq Require Import ZifyN ZifyNat ZifyBool.

(** a complete valid serialized container: header accepted ([sc_validate]: tag, more than the 12 header bytes, a
    registered envelope id), the declared length fits into the data, the inner bytes carry that envelope's signature *)
Definition complete_container (h : bytes) : Prop :=
  exists id n, sc_validate h = Some id /\ sc_internal_length h = Some n /\
               handler_match id (firstn (N.to_nat n) (skipn SC_MIN_SIZE h)) = true.

(** a raw (container-less) envelope of either kind *)
Definition raw_old_envelope (h : bytes) : Prop := as_validate h = true \/ is_ok (ab_extract h) = true.

(** RegistryHandler.MatchDataSignature, spelled out *)
Theorem registry_match_spec h :
  registry_match h = true <-> complete_container h \/ (sc_validate h = None /\ raw_old_envelope h).
Proof.
  unfold registry_match, sc_deserialize, envelope_kind, complete_container, raw_old_envelope, match_old.
  destruct (sc_validate h) as [id|] eqn:Ev.
  - destruct (sc_internal_length h) as [n|] eqn:El.
    + split.
      * intros H. left. exists id, n. repeat split; assumption.
      * intros [(id' & n' & [= <-] & [= <-] & H)|[H _]]; [exact H| discriminate].
    + split; [discriminate|]. intros [(id' & n' & _ & H & _)|[H _]]; discriminate.
  - destruct (as_validate h) eqn:Ea.
    + unfold handler_match. rewrite byte_eqb_refl, Ea. split; [intros _; right; split; [reflexivity| left; reflexivity]| reflexivity].
    + destruct (ab_extract h) as [[n b]| |] eqn:Eb.
      * unfold handler_match. replace (byte_eqb ENVELOPE_ID_ACRABLOCK ENVELOPE_ID_ACRASTRUCT) with false by reflexivity.
        rewrite Eb. split; [intros _; right; split; [reflexivity| right; reflexivity]| reflexivity].
      * split; [discriminate|]. intros [(id' & n' & H & _)|[_ [H|H]]]; discriminate.
      * split; [discriminate|]. intros [(id' & n' & H & _)|[_ [H|H]]]; discriminate.
Qed.

(** what the write path stores as it is *)
Theorem looks_protected_spec id h :
  looks_protected id h = true <->
  handler_match id h = true \/ complete_container h \/ (sc_validate h = None /\ raw_old_envelope h).
Proof.
  unfold looks_protected. rewrite orb_true_iff, registry_match_spec. tauto.
Qed.

(** ** look-alikes.  (1) a container header - tag, any 8 length bytes, a registered id, more bytes - whose declared
    length does not fit the data *)
Theorem header_with_unfitting_length_not_protected id h :
  handler_match id h = false -> sc_validate h <> None -> sc_internal_length h = None -> looks_protected id h = false.
Proof.
  intros Hm Hv Hl. destruct (looks_protected id h) eqn:E; [|reflexivity]. exfalso.
  apply looks_protected_spec in E as [E|[(id' & n & _ & E & _)|[E _]]]; congruence.
Qed.

(** (2) ... or whose declared length fits but whose inner bytes are not an envelope of the declared kind *)
Theorem header_with_foreign_inner_not_protected id id' n h :
  handler_match id h = false -> sc_validate h = Some id' -> sc_internal_length h = Some n ->
  handler_match id' (firstn (N.to_nat n) (skipn SC_MIN_SIZE h)) = false -> looks_protected id h = false.
Proof.
  intros Hm Hv Hl Hi. destruct (looks_protected id h) eqn:E; [|reflexivity]. exfalso.
  apply looks_protected_spec in E as [E|[(id2 & n2 & E1 & E2 & E3)|[E _]]]; try congruence.
  all: rewrite Hv in E1; rewrite Hl in E2; injection E1 as <-; injection E2 as <-; congruence.
Qed.

(** (3) bytes without a container header that are not a complete raw envelope either (a tag prefix, a truncated raw
    envelope, anything) *)
Theorem no_header_no_raw_envelope_not_protected id h :
  known_envelope id = true -> sc_validate h = None -> as_validate h = false -> is_ok (ab_extract h) = false ->
  looks_protected id h = false.
Proof.
  intros Hk Hv Ha Hb. destruct (looks_protected id h) eqn:E; [|reflexivity]. exfalso.
  apply looks_protected_spec in E as [E|[(id' & n & E & _)|[_ [E|E]]]]; try congruence.
  unfold handler_match in E. unfold known_envelope in Hk.
  destruct (byte_eqb id ENVELOPE_ID_ACRASTRUCT); [congruence|]. congruence.
Qed.

(** anything that starts with the container tag carries neither raw signature *)
Lemma container_tag_no_raw_signature h : starts_with sc_tag h = true -> as_validate h = false /\ is_ok (ab_extract h) = false.
Proof.
  intros Hs. destruct h as [|b h]; [discriminate|].
  assert (b = SC_TAG_SYMBOL) as ->.
  { unfold sc_tag, SC_TAG_SIZE in Hs. cbn [repeat_bytes starts_with] in Hs. apply andb_true_iff in Hs as [Hb _].
    apply byte_eqb_eq in Hb. congruence. }
  split.
  - unfold as_validate. destruct (Nat.ltb _ _); [reflexivity|].
    replace (bytes_eqb (firstn AS_TAG_LEN (SC_TAG_SYMBOL :: h)) as_tag) with false; [reflexivity|].
    symmetry. apply bytes_eqb_neq. unfold AS_TAG_LEN, as_tag. cbn [firstn repeat_bytes]. intros E. discriminate E.
  - unfold ab_extract. destruct (Nat.ltb _ _); [reflexivity|].
    replace (bytes_eqb (firstn AB_TAG_SIZE (SC_TAG_SYMBOL :: h)) ab_tag) with false; [reflexivity|].
    symmetry. apply bytes_eqb_neq. unfold AB_TAG_SIZE, ab_tag. cbn [firstn repeat_bytes]. intros E. discriminate E.
Qed.

Lemma container_tag_no_handler_match id h : starts_with sc_tag h = true -> handler_match id h = false.
Proof.
  intros Hs. destruct (container_tag_no_raw_signature h Hs) as [Ha Hb]. unfold handler_match.
  destruct (byte_eqb id ENVELOPE_ID_ACRASTRUCT); assumption.
Qed.

(** ** the chain around the masking encryptor is transparent for a masked column *)
Theorem write_chain_masked C id ks tape st reenc data :
  ms_pattern st <> [] -> write_chain C id ks tape st reenc data = mask_encryptor C id ks tape st data.
Proof.
  intros Hp. unfold write_chain, encrypt_handler_standalone, only_encryption, reencrypt.
  rewrite (is_nil_false _ Hp). cbn [bind negb]. rewrite orb_true_r. apply bind_ok_id.
Qed.

Section Lookalike.
Variable C : crypto.
Hypothesis HC : Correct C.

(** ** a hidden part that is not [looks_protected] IS encrypted: the stored value is the clear window joined with a
    fresh envelope which the owner's keys open to exactly the hidden part (both envelope kinds, any key history) *)
Theorem lookalike_hidden_part_encrypted_asymmetric st ks ks' tape reenc x sb before after :
  validate_masking_params st = true ->
  looks_protected ENVELOPE_ID_ACRASTRUCT (mask_hidden st x) = false ->
  mask_hidden st x <> [] -> (N.of_nat (length (mask_hidden st x)) < MAXMSG)%N -> good_as_tape tape -> length sb = SEED_LEN ->
  ks_pub ks = Some (pub_of C sb) ->
  ks_privs ks' = before ++ priv_of C sb :: after ->
  (forall v, Forall (fun p => exists e, as_decrypt C v p [] = Err e) before) ->
  exists v inner,
    write_chain C ENVELOPE_ID_ACRASTRUCT ks tape st reenc x = Ok (mask_join st (mask_window st x) v) /\
    is_envelope ENVELOPE_ID_ACRASTRUCT inner v /\
    handler_decrypt C ENVELOPE_ID_ACRASTRUCT ks' inner = Ok (mask_hidden st x) /\
    length (mask_hidden st x) < length inner.
Proof.
  intros Hv Hnp Hne Hlen Htape Hsb Hpub Hprivs Hbefore.
  destruct (protects_asymmetric C HC ks ks' tape _ sb before after Hnp Hne Hlen Htape Hsb Hpub Hprivs Hbefore)
    as (v & inner & Henc & He & Hd & Hl).
  exists v, inner. split; [|split; [exact He| split; [exact Hd| exact Hl]]].
  rewrite write_chain_masked by (apply validated_pattern, Hv).
  unfold mask_encryptor. rewrite mask_write by exact Hv. rewrite Henc. reflexivity.
Qed.

Theorem lookalike_hidden_part_encrypted_symmetric st ks ks' tape reenc x key rest before after :
  validate_masking_params st = true ->
  looks_protected ENVELOPE_ID_ACRABLOCK (mask_hidden st x) = false ->
  mask_hidden st x <> [] -> (N.of_nat (length (mask_hidden st x)) < MAXMSG)%N -> good_ab_tape tape -> key <> [] ->
  ks_syms ks = key :: rest ->
  ks_syms ks' = before ++ key :: after ->
  (forall ek, Forall (fun k => bytes_eqb (ab_key_id k []) (ab_key_id key []) = false
                               \/ cell_decrypt C k [] ek = None) before) ->
  exists v inner,
    write_chain C ENVELOPE_ID_ACRABLOCK ks tape st reenc x = Ok (mask_join st (mask_window st x) v) /\
    is_envelope ENVELOPE_ID_ACRABLOCK inner v /\
    handler_decrypt C ENVELOPE_ID_ACRABLOCK ks' inner = Ok (mask_hidden st x) /\
    length (mask_hidden st x) < length inner.
Proof.
  intros Hv Hnp Hne Hlen Htape Hkey Hsyms Hsyms' Hbefore.
  destruct (protects_symmetric C HC ks ks' tape _ key rest before after Hnp Hne Hlen Htape Hkey Hsyms Hsyms' Hbefore)
    as (v & inner & Henc & He & Hd & Hl).
  exists v, inner. split; [|split; [exact He| split; [exact Hd| exact Hl]]].
  rewrite write_chain_masked by (apply validated_pattern, Hv).
  unfold mask_encryptor. rewrite mask_write by exact Hv. rewrite Henc. reflexivity.
Qed.
End Lookalike.

(** the legitimate case of the shortcut: a value the write path recognises is stored as it is *)
Theorem protected_hidden_part_stored_as_is C id ks tape st reenc x :
  validate_masking_params st = true -> looks_protected id (mask_hidden st x) = true ->
  write_chain C id ks tape st reenc x = Ok x.
Proof.
  intros Hv Hp. rewrite write_chain_masked by (apply validated_pattern, Hv).
  unfold mask_encryptor. rewrite mask_write by exact Hv. rewrite (passthrough C id ks tape _ Hp). cbn [bind].
  rewrite mask_split_join. reflexivity.
Qed.
