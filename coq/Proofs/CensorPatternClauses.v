(** Clause-by-clause comparison order of the statement handlers of the pattern matcher.

    The model (Model/CensorPattern.v [struct_spec_named]) lists the comparisons of handle<Kind>Statement in CODE
    order; the %%WHERE%% placeholder ends the comparison ([run_spec], entry [FWhere]) and thereby skips the
    entries that FOLLOW it.  Here:
      - [fields_behind_where]: the fields the early exit skips, read off the code-order table;
      - [after_where] (the per-clause class of the known finding where-placeholder-absorbs-tail, used by
        [instance_of_loose]) is exactly that set, for SELECT / UPDATE / DELETE;
      - every OTHER field of the statement node is reached: a matched statement is an instance of the pattern
        in that field, whatever the WHERE clauses are (in particular RETURNING of UPDATE / DELETE, which the
        code compares BEFORE the WHERE clause). *)
From Coq Require Import List Bool NArith Arith Lia.
From Acra Require Import Lib.Bytes Lib.Outcome Model.CensorPattern Proofs.CensorTree Proofs.CensorPatternSound
  Proofs.CensorPatternWhere.
Import ListNotations.

(** * The fields behind the WHERE comparison in the code-order table *)

Fixpoint fields_behind_where (sp : list (nat * fcmp)) : list nat :=
  match sp with
  | [] => []
  | (_, FWhere) :: tl => map fst tl
  | _ :: tl => fields_behind_where tl
  end.

Definition behind_where (k : kind) (i : nat) : bool :=
  match struct_spec k with
  | Some sp => existsb (Nat.eqb i) (fields_behind_where sp)
  | None => false
  end.

(** the fields in front of (and including) the WHERE comparison, in code order *)
Fixpoint fields_upto_where (sp : list (nat * fcmp)) : list nat :=
  match sp with
  | [] => []
  | (i, FWhere) :: _ => [i]
  | (i, _) :: tl => i :: fields_upto_where tl
  end.

(** * A field that [inst_kids] does not skip is an instance field by field *)

Lemma inst_kids_nth (f : tree -> tree -> bool) (wt : bool) (k : kind) :
  forall ps ss i0 skip,
  inst_kids f wt k i0 ps ss skip = true ->
  forall j, j < length ps ->
  ignorable k (i0 + j) = false ->
  after_where k (i0 + j) = false ->
  opt_nat_is (where_idx k) (i0 + j) && is_where_ph (nth j ps tnil) = false ->
  f (nth j ps tnil) (nth j ss tnil) = true.
Proof.
  induction ps as [|p1 ps IH]; intros ss i0 skip H j Hj Hig Haw Hwp; [cbn in Hj; lia|].
  destruct ss as [|s1 ss]; [discriminate H|].
  cbn [inst_kids] in H.
  destruct j as [|j].
  - rewrite Nat.add_0_r in Hig, Haw, Hwp. cbn [nth] in *.
    rewrite Hig, Haw, andb_false_r in H. cbn [orb] in H. rewrite Hwp in H.
    apply andb_true_iff in H. apply H.
  - assert (Hrest : exists sk, inst_kids f wt k (S i0) ps ss sk = true).
    { destruct (ignorable k i0 || skip && after_where k i0); [eexists; exact H|].
      destruct (opt_nat_is (where_idx k) i0 && is_where_ph p1);
        apply andb_true_iff in H; destruct H as [_ H]; eexists; exact H. }
    destruct Hrest as [sk Hrest]. cbn [nth].
    replace (i0 + S j) with (S i0 + j) in Hig, Haw, Hwp by lia.
    cbn [length] in Hj. apply (IH ss (S i0) sk Hrest j); [lia | assumption..].
Qed.

Lemma inst_kids_length (f : tree -> tree -> bool) (wt : bool) (k : kind) :
  forall ps ss i0 skip, inst_kids f wt k i0 ps ss skip = true -> length ss = length ps.
Proof.
  induction ps as [|p1 ps IH]; intros [|s1 ss] i0 skip H; try discriminate H; [reflexivity|].
  cbn [inst_kids] in H. cbn [length]. f_equal.
  destruct (ignorable k i0 || skip && after_where k i0); [exact (IH _ _ _ H)|].
  destruct (opt_nat_is (where_idx k) i0 && is_where_ph p1);
    apply andb_true_iff in H; destruct H as [_ H]; exact (IH _ _ _ H).
Qed.

(** the five statement kinds with field-wise comparison *)
Definition dml_kind (k : kind) : bool :=
  match k with K_Union | K_Select | K_Insert | K_Update | K_Delete => true | _ => false end.

Definition is_whole_ph (p : tree) : bool :=
  match stmt_ph (tkind p) with Some c => tree_eqb p c | None => false end.

(** field [i] of the statement node is compared whatever %%WHERE%% does *)
Definition reached (k : kind) (i : nat) (p : tree) : bool :=
  negb (ignorable k i) && negb (after_where k i) &&
  negb (opt_nat_is (where_idx k) i && is_where_ph (kid i p)).

Lemma loose_instance_field p s i :
  dml_kind (tkind p) = true -> is_whole_ph p = false ->
  instance_of_loose p s = true ->
  i < length (tkids p) -> reached (tkind p) i p = true ->
  instance_of_loose (kid i p) (kid i s) = true.
Proof.
  destruct p as [pk pl pcs]. unfold instance_of_loose, is_whole_ph, reached, kid. cbn [tkind tkids].
  intros Hk Hw H Hi Hr. rewrite inst_unfold in H.
  apply andb_true_iff in Hr. destruct Hr as [Hr Hwp]. apply andb_true_iff in Hr. destruct Hr as [Hig Haw].
  apply negb_true_iff in Hig, Haw, Hwp.
  assert (Hg : inst_kids (inst true) true pk 0 pcs (tkids s) false = true).
  { destruct pk; try discriminate Hk; cbn beta zeta iota in H; cbn [stmt_ph] in Hw, H; rewrite Hw in H;
      cbn [orb] in H; apply andb_true_iff in H; destruct H as [_ H];
      apply andb_true_iff in H; destruct H as [_ H]; exact H. }
  apply (inst_kids_nth (inst true) true pk pcs (tkids s) 0 false Hg i Hi); assumption.
Qed.

(** every field the %%WHERE%% early exit does not skip is compared: the matched statement is an instance of
    the pattern in that field *)
Lemma matched_field_instance p s i :
  wf p = true -> wf s = true ->
  dml_kind (tkind p) = true -> is_whole_ph p = false ->
  match_impl p s = Ok true ->
  i < length (tkids p) -> reached (tkind p) i p = true ->
  instance_of_loose (kid i p) (kid i s) = true.
Proof.
  intros Hp Hs Hk Hw H Hi Hr.
  apply loose_instance_field; auto. apply match_impl_sound; assumption.
Qed.

(** and in the documented reading when that field of the pattern holds no %%WHERE%% of its own *)
Lemma matched_field_instance_doc p s i :
  wf p = true -> wf s = true ->
  dml_kind (tkind p) = true -> is_whole_ph p = false ->
  match_impl p s = Ok true ->
  i < length (tkids p) -> reached (tkind p) i p = true ->
  no_where_ph (kid i p) = true ->
  instance_of (kid i p) (kid i s) = true.
Proof.
  intros Hp Hs Hk Hw H Hi Hr Hn. unfold instance_of.
  rewrite <- inst_wt_irrelevant by exact Hn. apply (matched_field_instance p s i); assumption.
Qed.

(** * RETURNING of UPDATE / DELETE *)

Definition returning_idx : nat := 7.

Lemma wf_struct_length k l cs :
  wf (T k l cs) = true -> leaf_kind k = false -> list_kind k = false -> kind_is_slice k = false ->
  length cs = length (kind_fields k).
Proof.
  intros H Hl Hli Hs. rewrite wf_unfold, Hl, Hli, Hs in H.
  apply andb_true_iff in H. destruct H as [_ H].
  apply andb_true_iff in H. destruct H as [H _].
  apply andb_true_iff in H. destruct H as [H _].
  apply andb_true_iff in H. destruct H as [_ H].
  apply Nat.eqb_eq in H. exact H.
Qed.

Lemma update_delete_returning p s :
  wf p = true -> wf s = true ->
  tkind p = K_Update \/ tkind p = K_Delete ->
  is_whole_ph p = false ->
  match_impl p s = Ok true ->
  instance_of_loose (kid returning_idx p) (kid returning_idx s) = true.
Proof.
  intros Hp Hs Hk Hw H. destruct p as [pk pl pcs]. cbn [tkind] in Hk.
  assert (Hlen : length pcs = 8).
  { destruct Hk as [-> | ->]; apply (wf_struct_length _ _ _ Hp); reflexivity. }
  apply (matched_field_instance (T pk pl pcs) s returning_idx); auto.
  - cbn [tkind]. destruct Hk as [-> | ->]; reflexivity.
  - cbn [tkids]. rewrite Hlen. unfold returning_idx. lia.
  - cbn [tkind]. unfold reached, returning_idx. destruct Hk as [-> | ->]; reflexivity.
Qed.

(** a pattern WITHOUT a RETURNING clause matches only statements without one *)
Lemma update_delete_no_returning p s :
  wf p = true -> wf s = true ->
  tkind p = K_Update \/ tkind p = K_Delete ->
  is_whole_ph p = false ->
  is_nil (kid returning_idx p) = true ->
  match_impl p s = Ok true ->
  is_nil (kid returning_idx s) || (slice_kind (tkind (kid returning_idx s)) && (length (tkids (kid returning_idx s)) =? 0)) = true.
Proof.
  intros Hp Hs Hk Hw Hn H.
  pose proof (update_delete_returning p s Hp Hs Hk Hw H) as Hi.
  assert (Hwfk : wf (kid returning_idx p) = true).
  { destruct p as [pk pl pcs]. unfold kid. cbn [tkids]. apply forallb_nth. exact (wf_kids _ _ _ Hp). }
  apply wf_nil in Hn; [|exact Hwfk]. rewrite Hn in Hi. unfold instance_of_loose in Hi. rewrite inst_tnil in Hi. exact Hi.
Qed.
