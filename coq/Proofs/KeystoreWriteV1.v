(** Proofs about the keystore v1 write operations under faults (C08_v1). *)
From Coq Require Import ZifyN ZifyNat ZifyBool.
From Acra Require Import Lib.Bytes Lib.Outcome Model.KeystoreWrite Model.KeystoreWriteV1.
Local Open Scope N_scope.

(** * Storage algebra (same statements as in Proofs/KeystoreWrite.v, kept local) *)
Lemma k1_fname_eqb_eq a b : fname_eqb a b = true <-> a = b.
Proof.
  destruct a, b; cbn; split; intro H; try discriminate; try congruence;
    try (apply N.eqb_eq in H; congruence);
    try (apply andb_true_iff in H as [H1 H2]; apply N.eqb_eq in H1; apply N.eqb_eq in H2; congruence);
    try (inversion H; subst; rewrite ?N.eqb_refl; reflexivity).
Qed.

Lemma k1_fname_eqb_refl a : fname_eqb a a = true.
Proof. apply k1_fname_eqb_eq. reflexivity. Qed.

Lemma k1_fname_eqb_neq a b : a <> b -> fname_eqb a b = false.
Proof.
  intro H. destruct (fname_eqb a b) eqn:E; [|reflexivity].
  apply k1_fname_eqb_eq in E. contradiction.
Qed.

Lemma k1_fname_eqb_sym a b : fname_eqb a b = fname_eqb b a.
Proof.
  destruct (fname_eqb a b) eqn:E1, (fname_eqb b a) eqn:E2; try reflexivity.
  - apply k1_fname_eqb_eq in E1. subst. rewrite k1_fname_eqb_refl in E2. discriminate.
  - apply k1_fname_eqb_eq in E2. subst. rewrite k1_fname_eqb_refl in E1. discriminate.
Qed.

Lemma k1_lookup_remove n m st :
  lookup n (remove m st) = if fname_eqb n m then None else lookup n st.
Proof.
  induction st as [|[x c] st IH]; cbn [remove lookup].
  - destruct (fname_eqb n m); reflexivity.
  - destruct (fname_eqb m x) eqn:Emx.
    + rewrite IH. apply k1_fname_eqb_eq in Emx. subst x.
      destruct (fname_eqb n m); reflexivity.
    + cbn [lookup]. rewrite IH.
      destruct (fname_eqb n x) eqn:Enx; [|reflexivity].
      apply k1_fname_eqb_eq in Enx. subst x.
      rewrite k1_fname_eqb_sym in Emx. rewrite Emx. reflexivity.
Qed.

Lemma k1_lookup_put n m c st :
  lookup n (put m c st) = if fname_eqb n m then Some c else lookup n st.
Proof.
  unfold put. cbn [lookup]. rewrite k1_lookup_remove.
  destruct (fname_eqb n m); reflexivity.
Qed.

(** * The interpreter is [exec] on the programs of Model/KeystoreWrite.v *)
Theorem vexec_inj {A} links (p : prog A) :
  forall f st k, vexec links (inj p) f st k = exec p f st k.
Proof.
  induction p as [a|c cont IH]; intros f st k; cbn [inj vexec exec v_do_call v_torn_call].
  - reflexivity.
  - destruct f as [[kf kind]|].
    + destruct (Nat.eqb k kf).
      * destruct kind; try reflexivity; apply IH.
      * apply IH.
    + apply IH.
Qed.

Lemma vexec_vbind {A B} links (p : vprog A) (g : A -> vprog B) :
  forall f st k,
    vexec links (vbind p g) f st k =
    match vexec links p f st k with
    | Ret a st' k' => vexec links (g a) f st' k'
    | Crash st' => Crash st'
    end.
Proof.
  induction p as [a|c cont IH]; intros f st k; cbn [vbind vexec].
  - reflexivity.
  - destruct f as [[kf kind]|].
    + destruct (Nat.eqb k kf).
      * destruct kind; try reflexivity; apply IH.
      * apply IH.
    + apply IH.
Qed.

(** * Faults: an invariant kept by every call of a program under at most ONE fault.
      [b]: the fault has not happened yet; [t]: cut writes (KTorn, KErrTorn) are among the faults *)
Fixpoint vsafe {A} (links b t : bool) (I : storage -> Prop) (Q : A -> storage -> Prop)
         (p : vprog A) (st : storage) : Prop :=
  match p with
  | VDone a => Q a st
  | VCall c k =>
      I (snd (v_do_call links c st)) /\
      vsafe links b t I Q (k (fst (v_do_call links c st))) (snd (v_do_call links c st)) /\
      (b = true -> vsafe links false t I Q (k (Err E_IO)) st) /\
      (b = true -> t = true ->
       I (v_torn_call c st) /\ vsafe links false t I Q (k (Err E_IO)) (v_torn_call c st))
  end.

Definition torn_kind (kd : fkind) : bool :=
  match kd with KTorn | KErrTorn => true | _ => false end.

(** the faults considered: every kind at every call; cut writes only if [t] *)
Definition fault_ok (t : bool) (f : fault) : Prop :=
  match f with Some (_, kd) => torn_kind kd = true -> t = true | None => True end.

Definition past (f : fault) (k : nat) : Prop :=
  match f with Some (kf, _) => (kf < k)%nat | None => True end.

Lemma vexec_vsafe {A} links t (I : storage -> Prop) (Q : A -> storage -> Prop) (p : vprog A) :
  forall b f st k, fault_ok t f -> I st -> vsafe links b t I Q p st -> (b = false -> past f k) ->
    match vexec links p f st k with
    | Ret a st' _ => I st' /\ Q a st'
    | Crash st' => I st'
    end.
Proof.
  induction p as [a|c cont IH]; intros b f st k Hf HI Hs Hp; cbn [vexec].
  - split; assumption.
  - cbn [vsafe] in Hs. destruct Hs as (H1 & H2 & H3 & H4).
    destruct f as [[kf kind]|].
    + destruct (Nat.eqb k kf) eqn:E.
      * apply Nat.eqb_eq in E. subst kf.
        destruct b; [|exfalso; specialize (Hp eq_refl); cbn in Hp; lia].
        assert (Hpast : false = false -> past (Some (k, kind)) (S k)) by (intros _; cbn; lia).
        destruct kind; cbn [fault_ok torn_kind] in Hf.
        -- apply (IH _ false); auto.
        -- exact HI.
        -- exact H1.
        -- destruct (H4 eq_refl (Hf eq_refl)) as [Ht _]. exact Ht.
        -- destruct (H4 eq_refl (Hf eq_refl)) as [Ht Hs']. apply (IH _ false); auto.
      * apply Nat.eqb_neq in E. apply (IH _ b); auto.
        intros Hb. specialize (Hp Hb). cbn in *. lia.
    + apply (IH _ b); auto.
Qed.

Lemma vsafe_spend {A} links t I (Q : A -> storage -> Prop) (p : vprog A) :
  forall b st, vsafe links b t I Q p st -> vsafe links false t I Q p st.
Proof.
  induction p as [a|c cont IH]; intros b st Hs; cbn [vsafe] in *.
  - exact Hs.
  - destruct Hs as (H1 & H2 & H3 & H4). repeat split; try discriminate; eauto.
Qed.

Lemma vsafe_bind {A B} links t (I : storage -> Prop) (Q : A -> storage -> Prop) (Q' : B -> storage -> Prop)
      (p : vprog A) (g : A -> vprog B) :
  forall b st,
    I st -> vsafe links b t I Q p st ->
    (forall a st', I st' -> Q a st' -> vsafe links b t I Q' (g a) st') ->
    vsafe links b t I Q' (vbind p g) st.
Proof.
  induction p as [a|c cont IH]; intros b st HI Hp Hg; cbn [vbind vsafe].
  - apply Hg; assumption.
  - cbn [vsafe] in Hp. destruct Hp as (H1 & H2 & H3 & H4).
    split; [exact H1|]. split; [apply IH; assumption|]. split.
    + intro Hb. apply IH; [exact HI|auto|].
      intros a st' HI' HQ. eapply vsafe_spend. apply Hg; eassumption.
    + intros Hb Ht. destruct (H4 Hb Ht) as [Ha Hb']. split; [exact Ha|].
      apply IH; [exact Ha|exact Hb'|].
      intros a st' HI' HQ. eapply vsafe_spend. apply Hg; eassumption.
Qed.

Lemma vsafe_post_inv {A} links t (I : storage -> Prop) (Q : A -> storage -> Prop) (p : vprog A) :
  forall b st, I st -> vsafe links b t I Q p st -> vsafe links b t I (fun a st' => I st' /\ Q a st') p st.
Proof.
  induction p as [a|c cont IH]; intros b st HI Hp; cbn [vsafe] in *.
  - split; assumption.
  - destruct Hp as (H1 & H2 & H3 & H4). split; [exact H1|]. split; [auto|]. split.
    + intro Hb. auto.
    + intros Hb Ht. destruct (H4 Hb Ht) as [Ha Hb']. split; auto.
Qed.

Lemma vsafe_weaken {A} links t (I I' : storage -> Prop) (Q Q' : A -> storage -> Prop) (p : vprog A) :
  (forall st, I st -> I' st) ->
  forall b st, (forall a st', Q a st' -> Q' a st') -> vsafe links b t I Q p st -> vsafe links b t I' Q' p st.
Proof.
  intro HI. induction p as [a|c cont IH]; intros b st HQ Hp; cbn [vsafe] in *.
  - apply HQ. exact Hp.
  - destruct Hp as (H1 & H2 & H3 & H4). split; [auto|]. split; [auto|]. split.
    + intro Hb. auto.
    + intros Hb Ht. destruct (H4 Hb Ht). split; auto.
Qed.

(** * Symbolic execution of a program on a storage given by its lookups *)
Ltac k1_lk :=
  repeat (rewrite ?k1_lookup_put, ?k1_lookup_remove in *; cbn [fname_eqb andb negb] in *;
          rewrite ?N.eqb_refl in *;
          repeat match goal with H : N.eqb ?a ?b = false |- context [N.eqb ?a ?b] => rewrite H end;
          cbn [andb] in *).

Ltac k1_known :=
  repeat match goal with
         | H : lookup ?n ?s = _ |- context [lookup ?n ?s] => rewrite H
         end.

Ltac k1_red :=
  cbn [vsafe vbind vc v_do_call v_torn_call do_call torn_call fst snd is_not_exist unit_of tear
       VTempFile VWriteFile VStat VCopy VRename VRemove VReadDir N.eqb Pos.eqb
       E_NOTEXIST E_IO E_EXIST E_NOTSUP E_GENERIC].

Ltac k1_sym leaf :=
  k1_red; k1_lk; k1_known; k1_red;
  lazymatch goal with
  | |- _ /\ _ => split; k1_sym leaf
  | |- _ = true -> _ => intro; k1_sym leaf
  | |- context [match lookup ?n ?s with _ => _ end] =>
      let E := fresh "E" in destruct (lookup n s) eqn:E; k1_sym leaf
  | |- context [match nth_error ?l ?i with _ => _ end] =>
      let E := fresh "E" in destruct (nth_error l i) eqn:E; k1_sym leaf
  | |- context [if ?b then _ else _] =>
      match b with
      | context [lookup] => fail
      | _ => let E := fresh "E" in destruct b eqn:E; k1_sym leaf
      end
  | |- _ => leaf
  end.

(** * WriteKeyFile under every fault *)
Section WKF.
Variables (k ord rnd ts : N).
Definition new_c : content := CKey ord true.

(** what a (possibly interrupted) WriteKeyFile may have done to the storage it started from:
    only the key file, ONE new entry of its history directory and its temporary file are touched;
    the new history entry is the previous version of the key file; the key file is the previous
    version or completely the new one, and in that case the previous version is in the history *)
Definition Rw (st0 st : storage) : Prop :=
  (forall n, n <> FKey k -> n <> FOld k ts -> n <> FTmp k rnd -> lookup n st = lookup n st0) /\
  (lookup (FOld k ts) st = lookup (FOld k ts) st0 \/
   (lookup (FOld k ts) st0 = None /\ lookup (FKey k) st0 <> None /\
    lookup (FOld k ts) st = lookup (FKey k) st0)) /\
  (lookup (FKey k) st = lookup (FKey k) st0 \/
   (lookup (FKey k) st = Some new_c /\
    (lookup (FKey k) st0 = None \/
     (lookup (FOld k ts) st0 = None /\ lookup (FOld k ts) st = lookup (FKey k) st0)))).

(** nil <-> the new key is installed; error <-> the previous one is still there *)
Definition Qw (st0 : storage) (r : res unit) (st : storage) : Prop :=
  match r with
  | Ok _ => lookup (FKey k) st = Some new_c
  | _ => lookup (FKey k) st = lookup (FKey k) st0
  end.

Ltac leafw :=
  unfold Rw, Qw; k1_lk;
  repeat match goal with
         | |- _ /\ _ => split
         | |- forall _, _ => intro
         end;
  k1_lk;
  repeat match goal with
         | H : ?n <> ?m |- context [fname_eqb ?n ?m] => rewrite (k1_fname_eqb_neq n m H)
         end;
  try solve [ reflexivity | assumption | congruence | intuition congruence ].

Lemma write_key_file_safe links t st0 :
  (links = true \/ t = false) ->
  vsafe links true t (Rw st0) (Qw st0) (k1_write_key_file k ord rnd ts) st0.
Proof.
  intros Hlt. unfold k1_write_key_file, k1_replace, k1_backup.
  k1_sym leafw.
Qed.

Lemma Rw_refl st : Rw st st.
Proof. unfold Rw. repeat split; auto. Qed.
End WKF.

(** * Well-formed v1 storage *)
Definition key_ok (c : content) : Prop := exists o, c = CKey o true /\ o <> 0.

(** every key file and every rotated version is complete key material (it decrypts); temporary
    files are unconstrained; there are no keystore v2 files *)
Definition k1_wf (st : storage) : Prop :=
  (forall k c, lookup (FKey k) st = Some c -> key_ok c) /\
  (forall k ts c, lookup (FOld k ts) st = Some c -> key_ok c) /\
  (forall r, lookup (FRing r) st = None /\ lookup (FRingNew r) st = None).

Lemma Rw_wf k ord rnd ts st0 st : ord <> 0 -> k1_wf st0 -> Rw k ord rnd ts st0 st -> k1_wf st.
Proof.
  intros Ho (W1 & W2 & W3) (Hf & Ho' & Hk). split; [|split].
  - intros k' c Hl. destruct (N.eq_dec k' k) as [->|Hne].
    + destruct Hk as [Hk|[Hk _]]; rewrite Hk in Hl.
      * eapply W1; eauto.
      * inversion Hl; subst. exists ord. split; [reflexivity|assumption].
    + rewrite Hf in Hl by congruence. eapply W1; eauto.
  - intros k' ts' c Hl.
    destruct (N.eq_dec k' k) as [->|Hne]; [destruct (N.eq_dec ts' ts) as [->|Hne]|].
    + destruct Ho' as [Ho'|(_ & _ & Ho')]; rewrite Ho' in Hl.
      * eapply W2; eauto.
      * eapply W1; eauto.
    + rewrite Hf in Hl by congruence. eapply W2; eauto.
    + rewrite Hf in Hl by congruence. eapply W2; eauto.
  - intro r. destruct (W3 r) as [A B]. split; rewrite Hf by congruence; assumption.
Qed.

Lemma Rw_olds_kept k ord rnd ts st0 st :
  Rw k ord rnd ts st0 st ->
  forall k' ts' c, lookup (FOld k' ts') st0 = Some c -> lookup (FOld k' ts') st = Some c.
Proof.
  intros (Hf & Ho' & Hk) k' ts' c Hl.
  destruct (N.eq_dec k' k) as [->|Hne]; [destruct (N.eq_dec ts' ts) as [->|Hne]|].
  - destruct Ho' as [Ho'|(Hn & _)]; congruence.
  - rewrite Hf by congruence. exact Hl.
  - rewrite Hf by congruence. exact Hl.
Qed.

(** the faults considered: on a storage with hard links every kind at every call; without
    hard links (the history copy is made by Copy) every kind except the cut writes *)
Definition faults_ok (links : bool) (f : fault) : Prop := links = true \/ fault_ok false f.

Lemma faults_ok_t links f : faults_ok links f -> exists t, (links = true \/ t = false) /\ fault_ok t f.
Proof.
  intros [H|H].
  - exists true. split; [left; exact H|]. destruct f as [[? ?]|]; cbn; auto.
  - exists false. split; [right; reflexivity|exact H].
Qed.

Lemma write_key_file_exec links st k ord rnd ts f :
  faults_ok links f ->
  match vexec links (k1_write_key_file k ord rnd ts) f st 0 with
  | Ret r st' _ => Rw k ord rnd ts st st' /\ Qw k ord st r st'
  | Crash st' => Rw k ord rnd ts st st'
  end.
Proof.
  intros Hf. destruct (faults_ok_t _ _ Hf) as (t & Hlt & Hft).
  apply (vexec_vsafe links t _ _ _ true); [exact Hft|apply Rw_refl|apply write_key_file_safe; exact Hlt|discriminate].
Qed.

Lemma vsafe_mkdir {A} links b t (I : storage -> Prop) (Q : A -> storage -> Prop) (g : res bval -> vprog A) st :
  I st -> vsafe links b t I Q (g (Ok VUnit)) st -> vsafe links false t I Q (g (Err E_IO)) st ->
  vsafe links b t I Q (vbind (vc VMkdirAll) g) st.
Proof. intros. cbn [vbind vc vsafe v_do_call v_torn_call fst snd]. repeat split; auto. Qed.

(** * SaveKeyPairWithFilename *)
Section PAIR.
Variables (a b o1 o2 r1 r2 t1 t2 : N).
Hypothesis Hab : a <> b.

(** either only the private half has been worked on, or the private half is completely
    written and the public half is being worked on *)
Definition Rp (st0 st : storage) : Prop :=
  Rw a o1 r1 t1 st0 st \/
  exists st1, Rw a o1 r1 t1 st0 st1 /\ lookup (FKey a) st1 = Some (new_c o1) /\ Rw b o2 r2 t2 st1 st.

Definition Qp (r : res unit) (st : storage) : Prop :=
  match r with
  | Ok _ => lookup (FKey a) st = Some (new_c o1) /\ lookup (FKey b) st = Some (new_c o2)
  | _ => True
  end.

Lemma save_key_pair_safe links t st0 :
  (links = true \/ t = false) ->
  vsafe links true t (Rp st0) Qp (k1_save_key_pair a b o1 o2 r1 r2 t1 t2) st0.
Proof.
  intros Hlt. unfold k1_save_key_pair.
  assert (HI : Rp st0 st0) by (left; apply Rw_refl).
  apply vsafe_mkdir; [exact HI| |exact I]. cbv beta iota.
  apply vsafe_mkdir; [exact HI| |exact I]. cbv beta iota.
  apply vsafe_bind with (Q := fun r st => Rw a o1 r1 t1 st0 st /\ Qw a o1 st0 r st); [exact HI| |].
  - eapply vsafe_weaken; [| |apply vsafe_post_inv; [apply Rw_refl|apply write_key_file_safe; exact Hlt]].
    + intros st H. left. exact H.
    + intros r st' H. exact H.
  - intros r st1 _ [HR HQ]. destruct r as [[]|e|]; cbn [Qp vsafe]; auto.
    cbn [Qw] in HQ.
    eapply vsafe_weaken; [| |apply vsafe_post_inv; [apply Rw_refl|apply (write_key_file_safe b o2 r2 t2 links t st1); exact Hlt]].
    + intros st H. right. exists st1. auto.
    + intros r st' [HR' HQ']. destruct r as [[]|e|]; cbn [Qp Qw] in *; auto.
      split; [|exact HQ'].
      destruct HR' as (Hf' & _). rewrite Hf' by congruence. exact HQ.
Qed.

Lemma Rp_wf st0 st : o1 <> 0 -> o2 <> 0 -> k1_wf st0 -> Rp st0 st -> k1_wf st.
Proof.
  intros H1 H2 Hw [HR|(st1 & HR1 & _ & HR2)].
  - eapply Rw_wf; [exact H1|exact Hw|exact HR].
  - eapply Rw_wf; [exact H2| |exact HR2]. eapply Rw_wf; [exact H1|exact Hw|exact HR1].
Qed.

(** what the order "private, then public" guarantees: the PUBLIC key file is never ahead *)
Lemma Rp_facts st0 st :
  Rp st0 st ->
  (forall n, n <> FKey a -> n <> FOld a t1 -> n <> FTmp a r1 ->
             n <> FKey b -> n <> FOld b t2 -> n <> FTmp b r2 -> lookup n st = lookup n st0) /\
  (lookup (FKey a) st = lookup (FKey a) st0 \/ lookup (FKey a) st = Some (new_c o1)) /\
  (lookup (FKey b) st = lookup (FKey b) st0 \/
   (lookup (FKey b) st = Some (new_c o2) /\ lookup (FKey a) st = Some (new_c o1))) /\
  (forall k' ts' c, lookup (FOld k' ts') st0 = Some c -> lookup (FOld k' ts') st = Some c).
Proof.
  intros [HR|(st1 & HR1 & Ha & HR2)].
  - pose proof (Rw_olds_kept _ _ _ _ _ _ HR) as Hold.
    destruct HR as (Hf & Ho & Hk). split; [|split; [|split]].
    + intros n H1 H2 H3 _ _ _. apply Hf; assumption.
    + destruct Hk as [Hk|[Hk _]]; auto.
    + left. apply Hf; congruence.
    + exact Hold.
  - pose proof (Rw_olds_kept _ _ _ _ _ _ HR1) as Hold1.
    pose proof (Rw_olds_kept _ _ _ _ _ _ HR2) as Hold2.
    destruct HR1 as (Hf1 & Ho1 & Hk1). destruct HR2 as (Hf2 & Ho2 & Hk2).
    split; [|split; [|split]].
    + intros n H1 H2 H3 H4 H5 H6. rewrite Hf2 by assumption. apply Hf1; assumption.
    + right. rewrite Hf2 by congruence. exact Ha.
    + destruct Hk2 as [Hk2|[Hk2 _]].
      * left. rewrite Hk2. apply Hf1; congruence.
      * right. split; [exact Hk2|]. rewrite Hf2 by congruence. exact Ha.
    + intros k' ts' c Hl. apply Hold2. apply Hold1. exact Hl.
Qed.
End PAIR.

(** * The destroy operations only remove, and only the files they name *)
Definition Rrem (P : fname -> Prop) (st0 st : storage) : Prop :=
  forall n, lookup n st = lookup n st0 \/ (lookup n st = None /\ P n).

Lemma Rrem_refl P st : Rrem P st st.
Proof. intro n. left. reflexivity. Qed.

Lemma Rrem_trans P P' a b c :
  Rrem P a b -> Rrem P' b c -> Rrem (fun n => P n \/ P' n) a c.
Proof.
  intros H1 H2 n. destruct (H2 n) as [E|[E Hp]].
  - destruct (H1 n) as [E1|[E1 Hp1]].
    + left. congruence.
    + right. split; [congruence|left; exact Hp1].
  - right. split; [exact E|right; exact Hp].
Qed.

Lemma Rrem_weaken (P P' : fname -> Prop) a b : (forall n, P n -> P' n) -> Rrem P a b -> Rrem P' a b.
Proof. intros HP H n. destruct (H n) as [E|[E Hp]]; [left|right]; auto. Qed.

Lemma Rrem_wf P st0 st : k1_wf st0 -> Rrem P st0 st -> k1_wf st.
Proof.
  intros (W1 & W2 & W3) H. split; [|split].
  - intros k c Hl. destruct (H (FKey k)) as [E|[E _]]; rewrite E in Hl; [eauto|discriminate].
  - intros k ts c Hl. destruct (H (FOld k ts)) as [E|[E _]]; rewrite E in Hl; [eauto|discriminate].
  - intro r. destruct (W3 r) as [A B].
    split; [destruct (H (FRing r)) as [E|[E _]]|destruct (H (FRingNew r)) as [E|[E _]]]; congruence.
Qed.

Ltac rrem_leaf :=
  repeat match goal with |- _ /\ _ => split end;
  try (let n := fresh "n" in intro n);
  k1_lk;
  repeat match goal with
         | |- context [fname_eqb ?n ?m] =>
             is_var n; let E := fresh "E" in
             destruct (fname_eqb n m) eqn:E; [apply k1_fname_eqb_eq in E; subst n|]
         end;
  k1_lk; k1_known;
  solve [ auto | tauto | intuition congruence ].

Section DPAIR.
Variables a b : N.
Hypothesis Hab : a <> b.

(** private first: the public key file is only touched once the private one is gone *)
Definition Rd (st0 st : storage) : Prop :=
  Rrem (fun n => n = FKey a \/ n = FKey b) st0 st /\
  (lookup (FKey b) st = lookup (FKey b) st0 \/ lookup (FKey a) st = None).

Definition Qd (r : res unit) (st : storage) : Prop :=
  match r with Ok _ => lookup (FKey a) st = None /\ lookup (FKey b) st = None | _ => True end.

Lemma destroy_pair_safe links t st0 :
  vsafe links true t (Rd st0) Qd (k1_destroy_pair a b) st0.
Proof.
  assert (Hab1 : N.eqb a b = false) by (apply N.eqb_neq; exact Hab).
  assert (Hba : N.eqb b a = false) by (apply N.eqb_neq; congruence).
  unfold k1_destroy_pair, k1_remove_if_exists.
  k1_sym ltac:(unfold Rd, Qd, Rrem; rrem_leaf).
Qed.
End DPAIR.

Definition Qs (k : N) (r : res unit) (st : storage) : Prop :=
  match r with Ok _ => lookup (FKey k) st = None | _ => True end.

Lemma destroy_sym_safe k links t st0 :
  vsafe links true t (Rrem (fun n => n = FKey k) st0) (Qs k) (k1_destroy_sym k) st0.
Proof.
  unfold k1_destroy_sym, k1_remove_if_exists.
  k1_sym ltac:(unfold Qs, Rrem; rrem_leaf).
Qed.

Section DROT.
Variables (k : N) (idx : Z).

(** at most ONE rotated version of this key disappears *)
Definition Rr (st0 st : storage) : Prop := exists ts0, Rrem (fun n => n = FOld k ts0) st0 st.
Definition Qr (r : res unit) (st : storage) : Prop := r <> Panic.

Ltac leafr :=
  unfold Rr, Qr;
  first
    [ solve [ discriminate | congruence ]
    | match goal with E : nth_error _ _ = Some ?x |- _ => exists x end; unfold Rrem; rrem_leaf
    | exists 0; unfold Rrem; rrem_leaf
    | match goal with
      | E0 : (_ || _ || _)%bool = false, E1 : nth_error _ _ = None |- _ =>
          intros _; apply nth_error_None in E1; rewrite !orb_false_iff in E0;
          destruct E0 as [[A B] C]; apply Z.eqb_neq in A; apply Z.ltb_ge in B;
          rewrite Z.gtb_ltb in C; apply Z.ltb_ge in C; lia
      end ].

Lemma destroy_rotated_safe links t st0 :
  vsafe links true t (Rr st0) Qr (k1_destroy_rotated k idx) st0.
Proof.
  unfold k1_destroy_rotated, k1_remove_if_exists.
  k1_sym leafr.
Qed.
End DROT.

Lemma Rr_refl k st : Rr k st st.
Proof. exists 0. apply Rrem_refl. Qed.

Definition Rrp (a b : N) (st0 st : storage) : Prop :=
  Rrem (fun n => exists ts, n = FOld a ts \/ n = FOld b ts) st0 st.

Lemma Rr_Rrp_l a b st0 st : Rr a st0 st -> Rrp a b st0 st.
Proof. intros [ts0 H]. eapply Rrem_weaken; [|exact H]. intros n ->. exists ts0. left. reflexivity. Qed.

Lemma destroy_rotated_pair_safe a b idx links t st0 :
  vsafe links true t (Rrp a b st0) Qr (k1_destroy_rotated_pair a b idx) st0.
Proof.
  unfold k1_destroy_rotated_pair.
  apply vsafe_bind with (Q := fun r st => Rr a st0 st /\ Qr r st).
  - apply Rrem_refl.
  - eapply vsafe_weaken; [| |apply vsafe_post_inv; [apply Rr_refl|apply destroy_rotated_safe]].
    + intros st H. apply Rr_Rrp_l. exact H.
    + intros r st' H. exact H.
  - intros r st1 _ [[ts1 H1] HQ]. destruct r as [[]|e|]; cbn [vsafe]; unfold Qr in *; try congruence.
    eapply vsafe_weaken; [| |apply (destroy_rotated_safe b idx links t st1)].
    + intros st [ts2 H2]. unfold Rrp. eapply Rrem_weaken; [|eapply Rrem_trans; [exact H1|exact H2]].
      intros n [->| ->]; [exists ts1; left|exists ts2; right]; reflexivity.
    + intros r st' H. exact H.
Qed.

(** * All v1 write operations *)
Definition op_pre (o : v1op) : Prop :=
  match o with
  | V1Write _ ord _ _ => ord <> 0
  | V1SavePair a b o1 o2 _ _ _ _ => a <> b /\ o1 <> 0 /\ o2 <> 0
  | V1DestroyPair a b => a <> b
  | _ => True
  end.

(** the storage at ANY point of a (faulted) execution of the operation, relative to the storage it
    started from *)
Definition op_rel (o : v1op) (st0 st : storage) : Prop :=
  match o with
  | V1Write k ord rnd ts => Rw k ord rnd ts st0 st
  | V1SavePair a b o1 o2 r1 r2 t1 t2 => Rp a b o1 o2 r1 r2 t1 t2 st0 st
  | V1DestroyPair a b => Rd a b st0 st
  | V1DestroySym k => Rrem (fun n => n = FKey k) st0 st
  | V1DestroyRotated k _ => Rr k st0 st
  | V1DestroyRotatedPair a b _ => Rrp a b st0 st
  end.

(** what the returned value tells *)
Definition op_post (o : v1op) (st0 : storage) (r : res unit) (st : storage) : Prop :=
  match o with
  | V1Write k ord _ _ => Qw k ord st0 r st
  | V1SavePair a b o1 o2 _ _ _ _ => Qp a b o1 o2 r st
  | V1DestroyPair a b => Qd a b r st
  | V1DestroySym k => Qs k r st
  | V1DestroyRotated _ _ | V1DestroyRotatedPair _ _ _ => r <> Panic
  end.

Theorem v1_op_result links st o f :
  op_pre o -> faults_ok links f ->
  match vexec links (v1_prog o) f st 0 with
  | Ret r st' _ => op_rel o st st' /\ op_post o st r st'
  | Crash st' => op_rel o st st'
  end.
Proof.
  intros Hpre Hf. destruct (faults_ok_t _ _ Hf) as (t & Hlt & Hft).
  destruct o; cbn [v1_prog op_rel op_post op_pre] in *.
  - apply (vexec_vsafe links t _ _ _ true); [exact Hft|apply Rw_refl|apply write_key_file_safe; exact Hlt|discriminate].
  - destruct Hpre as (Hab & _).
    apply (vexec_vsafe links t _ _ _ true); [exact Hft|left; apply Rw_refl|apply save_key_pair_safe; assumption|discriminate].
  - apply (vexec_vsafe links t _ _ _ true); [exact Hft|split; [apply Rrem_refl|left; reflexivity]|apply destroy_pair_safe; exact Hpre|discriminate].
  - apply (vexec_vsafe links t _ _ _ true); [exact Hft|apply Rrem_refl|apply destroy_sym_safe|discriminate].
  - apply (vexec_vsafe links t _ _ _ true); [exact Hft|apply Rr_refl|apply destroy_rotated_safe|discriminate].
  - apply (vexec_vsafe links t _ _ _ true); [exact Hft|apply Rrem_refl|apply destroy_rotated_pair_safe|discriminate].
Qed.

Theorem v1_op_safe links st o f :
  op_pre o -> faults_ok links f -> op_rel o st (v1_after links st o f).
Proof.
  intros Hpre Hf. pose proof (v1_op_result links st o f Hpre Hf) as H.
  unfold v1_after. destruct (vexec links (v1_prog o) f st 0); cbn [vafter]; tauto.
Qed.

Theorem op_rel_wf o st0 st : op_pre o -> k1_wf st0 -> op_rel o st0 st -> k1_wf st.
Proof.
  intros Hpre Hw H. destruct o; cbn [op_rel op_pre] in *.
  - eapply Rw_wf; [exact Hpre|exact Hw|exact H].
  - destruct Hpre as (_ & H1 & H2). eapply Rp_wf; [exact H1|exact H2|exact Hw|exact H].
  - destruct H as [H _]. eapply Rrem_wf; [exact Hw|exact H].
  - eapply Rrem_wf; [exact Hw|exact H].
  - destruct H as [ts0 H]. eapply Rrem_wf; [exact Hw|exact H].
  - eapply Rrem_wf; [exact Hw|exact H].
Qed.

(** * Histories *)
Inductive reachable (links : bool) : storage -> Prop :=
| reach_nil : reachable links []
| reach_step st o f :
    reachable links st -> op_pre o -> faults_ok links f -> reachable links (v1_after links st o f).

Lemma k1_wf_nil : k1_wf [].
Proof. split; [|split]; intros; try discriminate. split; reflexivity. Qed.

Theorem reachable_wf links st : reachable links st -> k1_wf st.
Proof.
  induction 1 as [|st o f Hr IH Hpre Hf].
  - apply k1_wf_nil.
  - eapply op_rel_wf; [exact Hpre|exact IH|apply v1_op_safe; assumption].
Qed.

(** * A well-formed storage is accepted: listing, readers, cache warm-up, the next write *)
Lemma k1_in_names_lookup n st : In n (names st) -> exists c, lookup n st = Some c.
Proof.
  induction st as [|[m c] st IH]; cbn [names map fst In lookup]; [tauto|].
  intros [->|H].
  - rewrite k1_fname_eqb_refl. eauto.
  - destruct (fname_eqb n m); eauto.
Qed.

Lemma in_insert_u x y l : In y (insert_u x l) <-> y = x \/ In y l.
Proof.
  induction l as [|a l IH]; cbn [insert_u In].
  - intuition.
  - destruct (N.ltb x a); cbn [In]; [intuition|].
    destruct (N.eqb x a) eqn:E; cbn [In].
    + apply N.eqb_eq in E. subst. intuition.
    + rewrite IH. intuition.
Qed.

Lemma in_sort_u y l : In y (sort_u l) <-> In y l.
Proof.
  induction l as [|a l IH]; cbn [sort_u fold_right In]; [tauto|].
  fold (sort_u l). rewrite in_insert_u, IH. intuition.
Qed.

Lemma in_old_names k ts l : In ts (old_names k l) -> In (FOld k ts) l.
Proof.
  induction l as [|x l IH]; cbn [old_names In]; [tauto|].
  destruct x; try (intro H; right; apply IH; exact H).
  destruct (N.eqb k k0) eqn:E.
  - apply N.eqb_eq in E. subst. cbn [In]. intros [->|H]; [left; reflexivity|right; apply IH; exact H].
  - intro H. right. apply IH. exact H.
Qed.

Lemma in_key_names k l : In k (key_names l) -> In (FKey k) l.
Proof.
  induction l as [|x l IH]; cbn [key_names In]; [tauto|].
  destruct x; try (intro H; right; apply IH; exact H).
  cbn [In]. intros [->|H]; [left; reflexivity|right; apply IH; exact H].
Qed.

Lemma key_ok_reads n st c : lookup n st = Some c -> key_ok c -> exists o, read_file n st = Ok o.
Proof.
  intros E (o & -> & Ho). unfold read_file. rewrite E. apply N.eqb_neq in Ho. rewrite Ho. eauto.
Qed.

Lemma wf_read_key st k :
  k1_wf st -> lookup (FKey k) st <> None -> exists o, read_file (FKey k) st = Ok o.
Proof.
  intros (W1 & _) H. destruct (lookup (FKey k) st) eqn:E; [|congruence].
  eapply key_ok_reads; eauto.
Qed.

Lemma wf_read_olds st k tss :
  k1_wf st -> (forall ts, In ts tss -> lookup (FOld k ts) st <> None) ->
  exists l, read_olds k tss st = Ok l.
Proof.
  intros (_ & W2 & _). induction tss as [|ts tss IH]; intro H; cbn [read_olds]; [eauto|].
  destruct (lookup (FOld k ts) st) eqn:E; [|exfalso; apply (H ts); [left; reflexivity|exact E]].
  destruct (key_ok_reads _ _ _ E (W2 _ _ _ E)) as [o Ho]. rewrite Ho. cbn [bind].
  destruct IH as [l Hl]; [intros ts' Hi; apply H; right; exact Hi|].
  rewrite Hl. cbn [bind]. eauto.
Qed.

(** every stored key reads, with all its rotated versions *)
Theorem wf_read_all st k :
  k1_wf st -> lookup (FKey k) st <> None -> exists l, read_all k st = Ok l.
Proof.
  intros Hw Hk. unfold read_all.
  destruct (wf_read_key st k Hw Hk) as [o Ho]. rewrite Ho. cbn [bind].
  destruct (wf_read_olds st k (rev (old_ts k st)) Hw) as [l Hl].
  - intros ts Hi. apply in_rev in Hi. unfold old_ts in Hi. apply (proj1 (in_sort_u _ _)) in Hi.
    apply in_old_names in Hi. apply k1_in_names_lookup in Hi. destruct Hi as [c Hc]. congruence.
  - rewrite Hl. cbn [bind]. eauto.
Qed.

Lemma wf_describe_dir st l :
  k1_wf st -> (forall n, In n l -> In n (names st)) -> describe_dir true l = Ok (key_names l).
Proof.
  intros (_ & _ & W3). induction l as [|x l IH]; intro H; cbn [describe_dir key_names]; [reflexivity|].
  assert (Hl : describe_dir true l = Ok (key_names l)) by (apply IH; intros n Hi; apply H; right; exact Hi).
  destruct x; try (rewrite Hl; reflexivity).
  - exfalso. destruct (k1_in_names_lookup (FRing r) st) as [c Hc]; [apply H; left; reflexivity|].
    destruct (W3 r). congruence.
  - exfalso. destruct (k1_in_names_lookup (FRingNew r) st) as [c Hc]; [apply H; left; reflexivity|].
    destruct (W3 r). congruence.
Qed.

(** ListKeys succeeds whatever temporary files were left behind *)
Theorem wf_list_keys st : k1_wf st -> k1_list_keys st = Ok (key_names (names st)).
Proof. intro Hw. apply (wf_describe_dir st); auto. Qed.

(** both halves of the poison key pair are there, or none (what an interrupted
    SaveKeyPairWithFilename / destroyKeyWithFilename does NOT guarantee: C08_v1 pair_refuted) *)
Definition pairs_complete (st : storage) : Prop :=
  forall k, lookup (FKey k) st <> None ->
            (kind_of k = 5 -> lookup (FKey (k + 1)) st <> None) /\
            (kind_of k = 6 -> lookup (FKey (k - 1)) st <> None).

Lemma wf_cache_read st k :
  k1_wf st -> pairs_complete st -> lookup (FKey k) st <> None -> cache_read k st = Ok tt.
Proof.
  intros Hw Hp Hk. unfold cache_read, read_pair.
  destruct (wf_read_key st k Hw Hk) as [o Ho].
  destruct (N.eqb (kind_of k) 2 || N.eqb (kind_of k) 7)%bool.
  - destruct (wf_read_all st k Hw Hk) as [l Hl]. rewrite Hl. reflexivity.
  - destruct (N.eqb (kind_of k) 5) eqn:E5.
    + apply N.eqb_eq in E5. destruct (Hp k Hk) as [H5 _].
      destruct (wf_read_key st (k + 1) Hw (H5 E5)) as [o' Ho']. rewrite Ho, Ho'. reflexivity.
    + destruct (N.eqb (kind_of k) 6) eqn:E6.
      * apply N.eqb_eq in E6. destruct (Hp k Hk) as [_ H6].
        destruct (wf_read_key st (k - 1) Hw (H6 E6)) as [o' Ho']. rewrite Ho, Ho'. reflexivity.
      * rewrite Ho. reflexivity.
Qed.

Theorem wf_cache_on_start st : k1_wf st -> pairs_complete st -> k1_cache_on_start st = Ok tt.
Proof.
  intros Hw Hp. unfold k1_cache_on_start. rewrite (wf_list_keys st Hw). cbn [bind].
  assert (H : forall k, In k (key_names (names st)) -> lookup (FKey k) st <> None).
  { intros k Hi. apply in_key_names in Hi. apply k1_in_names_lookup in Hi. destruct Hi as [c Hc]. congruence. }
  induction (key_names (names st)) as [|k ks IH]; cbn [cache_all]; [reflexivity|].
  rewrite (wf_cache_read st k Hw Hp) by (apply H; left; reflexivity). cbn [bind].
  apply IH. intros k' Hi. apply H. right. exact Hi.
Qed.

(** the next write is accepted whatever was left behind (TempFile picks an unused name, the clock
    a new time stamp), installs the new key and keeps the previous version *)
Theorem accepts_write links st k ord rnd ts :
  lookup (FTmp k rnd) st = None -> lookup (FOld k ts) st = None ->
  exists st' n,
    vexec links (k1_write_key_file k ord rnd ts) None st 0 = Ret (Ok tt) st' n /\
    lookup (FKey k) st' = Some (new_c ord) /\
    (forall c, lookup (FKey k) st = Some c -> lookup (FOld k ts) st' = Some c).
Proof.
  intros Ht Ho. unfold k1_write_key_file, k1_replace, k1_backup.
  destruct (lookup (FKey k) st) as [c|] eqn:Ek; destruct links;
    repeat (cbn [vexec vbind vc v_do_call v_torn_call do_call fst snd is_not_exist unit_of
                 VTempFile VWriteFile VStat VCopy VRename VRemove N.eqb Pos.eqb E_NOTEXIST E_NOTSUP];
            k1_lk; rewrite ?Ht, ?Ek, ?Ho);
    (do 2 eexists; split; [reflexivity|]); k1_lk; rewrite ?Ht, ?Ek, ?Ho;
    (split; [reflexivity|intros c' Hc; congruence]).
Qed.

(** * (i) what an operation does not name is identical afterwards *)
Definition op_touches (o : v1op) (n : fname) : Prop :=
  match o with
  | V1Write k _ rnd ts => n = FKey k \/ n = FOld k ts \/ n = FTmp k rnd
  | V1SavePair a b _ _ r1 r2 t1 t2 =>
      n = FKey a \/ n = FOld a t1 \/ n = FTmp a r1 \/ n = FKey b \/ n = FOld b t2 \/ n = FTmp b r2
  | V1DestroyPair a b => n = FKey a \/ n = FKey b
  | V1DestroySym k => n = FKey k
  | V1DestroyRotated k _ => exists ts, n = FOld k ts
  | V1DestroyRotatedPair a b _ => exists ts, n = FOld a ts \/ n = FOld b ts
  end.

Theorem op_rel_frame o st0 st n :
  op_pre o -> op_rel o st0 st -> ~ op_touches o n -> lookup n st = lookup n st0.
Proof.
  intros Hpre H Hn. destruct o; cbn [op_rel op_touches op_pre] in *.
  - destruct H as (Hf & _). apply Hf; intro; apply Hn; auto.
  - destruct Hpre as (Hab & _). destruct (Rp_facts _ _ _ _ _ _ _ _ Hab _ _ H) as (Hf & _).
    apply Hf; intro; apply Hn; auto 7.
  - destruct H as [H _]. destruct (H n) as [E|[_ Hp]]; [exact E|contradiction].
  - destruct (H n) as [E|[_ Hp]]; [exact E|contradiction].
  - destruct H as [ts0 H]. destruct (H n) as [E|[_ Hp]]; [exact E|]. exfalso. apply Hn. exists ts0. exact Hp.
  - destruct (H n) as [E|[_ Hp]]; [exact E|contradiction].
Qed.

(** no operation which writes or removes CURRENT keys ever loses a rotated version *)
Theorem op_rel_olds_kept o st0 st k ts c :
  op_pre o ->
  match o with V1DestroyRotated _ _ | V1DestroyRotatedPair _ _ _ => False | _ => True end ->
  op_rel o st0 st -> lookup (FOld k ts) st0 = Some c -> lookup (FOld k ts) st = Some c.
Proof.
  intros Hpre Hk H Hl. destruct o; cbn [op_rel op_pre] in *; try contradiction.
  - eapply Rw_olds_kept; eauto.
  - destruct Hpre as (Hab & _). destruct (Rp_facts _ _ _ _ _ _ _ _ Hab _ _ H) as (_ & _ & _ & Ho). apply Ho. exact Hl.
  - destruct H as [H _]. destruct (H (FOld k ts)) as [E|[_ [Hp|Hp]]]; [congruence|discriminate|discriminate].
  - destruct (H (FOld k ts)) as [E|[_ Hp]]; [congruence|discriminate].
Qed.

(** * Witnesses (computed) *)

(** a key pair generated on an empty keystore, the process dying just after the Rename of the
    PRIVATE key file (call 6): the pair is half written; for the poison pair (key files 5, 6) the
    cache warm-up of the next start fails *)
Definition ex_pair (a : N) : v1op := V1SavePair a (a + 1) 7 8 1 2 1 2.
Definition ex_half (a : N) : storage := v1_after true [] (ex_pair a) (Some (6%nat, KCrashAfter)).

Lemma ex_fault_ok_crash k : faults_ok true (Some (k, KCrashAfter)).
Proof. left. reflexivity. Qed.

Lemma ex_half_reachable a : a <> a + 1 -> reachable true (ex_half a).
Proof.
  intro H. apply reach_step; [apply reach_nil| |apply ex_fault_ok_crash].
  cbn. repeat split; auto; discriminate.
Qed.

Theorem pair_half_written :
  reachable true (ex_half 5) /\
  lookup (FKey 5) (ex_half 5) = Some (new_c 7) /\ lookup (FKey 6) (ex_half 5) = None /\
  k1_cache_on_start (ex_half 5) = Err E_NOTEXIST /\ read_cur 5 (ex_half 5) = Err E_NOTEXIST.
Proof.
  split; [apply ex_half_reachable; discriminate|]. vm_compute. repeat split; reflexivity.
Qed.

(** the same with a previous pair: new private key, previous public key *)
Definition ex_pair2 : v1op := V1SavePair 0 1 9 10 3 4 3 4.
Definition ex_half2 : storage :=
  v1_after true (v1_after true [] (ex_pair 0) None) ex_pair2 (Some (9%nat, KCrashBefore)).

Theorem pair_half_rotated :
  reachable true ex_half2 /\
  lookup (FKey 0) ex_half2 = Some (new_c 9) /\ lookup (FKey 1) ex_half2 = Some (new_c 8) /\
  lookup (FOld 0 3) ex_half2 = Some (new_c 7).
Proof.
  split.
  - apply reach_step; [apply reach_step; [apply reach_nil| |left; reflexivity]| |left; reflexivity];
      cbn; repeat split; auto; discriminate.
  - vm_compute. repeat split; reflexivity.
Qed.

(** a storage WITHOUT hard links: the history copy of a rotated key is cut (call 6 = Copy) *)
Definition ex_torn : storage :=
  v1_after false (v1_after false [] (V1Write 2 1 1 1) None) (V1Write 2 2 2 2) (Some (6%nat, KTorn)).

Theorem copy_backup_torn :
  reachable false (v1_after false [] (V1Write 2 1 1 1) None) /\
  lookup (FOld 2 2) ex_torn = Some (CKey 1 false) /\ ~ k1_wf ex_torn /\
  read_all 2 ex_torn = Err E_VERIFY /\ k1_cache_on_start ex_torn = Err E_VERIFY.
Proof.
  split; [|split; [|split]].
  - apply reach_step; [apply reach_nil| |right; exact I]. cbn. discriminate.
  - vm_compute. reflexivity.
  - intros (_ & W2 & _). assert (E : lookup (FOld 2 2) ex_torn = Some (CKey 1 false)) by (vm_compute; reflexivity).
    destruct (W2 _ _ _ E) as (o & Ho & _). discriminate.
  - vm_compute. split; reflexivity.
Qed.

(** the defect repaired by the fix: patch: a temporary file left by an interrupted WriteKeyFile
    (here: the process dies just after TempFile, call 1) made the ORIGINAL describeDir fail *)
Definition ex_tmp : storage :=
  v1_after true (v1_after true [] (V1Write 2 1 1 1) None) (V1Write 3 2 2 2) (Some (1%nat, KCrashAfter)).

Theorem unfixed_listing_fails :
  reachable true ex_tmp /\ k1_list_keys_unfixed ex_tmp = Err E_UNRECOGNIZED /\
  k1_list_keys ex_tmp = Ok [2] /\ k1_cache_on_start ex_tmp = Ok tt.
Proof.
  split.
  - apply reach_step; [apply reach_step; [apply reach_nil| |left; reflexivity]| |left; reflexivity];
      cbn; discriminate.
  - vm_compute. repeat split; reflexivity.
Qed.

(** non-vacuity: a well-formed storage with a leftover (cut) temporary file, rotated versions and
    a complete pair; every premise of the theorems is satisfiable on it *)
Definition ex_st : storage :=
  [(FTmp 2 9, CKey 4 false); (FKey 2, CKey 3 true); (FOld 2 1, CKey 1 true); (FOld 2 2, CKey 2 true);
   (FKey 5, CKey 5 true); (FKey 6, CKey 6 true)].

Lemma ex_st_wf : k1_wf ex_st.
Proof.
  split; [|split].
  - intros k c H. cbn in H.
    repeat match type of H with
           | (if ?b then _ else _) = _ => destruct b
           end; inversion H; subst; eexists; split; try reflexivity; discriminate.
  - intros k ts c H. cbn in H.
    repeat match type of H with
           | (if ?b then _ else _) = _ => destruct b
           end; inversion H; subst; eexists; split; try reflexivity; discriminate.
  - intro r. split; reflexivity.
Qed.

Lemma ex_st_reads : read_all 2 ex_st = Ok [3; 2; 1] /\ k1_cache_on_start ex_st = Ok tt.
Proof. vm_compute. split; reflexivity. Qed.

(** * The statements of Properties/C08_v1.v *)
Lemma thm_interpreter_is_exec :
  forall (A : Type) (links : bool) (p : prog A) (f : fault) (st : storage) (k : nat),
    vexec links (inj p) f st k = exec p f st k.
Proof. intros A links p. exact (vexec_inj links p). Qed.

Lemma thm_write_crash_safe :
  forall links st o f,
    op_pre o -> faults_ok links f -> k1_wf st ->
    k1_wf (v1_after links st o f) /\ op_rel o st (v1_after links st o f) /\
    match vexec links (v1_prog o) f st 0 with
    | Ret r st' _ => op_post o st r st'
    | Crash _ => True
    end.
Proof.
  intros links st o f Hpre Hf Hw.
  pose proof (v1_op_safe links st o f Hpre Hf) as Hr.
  split; [eapply op_rel_wf; eauto|]. split; [exact Hr|].
  pose proof (v1_op_result links st o f Hpre Hf) as H.
  destruct (vexec links (v1_prog o) f st 0); tauto.
Qed.

Lemma thm_other_keys_untouched :
  forall links st o f n,
    op_pre o -> faults_ok links f -> ~ op_touches o n ->
    lookup n (v1_after links st o f) = lookup n st.
Proof.
  intros links st o f n Hpre Hf Hn.
  eapply op_rel_frame; [exact Hpre|apply v1_op_safe; assumption|exact Hn].
Qed.

Lemma thm_rotated_versions_kept :
  forall links st o f k ts c,
    op_pre o -> faults_ok links f ->
    match o with V1DestroyRotated _ _ | V1DestroyRotatedPair _ _ _ => False | _ => True end ->
    lookup (FOld k ts) st = Some c -> lookup (FOld k ts) (v1_after links st o f) = Some c.
Proof.
  intros links st o f k ts c Hpre Hf Hk Hl.
  eapply op_rel_olds_kept; [exact Hpre|exact Hk|apply v1_op_safe; assumption|exact Hl].
Qed.

Lemma thm_written_key_old_or_new :
  forall links st k ord rnd ts f,
    faults_ok links f ->
    let st' := v1_after links st (V1Write k ord rnd ts) f in
    (lookup (FKey k) st' = lookup (FKey k) st \/
     (lookup (FKey k) st' = Some (CKey ord true) /\
      (lookup (FKey k) st = None \/ lookup (FOld k ts) st' = lookup (FKey k) st))) /\
    match vexec links (v1_prog (V1Write k ord rnd ts)) f st 0 with
    | Ret (Ok _) st'' _ => lookup (FKey k) st'' = Some (CKey ord true)
    | Ret _ st'' _ => lookup (FKey k) st'' = lookup (FKey k) st
    | Crash _ => True
    end.
Proof.
  intros links st k ord rnd ts f Hf st'.
  pose proof (write_key_file_exec links st k ord rnd ts f Hf) as H.
  unfold st', v1_after. cbn [v1_prog].
  destruct (vexec links (k1_write_key_file k ord rnd ts) f st 0) as [r s n|s]; cbn [vafter].
  - destruct H as [(_ & _ & Hk) HQ]. split.
    + destruct Hk as [Hk|[Hk [Hn|[_ Hb]]]]; [left; exact Hk|right; split; [exact Hk|left; exact Hn]|right; split; [exact Hk|right; exact Hb]].
    + destruct r as [[]|e|]; exact HQ.
  - destruct H as (_ & _ & Hk). split; [|exact I].
    destruct Hk as [Hk|[Hk [Hn|[_ Hb]]]]; [left; exact Hk|right; split; [exact Hk|left; exact Hn]|right; split; [exact Hk|right; exact Hb]].
Qed.

Lemma thm_pair_private_first :
  forall links st a b o1 o2 r1 r2 t1 t2 f,
    a <> b -> o1 <> 0 -> o2 <> 0 -> faults_ok links f ->
    let st' := v1_after links st (V1SavePair a b o1 o2 r1 r2 t1 t2) f in
    (lookup (FKey a) st' = lookup (FKey a) st \/ lookup (FKey a) st' = Some (CKey o1 true)) /\
    (lookup (FKey b) st' = lookup (FKey b) st \/
     (lookup (FKey b) st' = Some (CKey o2 true) /\ lookup (FKey a) st' = Some (CKey o1 true))).
Proof.
  intros links st a b o1 o2 r1 r2 t1 t2 f Hab H1 H2 Hf st'.
  assert (Hpre : op_pre (V1SavePair a b o1 o2 r1 r2 t1 t2)) by (cbn; auto).
  pose proof (v1_op_safe links st _ f Hpre Hf) as Hr. cbn [op_rel] in Hr.
  destruct (Rp_facts _ _ _ _ _ _ _ _ Hab _ _ Hr) as (_ & Ha & Hb & _).
  split; [exact Ha|exact Hb].
Qed.

Lemma thm_recovered_storage_accepts :
  forall st,
    k1_wf st ->
    k1_list_keys st = Ok (key_names (names st)) /\
    (forall k, lookup (FKey k) st <> None ->
               (exists o, read_file (FKey k) st = Ok o) /\ (exists l, read_all k st = Ok l)) /\
    (pairs_complete st -> k1_cache_on_start st = Ok tt) /\
    (forall links k ord rnd ts,
        lookup (FTmp k rnd) st = None -> lookup (FOld k ts) st = None ->
        exists st' n,
          vexec links (k1_write_key_file k ord rnd ts) None st 0 = Ret (Ok tt) st' n /\
          lookup (FKey k) st' = Some (new_c ord) /\
          (forall c, lookup (FKey k) st = Some c -> lookup (FOld k ts) st' = Some c)).
Proof.
  intros st Hw. split; [apply wf_list_keys; exact Hw|]. split; [|split].
  - intros k Hk. split; [apply wf_read_key; assumption|apply wf_read_all; assumption].
  - apply wf_cache_on_start. exact Hw.
  - intros links k ord rnd ts. apply accepts_write.
Qed.


(** * (i) at the level of the readers: the listing of a history directory is determined by
      which of its entries exist *)
Fixpoint ssorted (l : list N) : Prop :=
  match l with
  | [] => True
  | x :: t => (forall y, In y t -> x < y) /\ ssorted t
  end.

Lemma insert_u_sorted x l : ssorted l -> ssorted (insert_u x l).
Proof.
  induction l as [|a l IH]; cbn [insert_u ssorted].
  - intros _. split; [intros y []|exact I].
  - intros [Ha Hs]. destruct (N.ltb x a) eqn:E1.
    + apply N.ltb_lt in E1. cbn [ssorted]. split; [|split; assumption].
      intros y [<-|Hy]; [exact E1|specialize (Ha y Hy); lia].
    + destruct (N.eqb x a) eqn:E2; cbn [ssorted].
      * split; assumption.
      * apply N.ltb_ge in E1. apply N.eqb_neq in E2. split; [|apply IH; exact Hs].
        intros y Hy. apply in_insert_u in Hy. destruct Hy as [->|Hy]; [lia|apply Ha; exact Hy].
Qed.

Lemma sort_u_sorted l : ssorted (sort_u l).
Proof.
  induction l as [|a l IH]; cbn [sort_u fold_right]; [exact I|].
  apply insert_u_sorted. exact IH.
Qed.

Lemma ssorted_ext l : forall l', ssorted l -> ssorted l' -> (forall x, In x l <-> In x l') -> l = l'.
Proof.
  induction l as [|a l IH]; intros [|b l'] Hs Hs' H.
  - reflexivity.
  - destruct (proj2 (H b) (or_introl eq_refl)).
  - destruct (proj1 (H a) (or_introl eq_refl)).
  - destruct Hs as [Ha Hs]. destruct Hs' as [Hb Hs'].
    assert (E : a = b).
    { destruct (proj1 (H a) (or_introl eq_refl)) as [E|Hi]; [auto|].
      destruct (proj2 (H b) (or_introl eq_refl)) as [E|Hi']; [auto|].
      specialize (Hb a Hi). specialize (Ha b Hi'). lia. }
    subst b. f_equal. apply IH; auto. intro x. split; intro Hx.
    + destruct (proj1 (H x) (or_intror Hx)) as [E|Hi]; [subst x; specialize (Ha a Hx); lia|exact Hi].
    + destruct (proj2 (H x) (or_intror Hx)) as [E|Hi]; [subst x; specialize (Hb a Hx); lia|exact Hi].
Qed.

Lemma lookup_in_names n st : lookup n st <> None -> In n (names st).
Proof.
  induction st as [|[m c] st IH]; cbn [lookup names map fst In]; [congruence|].
  destruct (fname_eqb n m) eqn:E.
  - apply k1_fname_eqb_eq in E. left. auto.
  - intro H. right. apply IH. exact H.
Qed.

Lemma old_names_in k ts l : In (FOld k ts) l -> In ts (old_names k l).
Proof.
  induction l as [|x l IH]; cbn [old_names In]; [tauto|].
  intros [->|H].
  - rewrite N.eqb_refl. left. reflexivity.
  - destruct x; try (apply IH; exact H).
    destruct (N.eqb k k0); [right|]; apply IH; exact H.
Qed.

Lemma in_old_ts k ts st : In ts (old_ts k st) <-> lookup (FOld k ts) st <> None.
Proof.
  unfold old_ts. rewrite in_sort_u. split.
  - intro H. apply in_old_names in H. apply k1_in_names_lookup in H. destruct H as [c Hc]. congruence.
  - intro H. apply old_names_in. apply lookup_in_names. exact H.
Qed.

Lemma old_ts_ext k st st' :
  (forall ts, lookup (FOld k ts) st = lookup (FOld k ts) st') -> old_ts k st = old_ts k st'.
Proof.
  intro H. apply ssorted_ext; try apply sort_u_sorted.
  intro ts. rewrite !in_old_ts. rewrite H. tauto.
Qed.

Lemma read_olds_ext k tss st st' :
  (forall ts, lookup (FOld k ts) st = lookup (FOld k ts) st') -> read_olds k tss st = read_olds k tss st'.
Proof.
  intro H. induction tss as [|ts tss IH]; cbn [read_olds]; [reflexivity|].
  unfold read_file. rewrite H, IH. reflexivity.
Qed.

Theorem read_all_ext k st st' :
  lookup (FKey k) st = lookup (FKey k) st' ->
  (forall ts, lookup (FOld k ts) st = lookup (FOld k ts) st') ->
  read_all k st = read_all k st'.
Proof.
  intros Hk Ho. unfold read_all, read_file. rewrite Hk, (old_ts_ext k st st' Ho), (read_olds_ext k _ st st' Ho).
  reflexivity.
Qed.

Lemma thm_other_keys_read_same :
  forall links st o f k,
    op_pre o -> faults_ok links f ->
    ~ op_touches o (FKey k) -> (forall ts, ~ op_touches o (FOld k ts)) ->
    read_file (FKey k) (v1_after links st o f) = read_file (FKey k) st /\
    read_all k (v1_after links st o f) = read_all k st.
Proof.
  intros links st o f k Hpre Hf Hk Ho.
  pose proof (v1_op_safe links st o f Hpre Hf) as Hr.
  assert (E1 : lookup (FKey k) (v1_after links st o f) = lookup (FKey k) st)
    by (eapply op_rel_frame; eauto).
  assert (E2 : forall ts, lookup (FOld k ts) (v1_after links st o f) = lookup (FOld k ts) st)
    by (intro ts; eapply op_rel_frame; eauto).
  split; [unfold read_file; rewrite E1; reflexivity|apply read_all_ext; assumption].
Qed.

(** the all-versions read of the key being (re)written: the previous answer, possibly with the
    previous current version once more (history copy made, Rename not), or the new key in front *)
Example interrupted_rotation_reads :
  let st := v1_after true [] (V1Write 2 1 1 1) None in
  read_all 2 (v1_after true st (V1Write 2 2 2 2) (Some (5%nat, KCrashAfter))) = Ok [1; 1] /\
  read_all 2 (v1_after true st (V1Write 2 2 2 2) (Some (6%nat, KCrashBefore))) = Ok [1; 1] /\
  read_all 2 (v1_after true st (V1Write 2 2 2 2) (Some (6%nat, KCrashAfter))) = Ok [2; 1] /\
  read_all 2 (v1_after true st (V1Write 2 2 2 2) (Some (6%nat, KErr))) = Ok [1; 1].
Proof. vm_compute. repeat split; reflexivity. Qed.
