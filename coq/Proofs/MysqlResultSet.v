(** Proofs about Model/MysqlResultSet.v (C12: a result set without protected columns is relayed unchanged and the
    handler stops exactly at the terminator, whatever the length of the CLIENT_DEPRECATE_EOF OK_Packet). *)
From Acra Require Import Lib.Bytes Lib.Outcome Lib.GoSlice Gen.WireMysqlConsts Model.MysqlWire Model.MysqlWireExt
  Model.MysqlResultSet Proofs.MysqlWire Proofs.MysqlWireExt.
From Coq Require Import ZifyN ZifyNat ZifyBool.
Local Open Scope Z_scope.

(** classification: a 0xfe packet of 1 .. maxp-1 bytes ends the rows (5-byte EOF, 7-byte OK, OK with info string /
    session-state data of any length) *)
Theorem mysql_fe_packet_is_rows_end maxp (seq : byte) (t : bytes) :
  (1 <= maxp <= 16777215)%N -> (lenN (n2b MY_EOF :: t) < maxp)%N ->
  is_rows_end maxp (mk_packet (le_enc 3 (lenN (n2b MY_EOF :: t)) ++ [seq]) (n2b MY_EOF :: t)) = Ok true.
Proof.
  intros Hm Hl. unfold is_rows_end, first_byte. cbn [p_data p_header].
  rewrite hdr_len_enc by lia.
  rewrite gindex_ok by (unfold len; cbn [length]; lia). cbn [bind nth Z.to_nat].
  destruct (N.ltb_spec (lenN (n2b MY_EOF :: t)) maxp) as [_|H]; [|lia]. reflexivity.
Qed.

Lemma read_frame maxp (seq : byte) (d rest : bytes) :
  (1 <= maxp <= 16777215)%N -> d <> [] -> (lenN d < maxp)%N ->
  read_packet maxp (frame (seq, d) ++ rest) = Ok (mk_packet (le_enc 3 (lenN d) ++ [seq]) d, rest).
Proof.
  intros Hm Hd Hl.
  assert (Hlt : (lenN d <? maxp)%N = true) by (apply N.ltb_lt; exact Hl).
  unfold frame. cbn [fst snd].
  replace ((le_enc 3 (lenN d) ++ [seq] ++ d) ++ rest)
    with (dump maxp (mk_packet (le_enc 3 (lenN d) ++ [seq]) d) ++ rest).
  2:{ unfold dump. cbn [p_data p_header]. rewrite Hlt. rewrite <- (app_assoc (le_enc 3 (lenN d))). reflexivity. }
  rewrite mysql_packet_roundtrip.
  - rewrite Hlt. reflexivity.
  - lia.
  - rewrite app_length, le_enc_length. reflexivity.
  - exact Hd.
  - intros _. apply hdr_len_enc. lia.
Qed.

Lemma set_data_same (seq : byte) (d : bytes) :
  set_data (mk_packet (le_enc 3 (lenN d) ++ [seq]) d) d = mk_packet (le_enc 3 (lenN d) ++ [seq]) d.
Proof.
  unfold set_data. cbn [p_header p_data].
  destruct (update_size_shape (le_enc 3 (lenN d) ++ [seq]) (lenN d)) as [E _].
  { rewrite app_length, le_enc_length. reflexivity. }
  rewrite E. f_equal.
Qed.

Lemma dump_small maxp (seq : byte) (d : bytes) : (lenN d < maxp)%N ->
  dump maxp (mk_packet (le_enc 3 (lenN d) ++ [seq]) d) = frame (seq, d).
Proof.
  intros Hl. unfold dump. cbn [p_data p_header].
  assert (Hlt : (lenN d <? maxp)%N = true) by (apply N.ltb_lt; exact Hl). rewrite Hlt.
  unfold frame. cbn [fst snd]. rewrite <- app_assoc. reflexivity.
Qed.

(** the whole stream: rows (never starting with 0xfe / 0xff below maxp bytes) left alone by the row processing,
    then a 0xfe terminator of ANY length below maxp: everything is relayed unchanged, nothing after the terminator
    is read *)
Theorem mysql_rows_relay maxp tr (rows : list (byte * bytes)) (seq : byte) (t rest : bytes) :
  (1 <= maxp <= 16777215)%N ->
  Forall (row_ok maxp) rows -> (forall sp, In sp rows -> tr (snd sp) = Ok (snd sp)) ->
  (lenN (n2b MY_EOF :: t) < maxp)%N ->
  forall fuel, (length rows < fuel)%nat ->
  rows_loop maxp tr fuel (frames rows ++ frame (seq, n2b MY_EOF :: t) ++ rest)
  = Ok (frames rows ++ frame (seq, n2b MY_EOF :: t), rest).
Proof.
  intros Hm Hrows Htr Hl. induction rows as [|[s d] rows IH]; intros fuel Hf.
  - destruct fuel as [|f]; [cbn [length] in Hf; lia|].
    cbn [frames map concat app rows_loop].
    rewrite read_frame by (try discriminate; assumption). cbn [bind].
    rewrite mysql_fe_packet_is_rows_end by assumption. cbn [bind].
    rewrite dump_small by assumption. reflexivity.
  - destruct fuel as [|f]; [cbn [length] in Hf; lia|].
    inversion Hrows as [|x l Hr Hrest]; subst.
    destruct Hr as (b & tl & Hd & Hne & Hnerr & Hlen). cbn [snd] in Hd, Hlen.
    unfold frames. cbn [map concat]. fold (frames rows). rewrite <- app_assoc.
    cbn [rows_loop].
    rewrite read_frame by (try assumption; rewrite Hd; discriminate). cbn [bind].
    assert (Hre : is_rows_end maxp (mk_packet (le_enc 3 (lenN d) ++ [s]) d) = Ok false).
    { unfold is_rows_end, first_byte. cbn [p_data p_header]. rewrite Hd.
      rewrite gindex_ok by (unfold len; cbn [length]; lia). cbn [bind nth Z.to_nat].
      destruct (N.eqb_spec (b2n b) MY_EOF); [contradiction|reflexivity]. }
    rewrite Hre. cbn [bind].
    assert (Her : is_err (mk_packet (le_enc 3 (lenN d) ++ [s]) d) = Ok false).
    { unfold is_err, first_byte. cbn [p_data]. rewrite Hd.
      rewrite gindex_ok by (unfold len; cbn [length]; lia). cbn [bind nth Z.to_nat].
      destruct (N.eqb_spec (b2n b) MY_ERR); [contradiction|reflexivity]. }
    rewrite Her. cbn [bind p_data].
    pose proof (Htr (s, d) (or_introl eq_refl)) as Ht. cbn [snd] in Ht. rewrite Ht. cbn [bind].
    rewrite IH; [| exact Hrest | intros sp Hin; apply Htr; right; exact Hin | cbn [length] in Hf; lia ].
    cbn [bind]. rewrite set_data_same, dump_small by exact Hlen.
    rewrite <- app_assoc. reflexivity.
Qed.

(** an ERR_Packet in the row position ends the rows as well (after the fix) *)
Theorem mysql_rows_relay_err maxp tr (seq : byte) (t rest : bytes) :
  (1 <= maxp <= 16777215)%N -> (lenN (n2b MY_ERR :: t) < maxp)%N ->
  rows_loop maxp tr 1 (frame (seq, n2b MY_ERR :: t) ++ rest) = Ok (frame (seq, n2b MY_ERR :: t), rest).
Proof.
  intros Hm Hl. cbn [rows_loop].
  rewrite read_frame by (try discriminate; assumption). cbn [bind].
  unfold is_rows_end, is_err, first_byte. cbn [p_data p_header].
  rewrite gindex_ok by (unfold len; cbn [length]; lia). cbn [bind nth Z.to_nat].
  rewrite dump_small by assumption. reflexivity.
Qed.
