(** The linear-time line splitter used by the replay (Model/RunParsersExt.v) is the one of the model. *)
From Acra Require Import Lib.Bytes Lib.Outcome Lib.GoSlice Gen.ParsersConsts Model.AuditLog Model.ParsersExt Model.RunParsersExt.

Lemma rev'_eq (l : bytes) : rev' l = rev l.
Proof. unfold rev'. symmetry. apply rev_alt. Qed.

Lemma drop_cr'_eq (l : bytes) : drop_cr' l = drop_cr l.
Proof. unfold drop_cr', drop_cr. rewrite rev'_eq. destruct (rev l) as [|b r]; [reflexivity|]. rewrite rev'_eq. reflexivity. Qed.

Lemma split_lines_acc'_eq (s : bytes) : forall cur, split_lines_acc' cur s = split_lines_acc cur s.
Proof.
  induction s as [|b s IH]; intros cur; cbn [split_lines_acc' split_lines_acc].
  - destruct cur; [reflexivity|]. rewrite rev'_eq, drop_cr'_eq. reflexivity.
  - rewrite rev'_eq, drop_cr'_eq, !IH. reflexivity.
Qed.

Theorem scan_file_fast_eq (file : bytes) : scan_file_fast file = scan_file file.
Proof. unfold scan_file_fast, scan_file, split_lines. rewrite split_lines_acc'_eq. reflexivity. Qed.
