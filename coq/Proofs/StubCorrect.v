(** [Correct Stub]: the concrete stand-in crypto of Crypto/Stub.v satisfies every law of
    Crypto/Interface.v.  No axioms; see [Print Assumptions] at the end. *)
From Acra Require Import Lib.Bytes Crypto.Interface Crypto.Stub.
From Coq Require Import ZifyN ZifyNat ZifyBool.

(** ** list slicing helpers *)
Lemma sc_sub_app_mid {A} (a b c : list A) n k :
  n = length a -> k = length b -> sub n k (a ++ b ++ c) = b.
Proof. intros -> ->. unfold sub. rewrite skipn_app_len. apply firstn_app_len. Qed.

Lemma sc_sub_app_end {A} (a b : list A) n k :
  n = length a -> k = length b -> sub n k (a ++ b) = b.
Proof. intros -> ->. unfold sub. rewrite skipn_app_len. apply firstn_all. Qed.

Lemma some_inj {A} (a b : A) : Some a = Some b -> a = b.
Proof. intros H. exact (f_equal (fun o => match o with Some v => v | None => a end) H). Qed.

(** the five fields of a sealed cell *)
Lemma split5 {A} (a b c d e : list A) :
  length a = 12 -> length b = 4 -> length c = 12 -> length d = 16 ->
  firstn 12 (a ++ b ++ c ++ d ++ e) = a /\
  sub 12 4 (a ++ b ++ c ++ d ++ e) = b /\
  sub 16 12 (a ++ b ++ c ++ d ++ e) = c /\
  sub 28 16 (a ++ b ++ c ++ d ++ e) = d /\
  skipn 44 (a ++ b ++ c ++ d ++ e) = e.
Proof.
  intros Ha Hb Hc Hd. repeat split.
  - apply firstn_app_len'. symmetry. exact Ha.
  - apply sc_sub_app_mid; symmetry; assumption.
  - replace (a ++ b ++ c ++ d ++ e) with ((a ++ b) ++ c ++ d ++ e)
      by (rewrite <- !app_assoc; reflexivity).
    apply sc_sub_app_mid; [rewrite app_length, Ha, Hb; reflexivity| symmetry; exact Hc].
  - replace (a ++ b ++ c ++ d ++ e) with ((a ++ b ++ c) ++ d ++ e)
      by (rewrite <- !app_assoc; reflexivity).
    apply sc_sub_app_mid; [rewrite !app_length, Ha, Hb, Hc; reflexivity| symmetry; exact Hd].
  - replace (a ++ b ++ c ++ d ++ e) with ((a ++ b ++ c ++ d) ++ e)
      by (rewrite <- !app_assoc; reflexivity).
    apply skipn_app_len'. rewrite !app_length, Ha, Hb, Hc, Hd. reflexivity.
Qed.

(** ** lengths *)
Lemma le32_length n : length (le32 n) = 4.
Proof. unfold le32. apply le_enc_length. Qed.
Lemma le64_length n : length (le64 n) = 8.
Proof. unfold le64. apply le_enc_length. Qed.

Lemma seal_magic_length : length seal_magic = 12.
Proof. reflexivity. Qed.
Lemma wrap_magic_length : length wrap_magic = 4.
Proof. reflexivity. Qed.

Lemma keystream_blocks_length k r i nb : length (keystream_blocks k r i nb) = 8 * nb.
Proof.
  revert i; induction nb as [|nb IH]; intros i; cbn [keystream_blocks]; [reflexivity|].
  rewrite app_length, le64_length, IH. lia.
Qed.

Lemma keystream_length k r n : length (keystream k r n) = n.
Proof.
  unfold keystream. rewrite firstn_length, keystream_blocks_length.
  assert (n <= 8 * ((n + 7) / 8)) as Hn by lia. lia.
Qed.

Lemma stub_tag_length k c r m : length (stub_tag k c r m) = 16.
Proof. unfold stub_tag. cbv zeta. rewrite app_length, !le64_length. reflexivity. Qed.

Lemma crc4_length b : length (crc4 b) = 4.
Proof. unfold crc4. rewrite firstn_length, le64_length. reflexivity. Qed.

Lemma le32_dec n : (N.of_nat n < 4294967296)%N -> le_dec (le32 n) = N.of_nat n.
Proof.
  intros H. unfold le32. apply le_dec_enc_small.
  change (256 ^ N.of_nat 4)%N with 4294967296%N. exact H.
Qed.

(** ** seal *)
Lemma stub_seal_enc_length k c r m :
  length r = 12 -> length (stub_seal_enc k c r m) = 44 + length m.
Proof.
  intros Hr. unfold stub_seal_enc.
  rewrite !app_length, seal_magic_length, le32_length, Hr, stub_tag_length.
  rewrite xor_bytes_length by (rewrite keystream_length; lia). lia.
Qed.

Lemma stub_seal_rt k c r m :
  m <> [] -> length r = 12 -> (N.of_nat (length m) < MAXMSG)%N ->
  stub_seal_dec k c (stub_seal_enc k c r m) = Some m.
Proof.
  intros Hm Hr Hlen.
  assert (0 < length m) as Hpos by (destruct m; [contradiction| cbn; lia]).
  pose proof (stub_seal_enc_length k c r m Hr) as Hl.
  assert (length (xor_bytes m (keystream k r (length m))) = length m) as Hxl
    by (apply xor_bytes_length; rewrite keystream_length; lia).
  destruct (split5 seal_magic (le32 (length m)) r (stub_tag k c r m)
              (xor_bytes m (keystream k r (length m))))
    as (H1 & H2 & H3 & H4 & H5);
    [apply seal_magic_length| apply le32_length| exact Hr| apply stub_tag_length|].
  fold (stub_seal_enc k c r m) in H1, H2, H3, H4, H5.
  unfold stub_seal_dec. cbv zeta.
  unfold SEAL_OVERHEAD. rewrite H1, H2, H3, H4, H5, Hl, Hxl.
  destruct (Nat.leb_spec (44 + length m) 44) as [Hle|Hgt]; [lia|].
  rewrite bytes_eqb_refl. cbn [negb].
  rewrite le32_dec by (unfold MAXMSG in Hlen; lia).
  replace (44 + length m - 44) with (length m) by lia.
  rewrite N.eqb_refl. cbn [negb].
  rewrite xor_bytes_involutive by (rewrite keystream_length; lia).
  rewrite bytes_eqb_refl. reflexivity.
Qed.

Lemma stub_seal_dec_len k c x m :
  stub_seal_dec k c x = Some m -> length x = 44 + length m /\ m <> [].
Proof.
  unfold stub_seal_dec. cbv zeta. unfold SEAL_OVERHEAD. intros H.
  destruct (Nat.leb_spec (length x) 44) as [Hle|Hgt]; [discriminate|].
  destruct (negb (bytes_eqb (firstn 12 x) seal_magic)); [discriminate|].
  destruct (negb (N.eqb (le_dec (sub 12 4 x)) (N.of_nat (length x - 44)))); [discriminate|].
  match type of H with (if ?b then _ else _) = _ => destruct b end; [|discriminate].
  apply some_inj in H.
  assert (length m = length x - 44) as Hml.
  { rewrite <- H. rewrite xor_bytes_length by (rewrite keystream_length; lia).
    apply skipn_length. }
  split; [lia|]. intros E. rewrite E in Hml. cbn [length] in Hml. lia.
Qed.

(** ** keys *)
Lemma priv_of_eq s :
  priv_of Stub s = tag_rec2 ++ [x00; x00; x00; x2d] ++ crc4 (x00 :: s) ++ x00 :: s.
Proof. reflexivity. Qed.
Lemma pub_of_eq s :
  pub_of Stub s = tag_uec2 ++ [x00; x00; x00; x2d]
                    ++ crc4 (x02 :: map (fun b => bxor b x5a) s) ++ x02 :: map (fun b => bxor b x5a) s.
Proof. reflexivity. Qed.

Lemma key_shape_length (tagname : bytes) first body :
  length tagname = 4 -> length body = 32 ->
  length (tagname ++ [x00; x00; x00; x2d] ++ crc4 (first :: body) ++ first :: body) = 45.
Proof.
  intros Ht Hb. rewrite !app_length, crc4_length, Ht. cbn [length]. rewrite Hb. reflexivity.
Qed.

Lemma stub_key_len s :
  length s = 32 -> length (priv_of Stub s) = 45 /\ length (pub_of Stub s) = 45.
Proof.
  intros Hs. rewrite priv_of_eq, pub_of_eq. split.
  - apply key_shape_length; [reflexivity| exact Hs].
  - apply key_shape_length; [reflexivity| rewrite map_length; exact Hs].
Qed.

Lemma valid_key_ok (tagname : bytes) first body :
  length tagname = 4 -> length body = 32 ->
  valid_key (tagname ++ [x00; x00; x00; x2d] ++ crc4 (first :: body) ++ first :: body)
            tagname first = true.
Proof.
  intros Ht Hb. unfold valid_key.
  rewrite (key_shape_length tagname first body Ht Hb).
  remember (crc4 (first :: body)) as cr eqn:Hcr.
  assert (length cr = 4) as Hcl by (rewrite Hcr; apply crc4_length).
  set (hdr := [x00; x00; x00; x2d]) in *.
  assert (length hdr = 4) as Hh by reflexivity.
  assert (firstn 8 (tagname ++ hdr ++ cr ++ first :: body) = tagname ++ hdr) as ->.
  { rewrite app_assoc. apply firstn_app_len'. rewrite app_length, Ht, Hh. reflexivity. }
  assert (sub 12 1 (tagname ++ hdr ++ cr ++ first :: body) = [first]) as ->.
  { replace (tagname ++ hdr ++ cr ++ first :: body) with ((tagname ++ hdr ++ cr) ++ [first] ++ body)
      by (rewrite <- !app_assoc; reflexivity).
    apply sc_sub_app_mid; [rewrite !app_length, Ht, Hh, Hcl; reflexivity| reflexivity]. }
  assert (sub 8 4 (tagname ++ hdr ++ cr ++ first :: body) = cr) as ->.
  { replace (tagname ++ hdr ++ cr ++ first :: body) with ((tagname ++ hdr) ++ cr ++ first :: body)
      by (rewrite <- !app_assoc; reflexivity).
    apply sc_sub_app_mid; [rewrite !app_length, Ht, Hh; reflexivity| symmetry; exact Hcl]. }
  assert (skipn 12 (tagname ++ hdr ++ cr ++ first :: body) = first :: body) as ->.
  { replace (tagname ++ hdr ++ cr ++ first :: body) with ((tagname ++ hdr ++ cr) ++ first :: body)
      by (rewrite <- !app_assoc; reflexivity).
    apply skipn_app_len'. rewrite !app_length, Ht, Hh, Hcl. reflexivity. }
  rewrite <- Hcr, !bytes_eqb_refl. reflexivity.
Qed.

Lemma key_shape_skip13 (tagname : bytes) first body :
  length tagname = 4 ->
  skipn 13 (tagname ++ [x00; x00; x00; x2d] ++ crc4 (first :: body) ++ first :: body) = body.
Proof.
  intros Ht.
  replace (tagname ++ [x00; x00; x00; x2d] ++ crc4 (first :: body) ++ first :: body)
    with ((tagname ++ [x00; x00; x00; x2d] ++ crc4 (first :: body) ++ [first]) ++ body)
    by (rewrite <- !app_assoc; reflexivity).
  apply skipn_app_len'. rewrite !app_length, crc4_length, Ht. reflexivity.
Qed.

(** ** shared secret *)
Lemma bxor_comm a b : bxor a b = bxor b a.
Proof. unfold bxor. rewrite N.lxor_comm. reflexivity. Qed.

Lemma bxor_mask_cancel x y k : bxor (bxor x (bxor y k)) k = bxor x y.
Proof.
  apply b2n_inj. unfold bxor. rewrite !b2n_n2b.
  pose proof (b2n_lt x) as Hx. pose proof (b2n_lt y) as Hy. pose proof (b2n_lt k) as Hk.
  assert (N.lxor (b2n y) (b2n k) < 256)%N as Hyk by (apply lxor_lt_256; assumption).
  rewrite (N.mod_small (N.lxor (b2n y) (b2n k))) by exact Hyk.
  assert (N.lxor (b2n x) (N.lxor (b2n y) (b2n k)) < 256)%N as Hxyk by (apply lxor_lt_256; assumption).
  rewrite (N.mod_small (N.lxor (b2n x) (N.lxor (b2n y) (b2n k)))) by exact Hxyk.
  f_equal.
  rewrite !N.lxor_assoc, N.lxor_nilpotent, N.lxor_0_r. reflexivity.
Qed.

Lemma xor3_sym sa sb :
  xor3 sa (map (fun b => bxor b x5a) sb) = xor3 sb (map (fun b => bxor b x5a) sa).
Proof.
  revert sb; induction sa as [|x sa IH]; intros [|y sb]; cbn [xor3 map]; try reflexivity.
  rewrite IH, !bxor_mask_cancel, (bxor_comm x y). reflexivity.
Qed.

Lemma xor3_length a b : length (xor3 a b) = Nat.min (length a) (length b).
Proof.
  revert b; induction a as [|x a IH]; intros [|y b]; cbn [xor3 length Nat.min]; try reflexivity.
  rewrite IH. reflexivity.
Qed.

Lemma stub_shared_ok sa sb :
  length sa = 32 -> length sb = 32 ->
  stub_shared (priv_of Stub sa) (pub_of Stub sb)
  = Some (xor3 sa (map (fun b => bxor b x5a) sb)).
Proof.
  intros Ha Hb. unfold stub_shared, valid_priv, valid_pub. rewrite priv_of_eq, pub_of_eq.
  rewrite (valid_key_ok tag_rec2 x00 sa) by (reflexivity || exact Ha).
  rewrite (valid_key_ok tag_uec2 x02 (map (fun b => bxor b x5a) sb))
    by (reflexivity || (rewrite map_length; exact Hb)).
  cbn [andb].
  rewrite (key_shape_skip13 tag_rec2 x00 sa) by reflexivity.
  rewrite (key_shape_skip13 tag_uec2 x02 (map (fun b => bxor b x5a) sb)) by reflexivity.
  reflexivity.
Qed.

(** ** wrap *)
Lemma stub_wrap_rt sa sb r m :
  length sa = 32 -> length sb = 32 -> length r = 12 -> m <> [] ->
  (N.of_nat (length m) < MAXMSG)%N ->
  exists w, stub_wrap (priv_of Stub sa) (pub_of Stub sb) r m = Some w /\
            length w = 52 + length m /\
            stub_unwrap (priv_of Stub sb) (pub_of Stub sa) w = Some m.
Proof.
  intros Ha Hb Hr Hm Hlen.
  set (s := xor3 sa (map (fun b => bxor b x5a) sb)).
  set (e := stub_seal_enc s [] r m).
  assert (length e = 44 + length m) as Hel by (apply stub_seal_enc_length; exact Hr).
  exists (wrap_magic ++ le32 (length m + 44 + 8) ++ e).
  assert (length (wrap_magic ++ le32 (length m + 44 + 8) ++ e) = 52 + length m) as Hwl.
  { rewrite !app_length, wrap_magic_length, le32_length, Hel. lia. }
  split; [|split].
  - unfold stub_wrap. rewrite (stub_shared_ok sa sb Ha Hb). reflexivity.
  - exact Hwl.
  - unfold stub_unwrap. rewrite (stub_shared_ok sb sa Hb Ha), <- (xor3_sym sa sb).
    fold s. unfold SEAL_OVERHEAD. rewrite Hwl.
    destruct (Nat.leb_spec (52 + length m) (8 + 44)) as [Hle|Hgt].
    { destruct m; [contradiction| cbn [length] in Hle; lia]. }
    assert (firstn 4 (wrap_magic ++ le32 (length m + 44 + 8) ++ e) = wrap_magic) as ->
      by (apply firstn_app_len'; reflexivity).
    rewrite bytes_eqb_refl. cbn [negb].
    assert (sub 4 4 (wrap_magic ++ le32 (length m + 44 + 8) ++ e) = le32 (length m + 44 + 8)) as ->
      by (apply sc_sub_app_mid; [reflexivity| rewrite le32_length; reflexivity]).
    rewrite le32_dec by (unfold MAXMSG in Hlen; lia).
    replace (length m + 44 + 8) with (52 + length m) by lia.
    rewrite N.eqb_refl. cbn [negb].
    assert (skipn 8 (wrap_magic ++ le32 (52 + length m) ++ e) = e) as ->.
    { rewrite app_assoc. apply skipn_app_len'.
      rewrite app_length, wrap_magic_length, le32_length. reflexivity. }
    apply stub_seal_rt; assumption.
Qed.

(** ** the instance is correct *)
Theorem stub_correct : Correct Stub.
Proof.
  constructor.
  - intros k c r m Hr. exact (stub_seal_enc_length k c r m Hr).
  - intros k c r m _ Hm Hr Hlen. exact (stub_seal_rt k c r m Hm Hr Hlen).
  - intros k c x m H. exact (stub_seal_dec_len k c x m H).
  - intros s Hs. exact (stub_key_len s Hs).
  - intros sa sb r m Ha Hb Hr Hm Hlen. exact (stub_wrap_rt sa sb r m Ha Hb Hr Hm Hlen).
Qed.

Print Assumptions stub_correct.
