(** C13_statements: one-step unfolding of every function of the recursive parser block
    (GENERATED from Model/SqlStmtParse.v by tools/gen_sqlstmt_unfold.py: the bodies are verbatim copies; each
    lemma is proved by reflexivity, so a stale copy fails to compile). *)
From Acra Require Import Lib.Bytes Gen.Prec Gen.SqlWords Model.SqlStmt Model.SqlStmtParse.
From Coq Require Import Arith.

Section Unfold.
Variable pg : bool.
Notation pexpr := (SqlStmtParse.pexpr pg) (only parsing).
Notation pval := (SqlStmtParse.pval pg) (only parsing).
Notation ploop := (SqlStmtParse.ploop pg) (only parsing).
Notation pcond := (SqlStmtParse.pcond pg) (only parsing).
Notation punary := (SqlStmtParse.punary pg) (only parsing).
Notation pcollate := (SqlStmtParse.pcollate pg) (only parsing).
Notation pfargs := (SqlStmtParse.pfargs pg) (only parsing).
Notation patom := (SqlStmtParse.patom pg) (only parsing).
Notation pexprs := (SqlStmtParse.pexprs pg) (only parsing).
Notation pwhens := (SqlStmtParse.pwhens pg) (only parsing).
Notation pselexpr := (SqlStmtParse.pselexpr pg) (only parsing).
Notation pselexprs := (SqlStmtParse.pselexprs pg) (only parsing).
Notation pbase := (SqlStmtParse.pbase pg) (only parsing).
Notation ptails := (SqlStmtParse.ptails pg) (only parsing).
Notation psel := (SqlStmtParse.psel pg) (only parsing).
Notation punion := (SqlStmtParse.punion pg) (only parsing).
Notation ptfactor := (SqlStmtParse.ptfactor pg) (only parsing).
Notation ptref := (SqlStmtParse.ptref pg) (only parsing).
Notation pjcond := (SqlStmtParse.pjcond pg) (only parsing).
Notation pjoins := (SqlStmtParse.pjoins pg) (only parsing).
Notation ptrefs := (SqlStmtParse.ptrefs pg) (only parsing).
Notation porders := (SqlStmtParse.porders pg) (only parsing).
Notation tok_id := (SqlStmtParse.tok_id pg) (only parsing).
Notation tok_talias := (SqlStmtParse.tok_talias pg) (only parsing).
Notation pcol := (SqlStmtParse.pcol pg) (only parsing).
Notation star_head := (SqlStmtParse.star_head pg) (only parsing).
Notation ptname := (SqlStmtParse.ptname pg) (only parsing).
Notation atom_head := (SqlStmtParse.atom_head pg) (only parsing).
Notation jcond_head := (SqlStmtParse.jcond_head pg) (only parsing).
Notation lim_head := (SqlStmtParse.lim_head pg) (only parsing).
Notation lim_head2 := (SqlStmtParse.lim_head2 pg) (only parsing).
Notation plim := (SqlStmtParse.plim pg) (only parsing).

Lemma pexpr_S f (min : nat) (ts : list tok) :
  pexpr (S f) min ts =
      match expect_w W_not ts with
      | Some ts1 =>
          if min <=? L_NOT then
            match pexpr f L_NOT ts1 with
            | Some (x, ts2) => ploop f min (ENot x) ts2
            | None => None
            end
          else None
      | None =>
          match punary f ts with
          | Some (lhs, ts1) => ploop f min lhs ts1
          | None => None
          end
      end.
Proof. reflexivity. Qed.

Lemma pval_S f (min : nat) (ts : list tok) :
  pval (S f) min ts =
      match pexpr f min ts with
      | Some (x, r) => if is_v x then Some (x, r) else None
      | None => None
      end.
Proof. reflexivity. Qed.

Lemma ploop_S f (min : nat) (lhs : expr) (ts : list tok) :
  ploop (S f) min lhs ts =
      match tokprec ts with
      | None => Some (lhs, ts)
      | Some p =>
          if p <? min then Some (lhs, ts) else
          match loop_kind ts with
          | LKBin o ts1 =>
              if is_v lhs then
                match pval f (S p) ts1 with
                | Some (r, ts2) => ploop f min (EBin o lhs r) ts2
                | None => None
                end
              else None
          | LKAnd ts1 =>
              match pexpr f (S L_AND) ts1 with
              | Some (r, ts2) => ploop f min (EAnd lhs r) ts2
              | None => None
              end
          | LKOr ts1 =>
              match pexpr f (S L_OR) ts1 with
              | Some (r, ts2) => ploop f min (EOr lhs r) ts2
              | None => None
              end
          | LKIs ts1 =>
              match is_suffix ts1 with
              | Some (s, ts2) => ploop f min (EIs s lhs) ts2
              | None => None
              end
          | LKCond neg k ts1 => if is_v lhs then pcond f min lhs neg k ts1 else None
          | LKBad => None
          end
      end.
Proof. reflexivity. Qed.

Lemma pcond_S f (min : nat) (lhs : expr) (neg : bool) (k : ckind) (ts : list tok) :
  pcond (S f) min lhs neg k ts =
      match k with
      | CKIn =>
          match expect_p PLParen ts with
          | Some ts1 =>
              if head_w W_select ts1 then
                match psel f ts1 with
                | Some (q, ts2) =>
                    match expect_p PRParen ts2 with
                    | Some ts3 => ploop f min (ECmp (if neg then CNotIn else CIn) lhs (ESubq q)) ts3
                    | None => None
                    end
                | None => None
                end
              else
                match pexprs f ts1 with
                | Some (xs, ts2) =>
                    match expect_p PRParen ts2 with
                    | Some ts3 => ploop f min (ECmp (if neg then CNotIn else CIn) lhs (ETuple xs)) ts3
                    | None => None
                    end
                | None => None
                end
          | None => None
          end
      | CKLike il =>
          let op := if il then (if neg then CNotILike else CILike) else (if neg then CNotLike else CLike) in
          if il && negb pg then None else
          match pval f L_VAL ts with
          | Some (r, ts1) =>
              match expect_w W_escape ts1 with
              | Some ts2 =>
                  match pval f L_VAL ts2 with
                  | Some (esc, ts3) => ploop f min (ECmpEsc op lhs r esc) ts3
                  | None => None
                  end
              | None => ploop f min (ECmp op lhs r) ts1
              end
          | None => None
          end
      | CKBetween =>
          match pval f L_VAL ts with
          | Some (a, ts1) =>
              match expect_w W_and ts1 with
              | Some ts2 =>
                  match pval f L_VAL ts2 with
                  | Some (b, ts3) => ploop f min (ERange neg lhs a b) ts3
                  | None => None
                  end
              | None => None
              end
          | None => None
          end
      | CKSimple o =>
          match pval f L_VAL ts with
          | Some (r, ts1) => ploop f min (ECmp o lhs r) ts1
          | None => None
          end
      end.
Proof. reflexivity. Qed.

Lemma punary_S f (ts : list tok) :
  punary (S f) ts =
      match un_head ts with
      | Some (o, ts1) =>
          match punary f ts1 with
          | Some (x, ts2) =>
              if is_v x then match un_apply o x with Some y => Some (y, ts2) | None => None end else None
          | None => None
          end
      | None =>
          match patom f ts with
          | Some (x, ts1) => pcollate f x ts1
          | None => None
          end
      end.
Proof. reflexivity. Qed.

Lemma pcollate_S f (x : expr) (ts : list tok) :
  pcollate (S f) x ts =
      match collate_head ts with
      | CHSome cs ts' => if is_v x then pcollate f (ECollate x cs) ts' else None
      | CHBad => None
      | CHNone => Some (x, ts)
      end.
Proof. reflexivity. Qed.

Lemma pfargs_S f (q : ident) (n : bytes) (cls : N) (ts : list tok) :
  pfargs (S f) q n cls ts =
      match fargs_head ts with
      | FHEmpty r => if fclass_ok cls false SNil then Some (EFunc q n false SNil, r) else None
      | FHDistinct ts1 =>
          match pselexprs f ts1 with
          | Some (args, ts2) =>
              match expect_p PRParen ts2 with
              | Some r => if fclass_ok cls true args then Some (EFunc q n true args, r) else None
              | None => None
              end
          | None => None
          end
      | FHArgs ts1 =>
          match pselexprs f ts1 with
          | Some (args, ts2) =>
              match expect_p PRParen ts2 with
              | Some r => if fclass_ok cls false args then Some (EFunc q n false args, r) else None
              | None => None
              end
          | None => None
          end
      end.
Proof. reflexivity. Qed.

Lemma patom_S f (ts : list tok) :
  patom (S f) ts =
      match atom_head ts with
      | AHLit t v cs r => Some (ELit t v cs, r)
      | AHName i ts1 =>
          match pcol i ts1 with
          | Some (q, nm, ts2) =>
              match expect_p PLParen ts2 with
              | Some ts3 =>
                  match nm, q with
                  | Id QNone n, [] => pfargs f no_id n 0%N ts3
                  | Id QNone n, [qi] => if head_w W_distinct ts3 then None else pfargs f qi n 0%N ts3
                  | _, _ => None
                  end
              | None => Some (ECol q nm, ts2)
              end
          | None => None
          end
      | AHConst e r => Some (e, r)
      | AHExists ts1 =>
          match psel f ts1 with
          | Some (q, ts2) => match expect_p PRParen ts2 with Some r => Some (EExists q, r) | None => None end
          | None => None
          end
      | AHSubq ts1 =>
          match psel f ts1 with
          | Some (q, ts2) => match expect_p PRParen ts2 with Some r => Some (ESubq q, r) | None => None end
          | None => None
          end
      | AHParen ts1 =>
          match pexprs f ts1 with
          | Some (xs, ts2) => match expect_p PRParen ts2 with Some r => Some (one_or_tuple xs, r) | None => None end
          | None => None
          end
      | AHCase ts1 =>
          match (if head_w W_when ts1 then Some (NoE, ts1)
                 else match pexpr f 0 ts1 with Some (x, r) => Some (SomeE x, r) | None => None end) with
          | Some (x, ts2) =>
              match pwhens f ts2 with
              | Some (WNil, _) => None
              | Some (ws, ts3) =>
                  match popt (pexpr f 0) W_else ts3 with
                  | Some (el, ts4) => match expect_w W_end ts4 with Some r => Some (ECase x ws el, r) | None => None end
                  | None => None
                  end
              | None => None
              end
          | None => None
          end
      | AHConvert ts1 =>
          match pexpr f 0 ts1 with
          | Some (x, ts2) =>
              match expect_p PComma ts2 with
              | Some ts3 =>
                  match pctype ts3 with
                  | Some (ty, ts4) => match expect_p PRParen ts4 with Some r => Some (EConvert x ty, r) | None => None end
                  | None => None
                  end
              | None =>
                  match expect_w W_using ts2 with
                  | Some (TId cs :: TP PRParen :: r) => Some (EConvertUsing x cs, r)
                  | _ => None
                  end
              end
          | None => None
          end
      | AHIntervalPg v r => Some (EInterval (ELit VT_StrVal v []) [], r)
      | AHInterval ts1 =>
          match pval f L_VAL ts1 with
          | Some (x, t :: r) => match is_unit_tok t with Some u => Some (EInterval x u, r) | None => None end
          | _ => None
          end
      | AHValues i ts1 =>
          match pcol i ts1 with
          | Some (q, n, ts2) => match expect_p PRParen ts2 with Some r => Some (EValuesFunc q n, r) | None => None end
          | None => None
          end
      | AHKwFunc n cls ts1 => pfargs f no_id n cls ts1
      | AHNone => None
      end.
Proof. reflexivity. Qed.

Lemma pexprs_S f (ts : list tok) :
  pexprs (S f) ts =
      match pexpr f 0 ts with
      | Some (x, ts1) =>
          match expect_p PComma ts1 with
          | Some ts2 =>
              match pexprs f ts2 with
              | Some (xs, ts3) => Some (XCons x xs, ts3)
              | None => None
              end
          | None => Some (XCons x XNil, ts1)
          end
      | None => None
      end.
Proof. reflexivity. Qed.

Lemma pwhens_S f (ts : list tok) :
  pwhens (S f) ts =
      match expect_w W_when ts with
      | Some ts1 =>
          match pexpr f 0 ts1 with
          | Some (c, ts2) =>
              match expect_w W_then ts2 with
              | Some ts3 =>
                  match pexpr f 0 ts3 with
                  | Some (v, ts4) =>
                      match pwhens f ts4 with
                      | Some (ws, ts5) => Some (WCons c v ws, ts5)
                      | None => None
                      end
                  | None => None
                  end
              | None => None
              end
          | None => None
          end
      | None => Some (WNil, ts)
      end.
Proof. reflexivity. Qed.

Lemma pselexpr_S f (ts : list tok) :
  pselexpr (S f) ts =
      match star_head ts with
      | Some (q, r) => Some (SStar q, r)
      | None =>
          match pexpr f 0 ts with
          | Some (x, ts1) =>
              match as_alias tok_alias ts1 with
              | Some (a, r) => Some (SAliased x a, r)
              | None => None
              end
          | None => None
          end
      end.
Proof. reflexivity. Qed.

Lemma pselexprs_S f (ts : list tok) :
  pselexprs (S f) ts =
      match pselexpr f ts with
      | Some (x, ts1) =>
          match expect_p PComma ts1 with
          | Some ts2 =>
              match pselexprs f ts2 with
              | Some (xs, ts3) => Some (SCons x xs, ts3)
              | None => None
              end
          | None => Some (SCons x SNil, ts1)
          end
      | None => None
      end.
Proof. reflexivity. Qed.

Lemma pbase_S f (ts : list tok) :
  pbase (S f) ts =
      match expect_w W_select ts with
      | Some ts1 =>
          let (d, ts2) := match expect_w W_distinct ts1 with Some r => (true, r) | None => (false, ts1) end in
          match pselexprs f ts2 with
          | Some (xs, ts3) =>
              match (match expect_w W_from ts3 with Some ts4 => ptrefs f ts4 | None => Some (x_dual_t, ts3) end) with
              | Some (from, ts5) =>
                  match popt (pexpr f 0) W_where ts5 with
                  | Some (wh, ts6) =>
                      match (match expect_w W_group ts6 with
                             | Some ts7 => match expect_w W_by ts7 with Some ts8 => pexprs f ts8 | None => None end
                             | None => Some (XNil, ts6)
                             end) with
                      | Some (gb, ts9) =>
                          match popt (pexpr f 0) W_having ts9 with
                          | Some (hv, ts10) => Some (Select d xs from wh gb hv ONil LNone LkNone, ts10)
                          | None => None
                          end
                      | None => None
                      end
                  | None => None
                  end
              | None => None
              end
          | None => None
          end
      | None => None
      end.
Proof. reflexivity. Qed.

Lemma ptails_S f (ts : list tok) :
  ptails (S f) ts =
      match (match expect_w W_order ts with
             | Some ts1 => match expect_w W_by ts1 with Some ts2 => porders f ts2 | None => None end
             | None => Some (ONil, ts)
             end) with
      | Some (ob, ts3) =>
          match plim (pexpr f 0) ts3 with
          | Some (lm, ts4) => let (lk, ts5) := plock ts4 in Some (ob, lm, lk, ts5)
          | None => None
          end
      | None => None
      end.
Proof. reflexivity. Qed.

Lemma psel_S f (ts : list tok) :
  psel (S f) ts =
      match expect_p PLParen ts with
      | Some ts1 =>
          match psel f ts1 with
          | Some (s, ts2) =>
              match expect_p PRParen ts2 with
              | Some ts3 => punion f (ParenSel s) ts3
              | None => None
              end
          | None => None
          end
      | None =>
          match pbase f ts with
          | Some (b, ts1) =>
              match ptails f ts1 with
              | Some (ob, lm, lk, ts2) => punion f (with_tails b ob lm lk) ts2
              | None => None
              end
          | None => None
          end
      end.
Proof. reflexivity. Qed.

Lemma punion_S f (lhs : sel) (ts : list tok) :
  punion (S f) lhs ts =
      match expect_w W_union ts with
      | Some ts1 =>
          let (ty, ts2) := utype_head ts1 in
          match (match expect_p PLParen ts2 with
                 | Some ts3 =>
                     match psel f ts3 with
                     | Some (s, ts4) => match expect_p PRParen ts4 with Some r => Some (ParenSel s, r) | None => None end
                     | None => None
                     end
                 | None => pbase f ts2
                 end) with
          | Some (rhs, ts5) =>
              match ptails f ts5 with
              | Some (ob, lm, lk, ts6) => punion f (Union ty lhs rhs ob lm lk) ts6
              | None => None
              end
          | None => None
          end
      | None => if is_paren lhs then None else Some (lhs, ts)
      end.
Proof. reflexivity. Qed.

Lemma ptfactor_S f (ts : list tok) :
  ptfactor (S f) ts =
      match expect_p PLParen ts with
      | Some ts1 =>
          if head_w W_select ts1 then
            match psel f ts1 with
            | Some (s, ts2) =>
                match expect_p PRParen ts2 with
                | Some ts3 =>
                    match as_alias tok_talias ts3 with
                    | Some (a, r) => if id_empty a then None else Some (TSubq s a, r)
                    | None => None
                    end
                | None => None
                end
            | None => None
            end
          else
            match ptrefs f ts1 with
            | Some (l, ts2) => match expect_p PRParen ts2 with Some r => Some (TParen l, r) | None => None end
            | None => None
            end
      | None =>
          match ptname ts with
          | Some (q, n, ts1) =>
              match as_alias tok_talias ts1 with
              | Some (a, r) => Some (TTable q n a, r)
              | None => None
              end
          | None => None
          end
      end.
Proof. reflexivity. Qed.

Lemma ptref_S f (ts : list tok) :
  ptref (S f) ts =
      match ptfactor f ts with
      | Some (l, ts1) => pjoins f l ts1
      | None => None
      end.
Proof. reflexivity. Qed.

Lemma pjcond_S f (usng : bool) (ts : list tok) :
  pjcond (S f) usng ts =
      match jcond_head usng ts with
      | JHOn ts1 => match pexpr f 0 ts1 with Some (x, r) => Some (JOn x, r) | None => None end
      | JHUsing cols r => Some (JUsing cols, r)
      | JHNone => Some (JNone, ts)
      | JHBad => None
      end.
Proof. reflexivity. Qed.

Lemma pjoins_S f (lhs : texpr) (ts : list tok) :
  pjoins (S f) lhs ts =
      match join_head ts with
      | Some (k, ts1) =>
          match k with
          | JLeft | JRight =>
              match ptref f ts1 with
              | Some (r, ts2) =>
                  match pjcond f true ts2 with
                  | Some (JNone, _) => None
                  | Some (c, ts3) => pjoins f (TJoin lhs k r c) ts3
                  | None => None
                  end
              | None => None
              end
          | JJoin | JStraight =>
              match ptfactor f ts1 with
              | Some (r, ts2) =>
                  match pjcond f (match k with JJoin => true | _ => false end) ts2 with
                  | Some (c, ts3) => pjoins f (TJoin lhs k r c) ts3
                  | None => None
                  end
              | None => None
              end
          | _ =>
              match ptfactor f ts1 with
              | Some (r, ts2) => pjoins f (TJoin lhs k r JNone) ts2
              | None => None
              end
          end
      | None => Some (lhs, ts)
      end.
Proof. reflexivity. Qed.

Lemma ptrefs_S f (ts : list tok) :
  ptrefs (S f) ts =
      match ptref f ts with
      | Some (t, ts1) =>
          match expect_p PComma ts1 with
          | Some ts2 =>
              match ptrefs f ts2 with
              | Some (l, ts3) => Some (TCons t l, ts3)
              | None => None
              end
          | None => Some (TCons t TNil, ts1)
          end
      | None => None
      end.
Proof. reflexivity. Qed.

Lemma porders_S f (ts : list tok) :
  porders (S f) ts =
      match pexpr f 0 ts with
      | Some (x, ts1) =>
          let (d, ts2) := pdir ts1 in
          match expect_p PComma ts2 with
          | Some ts3 =>
              match porders f ts3 with
              | Some (os, ts4) => Some (OCons x d os, ts4)
              | None => None
              end
          | None => Some (OCons x d ONil, ts2)
          end
      | None => None
      end.
Proof. reflexivity. Qed.
End Unfold.
