(** The two readings of the WHERE placeholder coincide on patterns that do not use it. *)
From Coq Require Import List Bool NArith Arith Lia.
From Acra Require Import Lib.Bytes Lib.Outcome Model.CensorPattern Proofs.CensorTree Proofs.CensorPatternSound.
Import ListNotations.

Lemma inst_kids_wt (fa fb : tree -> tree -> bool) k : forall ps ss i skip,
  Forall (fun p => forall s, fa p s = fb p s) ps ->
  (forall j, opt_nat_is (where_idx k) (i + j) = true -> is_where_ph (nth j ps tnil) = false) ->
  inst_kids fa true k i ps ss skip = inst_kids fb false k i ps ss skip.
Proof.
  induction ps as [|p ps IH]; intros [|s ss] i skip Hall Hw; try reflexivity.
  cbn [inst_kids].
  assert (Hrest : forall sk, inst_kids fa true k (S i) ps ss sk = inst_kids fb false k (S i) ps ss sk).
  { intro sk. apply IH; [eapply Forall_inv_tail; eauto|]. intros j Hj. apply (Hw (S j)). rewrite Nat.add_succ_r. exact Hj. }
  destruct (ignorable k i || skip && after_where k i); [apply Hrest|].
  destruct (opt_nat_is (where_idx k) i) eqn:Ei; cbn [andb].
  - pose proof (Hw 0) as H0. rewrite Nat.add_0_r in H0. cbn [nth] in H0. rewrite (H0 Ei).
    rewrite (Forall_inv Hall), Hrest. reflexivity.
  - rewrite (Forall_inv Hall), Hrest. reflexivity.
Qed.

Lemma inst_tuple_wt (fa fb : tree -> tree -> bool) : forall ps ss,
  Forall (fun p => forall s, fa p s = fb p s) ps -> inst_tuple fa ps ss = inst_tuple fb ps ss.
Proof.
  induction ps as [|p ps IH]; intros [|s ss] Hall; try reflexivity.
  cbn [inst_tuple]. rewrite (Forall_inv Hall), (IH ss (Forall_inv_tail Hall)). reflexivity.
Qed.

Lemma no_where_ph_unfold k l cs :
  no_where_ph (T k l cs) =
  forallb no_where_ph cs &&
  match where_idx k with Some i => negb (is_where_ph (nth i cs tnil)) | None => true end.
Proof. reflexivity. Qed.

Lemma inst_wt_irrelevant : forall p, no_where_ph p = true -> forall s, inst true p s = inst false p s.
Proof.
  induction p as [k l cs IH] using tree_ind'. intros Hn s.
  rewrite no_where_ph_unfold in Hn. apply andb_true_iff in Hn. destruct Hn as [Hk Hw].
  assert (Hall : Forall (fun p => forall s, inst true p s = inst false p s) cs).
  { clear Hw. induction cs as [|c cs IHcs]; constructor.
    - cbn [forallb] in Hk. apply andb_true_iff in Hk. exact (Forall_inv IH (proj1 Hk)).
    - cbn [forallb] in Hk. apply andb_true_iff in Hk. exact (IHcs (Forall_inv_tail IH) (proj2 Hk)). }
  assert (Hkids : forall ss, inst_kids (inst true) true k 0 cs ss false = inst_kids (inst false) false k 0 cs ss false).
  { intro ss. apply inst_kids_wt; auto. intros j Hj. cbn [Nat.add] in Hj.
    destruct (where_idx k) as [i|]; [|discriminate Hj]. cbn [opt_nat_is] in Hj. apply Nat.eqb_eq in Hj. subst j.
    apply negb_true_iff in Hw. exact Hw. }
  rewrite !inst_unfold. cbn beta zeta. rewrite Hkids, (inst_tuple_wt (inst true) (inst false) cs (tkids s) Hall).
  reflexivity.
Qed.

(** on patterns without %%WHERE%% the matcher accepts only instances in the DOCUMENTED sense *)
Lemma match_impl_sound_doc p s :
  wf p = true -> wf s = true -> no_where_ph p = true ->
  match_impl p s = Ok true -> instance_of p s = true.
Proof.
  intros Hp Hs Hn H. unfold instance_of. rewrite <- inst_wt_irrelevant by assumption.
  apply match_impl_sound; assumption.
Qed.
