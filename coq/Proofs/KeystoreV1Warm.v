(** C06 — keystore v1 with a WARM cache (no reset): the cached keystore never stops offering a
    surviving key it offered earlier.

    Ghost state carried along a history: [lo] (last clock reading), [G] (labels generated so far),
    [O] (keys offered so far by a successful read-all, per slot).  Invariant [W]:
    - a cached rotated file ([POld ts]) has the content of every file of that name still in the
      history directory (directories only grow at time stamps above [lo], entries never change);
    - a cached list of historical names equals the directory (it is purged on every change);
    - a cached CURRENT private key is either the real current key, or stale — and then the real
      current key has never been offered (so a stale entry can hide only a never-offered key).
    The cache is looked at as a partial map ([cview]); eviction only removes entries. *)
From Coq Require Import List NArith ZArith Bool Lia.
From Acra Require Import Lib.Bytes Lib.Outcome Model.KeySpec Model.KeystoreV1 Proofs.KeySpec Proofs.KeystoreV1
  Proofs.KeystoreV1Cache.
Import ListNotations.
Local Open Scope N_scope.

(** * the cache as a partial map *)
Lemma ckey_eqb_spec a b : reflect (a = b) (ckey_eqb a b).
Proof.
  destruct (ckey_eqb a b) eqn:E; constructor.
  - apply ckey_eqb_eq. exact E.
  - intro H. apply ckey_eqb_eq in H. congruence.
Qed.

Definition cview (m : cmode) (c : cacheT) (k : ckey) : option cval :=
  match m with NoCache => None | Lru _ => clookup k c end.

Definition cinv (m : cmode) (c : cacheT) (P : ckey -> cval -> Prop) : Prop :=
  forall k v, cview m c k = Some v -> P k v.

Lemma clookup_cremove k k' c :
  clookup k' (cremove k c) = if ckey_eqb k k' then None else clookup k' c.
Proof.
  unfold cremove. induction c as [|[k1 v1] r IH]; cbn [filter clookup fst].
  - destruct (ckey_eqb k k'); reflexivity.
  - destruct (ckey_eqb_spec k k1) as [E1|E1]; cbn [negb].
    + subst k1. rewrite IH. destruct (ckey_eqb_spec k k') as [E2|E2]; [reflexivity|].
      destruct (ckey_eqb_spec k' k) as [E3|E3]; [congruence | reflexivity].
    + cbn [clookup]. rewrite IH. destruct (ckey_eqb_spec k' k1) as [E3|E3]; [|reflexivity].
      subst k1. destruct (ckey_eqb_spec k k') as [E2|E2]; [contradiction | reflexivity].
Qed.

Lemma clookup_removelast k c v : clookup k (removelast c) = Some v -> clookup k c = Some v.
Proof.
  induction c as [|[k1 v1] r IH]; intro H; [discriminate|].
  cbn [removelast] in H. destruct r as [|e r']; [discriminate|].
  cbn [clookup] in H |- *. destruct (ckey_eqb k k1); [exact H | apply IH; exact H].
Qed.

Lemma cview_cget_fst m c k : fst (cget m c k) = cview m c k.
Proof. unfold cget, cview. destruct m as [|mx]; [reflexivity|]. destruct (clookup k c); reflexivity. Qed.

Lemma cview_cget_snd m c k k' v : cview m (snd (cget m c k)) k' = Some v -> cview m c k' = Some v.
Proof.
  unfold cget, cview. destruct m as [|mx]; [intro H; exact H|].
  destruct (clookup k c) as [v0|] eqn:E; cbn [snd]; [|intro H; exact H].
  cbn [clookup]. destruct (ckey_eqb_spec k' k) as [E1|E1].
  - subst k'. intro H. rewrite E. exact H.
  - rewrite clookup_cremove. destruct (ckey_eqb_spec k k') as [E2|E2]; [discriminate | intro H; exact H].
Qed.

Lemma cview_cadd m c k v k' v' :
  cview m (cadd m c k v) k' = Some v' -> (k' = k /\ v' = v) \/ (k' <> k /\ cview m c k' = Some v').
Proof.
  unfold cadd, cview. destruct m as [|mx]; [discriminate|].
  assert (Hcons : forall c0, (forall x, clookup k' c0 = Some x -> clookup k' c = Some x) ->
            clookup k' ((k, v) :: c0) = Some v' -> (k' = k /\ v' = v) \/ (k' <> k /\ clookup k' c = Some v')).
  { intros c0 Hc0 H. cbn [clookup] in H. destruct (ckey_eqb_spec k' k) as [E1|E1].
    - left. split; [exact E1 | congruence].
    - right. split; [exact E1 | apply Hc0; exact H]. }
  destruct (clookup k c) as [v0|] eqn:E.
  - apply Hcons. intros x Hx. rewrite clookup_cremove in Hx. destruct (ckey_eqb k k'); [discriminate | exact Hx].
  - destruct (Nat.eqb mx 0 || Nat.leb (length ((k, v) :: c)) mx)%bool.
    + apply Hcons. intros x Hx. exact Hx.
    + intro H. apply clookup_removelast in H. revert H. apply Hcons. intros x Hx. exact Hx.
Qed.

Lemma cinv_nil m P : cinv m [] P.
Proof. intros k v H. unfold cview in H. destruct m; discriminate. Qed.

Lemma cinv_impl m c (P Q : ckey -> cval -> Prop) :
  cinv m c P -> (forall k v, P k v -> Q k v) -> cinv m c Q.
Proof. intros H HPQ k v Hk. apply HPQ. apply H. exact Hk. Qed.

(** after [Get k] every entry still satisfies [P]; the entry of [k], if any, is the one returned *)
Lemma cinv_cget m c k (P : ckey -> cval -> Prop) :
  cinv m c P ->
  cinv m (snd (cget m c k)) (fun k' v' => P k' v' /\ (k' = k -> fst (cget m c k) = Some v')).
Proof.
  intros H k' v' Hk. apply cview_cget_snd in Hk. split; [apply H; exact Hk|].
  intro E. subst k'. rewrite cview_cget_fst. exact Hk.
Qed.

Lemma cget_hit m c k v (P : ckey -> cval -> Prop) : cinv m c P -> fst (cget m c k) = Some v -> P k v.
Proof. intros H Hg. apply H. rewrite <- cview_cget_fst. exact Hg. Qed.

(** [Add k v] overwrites: whatever was known about the entry of [k] is replaced *)
Lemma cinv_cadd m c k v (P' P : ckey -> cval -> Prop) :
  cinv m c P' -> (forall k' v', k' <> k -> P' k' v' -> P k' v') -> P k v -> cinv m (cadd m c k v) P.
Proof.
  intros H Hother Hk k' v' Hv. apply cview_cadd in Hv. destruct Hv as [[E1 E2]|[E1 E2]].
  - subst. exact Hk.
  - apply Hother; [exact E1 | apply H; exact E2].
Qed.

Lemma cinv_cadd_same m c k v (P : ckey -> cval -> Prop) : cinv m c P -> P k v -> cinv m (cadd m c k v) P.
Proof. intros H Hk. apply (cinv_cadd m c k v P P); [exact H | intros k' v' _ Hp; exact Hp | exact Hk]. Qed.

(** * the invariant *)
Definition wentry (lo : N) (fs : fsT) (G : list ord) (O : slot -> ord -> Prop) (k : ckey) (v : cval) : Prop :=
  match v with
  | CNil => True
  | CV o =>
      match k with
      | CK f (POld ts) => In o G /\ ts <= lo /\ forall o', In (ts, o') (f_old (fs f)) -> o' = o
      | CK f PCur =>
          In o G /\ (snd f = Priv -> f_cur (fs f) = Some o \/ forall c, f_cur (fs f) = Some c -> ~ O (fst f) c)
      | CH _ => False
      end
  | CL l => match k with CH f => l = hist_paths fs f | CK _ _ => False end
  end.

Record WF (lo : N) (G : list ord) (O : slot -> ord -> Prop) (fs : fsT) : Prop := {
  wf_hist : forall f, hist_ok lo (f_old (fs f));
  wf_gen : forall f o, f_cur (fs f) = Some o \/ In o (map snd (f_old (fs f))) -> In o G;
  wf_off : forall s o, O s o -> In o G;
  wf_cur : forall f c, snd f = Priv -> f_cur (fs f) = Some c -> ~ In c (map snd (f_old (fs f)))
}.

Definition W (m : cmode) (lo : N) (G : list ord) (O : slot -> ord -> Prop) (st : v1state) : Prop :=
  WF lo G O (v_fs st) /\ cinv m (v_cache st) (wentry lo (v_fs st) G O).

Lemma wentry_mono lo lo' fs G G' (O O' : slot -> ord -> Prop) k v :
  lo <= lo' -> incl G G' -> (forall s c, O' s c -> O s c) ->
  wentry lo fs G O k v -> wentry lo' fs G' O' k v.
Proof.
  intros Hlo HG HO H. destruct v as [o|l|]; [|exact H|exact I].
  destruct k as [f [|ts]|f]; unfold wentry in *.
  - destruct H as [H1 H2]. split; [apply HG; exact H1|]. intro Hp. destruct (H2 Hp) as [H3|H3]; [left; exact H3|].
    right. intros c Hc Hoc. apply (H3 c Hc). apply HO. exact Hoc.
  - destruct H as [H1 [H2 H3]]. split; [apply HG; exact H1|]. split; [lia | exact H3].
  - exact H.
Qed.

Lemma WF_mono lo lo' G G' (O O' : slot -> ord -> Prop) fs :
  lo <= lo' -> incl G G' -> (forall s c, O' s c -> O s c) -> WF lo G O fs -> WF lo' G' O' fs.
Proof.
  intros Hlo HG HO [H1 H2 H3 H4]. constructor.
  - intro f. apply (hist_ok_weaken lo); [exact Hlo | apply H1].
  - intros f o Ho. apply HG. apply (H2 f). exact Ho.
  - intros s o Ho. apply HG. apply (H3 s). apply HO. exact Ho.
  - exact H4.
Qed.

Lemma W_mono m lo lo' G G' (O O' : slot -> ord -> Prop) st :
  lo <= lo' -> incl G G' -> (forall s c, O' s c -> O s c) -> W m lo G O st -> W m lo' G' O' st.
Proof.
  intros Hlo HG HO [H1 H2]. split; [apply (WF_mono lo lo' G G' O O'); assumption|].
  apply (cinv_impl _ _ _ _ H2). intros k v. apply wentry_mono; assumption.
Qed.

Lemma W_init m : W m 0 [] (fun _ _ => False) v1_init.
Proof.
  split; [|apply cinv_nil]. constructor; cbn [v1_init v_fs fs_init f_cur f_old map].
  - intro f. split; [exact I | constructor].
  - intros f o [H|H]; [discriminate | contradiction].
  - intros s o H. contradiction.
  - intros f c _ H. discriminate.
Qed.

(** every file, loaded into the cache, is an admissible entry *)
Lemma wentry_old lo G O fs f ts x :
  WF lo G O fs -> In (ts, x) (f_old (fs f)) -> wentry lo fs G O (CK f (POld ts)) (CV x).
Proof.
  intros HW Hin. unfold wentry. split; [|split].
  - apply (wf_gen _ _ _ _ HW f). right. apply (in_map snd) in Hin. exact Hin.
  - destruct (wf_hist _ _ _ _ HW f) as [_ Hf]. rewrite Forall_forall in Hf. apply (Hf _ Hin).
  - intros o' Ho'. destruct (wf_hist _ _ _ _ HW f) as [Ha _].
    pose proof (asc_find _ _ _ Ha Hin) as E1. pose proof (asc_find _ _ _ Ha Ho') as E2. congruence.
Qed.

Lemma file_old_in fs f ts o :
  file_content fs f (POld ts) = Some o -> In (ts, o) (f_old (fs f)).
Proof.
  cbn [file_content]. destruct (find (fun e => fst e =? ts) (f_old (fs f))) as [[t x]|] eqn:E; [|discriminate].
  cbn [option_map snd]. intro H. inversion H. subst x. apply find_some in E. destruct E as [E1 E2].
  cbn [fst] in E2. apply N.eqb_eq in E2. subst t. exact E1.
Qed.

Lemma wentry_file lo G O fs f p o :
  WF lo G O fs -> file_content fs f p = Some o -> wentry lo fs G O (CK f p) (CV o).
Proof.
  intros HW Hf. destruct p as [|ts].
  - cbn [file_content] in Hf. unfold wentry. split.
    + apply (wf_gen _ _ _ _ HW f). left. exact Hf.
    + intros _. left. exact Hf.
  - apply wentry_old; [exact HW | apply file_old_in; exact Hf].
Qed.

Lemma fupd_cases fs f e g : (g = f /\ fupd fs f e g = e) \/ (g <> f /\ fupd fs f e g = fs g).
Proof.
  unfold fupd. destruct (fname_eqb g f) eqn:E.
  - left. split; [apply fname_eqb_eq; exact E | reflexivity].
  - right. split; [apply fname_eqb_neq; exact E | reflexivity].
Qed.

(** one file is replaced and one cache entry purged: what has to hold for [W] to survive *)
Lemma W_fupd m lo lo' G G' O st f e' k0 :
  W m lo G O st ->
  lo <= lo' -> incl G G' ->
  hist_ok lo' (f_old e') ->
  (forall o, f_cur e' = Some o \/ In o (map snd (f_old e')) -> In o G') ->
  (snd f = Priv -> forall c, f_cur e' = Some c -> ~ In c (map snd (f_old e'))) ->
  (forall ts o', ts <= lo -> In (ts, o') (f_old e') -> In (ts, o') (f_old (v_fs st f))) ->
  (snd f = Priv -> f_cur e' = f_cur (v_fs st f) \/ forall c, f_cur e' = Some c -> ~ O (fst f) c) ->
  (k0 = CH f \/ f_old e' = f_old (v_fs st f)) ->
  W m lo' G' O {| v_fs := fupd (v_fs st) f e'; v_cache := cadd m (v_cache st) k0 CNil |}.
Proof.
  intros [HF HC] Hlo HG Hh Hg Hc Hold Hcur Hk. split; cbn [v_fs v_cache].
  - constructor.
    + intro g. destruct (fupd_cases (v_fs st) f e' g) as [[E1 E2]|[E1 E2]]; rewrite E2.
      * exact Hh.
      * apply (hist_ok_weaken lo); [exact Hlo | apply (wf_hist _ _ _ _ HF)].
    + intros g o. destruct (fupd_cases (v_fs st) f e' g) as [[E1 E2]|[E1 E2]]; rewrite E2.
      * apply Hg.
      * intro Ho. apply HG. apply (wf_gen _ _ _ _ HF g). exact Ho.
    + intros s o Ho. apply HG. apply (wf_off _ _ _ _ HF s). exact Ho.
    + intros g c Hp. destruct (fupd_cases (v_fs st) f e' g) as [[E1 E2]|[E1 E2]]; rewrite E2.
      * subst g. apply Hc. exact Hp.
      * apply (wf_cur _ _ _ _ HF g c Hp).
  - apply (cinv_cadd m (v_cache st) k0 CNil (wentry lo (v_fs st) G O)); [exact HC | | exact I].
    intros k v Hne Hw. destruct v as [o|l|]; [| |exact I].
    + destruct k as [g [|ts]|g]; unfold wentry in *.
      * destruct Hw as [H1 H2]. split; [apply HG; exact H1|]. intro Hp.
        destruct (fupd_cases (v_fs st) f e' g) as [[E1 E2]|[E1 E2]]; rewrite E2; [|apply H2; exact Hp].
        subst g. destruct (Hcur Hp) as [H3|H3]; [rewrite H3; apply H2; exact Hp | right; exact H3].
      * destruct Hw as [H1 [H2 H3]]. split; [apply HG; exact H1|]. split; [lia|].
        destruct (fupd_cases (v_fs st) f e' g) as [[E1 E2]|[E1 E2]]; rewrite E2; [|exact H3].
        subst g. intros o' Ho'. apply H3. apply Hold; [exact H2 | exact Ho'].
      * exact Hw.
    + destruct k as [g p|g]; unfold wentry in *; [exact Hw|].
      subst l. unfold hist_paths.
      destruct (fupd_cases (v_fs st) f e' g) as [[E1 E2]|[E1 E2]]; rewrite E2; [|reflexivity].
      subst g. destruct Hk as [Hk|Hk]; [congruence | rewrite Hk; reflexivity].
Qed.

Lemma backup_labels lo G O fs f ts x :
  WF lo G O fs -> In x (map snd (backup (fs f) ts)) -> In x G.
Proof.
  intros HF Hx. unfold backup in Hx. destruct (f_cur (fs f)) as [c|] eqn:Ec.
  - rewrite map_app in Hx. apply in_app_or in Hx. destruct Hx as [Hx|Hx].
    + apply (wf_gen _ _ _ _ HF f). right. exact Hx.
    + cbn [map snd In] in Hx. destruct Hx as [Hx|Hx]; [|contradiction]. subst x.
      apply (wf_gen _ _ _ _ HF f). left. exact Ec.
  - apply (wf_gen _ _ _ _ HF f). right. exact Hx.
Qed.

(** WriteKeyFile cannot fail while the clock increases *)
Lemma write_W m lo G G' O st f ts o :
  W m lo G O st -> lo < ts -> incl G G' -> In o G' -> (snd f = Priv -> ~ In o G) ->
  exists st', write_key_file m st f ts o = Ok st' /\ W m ts G' O st'
    /\ f_cur (v_fs st' f) = Some o /\ (forall g, g <> f -> v_fs st' g = v_fs st g).
Proof.
  intros HW Hlt HG Ho Hfresh. pose proof HW as [HF HC].
  assert (E : write_key_file m st f ts o
              = Ok {| v_fs := fupd (v_fs st) f {| f_cur := Some o; f_old := backup (v_fs st f) ts |};
                      v_cache := cadd m (v_cache st) (CH f) CNil |}).
  { unfold write_key_file, backup. destruct (f_cur (v_fs st f)) as [c|]; [|reflexivity].
    rewrite insert_ts_append by (apply (hist_ok_below lo); [exact Hlt | apply (wf_hist _ _ _ _ HF)]).
    reflexivity. }
  eexists. split; [exact E|]. split; [|split].
  - apply (W_fupd m lo ts G G' O st f _ (CH f) HW); cbn [f_cur f_old].
    + lia.
    + exact HG.
    + apply (hist_ok_backup lo); [exact Hlt | lia | apply (wf_hist _ _ _ _ HF)].
    + intros x [Hx|Hx]; [inversion Hx; subst x; exact Ho|].
      apply HG. apply (backup_labels _ _ _ _ _ _ _ HF Hx).
    + intros Hp c Hc Hin. inversion Hc. subst c. apply (Hfresh Hp). apply (backup_labels _ _ _ _ _ _ _ HF Hin).
    + intros t o' Ht Hin. unfold backup in Hin. destruct (f_cur (v_fs st f)) as [c|]; [|exact Hin].
      apply in_app_or in Hin. destruct Hin as [Hin|Hin]; [exact Hin|].
      cbn [In] in Hin. destruct Hin as [Hin|Hin]; [|contradiction]. inversion Hin. lia.
    + intro Hp. right. intros c Hc Hoc. inversion Hc. subst c. apply (Hfresh Hp). apply (wf_off _ _ _ _ HF _ _ Hoc).
    + left. reflexivity.
  - cbn [v_fs]. rewrite fupd_same. reflexivity.
  - intros g Hg. cbn [v_fs]. apply fupd_other. exact Hg.
Qed.

Lemma destroy_rot_W m lo G O st f i st' :
  W m lo G O st -> destroy_rot_file m st f i = Ok st' -> W m lo G O st'.
Proof.
  intros HW E. pose proof HW as [HF HC]. unfold destroy_rot_file in E.
  destruct (Nat.eqb (length (f_old (v_fs st f))) 0 || (i <? 2)%Z || (Z.of_nat (length (f_old (v_fs st f))) + 1 <? i)%Z)%bool;
    [discriminate|].
  inversion E. subst st'.
  apply (W_fupd m lo lo G G O st f _ (CH f) HW); cbn [f_cur f_old].
  - lia.
  - apply incl_refl.
  - apply hist_ok_remove. apply (wf_hist _ _ _ _ HF).
  - intros x [Hx|Hx]; apply (wf_gen _ _ _ _ HF f); [left; exact Hx | right].
    rewrite map_remove_nth in Hx. apply remove_nth_incl in Hx. exact Hx.
  - intros Hp c Hc Hin. apply (wf_cur _ _ _ _ HF f c Hp Hc).
    rewrite map_remove_nth in Hin. apply remove_nth_incl in Hin. exact Hin.
  - intros t o' _ Hin. apply remove_nth_incl in Hin. exact Hin.
  - intros _. left. reflexivity.
  - left. reflexivity.
Qed.

Lemma remove_cur_W m lo G O st f :
  W m lo G O st ->
  W m lo G O {| v_fs := remove_cur (v_fs st) f; v_cache := cadd m (v_cache st) (CK f PCur) CNil |}.
Proof.
  intro HW. pose proof HW as [HF HC]. unfold remove_cur.
  apply (W_fupd m lo lo G G O st f _ (CK f PCur) HW); cbn [f_cur f_old].
  - lia.
  - apply incl_refl.
  - apply (wf_hist _ _ _ _ HF).
  - intros x [Hx|Hx]; [discriminate|]. apply (wf_gen _ _ _ _ HF f). right. exact Hx.
  - intros _ c Hc. discriminate.
  - intros t o' _ Hin. exact Hin.
  - intros _. right. intros c Hc. discriminate.
  - right. reflexivity.
Qed.

Lemma W_cadd m lo G O st k v :
  W m lo G O st -> wentry lo (v_fs st) G O k v -> W m lo G O (with_cache st (cadd m (v_cache st) k v)).
Proof.
  intros [HF HC] Hk. split; cbn [with_cache v_fs v_cache]; [exact HF|]. apply cinv_cadd_same; assumption.
Qed.

Lemma W_cache m lo G O st c :
  WF lo G O (v_fs st) -> cinv m c (wentry lo (v_fs st) G O) -> W m lo G O (with_cache st c).
Proof. intros HF HC. split; cbn [with_cache v_fs v_cache]; assumption. Qed.

(** * reads *)
Lemma read_key_spec m st f p (P : ckey -> cval -> Prop) :
  cinv m (v_cache st) P ->
  (forall o, file_content (v_fs st) f p = Some o -> P (CK f p) (CV o)) ->
  match snd (read_key m st f p) with
  | Ok o => P (CK f p) (CV o)
            /\ cinv m (v_cache (fst (read_key m st f p))) (fun k v => P k v /\ (k = CK f p -> v = CV o))
  | Err _ => cinv m (v_cache (fst (read_key m st f p))) P
             /\ ((exists l, P (CK f p) (CL l)) \/ file_content (v_fs st) f p = None)
  | Panic => False
  end.
Proof.
  intros Hc Hf. unfold read_key.
  pose proof (cinv_cget m (v_cache st) (CK f p) P Hc) as Hc1.
  pose proof (fun v => cget_hit m (v_cache st) (CK f p) v P Hc) as Hhit.
  destruct (cget m (v_cache st) (CK f p)) as [g c1]. cbn [fst snd] in Hc1, Hhit.
  assert (Hc1' : cinv m c1 P) by (apply (cinv_impl _ _ _ _ Hc1); intros k v [H _]; exact H).
  assert (Hload : forall g', g' = None \/ g' = Some CNil -> g = g' ->
     match snd (match file_content (v_fs st) f p with
                | None => (with_cache st c1, Err E_GENERIC)
                | Some o => (with_cache st (cadd m c1 (CK f p) (CV o)), Ok o)
                end) with
     | Ok o => P (CK f p) (CV o)
          /\ cinv m (v_cache (fst (match file_content (v_fs st) f p with
                | None => (with_cache st c1, Err E_GENERIC)
                | Some o => (with_cache st (cadd m c1 (CK f p) (CV o)), Ok (o : ord))
                end))) (fun k v => P k v /\ (k = CK f p -> v = CV o))
     | Err _ => cinv m (v_cache (fst (match file_content (v_fs st) f p with
                | None => (with_cache st c1, Err E_GENERIC)
                | Some o => (with_cache st (cadd m c1 (CK f p) (CV o)), Ok (o : ord))
                end))) P
             /\ ((exists l, P (CK f p) (CL l)) \/ file_content (v_fs st) f p = None)
     | Panic => False
     end).
  { intros g' _ _. destruct (file_content (v_fs st) f p) as [o|] eqn:Ef; cbn [fst snd with_cache v_cache].
    - split; [apply Hf; reflexivity|].
      apply (cinv_cadd m c1 (CK f p) (CV o) P); [exact Hc1' | | split; [apply Hf; reflexivity | reflexivity]].
      intros k v Hne Hp. split; [exact Hp | intro E; contradiction].
    - split; [exact Hc1' | right; reflexivity]. }
  destruct g as [[o|l|]|].
  - cbn [fst snd with_cache v_cache]. split; [apply Hhit; reflexivity|].
    apply (cinv_impl _ _ _ _ Hc1). intros k v [H1 H2]. split; [exact H1|]. intro E. specialize (H2 E). congruence.
  - cbn [fst snd with_cache v_cache]. split; [exact Hc1' | left; exists l; apply Hhit; reflexivity].
  - apply (Hload (Some CNil)); [right; reflexivity | reflexivity].
  - apply (Hload None); [left; reflexivity | reflexivity].
Qed.

Lemma read_key_W m lo G O st f p : W m lo G O st -> W m lo G O (fst (read_key m st f p)).
Proof.
  intros [HF HC].
  pose proof (read_key_spec m st f p _ HC (fun o => wentry_file lo G O (v_fs st) f p o HF)) as Hs.
  pose proof (read_key_fs m st f p) as Hfs.
  destruct (read_key m st f p) as [st1 r1]. cbn [fst snd] in *.
  split; rewrite Hfs; [exact HF|].
  destruct r1 as [o|e|]; [|destruct Hs as [Hs _]; exact Hs|contradiction].
  destruct Hs as [_ Hs]. apply (cinv_impl _ _ _ _ Hs). intros k v [H _]. exact H.
Qed.

Lemma poison_pair_cur_W m lo G O st s : W m lo G O st -> W m lo G O (fst (poison_pair_cur m st s)).
Proof.
  intros [HF HC]. unfold poison_pair_cur.
  pose proof (cinv_cget m (v_cache st) (CK (s, Priv) PCur) _ HC) as Hc1.
  destruct (cget m (v_cache st) (CK (s, Priv) PCur)) as [g1 c1]. cbn [fst snd] in Hc1.
  assert (Hc1' : cinv m c1 (wentry lo (v_fs st) G O)) by (apply (cinv_impl _ _ _ _ Hc1); intros k v [H _]; exact H).
  pose proof (cinv_cget m c1 (CK (s, Pub) PCur) _ Hc1') as Hc2.
  destruct (cget m c1 (CK (s, Pub) PCur)) as [g2 c2]. cbn [fst snd] in Hc2.
  assert (Hc2' : cinv m c2 (wentry lo (v_fs st) G O)) by (apply (cinv_impl _ _ _ _ Hc2); intros k v [H _]; exact H).
  assert (Hplain : forall r : res ord, W m lo G O (fst (with_cache st c2, r))).
  { intro r. cbn [fst]. apply W_cache; assumption. }
  assert (Hload : W m lo G O (fst (match f_cur (v_fs st (s, Priv)), f_cur (v_fs st (s, Pub)) with
                 | Some o, Some o2 => (with_cache st (cadd m (cadd m c2 (CK (s, Priv) PCur) (CV o)) (CK (s, Pub) PCur) (CV o2)), Ok (o : ord))
                 | _, _ => (with_cache st c2, Err E_GENERIC)
                 end))).
  { destruct (f_cur (v_fs st (s, Priv))) as [o|] eqn:E1; [|apply Hplain].
    destruct (f_cur (v_fs st (s, Pub))) as [o2|] eqn:E2; [|apply Hplain].
    cbn [fst]. apply W_cache; [exact HF|].
    apply cinv_cadd_same; [apply cinv_cadd_same; [exact Hc2'|]|].
    - apply wentry_file; [exact HF | exact E1].
    - apply wentry_file; [exact HF | exact E2]. }
  destruct g1 as [[o|l|]|]; destruct g2 as [[o2|l2|]|]; try exact Hload; apply Hplain.
Qed.

Lemma hist_names_W m lo G O st f :
  W m lo G O st ->
  snd (hist_names m st f) = hist_paths (v_fs st) f /\ W m lo G O (fst (hist_names m st f)).
Proof.
  intros [HF HC]. unfold hist_names.
  pose proof (cinv_cget m (v_cache st) (CH f) _ HC) as Hc1.
  pose proof (fun v => cget_hit m (v_cache st) (CH f) v _ HC) as Hhit.
  destruct (cget m (v_cache st) (CH f)) as [g c1]. cbn [fst snd] in Hc1, Hhit.
  assert (Hc1' : cinv m c1 (wentry lo (v_fs st) G O)) by (apply (cinv_impl _ _ _ _ Hc1); intros k v [H _]; exact H).
  assert (Hmiss : snd (with_cache st (cadd m c1 (CH f) (CL (hist_paths (v_fs st) f))), hist_paths (v_fs st) f)
                  = hist_paths (v_fs st) f
                  /\ W m lo G O (fst (with_cache st (cadd m c1 (CH f) (CL (hist_paths (v_fs st) f))), hist_paths (v_fs st) f))).
  { cbn [fst snd]. split; [reflexivity|]. apply W_cache; [exact HF|]. apply cinv_cadd_same; [exact Hc1' | reflexivity]. }
  destruct g as [[o|l|]|]; try exact Hmiss.
  cbn [fst snd]. split; [apply (Hhit (CL l)); reflexivity | apply W_cache; assumption].
Qed.

(** reading the history files through any admissible cache yields the directory's contents *)
Lemma read_keys_olds m fs f (P : ckey -> cval -> Prop) :
  asc (f_old (fs f)) ->
  (forall ts x, In (ts, x) (f_old (fs f)) -> P (CK f (POld ts)) (CV x)) ->
  (forall ts o, P (CK f (POld ts)) (CV o) -> forall x, In (ts, x) (f_old (fs f)) -> x = o) ->
  (forall ts l, ~ P (CK f (POld ts)) (CL l)) ->
  forall l st, v_fs st = fs -> cinv m (v_cache st) P -> (forall e, In e l -> In e (f_old (fs f))) ->
  snd (read_keys m st f (map (fun e => POld (fst e)) l)) = Ok (map snd l)
  /\ cinv m (v_cache (fst (read_keys m st f (map (fun e => POld (fst e)) l)))) P
  /\ v_fs (fst (read_keys m st f (map (fun e => POld (fst e)) l))) = fs.
Proof.
  intros Ha Hfile Huniq Hnol. induction l as [|[ts x] r IH]; intros st Hfs Hc Hin; cbn [map read_keys fst snd].
  - split; [reflexivity | split; assumption].
  - assert (Hx : In (ts, x) (f_old (fs f))) by (apply Hin; left; reflexivity).
    assert (Hfc : file_content (v_fs st) f (POld ts) = Some x).
    { cbn [file_content]. rewrite Hfs, (asc_find _ ts x Ha Hx). reflexivity. }
    assert (Hf : forall o, file_content (v_fs st) f (POld ts) = Some o -> P (CK f (POld ts)) (CV o)).
    { intros o Ho. rewrite Hfc in Ho. inversion Ho. subst o. apply Hfile. exact Hx. }
    pose proof (read_key_spec m st f (POld ts) P Hc Hf) as Hs.
    pose proof (read_key_fs m st f (POld ts)) as Hfs1.
    destruct (read_key m st f (POld ts)) as [st1 r1]. cbn [fst snd] in Hs, Hfs1.
    destruct r1 as [o|e|]; [| |contradiction].
    + destruct Hs as [Hp Hc1].
      assert (Hc1' : cinv m (v_cache st1) P) by (apply (cinv_impl _ _ _ _ Hc1); intros k v [H _]; exact H).
      assert (E : x = o) by (apply (Huniq ts o Hp x Hx)). subst o.
      destruct (IH st1 (eq_trans Hfs1 Hfs) Hc1' (fun e He => Hin e (or_intror He))) as [E1 [E2 E3]].
      destruct (read_keys m st1 f (map (fun e => POld (fst e)) r)) as [st2 r2]. cbn [fst snd] in E1, E2, E3.
      subst r2. cbn [fst snd]. split; [reflexivity | split; assumption].
    + destruct Hs as [_ [[l Hl]|Hn]]; [exfalso; apply (Hnol ts l Hl) | congruence].
Qed.

Definition rotated (fs : fsT) (s : slot) : list ord := rev (map snd (f_old (fs (s, Priv)))).
Definition offer (O : slot -> ord -> Prop) (s : slot) (l : list ord) : slot -> ord -> Prop :=
  fun s' k => O s' k \/ (s' = s /\ In k l).

(** read-all in a [W]-state: the rotated keys exactly as stored, in front of them the cached or the
    real current key; the real current key is hidden only if it was never offered before *)
Lemma all_W m lo G O st s st' r :
  W m lo G O st -> v1_step m st (All s) = (st', r) ->
  v_fs st' = v_fs st /\
  ((exists o, r = Ok (o :: rotated (v_fs st) s)
      /\ (f_cur (v_fs st (s, Priv)) = Some o \/ forall c, f_cur (v_fs st (s, Priv)) = Some c -> ~ O s c)
      /\ W m lo G (offer O s (o :: rotated (v_fs st) s)) st')
   \/ (f_cur (v_fs st (s, Priv)) = None /\ (exists e, r = Err e) /\ W m lo G O st')).
Proof.
  intros HW E.
  assert (Efs : v_fs st' = v_fs st).
  { pose proof (read_step_fs m st (All s) eq_refl) as H. rewrite E in H. exact H. }
  split; [exact Efs|].
  cbn [v1_step] in E.
  destruct (hist_names_W m lo G O st (s, Priv) HW) as [El HW0].
  pose proof (hist_names_fs m st (s, Priv)) as Efs0.
  destruct (hist_names m st (s, Priv)) as [st0 l]. cbn [fst snd] in El, HW0, Efs0. subst l.
  unfold hist_paths in E. cbn [read_keys] in E.
  destruct HW0 as [HF0 HC0]. rewrite Efs0 in HF0, HC0.
  assert (Hf : forall o, file_content (v_fs st0) (s, Priv) PCur = Some o -> wentry lo (v_fs st) G O (CK (s, Priv) PCur) (CV o)).
  { intros o Ho. rewrite Efs0 in Ho. apply wentry_file; assumption. }
  pose proof (read_key_spec m st0 (s, Priv) PCur _ HC0 Hf) as Hs.
  pose proof (read_key_fs m st0 (s, Priv) PCur) as Efs1.
  destruct (read_key m st0 (s, Priv) PCur) as [st1 r1]. cbn [fst snd] in Hs, Efs1.
  rewrite Efs0 in Efs1.
  destruct r1 as [o|e|]; [| |contradiction].
  - left. exists o. destruct Hs as [Hwo Hc1]. unfold wentry in Hwo. cbn [fst snd] in Hwo.
    destruct Hwo as [HoG Hocur]. specialize (Hocur eq_refl).
    set (O' := offer O s (o :: rotated (v_fs st) s)).
    assert (HF' : WF lo G O' (v_fs st)).
    { destruct HF0 as [H1 H2 H3 H4]. constructor; [exact H1 | exact H2 | | exact H4].
      intros s' k [Hk|[_ Hk]]; [apply (H3 s' k Hk)|].
      destruct Hk as [Hk|Hk]; [subst k; exact HoG|].
      apply (H2 (s, Priv)). right. unfold rotated in Hk. apply in_rev in Hk. exact Hk. }
    assert (Hc1' : cinv m (v_cache st1) (wentry lo (v_fs st) G O')).
    { apply (cinv_impl _ _ _ _ Hc1). intros k v [Hw Hpin]. destruct v as [x|l|]; [|exact Hw|exact I].
      destruct k as [g [|ts]|g]; unfold wentry in *; [|exact Hw|exact Hw].
      destruct Hw as [HxG Hx]. split; [exact HxG|]. intro Hp.
      destruct g as [s' q]. cbn [snd] in Hp. subst q. cbn [fst snd] in *.
      destruct (slot_eqb s' s) eqn:Es.
      - apply slot_eqb_eq in Es. subst s'. specialize (Hpin eq_refl). inversion Hpin. subst x.
        destruct (f_cur (v_fs st (s, Priv))) as [c|] eqn:Ec; [|right; intros c Hc; discriminate].
        destruct (N.eq_dec c o) as [Eco|Eco]; [left; subst c; reflexivity|].
        right. intros c' Hc'. inversion Hc'. subst c'.
        destruct Hocur as [Hocur|Hocur]; [congruence|].
        intros [Hoc|[_ Hoc]]; [apply (Hocur c eq_refl Hoc)|].
        destruct Hoc as [Hoc|Hoc]; [congruence|].
        unfold rotated in Hoc. apply in_rev in Hoc.
        apply (wf_cur _ _ _ _ HF0 (s, Priv) c eq_refl Ec Hoc).
      - apply slot_eqb_neq in Es. destruct (Hx eq_refl) as [H|H]; [left; exact H|].
        right. intros c Hc [Hoc|[Hoc _]]; [apply (H c Hc Hoc) | contradiction]. }
    rewrite <- map_rev in E.
    destruct (read_keys_olds m (v_fs st) (s, Priv) (wentry lo (v_fs st) G O')
               (proj1 (wf_hist _ _ _ _ HF' (s, Priv)))
               (fun ts x Hx => wentry_old lo G O' (v_fs st) (s, Priv) ts x HF' Hx)
               (fun ts x Hp y Hy => proj2 (proj2 Hp) y Hy)
               (fun ts l Hl => Hl)
               (rev (f_old (v_fs st (s, Priv)))) st1 Efs1 Hc1'
               (fun e He => proj2 (in_rev _ _) He)) as [E1 [E2 E3]].
    destruct (read_keys m st1 (s, Priv) (map (fun e => POld (fst e)) (rev (f_old (v_fs st (s, Priv)))))) as [st2 r2].
    cbn [fst snd] in E1, E2, E3. subst r2. inversion E. subst st' r.
    split; [unfold rotated; rewrite map_rev; reflexivity|]. split; [exact Hocur|].
    split; rewrite E3; assumption.
  - right. inversion E. subst st' r. destruct Hs as [Hc1 Hn]. split; [|split].
    + destruct Hn as [[l Hl]|Hn]; [contradiction|]. rewrite Efs0 in Hn. exact Hn.
    + exists e. reflexivity.
    + split; rewrite Efs1; assumption.
Qed.

(** * one operation *)
Lemma nodup_gen (G : list ord) o rest :
  NoDup (G ++ o :: rest) -> ~ In o G /\ NoDup ((o :: G) ++ rest).
Proof.
  intro H. apply NoDup_remove in H. destruct H as [H1 H2]. split.
  - intro Hin. apply H2. apply in_or_app. left. exact Hin.
  - cbn [app]. constructor; assumption.
Qed.

Lemma step_W m lo G O st op rest :
  W m lo G O st ->
  increasing_from lo (clock_readings (op :: rest)) ->
  NoDup (G ++ gen_labels (op :: rest)) ->
  exists lo' G' O',
    W m lo' G' O' (fst (v1_step m st op))
    /\ (forall s k, O s k -> O' s k)
    /\ (forall s l, op = All s -> snd (v1_step m st op) = Ok l -> forall k, In k l -> O' s k)
    /\ increasing_from lo' (clock_readings rest) /\ NoDup (G' ++ gen_labels rest).
Proof.
  intros HW Hinc Hnd.
  assert (Hsame : forall st1 r, v1_step m st op = (st1, r) -> W m lo G O st1 ->
            (forall s, op <> All s) ->
            clock_readings (op :: rest) = clock_readings rest -> gen_labels (op :: rest) = gen_labels rest ->
            exists lo' G' O',
              W m lo' G' O' (fst (v1_step m st op))
              /\ (forall s k, O s k -> O' s k)
              /\ (forall s l, op = All s -> snd (v1_step m st op) = Ok l -> forall k, In k l -> O' s k)
              /\ increasing_from lo' (clock_readings rest) /\ NoDup (G' ++ gen_labels rest)).
  { intros st1 r E HW1 Hna Ec Eg. exists lo, G, O. rewrite E. cbn [fst]. split; [exact HW1|].
    split; [intros s k H; exact H|]. split; [intros s l Hop; destruct (Hna s Hop)|].
    rewrite <- Ec, <- Eg. split; assumption. }
  destruct op as [s o t1 t2|s|s|s|s|s i| |].
  - (* Gen *)
    cbn [clock_readings increasing_from] in Hinc. destruct Hinc as [H1 [H2 Hrest]].
    cbn [gen_labels] in Hnd. apply nodup_gen in Hnd. destruct Hnd as [Hfresh Hnd'].
    exists t2, (o :: G), O.
    split; [|split; [intros s' k H; exact H | split; [intros s' l Hop; discriminate | split; assumption]]].
    cbn [v1_step].
    destruct (write_W m lo G (o :: G) O st (s, Priv) t1 o HW H1 (incl_tl o (incl_refl G)) (in_eq o G) (fun _ => Hfresh))
      as [st1 [E1 [HW1 [Hc1 Ho1]]]].
    rewrite E1. destruct (is_pair (fst s)).
    + assert (Hnp : snd ((s, Pub) : fname) = Priv -> ~ In o (o :: G)) by (cbn [snd]; intro H; discriminate).
      destruct (write_W m t1 (o :: G) (o :: G) O st1 (s, Pub) t2 o HW1 H2 (incl_refl _) (in_eq o G) Hnp)
        as [st2 [E2 [HW2 [Hc2 Ho2]]]].
      rewrite E2. cbn [fst].
      assert (Hcur : f_cur (v_fs st2 (s, Priv)) = Some o) by (rewrite Ho2 by apply pub_neq_priv; exact Hc1).
      assert (HWa : W m t2 (o :: G) O (with_cache st2 (cadd m (v_cache st2) (CK (s, Priv) PCur) (CV o)))).
      { apply W_cadd; [exact HW2|]. unfold wentry. split; [apply in_eq|]. intros _. left. exact Hcur. }
      apply (W_cadd m t2 (o :: G) O _ (CK (s, Pub) PCur) (CV o)) in HWa.
      * exact HWa.
      * unfold wentry. split; [apply in_eq|]. cbn [snd]. intro H; discriminate.
    + assert (HW1' : W m t2 (o :: G) O st1).
      { apply (W_mono m t1 t2 (o :: G) (o :: G) O O); [lia | apply incl_refl | intros s' c H; exact H | exact HW1]. }
      destruct (gen_caches (fst s)); cbn [fst]; [|exact HW1'].
      apply W_cadd; [exact HW1'|]. unfold wentry. split; [apply in_eq|]. intros _. left. exact Hc1.
  - (* Cur *)
    destruct (v1_step m st (Cur s)) as [st1 r] eqn:E.
    apply (Hsame st1 r eq_refl); try reflexivity; [|intros s' H; discriminate].
    cbn [v1_step] in E.
    destruct (fst s);
      try (pose proof (read_key_W m lo G O st (s, Priv) PCur HW) as H1;
           destruct (read_key m st (s, Priv) PCur) as [sa ra]; inversion E; subst st1; exact H1).
    pose proof (poison_pair_cur_W m lo G O st s HW) as H1.
    destruct (poison_pair_cur m st s) as [sa ra]. inversion E. subst st1. exact H1.
  - (* All *)
    cbn [clock_readings] in Hinc. cbn [gen_labels] in Hnd.
    destruct (v1_step m st (All s)) as [st1 r] eqn:E.
    destruct (all_W m lo G O st s st1 r HW E) as [_ [[o [Er [_ HW1]]]|[_ [[e Er] HW1]]]].
    + exists lo, G, (offer O s (o :: rotated (v_fs st) s)). cbn [fst snd]. split; [exact HW1|].
      split; [intros s' k H; left; exact H|]. split; [|split; assumption].
      intros s' l Hop Hl k Hk. inversion Hop. subst s'. rewrite Er in Hl. inversion Hl. subst l.
      right. split; [reflexivity | exact Hk].
    + exists lo, G, O. cbn [fst snd]. split; [exact HW1|]. split; [intros s' k H; exact H|].
      split; [|split; assumption]. intros s' l _ Hl. rewrite Er in Hl. discriminate.
  - (* ListRot *)
    apply (Hsame st _ eq_refl HW); try reflexivity. intros s' H; discriminate.
  - (* DestroyCur *)
    destruct (v1_step m st (DestroyCur s)) as [st1 r] eqn:E.
    apply (Hsame st1 r eq_refl); try reflexivity; [|intros s' H; discriminate].
    cbn [v1_step] in E. destruct (destroy_both (fst s)); inversion E; subst st1.
    + exact (remove_cur_W m lo G O _ (s, Pub) (remove_cur_W m lo G O st (s, Priv) HW)).
    + exact (remove_cur_W m lo G O st (s, Priv) HW).
  - (* DestroyRot *)
    destruct (v1_step m st (DestroyRot s i)) as [st1 r] eqn:E.
    apply (Hsame st1 r eq_refl); try reflexivity; [|intros s' H; discriminate].
    cbn [v1_step] in E.
    destruct (destroy_rot_file m st (s, Priv) i) as [sa|e|] eqn:E1; [|inversion E; subst st1; exact HW|inversion E; subst st1; exact HW].
    pose proof (destroy_rot_W m lo G O st (s, Priv) i sa HW E1) as HWa.
    destruct (is_pair (fst s)); [|inversion E; subst st1; exact HWa].
    destruct (destroy_rot_file m sa (s, Pub) i) as [sb|e|] eqn:E2; cbn [unit_out] in E; inversion E; subst st1;
      [|exact HWa|exact HWa].
    apply (destroy_rot_W m lo G O sa (s, Pub) i sb HWa E2).
  - (* Reset *)
    apply (Hsame (with_cache st []) (Ok []) eq_refl); try reflexivity; [|intros s' H; discriminate].
    destruct HW as [HF _]. apply W_cache; [exact HF | apply cinv_nil].
  - (* Reopen *)
    apply (Hsame (with_cache st []) (Ok []) eq_refl); try reflexivity; [|intros s' H; discriminate].
    destruct HW as [HF _]. apply W_cache; [exact HF | apply cinv_nil].
Qed.

(** * histories *)
Lemma W_run m : forall ops rest lo G O st,
  W m lo G O st ->
  increasing_from lo (clock_readings (ops ++ rest)) ->
  NoDup (G ++ gen_labels (ops ++ rest)) ->
  exists lo' G' O',
    W m lo' G' O' (v1_state_after m st ops)
    /\ (forall s k, O s k -> O' s k)
    /\ increasing_from lo' (clock_readings rest) /\ NoDup (G' ++ gen_labels rest).
Proof.
  induction ops as [|op ops IH]; intros rest lo G O st HW Hinc Hnd.
  - exists lo, G, O. cbn [app v1_state_after] in *. split; [exact HW|]. split; [intros s k H; exact H | split; assumption].
  - cbn [app v1_state_after] in *.
    destruct (step_W m lo G O st op (ops ++ rest) HW Hinc Hnd) as [lo1 [G1 [O1 [HW1 [Hsub1 [_ [Hinc1 Hnd1]]]]]]].
    destruct (IH rest lo1 G1 O1 _ HW1 Hinc1 Hnd1) as [lo2 [G2 [O2 [HW2 [Hsub2 [Hinc2 Hnd2]]]]]].
    exists lo2, G2, O2. split; [exact HW2|]. split; [|split; assumption].
    intros s k H. apply Hsub2. apply Hsub1. exact H.
Qed.

Lemma v1_state_after_app m : forall a st b,
  v1_state_after m st (a ++ b) = v1_state_after m (v1_state_after m st a) b.
Proof. induction a as [|op a IH]; intros st b; [reflexivity|]. cbn [app v1_state_after]. apply IH. Qed.

Lemma nth_run m a st op b :
  nth_error (v1_run m st (a ++ op :: b)) (length a) = Some (snd (v1_step m (v1_state_after m st a) op)).
Proof.
  rewrite v1_run_app. rewrite nth_error_app2 by (rewrite v1_run_length; apply le_n).
  rewrite v1_run_length, Nat.sub_diag. cbn [v1_run].
  destruct (v1_step m (v1_state_after m st a) op) as [st' r]. reflexivity.
Qed.

(** * the theorem *)
Theorem cache_never_drops_survivor :
  forall (m : cmode) (pre mid : list kop) (s : slot) (l1 : list N) (k : ord),
  let ops := pre ++ All s :: mid in
  increasing_from 0 (clock_readings ops) ->
  NoDup (gen_labels ops) ->
  nth_error (v1_run m v1_init (ops ++ [All s])) (length pre) = Some (Ok l1) -> In k l1 ->
  In k (s_all true (spec_state_after true s_init ops s)) ->
  exists l2, nth_error (v1_run m v1_init (ops ++ [All s])) (length ops) = Some (Ok l2) /\ In k l2.
Proof.
  intros m pre mid s l1 k ops Hinc Hnd H1 Hk Hsurv.
  rewrite <- (v1_abs_after_any_cache m ops Hinc s) in Hsurv.
  rewrite (nth_run m ops v1_init (All s) []).
  subst ops.
  rewrite <- app_assoc, <- app_comm_cons in H1. rewrite nth_run in H1.
  rewrite v1_state_after_app in Hsurv |- *. cbn [v1_state_after] in Hsurv |- *.
  set (st1 := v1_state_after m v1_init pre) in *.
  (* up to the first read-all *)
  destruct (W_run m pre (All s :: mid) 0 [] (fun _ _ => False) v1_init (W_init m) Hinc Hnd)
    as [lo1 [G1 [O1 [HW1 [_ [Hinc1 Hnd1]]]]]].
  fold st1 in HW1.
  destruct (step_W m lo1 G1 O1 st1 (All s) mid HW1 Hinc1 Hnd1) as [lo2 [G2 [O2 [HW2 [_ [Hoff [Hinc2 Hnd2]]]]]]].
  assert (Hk2 : O2 s k).
  { inversion H1 as [H1']. apply (Hoff s l1 eq_refl H1' k Hk). }
  (* the operations in between *)
  rewrite <- (app_nil_r mid) in Hinc2, Hnd2.
  destruct (W_run m mid [] lo2 G2 O2 _ HW2 Hinc2 Hnd2) as [lo3 [G3 [O3 [HW3 [Hsub3 _]]]]].
  set (st3 := v1_state_after m (fst (v1_step m st1 (All s))) mid) in *.
  assert (Hk3 : O3 s k) by (apply Hsub3; exact Hk2).
  (* the second read-all *)
  unfold s_all, v1_abs in Hsurv. cbn [s_cur s_rot] in Hsurv.
  destruct (f_cur (v_fs st3 (s, Priv))) as [c|] eqn:Ec; [|contradiction].
  destruct (v1_step m st3 (All s)) as [st4 r] eqn:E. cbn [snd].
  destruct (all_W m lo3 G3 O3 st3 s st4 r HW3 E) as [_ [[o [Er [Hocur _]]]|[Hn _]]]; [|congruence].
  exists (o :: rotated (v_fs st3) s). split; [rewrite Er; reflexivity|].
  destruct Hsurv as [Hkc|Hkr].
  - subst k. destruct Hocur as [Ho|Ho].
    + left. congruence.
    + exfalso. apply (Ho c Ec Hk3).
  - right. exact Hkr.
Qed.
