(** Proofs about the checked searchable-hash extractor (Model/HashExt.v), for every registry of hash functions. *)
From Acra Require Import Lib.Bytes Lib.Outcome Lib.GoSlice Gen.Consts Gen.ParsersConsts Model.EnvelopeChecked Model.HashExt.
From Coq Require Import ZifyN ZifyNat ZifyBool.
Local Open Scope Z_scope.

(** hash.Hash.Size() is never negative *)
Definition reg_ok (reg : list (N * Z)) : Prop := Forall (fun e => 0 <= snd e) reg.

Lemma hx_lookup_nonneg reg tag size : reg_ok reg -> hx_lookup reg tag = Some size -> 0 <= size.
Proof.
  intros H. induction H as [|[t s] r H0 Hr IH]; cbn [hx_lookup]; [discriminate|].
  destruct (t =? b2n tag)%N; [intros [= <-]; exact H0| exact IH].
Qed.

Definition hash_spec (data : bytes) (r : res (option bytes)) : Prop :=
  match r with
  | Ok None => True
  | Ok (Some h) => exists size, 0 <= size /\ size + 1 <= len data /\ h = firstn (Z.to_nat (size + 1)) data
  | Err _ => False
  | Panic => False
  end.

Lemma hx_extract_hash_spec reg (data : bytes) : reg_ok reg -> hash_spec data (hx_extract_hash reg data).
Proof.
  intros Hreg. unfold hx_extract_hash.
  destruct (Z.eqb_spec (len data) 0) as [E|E]; [exact I|].
  pose proof (len_nonneg data).
  rewrite gindex_ok by lia. cbn [bind].
  destruct (hx_lookup reg (nth (Z.to_nat 0) data x00)) as [size|] eqn:El; [|exact I].
  apply (hx_lookup_nonneg _ _ _ Hreg) in El.
  rewrite gslice_from_ok by lia. cbn [bind].
  assert (Ht : len (skipn (Z.to_nat 1) data) = len data - 1) by (unfold len; rewrite skipn_length; unfold len in *; lia).
  rewrite Ht.
  destruct (Z.ltb_spec (len data - 1) size) as [L|L]; [exact I|].
  rewrite gslice_to_ok by lia. cbn [bind hash_spec]. exists size. repeat split; try lia.
Qed.

Theorem hx_extract_hash_total reg (data : bytes) : reg_ok reg -> hx_extract_hash reg data <> Panic.
Proof. intros Hreg E. pose proof (hx_extract_hash_spec reg data Hreg) as S. rewrite E in S. exact S. Qed.

Lemma hash_spec_len (data h : bytes) : hash_spec data (Ok (Some h)) -> 0 <= len h <= len data.
Proof.
  intros (size & H0 & H1 & ->). unfold len in *. rewrite firstn_length. lia.
Qed.

Theorem hx_extract_hash_and_data_spec reg (data : bytes) : reg_ok reg ->
  match hx_extract_hash_and_data reg data with
  | Ok None => True
  | Ok (Some (h, rest)) => data = h ++ rest
  | Err _ => False
  | Panic => False
  end.
Proof.
  intros Hreg. unfold hx_extract_hash_and_data. pose proof (hx_extract_hash_spec reg data Hreg) as S.
  destruct (hx_extract_hash reg data) as [[h|]|e|]; cbn [bind hash_spec] in *; try exact S.
  pose proof (hash_spec_len _ _ S) as L. rewrite gslice_from_ok by lia. cbn [bind].
  destruct S as (size & H0 & H1 & ->). unfold len. rewrite firstn_length.
  replace (Z.to_nat (Z.of_nat (Nat.min (Z.to_nat (size + 1)) (length data)))) with (Z.to_nat (size + 1)) by (unfold len in *; lia).
  symmetry. apply firstn_skipn.
Qed.

Lemma gcopy_self (data : bytes) : gcopy (repeat x00 (length data)) data = data.
Proof. rewrite gcopy_make by lia. apply firstn_all. Qed.

Theorem hx_on_column_spec reg (matcher : bytes -> bool) (data : bytes) : reg_ok reg ->
  match hx_on_column reg matcher data with
  | Ok (out, None) => out = data
  | Ok (out, Some (hashData, raw)) => raw = data /\ data = hashData ++ out
  | Err _ => False
  | Panic => False
  end.
Proof.
  intros Hreg. unfold hx_on_column. rewrite gcopy_self.
  pose proof (hx_extract_hash_and_data_spec reg data Hreg) as S2. unfold hx_extract_hash_and_data in S2.
  pose proof (hx_extract_hash_spec reg data Hreg) as S.
  destruct (hx_extract_hash reg data) as [[h|]|e|]; cbn [bind hash_spec] in *; try exact S; [|reflexivity].
  pose proof (hash_spec_len _ _ S) as L.
  destruct (gslice_from (len h) data) as [rest|e|] eqn:Er; cbn [bind] in *; try contradiction.
  destruct (negb (matcher rest)); [reflexivity|].
  rewrite gslice_to_ok by lia. cbn [bind]. split; [reflexivity|].
  rewrite S2 at 1. f_equal.
  clear S Er L. rewrite S2. unfold len. rewrite Nat2Z.id. symmetry. apply firstn_app_len.
Qed.

Theorem hx_strip_then_total reg {A} (inner : bytes -> res A) (data : bytes) : reg_ok reg ->
  (forall x, inner x <> Panic) -> hx_strip_then reg inner data <> Panic.
Proof.
  intros Hreg Hin. unfold hx_strip_then.
  pose proof (hx_extract_hash_and_data_spec reg data Hreg) as S2. unfold hx_extract_hash_and_data in S2.
  destruct (hx_extract_hash reg data) as [[h|]|e|]; cbn [bind] in *; try discriminate; try contradiction.
  - destruct (gslice_from (len h) data) as [rest|e|]; cbn [bind] in *; try discriminate; try contradiction.
    specialize (Hin rest). destruct (inner rest); cbn [bind]; try discriminate. contradiction.
  - specialize (Hin data). destruct (inner data); cbn [bind]; try discriminate. contradiction.
Qed.

(** the generated registry is well formed, and for it the model is the extractor of Model/EnvelopeChecked.v *)
Lemma hx_registry_ok : reg_ok HX_REGISTRY.
Proof. unfold HX_REGISTRY. repeat constructor; cbn; lia. Qed.

Theorem hx_extract_hash_is_model (data : bytes) :
  hx_extract_hash [(b2n HMAC_FUNC_SHA256, zn (HMAC_HASH_SIZE - 1))] data = extract_hash_checked data.
Proof.
  unfold hx_extract_hash, extract_hash_checked.
  destruct (len data =? 0); [reflexivity|].
  destruct (gindex 0 data) as [f|e|]; cbn [bind]; try reflexivity.
  cbn [hx_lookup].
  destruct (byte_eqb f HMAC_FUNC_SHA256) eqn:E.
  - apply byte_eqb_eq in E. subst f. rewrite N.eqb_refl. reflexivity.
  - destruct (N.eqb_spec (b2n HMAC_FUNC_SHA256) (b2n f)) as [E2|E2]; [|reflexivity].
    apply b2n_inj in E2. subst f. rewrite byte_eqb_refl in E. discriminate.
Qed.

(** what the length check is for: with the seeded mistake m58 a value of exactly [size] bytes panics *)
Theorem hx_extract_hash_m58_refuted :
  exists data : bytes, length data = 32%nat /\ hx_extract_hash_m58 HX_REGISTRY data = Panic /\ hx_extract_hash HX_REGISTRY data = Ok None.
Proof. exists (x7f :: repeat x41 31). vm_compute. repeat split; reflexivity. Qed.

(** exhaustive boundary table: every length 0..81 with every first byte (capacity = length) *)
Definition hx_all_bytes : list N := map N.of_nat (seq 0 256).
Definition hx_sweep_ok (f : bytes -> bool) : bool :=
  f [] && forallb (fun n => forallb (fun t => f (n2b t :: repeat x41 n)) hx_all_bytes) (seq 0 81).
Theorem hx_sweep_no_panic :
  hx_sweep_ok (fun d => negb (is_panic (hx_extract_hash_and_data HX_REGISTRY d))
                        && negb (is_panic (hx_on_column HX_REGISTRY (fun _ => true) d))
                        && negb (is_panic (hx_strip_then HX_REGISTRY (fun x => Ok x) d))) = true.
Proof. vm_compute. reflexivity. Qed.
Theorem hx_sweep_m58_panics :
  hx_sweep_ok (fun d => negb (is_panic (hx_extract_hash_m58 HX_REGISTRY d))) = false.
Proof. vm_compute. reflexivity. Qed.
