(** C14 / C13 tie, SQL tokenizer: what the checked scanners compute, as functions of the text at the cursor.
    - scanString (all its cursor arithmetic, scan-ahead and slicing) computes exactly the list-level
      string scanner of the C13 model (Model/SqlExpr.scan_string), so an encoded literal scans back to its value;
    - blank skipping consumes blanks only, comments consume exactly their own text: neither can swallow
      part of a following string literal, and quote characters inside a comment do not open one. *)
From Coq Require Import List NArith ZArith Bool Lia.
From Coq Require Import ZifyN ZifyNat ZifyBool.
From Acra Require Import Lib.Bytes Lib.Outcome Lib.GoSlice Gen.Prec Model.SqlExpr Proofs.SqlEscape.
From Acra Require Import Gen.SqlKeywords Model.SqlTokenizer Proofs.SqlTokenizer Proofs.SqlTokenizerScan.
Import ListNotations.
Local Open Scope Z_scope.

(** * the state "j bytes lie before the current character" *)
Definition curj (t0 : tkn) (j : nat) : tkn :=
  let b := t_buf t0 in
  if (j <? length b)%nat then with_cur t0 (Z.of_nat j + 1) (Z.of_nat j + 1) (b2n (nth j b x00))
  else with_cur t0 (len b) (len b + 1) c_eof.

Lemma curj_buf t0 j : t_buf (curj t0 j) = t_buf t0.
Proof. unfold curj. destruct (j <? length (t_buf t0))%nat; reflexivity. Qed.

Lemma with_cur_with_cur t a b c x y z : with_cur (with_cur t a b c) x y z = with_cur t x y z.
Proof. reflexivity. Qed.

Lemma b2n_ne_eof c : b2n c <> c_eof.
Proof. pose proof (b2n_lt c). rewrite c_eof_val. lia. Qed.
Lemma is_eof_b2n c : is_eof (b2n c) = false.
Proof. apply is_eof_false, b2n_ne_eof. Qed.

(** next from any state whose cursor stands behind byte j (lastChar may be stale, as inside scanString) *)
Lemma next_stale t0 j l :
  (j < length (t_buf t0))%nat -> l <> c_eof ->
  next (with_cur t0 (Z.of_nat j + 1) (Z.of_nat j + 1) l) = Ok (curj t0 (S j)).
Proof.
  intros Hj Hl. unfold next, curj. cbn [t_buf t_bufpos t_pos t_last with_cur].
  destruct (Z.leb_spec (len (t_buf t0)) (Z.of_nat j + 1)) as [H|H].
  - apply is_eof_false in Hl. rewrite Hl. rewrite with_cur_with_cur.
    destruct (Nat.ltb_spec (S j) (length (t_buf t0))); [unfold len in H; lia|].
    f_equal. f_equal; unfold len in *; lia.
  - rewrite gindex_ok by (unfold len in *; lia). cbn [bind]. rewrite with_cur_with_cur.
    destruct (Nat.ltb_spec (S j) (length (t_buf t0))); [|unfold len in H; lia].
    replace (Z.to_nat (Z.of_nat j + 1)) with (S j) by lia. f_equal. f_equal; lia.
Qed.

Lemma next_curj t0 j : next (curj t0 j) = Ok (curj t0 (S j)).
Proof.
  unfold curj at 1. destruct (Nat.ltb_spec j (length (t_buf t0))) as [H|H].
  - apply next_stale; [exact H|apply b2n_ne_eof].
  - unfold next. cbn [t_buf t_bufpos t_pos t_last with_cur]. rewrite Z.leb_refl.
    change (is_eof c_eof) with true. cbv iota. unfold curj.
    destruct (Nat.ltb_spec (S j) (length (t_buf t0))); [lia|reflexivity].
Qed.

Lemma next_fresh d dd sql : next (fresh d dd sql) = Ok (curj (fresh d dd sql) 0).
Proof.
  unfold next, curj. cbn [t_buf t_bufpos t_pos t_last fresh with_cur].
  destruct sql as [|c s].
  - reflexivity.
  - cbn [length]. change (0 <? S (length s))%nat with true. cbv iota.
    change (len (c :: s) <=? 0) with (Z.of_nat (S (length s)) <=? 0).
    destruct (Z.leb_spec (Z.of_nat (S (length s))) 0); [lia|].
    unfold gindex. change (len (c :: s)) with (Z.of_nat (S (length s))).
    destruct (Z.ltb_spec 0 (Z.of_nat (S (length s)))); [|lia]. reflexivity.
Qed.

(** the current character, by the text from the cursor on *)
Lemma skipn_cons_nth {A} (j : nat) (l : list A) c s d :
  skipn j l = c :: s -> nth j l d = c /\ skipn (S j) l = s /\ (j < length l)%nat.
Proof.
  revert l. induction j as [|j IH]; intros l H.
  - destruct l; [discriminate|]. cbn in H. inversion H; subst. cbn. repeat split; lia.
  - destruct l as [|a l]; [discriminate|]. cbn [skipn] in H. destruct (IH l H) as (A1 & A2 & A3).
    cbn [nth length]. split; [exact A1|]. split; [exact A2|lia].
Qed.

Lemma skipn_shift {A} : forall (a : list A) j l b, skipn j l = a ++ b -> skipn (j + length a) l = b.
Proof.
  induction a as [|x a IH]; intros j l b H.
  - rewrite Nat.add_0_r. exact H.
  - cbn [app] in H. destruct (skipn_cons_nth j l _ _ x H) as (_ & A2 & _).
    cbn [length]. replace (j + S (length a))%nat with (S j + length a)%nat by lia. apply IH. exact A2.
Qed.

Lemma curj_last_cons t0 j c s :
  skipn j (t_buf t0) = c :: s -> t_last (curj t0 j) = b2n c /\ skipn (S j) (t_buf t0) = s.
Proof.
  intros H. destruct (skipn_cons_nth j _ c s x00 H) as (A1 & A2 & A3).
  unfold curj. destruct (Nat.ltb_spec j (length (t_buf t0))); [|lia]. cbn. rewrite A1. split; [reflexivity|exact A2].
Qed.

Lemma curj_last_nil t0 j : skipn j (t_buf t0) = [] -> t_last (curj t0 j) = c_eof.
Proof.
  intros H. unfold curj. destruct (Nat.ltb_spec j (length (t_buf t0))) as [L|L]; [|reflexivity].
  exfalso. assert (length (skipn j (t_buf t0)) = 0%nat) by (rewrite H; reflexivity). rewrite skipn_length in *. lia.
Qed.

(** * loops over the text at the cursor *)
Lemma scan_while_curj cond t0 :
  cond c_eof = false ->
  forall run s fuel j acc,
  Forall (fun c => cond (b2n c) = true) run ->
  match s with [] => True | c :: _ => cond (b2n c) = false end ->
  skipn j (t_buf t0) = run ++ s -> (length run < fuel)%nat ->
  scan_while fuel cond (curj t0 j) acc = Ok (curj t0 (j + length run), acc ++ run).
Proof.
  intros Hc. induction run as [|c run IH]; intros s fuel j acc Hall Hs Hsk Hf.
  - destruct fuel as [|f]; [lia|]. cbn [scan_while app length]. rewrite Nat.add_0_r, app_nil_r.
    destruct s as [|c s].
    + rewrite (curj_last_nil _ _ Hsk), Hc. reflexivity.
    + destruct (curj_last_cons _ _ _ _ Hsk) as [E _]. rewrite E, Hs. reflexivity.
  - destruct fuel as [|f]; [cbn in Hf; lia|]. cbn [scan_while]. cbn [app] in Hsk.
    destruct (curj_last_cons _ _ _ _ Hsk) as [E Hsk']. rewrite E.
    inversion Hall as [|? ? Hc1 Hall']; subst. rewrite Hc1. rewrite next_curj. cbn [bind].
    rewrite (IH s f (S j) _ Hall' Hs Hsk') by (cbn in Hf; lia).
    unfold byte_of. rewrite n2b_b2n. cbn [length]. rewrite <- app_assoc. cbn [app].
    replace (S j + length run)%nat with (j + S (length run))%nat by lia. reflexivity.
Qed.

Lemma consume_next_curj t0 j c s acc :
  skipn j (t_buf t0) = c :: s -> consume_next (curj t0 j) acc = Ok (curj t0 (S j), acc ++ [c]).
Proof.
  intros H. destruct (curj_last_cons _ _ _ _ H) as [E _]. unfold consume_next.
  rewrite E, is_eof_b2n, next_curj. cbn [bind]. unfold byte_of. rewrite n2b_b2n. reflexivity.
Qed.

(** * (4a) scanString = the list-level scanner of the C13 model *)
(** [sspec delim first acc s]: scanString after the opening quote, on the remaining text [s] *)
Fixpoint sspec (delim : N) (first : bool) (acc : bytes) (s : bytes) : option (bytes * bytes) :=
  match s with
  | [] => None
  | c :: s1 =>
      if (b2n c =? 92)%N then
        match s1 with
        | [] => None
        | d :: s2 =>
            if first && ((b2n d =? 120) || (b2n d =? 88))%N then sspec delim false (acc ++ [c; d]) s2
            else sspec delim false (acc ++ [byte_of (sql_decode (b2n d))]) s2
        end
      else if (b2n c =? delim)%N then
        match s1 with
        | d :: s2 => if (b2n d =? delim)%N then sspec delim false (acc ++ [c]) s2 else Some (acc, s1)
        | [] => Some (acc, [])
        end
      else sspec delim first (acc ++ [c]) s1
  end.

Definition plain (delim : N) (c : byte) : bool := negb (b2n c =? delim)%N && negb (b2n c =? 92)%N.

Lemma plain_split delim (s : bytes) :
  exists run rest, s = run ++ rest /\ forallb (plain delim) run = true /\
                   match rest with [] => True | c :: _ => plain delim c = false end.
Proof.
  induction s as [|c s IH].
  - exists [], []. repeat split.
  - destruct (plain delim c) eqn:P.
    + destruct IH as (run & rest & E & A & B). exists (c :: run), rest. subst s.
      split; [reflexivity|]. split; [cbn; rewrite P, A; reflexivity|exact B].
    + exists [], (c :: s). repeat split. exact P.
Qed.

Lemma sspec_plain_run delim first : forall run acc s,
  (delim <> 92)%N -> forallb (plain delim) run = true ->
  sspec delim first acc (run ++ s) = sspec delim first (acc ++ run) s.
Proof.
  induction run as [|c run IH]; intros acc s Hd H.
  - rewrite app_nil_r. reflexivity.
  - cbn [forallb] in H. apply andb_true_iff in H. destruct H as [P H]. unfold plain in P.
    apply andb_true_iff in P. destruct P as [P1 P2]. apply negb_true_iff in P1, P2.
    cbn [app sspec]. rewrite P2, P1. rewrite IH by assumption. rewrite <- app_assoc. reflexivity.
Qed.

Lemma sspec_all_plain delim first : forall run acc,
  forallb (plain delim) run = true -> sspec delim first acc run = None.
Proof.
  induction run as [|c run IH]; intros acc H; [reflexivity|].
  cbn [forallb] in H. apply andb_true_iff in H. destruct H as [P H]. unfold plain in P.
  apply andb_true_iff in P. destruct P as [P1 P2]. apply negb_true_iff in P1, P2.
  cbn [sspec]. rewrite P2, P1. apply IH. exact H.
Qed.

(** scan_ahead stops at the first delimiter / backslash *)
Lemma scan_ahead_run delim buf : forall run rest fuel j ch,
  skipn j buf = run ++ rest -> forallb (plain delim) run = true ->
  match rest with [] => True | c :: _ => plain delim c = false end ->
  (length run < fuel)%nat ->
  scan_ahead fuel buf delim (Z.of_nat j) ch =
  Ok (Z.of_nat (j + length run), match rest with [] => (match rev run with c :: _ => b2n c | [] => ch end) | c :: _ => b2n c end).
Proof.
  induction run as [|c run IH]; intros rest fuel j ch Hsk Hp Hr Hf.
  - destruct fuel as [|f]; [lia|]. cbn [scan_ahead app length rev] in *. rewrite Nat.add_0_r.
    destruct rest as [|c rest].
    + assert (length (skipn j buf) = 0%nat) by (rewrite Hsk; reflexivity). rewrite skipn_length in *.
      destruct (Z.ltb_spec (Z.of_nat j) (len buf)); [unfold len in *; lia|reflexivity].
    + destruct (skipn_cons_nth j _ _ _ x00 Hsk) as (A1 & A2 & A3).
      destruct (Z.ltb_spec (Z.of_nat j) (len buf)); [|unfold len in *; lia].
      rewrite gindex_nat by exact A3. cbn [bind]. rewrite A1.
      unfold plain in Hr. apply andb_false_iff in Hr.
      destruct (b2n c =? delim)%N; [reflexivity|]. destruct (b2n c =? 92)%N; [reflexivity|].
      destruct Hr as [Hr|Hr]; discriminate Hr.
  - destruct fuel as [|f]; [cbn in Hf; lia|]. cbn [scan_ahead]. cbn [app] in Hsk.
    destruct (skipn_cons_nth j _ _ _ x00 Hsk) as (A1 & A2 & A3).
    destruct (Z.ltb_spec (Z.of_nat j) (len buf)); [|unfold len in *; lia].
    rewrite gindex_nat by exact A3. cbn [bind]. rewrite A1.
    cbn [forallb] in Hp. apply andb_true_iff in Hp. destruct Hp as [P Hp]. pose proof P as P'. unfold plain in P.
    apply andb_true_iff in P. destruct P as [P1 P2]. apply negb_true_iff in P1, P2. rewrite P1, P2. cbn [orb].
    replace (Z.of_nat j + 1) with (Z.of_nat (S j)) by lia.
    rewrite (IH rest f (S j) (b2n c) A2 Hp Hr) by (cbn in Hf; lia).
    cbn [length]. replace (S j + length run)%nat with (j + S (length run))%nat by lia. f_equal. f_equal.
    destruct rest; [|reflexivity]. cbn [rev]. destruct (rev run) eqn:R; [reflexivity|]. reflexivity.
Qed.

(** state behind byte i with a possibly stale lastChar *)
Definition stj (t0 : tkn) (i : nat) (l : N) : tkn := with_cur t0 (Z.of_nat i + 1) (Z.of_nat i + 1) l.

Lemma curj_stj t0 i c s : skipn i (t_buf t0) = c :: s -> curj t0 i = stj t0 i (b2n c).
Proof.
  intros H. destruct (skipn_cons_nth i _ c s x00 H) as (A1 & A2 & A3).
  unfold curj, stj. destruct (Nat.ltb_spec i (length (t_buf t0))); [|lia]. rewrite A1. reflexivity.
Qed.

Lemma next_stj t0 i l c s : skipn i (t_buf t0) = c :: s -> l <> c_eof -> next (stj t0 i l) = Ok (curj t0 (S i)).
Proof.
  intros H Hl. destruct (skipn_cons_nth i _ c s x00 H) as (A1 & A2 & A3). apply next_stale; assumption.
Qed.

Lemma plain_true delim c : plain delim c = true -> (b2n c =? delim)%N = false /\ (b2n c =? 92)%N = false.
Proof. unfold plain. intros H. apply andb_true_iff in H. destruct H as [A B]. apply negb_true_iff in A, B. auto. Qed.

Lemma scan_string_plain_special delim t0 j c s acc :
  skipn j (t_buf t0) = c :: s -> plain delim c = false ->
  scan_string_plain delim (curj t0 j) acc = Ok (inr (stj t0 j (b2n c), acc, b2n c)).
Proof.
  intros H P. unfold scan_string_plain. destruct (curj_last_cons _ _ _ _ H) as [E _]. rewrite E.
  unfold plain in P. rewrite P. rewrite (curj_stj _ _ _ _ H). reflexivity.
Qed.

Lemma firstn_app_exact {A} (l1 l2 : list A) : firstn (length l1) (l1 ++ l2) = l1.
Proof. rewrite firstn_app, Nat.sub_diag, firstn_all. cbn. apply app_nil_r. Qed.

Lemma scan_string_plain_run delim t0 j c run rest acc :
  skipn j (t_buf t0) = c :: run ++ rest -> plain delim c = true -> forallb (plain delim) run = true ->
  match rest with [] => True | x :: _ => plain delim x = false end ->
  scan_string_plain delim (curj t0 j) acc =
  match rest with
  | [] => Ok (inl (curj t0 (S j + length run), acc ++ c :: run))
  | sp :: _ => Ok (inr (stj t0 (S j + length run) (b2n c), acc ++ c :: run, b2n sp))
  end.
Proof.
  intros H P Hrun Hrest. unfold scan_string_plain.
  destruct (curj_last_cons _ _ _ _ H) as [E Hsk]. rewrite E.
  unfold plain in P. rewrite P. rewrite (curj_stj _ _ _ _ H).
  cbn [t_bufpos t_buf t_pos t_last stj with_cur].
  replace (Z.of_nat j + 1) with (Z.of_nat (S j)) by lia.
  destruct (skipn_cons_nth j _ _ _ x00 H) as (_ & _ & Hj).
  rewrite (scan_ahead_run delim (t_buf t0) run rest _ (S j) (b2n c) Hsk Hrun Hrest).
  2:{ assert (length (skipn (S j) (t_buf t0)) = length (run ++ rest)) by (rewrite Hsk; reflexivity).
      rewrite skipn_length, app_length in *. lia. }
  cbn [bind].
  assert (Hlen : (S j + length run + length rest = length (t_buf t0))%nat).
  { assert (length (skipn (S j) (t_buf t0)) = length (run ++ rest)) by (rewrite Hsk; reflexivity).
    rewrite skipn_length, app_length in *. lia. }
  rewrite gslice_nat by lia.
  replace (S j + length run - S j)%nat with (length run) by lia. unfold sub. rewrite Hsk, firstn_app_exact.
  cbn [bind]. rewrite <- app_assoc. cbn [app].
  unfold byte_of. rewrite n2b_b2n. unfold stj. rewrite !with_cur_with_cur.
  destruct rest as [|sp rest'].
  - cbn [length] in Hlen. destruct (Z.leb_spec (len (t_buf t0)) (Z.of_nat (S j + length run))); [|unfold len in *; lia].
    replace (Z.of_nat (S j) + (Z.of_nat (S j + length run) - Z.of_nat (S j))) with (Z.of_nat (j + length run) + 1) by lia.
    replace (Z.of_nat (S j + length run)) with (Z.of_nat (j + length run) + 1) by lia.
    rewrite next_stale by (try lia; apply b2n_ne_eof). cbn [bind].
    replace (S (j + length run)) with (S j + length run)%nat by lia. reflexivity.
  - cbn [length] in Hlen. destruct (Z.leb_spec (len (t_buf t0)) (Z.of_nat (S j + length run))); [unfold len in *; lia|].
    cbn [t_pos t_last with_cur].
    replace (Z.of_nat (S j) + (Z.of_nat (S j + length run) - Z.of_nat (S j)) + 1) with (Z.of_nat (S j + length run) + 1) by lia.
    reflexivity.
Qed.

Section StringRefinement.
Variable delim : N.
Variable typ : Z.
Variable t0 : tkn.
Hypothesis delim_byte : (delim < 256)%N.
Hypothesis delim_not_bslash : delim <> 92%N.

Definition LoopResult (fuel : nat) (j : nat) (acc : bytes) (index : Z) : Prop :=
  match sspec delim (index =? -1) acc (skipn j (t_buf t0)) with
  | Some (v, rest) =>
      scan_string_loop fuel delim typ (curj t0 j) acc index = Ok (curj t0 (length (t_buf t0) - length rest), typ, v)
  | None => exists t' b, scan_string_loop fuel delim typ (curj t0 j) acc index = Ok (t', TK_LEX_ERROR, b)
  end.

Lemma skipn_len_cons {A} j (l : list A) c s : skipn j l = c :: s -> (length l - length s = S j)%nat /\ (length s < length l)%nat.
Proof.
  intros H. assert (E : length (skipn j l) = S (length s)) by (rewrite H; reflexivity). rewrite skipn_length in E. lia.
Qed.

(** the second half of a turn, given that later turns behave as specified *)
Lemma special_step f index i l acc2 sp s3 :
  -1 <= index ->
  (forall j' acc' , (i < j')%nat -> (length (skipn j' (t_buf t0)) < f)%nat -> LoopResult f j' acc' (index + 1)) ->
  skipn i (t_buf t0) = sp :: s3 -> l <> c_eof -> plain delim sp = false -> (length s3 < f)%nat ->
  match sspec delim (index + 1 =? 0) acc2 (sp :: s3) with
  | Some (v, rest) =>
      scan_string_special (fun t3 acc3 => scan_string_loop f delim typ t3 acc3 (index + 1)) delim typ (index + 1)
        (stj t0 i l) acc2 (b2n sp) = Ok (curj t0 (length (t_buf t0) - length rest), typ, v)
  | None => exists t' b,
      scan_string_special (fun t3 acc3 => scan_string_loop f delim typ t3 acc3 (index + 1)) delim typ (index + 1)
        (stj t0 i l) acc2 (b2n sp) = Ok (t', TK_LEX_ERROR, b)
  end.
Proof.
  intros Hidx IH Hsk Hl Hsp Hf. unfold scan_string_special. rewrite (next_stj _ _ _ _ _ Hsk Hl). cbn [bind].
  destruct (skipn_cons_nth i _ _ _ x00 Hsk) as (_ & Hsk3 & _).
  assert (Efirst : (index + 1 =? -1) = false) by (apply Z.eqb_neq; lia).
  assert (Hnext : forall j' acc', (i < j')%nat -> (length (skipn j' (t_buf t0)) < f)%nat ->
     match sspec delim false acc' (skipn j' (t_buf t0)) with
     | Some (v, rest) =>
         scan_string_loop f delim typ (curj t0 j') acc' (index + 1) = Ok (curj t0 (length (t_buf t0) - length rest), typ, v)
     | None => exists t' b, scan_string_loop f delim typ (curj t0 j') acc' (index + 1) = Ok (t', TK_LEX_ERROR, b)
     end).
  { intros j' acc' A B. specialize (IH j' acc' A B). unfold LoopResult in IH. rewrite Efirst in IH. exact IH. }
  cbn [sspec]. destruct (b2n sp =? 92)%N eqn:Eb.
  - (* backslash *)
    destruct s3 as [|d s4].
    + rewrite (curj_last_nil _ _ Hsk3). change (is_eof c_eof) with true. cbv iota. eauto.
    + destruct (curj_last_cons _ _ _ _ Hsk3) as [Ed Hsk4]. rewrite Ed, is_eof_b2n.
      rewrite next_curj. cbn [bind].
      assert (Hf4 : (length (skipn (S (S i)) (t_buf t0)) < f)%nat) by (rewrite Hsk4; cbn [length] in Hf; lia).
      unfold byte_of. rewrite !n2b_b2n.
      destruct ((index + 1 =? 0) && ((b2n d =? 120) || (b2n d =? 88))%N).
      * specialize (Hnext (S (S i)) (acc2 ++ [sp; d]) ltac:(lia) Hf4). rewrite Hsk4 in Hnext. exact Hnext.
      * specialize (Hnext (S (S i)) (acc2 ++ [n2b (sql_decode (b2n d))]) ltac:(lia) Hf4). rewrite Hsk4 in Hnext. exact Hnext.
  - (* the delimiter *)
    assert (Ed : (b2n sp =? delim)%N = true).
    { unfold plain in Hsp. rewrite Eb in Hsp. cbn [negb andb] in Hsp. rewrite andb_true_r in Hsp.
      apply negb_false_iff in Hsp. exact Hsp. }
    rewrite Ed. cbn [andb].
    destruct s3 as [|d s4].
    + rewrite (curj_last_nil _ _ Hsk3).
      assert (En : (c_eof =? delim)%N = false) by (apply N.eqb_neq; rewrite c_eof_val; lia).
      rewrite En. cbn [negb]. cbn [length]. rewrite Nat.sub_0_r.
      f_equal. f_equal. f_equal. unfold curj.
      destruct (skipn_len_cons _ _ _ _ Hsk) as [A B]. cbn [length] in A.
      destruct (Nat.ltb_spec (S i) (length (t_buf t0))); [lia|].
      destruct (Nat.ltb_spec (length (t_buf t0)) (length (t_buf t0))); [lia|]. reflexivity.
    + destruct (curj_last_cons _ _ _ _ Hsk3) as [Ed2 Hsk4]. rewrite Ed2.
      destruct (b2n d =? delim)%N eqn:Edd; cbn [negb].
      * rewrite next_curj. cbn [bind].
        assert (Hf4 : (length (skipn (S (S i)) (t_buf t0)) < f)%nat) by (rewrite Hsk4; cbn [length] in Hf; lia).
        unfold byte_of. rewrite n2b_b2n.
        specialize (Hnext (S (S i)) (acc2 ++ [sp]) ltac:(lia) Hf4). rewrite Hsk4 in Hnext. exact Hnext.
      * f_equal. f_equal. f_equal. f_equal.
        destruct (skipn_len_cons _ _ _ _ Hsk) as [A B]. cbn [length] in A. cbn [length]. lia.
Qed.

Lemma loop_result : forall fuel j acc index,
  -1 <= index -> (length (skipn j (t_buf t0)) < fuel)%nat -> LoopResult fuel j acc index.
Proof.
  induction fuel as [|f IH]; intros j acc index Hidx Hf; [lia|].
  unfold LoopResult. cbn [scan_string_loop].
  assert (Efirst : (index =? -1) = (index + 1 =? 0)).
  { destruct (Z.eqb_spec index (-1)); destruct (Z.eqb_spec (index + 1) 0); try reflexivity; lia. }
  destruct (skipn j (t_buf t0)) as [|c s1] eqn:Hsk.
  - rewrite (curj_last_nil _ _ Hsk). change (is_eof c_eof) with true. cbv iota. cbn [sspec]. eauto.
  - destruct (curj_last_cons _ _ _ _ Hsk) as [Ec Hsk1]. rewrite Ec, is_eof_b2n.
    cbn [length] in Hf.
    assert (Later : forall j' acc', (j < j')%nat -> (length (skipn j' (t_buf t0)) < f)%nat -> LoopResult f j' acc' (index + 1)).
    { intros j' acc' A B. apply IH; [lia|exact B]. }
    destruct (plain delim c) eqn:P.
    + (* a run of plain characters *)
      destruct (plain_split delim s1) as (run & rest & Es & Hrun & Hrest). rewrite Es in Hsk, Hsk1, Hf |- *. clear Es.
      rewrite (scan_string_plain_run delim t0 j c run rest acc Hsk P Hrun Hrest).
      destruct (plain_true _ _ P) as [P1 P2].
      assert (Espec : sspec delim (index =? -1) acc (c :: run ++ rest) = sspec delim (index =? -1) (acc ++ c :: run) rest).
      { cbn [sspec]. rewrite P2, P1. rewrite sspec_plain_run by assumption. rewrite <- app_assoc. reflexivity. }
      rewrite Espec.
      destruct rest as [|sp s3]; cbn [bind].
      * (* the text ends inside the string *)
        cbn [sspec].
        assert (Hend : skipn (S j + length run) (t_buf t0) = []).
        { apply skipn_all2. assert (E : length (skipn (S j) (t_buf t0)) = length (run ++ [])) by (rewrite Hsk1; reflexivity).
          rewrite skipn_length, app_length in E. cbn [length] in E. lia. }
        destruct f as [|f']; [rewrite app_length in Hf; cbn [length] in Hf; lia|].
        cbn [scan_string_loop]. rewrite (curj_last_nil _ _ Hend). change (is_eof c_eof) with true. cbv iota. eauto.
      * assert (Hsk3 : skipn (S j + length run) (t_buf t0) = sp :: s3).
        { apply skipn_shift. exact Hsk1. }
        rewrite Efirst.
        apply (special_step f index (S j + length run) (b2n c) (acc ++ c :: run) sp s3 Hidx).
        -- intros j' acc' A B. apply Later; [lia|exact B].
        -- exact Hsk3.
        -- apply b2n_ne_eof.
        -- exact Hrest.
        -- rewrite app_length in Hf. cbn [length] in Hf. lia.
    + (* delimiter or backslash right away *)
      rewrite (scan_string_plain_special delim t0 j c s1 acc Hsk P). cbn [bind]. rewrite Efirst.
      apply (special_step f index j (b2n c) acc c s1 Hidx).
      * exact Later.
      * exact Hsk.
      * apply b2n_ne_eof.
      * exact P.
      * lia.
Qed.
End StringRefinement.

(** * Scan on a text that starts (after blanks) with a string literal or a comment *)
Lemma Scan_no_special t t1 tok val :
  t_special t = None -> scan_body (loop_fuel t) t = Ok (t1, tok, val) -> tok <> TK_RESCAN ->
  Scan t = Ok (t1, tok, val).
Proof.
  intros Hs Hb Hk. unfold Scan, scan_fuel. cbn [scan]. rewrite Hs. cbn [bind]. rewrite Hb. cbn [bind].
  apply Z.eqb_neq in Hk. rewrite Hk. reflexivity.
Qed.

Ltac red_ifs :=
  repeat match goal with
         | |- context [if ?c then _ else _] =>
             let v := eval vm_compute in c in
             match v with
             | true => change c with true; cbv iota
             | false => change c with false; cbv iota
             end
         end.

Definition blanks (ws : bytes) : Prop := Forall (fun c => is_blank (b2n c) = true) ws.

Section FromCursor.
Variables (d dd : dialect) (sql : bytes).
Let t0 := fresh d dd sql.

Lemma curj_frame j : t_special (curj t0 j) = None /\ t_feof (curj t0 j) = false /\ t_multi (curj t0 j) = false /\
  t_dia (curj t0 j) = d /\ t_buf (curj t0 j) = sql.
Proof. unfold curj. destruct (j <? length (t_buf t0))%nat; repeat split. Qed.

(** blanks are skipped up to, and not including, the first other character *)
Lemma skip_blank_curj j ws c s :
  skipn j sql = ws ++ c :: s -> blanks ws -> is_blank (b2n c) = false ->
  skip_blank (loop_fuel (curj t0 j)) (curj t0 j) = Ok (curj t0 (j + length ws)).
Proof.
  intros Hsk Hws Hc. unfold skip_blank.
  rewrite (scan_while_curj is_blank t0 blank_cond_eof ws (c :: s) _ j [] Hws Hc Hsk).
  - reflexivity.
  - unfold loop_fuel. rewrite curj_buf. change (t_buf t0) with sql.
    assert (E : length (skipn j sql) = length (ws ++ c :: s)) by (rewrite Hsk; reflexivity).
    rewrite skipn_length, app_length in E. lia.
Qed.

Lemma blank_not_zero c : is_blank (b2n c) = true -> (b2n c =? 0)%N = false.
Proof. intros H. destruct (N.eqb_spec (b2n c) 0) as [E|E]; [rewrite E in H; discriminate H|reflexivity]. Qed.

Lemma head_not_zero j ws c s :
  skipn j sql = ws ++ c :: s -> blanks ws -> (b2n c =? 0)%N = false -> (t_last (curj t0 j) =? 0)%N = false.
Proof.
  intros Hsk Hws Hc. destruct ws as [|w ws'].
  - destruct (curj_last_cons t0 j c s Hsk) as [E _]. rewrite E. exact Hc.
  - cbn [app] in Hsk. destruct (curj_last_cons t0 j w _ Hsk) as [E _]. rewrite E.
    apply blank_not_zero. inversion Hws; assumption.
Qed.

(** scan_body up to the first non-blank character [c]: the blanks are skipped, nothing else is touched *)
Lemma scan_body_skip j ws c s :
  skipn j sql = ws ++ c :: s -> blanks ws -> is_blank (b2n c) = false -> (b2n c =? 0)%N = false ->
  let k := (j + length ws)%nat in
  t_last (curj t0 k) = b2n c /\ skipn (S k) sql = s /\
  scan_body (loop_fuel (curj t0 j)) (curj t0 j) =
  (do t <- Ok (curj t0 k);
   let lf := loop_fuel (curj t0 j) in
   let ch := t_last t in
   let d := t_dia t in
   if is_letter ch then
     do t1 <- next t;
     if ((ch =? 88) || (ch =? 120))%N && (t_last t1 =? 39)%N then do t2 <- next t1; scan_hex lf t2
     else if ((ch =? 66) || (ch =? 98))%N && (t_last t1 =? 39)%N then do t2 <- next t1; scan_bit_literal lf t2
     else if ((ch =? 69) || (ch =? 101))%N && (t_last t1 =? 39)%N then
       do t2 <- next t1; scan_string lf t2 39%N TK_PG_ESCAPE_STRING
     else scan_identifier lf t1 (byte_of ch) ((ch =? 64)%N && (t_last t1 =? 64)%N)
   else if is_digit ch then scan_number lf t false
   else if (ch =? 58)%N then scan_bind_var lf t
   else if (ch =? 59)%N && t_multi t then Ok (t, 0, [])
   else
     do t1 <- next t;
     let l1 := t_last t1 in
     if is_eof ch then Ok (t1, 0, [])
     else if mem_n ch [61; 44; 59; 40; 41; 43; 42; 37; 94; 126]%N then Ok (t1, tokc ch, [])
     else if (ch =? 38)%N then
       if (l1 =? 38)%N then do t2 <- next t1; Ok (t2, TK_AND, []) else Ok (t1, tokc ch, [])
     else if (ch =? 124)%N then
       if (l1 =? 124)%N then do t2 <- next t1; Ok (t2, TK_OR, []) else Ok (t1, tokc ch, [])
     else if (ch =? 63)%N then
       let i := t_pvi t1 + 1 in Ok (set_pvi t1 i, TK_VALUE_ARG, pos_var i)
     else if (ch =? 46)%N then
       if is_digit l1 then scan_number lf t1 true else Ok (t1, tokc ch, [])
     else if (ch =? 47)%N then
       if (l1 =? 47)%N then do t2 <- next t1; scan_comment_type1 lf t2 [x2f; x2f]
       else if (l1 =? 42)%N then
         do t2 <- next t1;
         if (t_last t2 =? 33)%N then scan_mysql_specific_comment lf t2 else scan_comment_type2 lf t2
       else Ok (t1, tokc ch, [])
     else if (ch =? 35)%N then scan_comment_type1 lf t1 [x23]
     else if (ch =? 45)%N then
       if (l1 =? 45)%N then do t2 <- next t1; scan_comment_type1 lf t2 [x2d; x2d]
       else if (l1 =? 62)%N then
         do t2 <- next t1;
         if (t_last t2 =? 62)%N then do t3 <- next t2; Ok (t3, TK_JSON_UNQUOTE_EXTRACT_OP, [])
         else Ok (t2, TK_JSON_EXTRACT_OP, [])
       else Ok (t1, tokc ch, [])
     else if (ch =? 60)%N then
       if (l1 =? 62)%N then do t2 <- next t1; Ok (t2, TK_NE, [])
       else if (l1 =? 60)%N then do t2 <- next t1; Ok (t2, TK_SHIFT_LEFT, [])
       else if (l1 =? 61)%N then
         do t2 <- next t1;
         if (t_last t2 =? 62)%N then do t3 <- next t2; Ok (t3, TK_NULL_SAFE_EQUAL, []) else Ok (t2, TK_LE, [])
       else Ok (t1, tokc ch, [])
     else if (ch =? 62)%N then
       if (l1 =? 61)%N then do t2 <- next t1; Ok (t2, TK_GE, [])
       else if (l1 =? 62)%N then do t2 <- next t1; Ok (t2, TK_SHIFT_RIGHT, [])
       else Ok (t1, tokc ch, [])
     else if (ch =? 33)%N then
       if (l1 =? 61)%N then do t2 <- next t1; Ok (t2, TK_NE, []) else Ok (t1, tokc ch, [])
     else if (ch =? 36)%N then scan_dollar_parameter lf t1
     else if ident_quote d ch then scan_literal_identifier lf t1
     else if string_quote d ch then scan_string lf t1 ch (string_token_type ch)
     else Ok (t1, TK_LEX_ERROR, [byte_of ch])).
Proof.
  intros Hsk Hws Hb Hz k.
  assert (Hk : skipn k sql = c :: s) by (apply skipn_shift; exact Hsk).
  destruct (curj_last_cons t0 k c s Hk) as [El Hs]. split; [exact El|]. split; [exact Hs|].
  unfold scan_body at 1. rewrite (head_not_zero j ws c s Hsk Hws Hz).
  destruct (curj_frame j) as (_ & Hfe & _). cbn [bind]. rewrite Hfe.
  rewrite (skip_blank_curj j ws c s Hsk Hws Hb). reflexivity.
Qed.

(** ** a string literal *)
Theorem Scan_literal_cursor j ws body :
  skipn j sql = ws ++ x27 :: body -> blanks ws ->
  match sspec 39 true [] body with
  | Some (v, rest) => Scan (curj t0 j) = Ok (curj t0 (length sql - length rest), TK_SINGLE_QUOTE_STRING, v)
  | None => exists t' b, Scan (curj t0 j) = Ok (t', TK_LEX_ERROR, b)
  end.
Proof.
  intros Hsk Hws.
  destruct (scan_body_skip j ws x27 body Hsk Hws eq_refl eq_refl) as (El & Hs & Eb). cbv zeta in *.
  set (k := (j + length ws)%nat) in *.
  assert (Ebody : scan_body (loop_fuel (curj t0 j)) (curj t0 j) =
                  scan_string_loop (loop_fuel (curj t0 j)) 39 TK_SINGLE_QUOTE_STRING (curj t0 (S k)) [] (-1)).
  { rewrite Eb. cbn [bind]. rewrite El. change (b2n x27) with 39%N.
    destruct (curj_frame k) as (_ & _ & _ & Hd & _). rewrite Hd. rewrite next_curj. cbn [bind].
    red_ifs. destruct d; red_ifs; reflexivity. }
  pose proof (loop_result 39 TK_SINGLE_QUOTE_STRING t0 ltac:(lia) ltac:(lia) (loop_fuel (curj t0 j)) (S k) [] (-1) ltac:(lia)) as L.
  unfold LoopResult in L. change (t_buf t0) with sql in L. rewrite Hs in L. change (-1 =? -1) with true in L.
  assert (Hfuel : (length body < loop_fuel (curj t0 j))%nat).
  { unfold loop_fuel. rewrite curj_buf. change (t_buf t0) with sql.
    assert (E : length (skipn (S k) sql) = length body) by (rewrite Hs; reflexivity). rewrite skipn_length in E. lia. }
  specialize (L Hfuel).
  destruct (curj_frame j) as (Hsp & _).
  destruct (sspec 39 true [] body) as [[v rest]|].
  - apply Scan_no_special; [exact Hsp|rewrite Ebody; exact L|tokne].
  - destruct L as (t' & b & L). exists t', b. apply Scan_no_special; [exact Hsp|rewrite Ebody; exact L|tokne].
Qed.

(** ** (4b) a block comment is consumed verbatim, up to and including the first "*/" *)
Fixpoint no_close (body : bytes) : Prop :=
  match body with
  | c :: b' => match b' with d0 :: _ => ~ (c = x2a /\ d0 = x2f) | [] => True end /\ no_close b'
  | [] => True
  end.

Lemma b2n_eq_iff c k (x : byte) : b2n x = k -> ((b2n c =? k)%N = true <-> c = x).
Proof.
  intros Hx. split.
  - intros E. apply N.eqb_eq in E. apply b2n_inj. congruence.
  - intros ->. apply N.eqb_eq. exact Hx.
Qed.

Lemma comment2_loop_curj : forall body fuel j acc rest,
  no_close body -> skipn j sql = body ++ x2a :: x2f :: rest -> (length body + 2 < fuel)%nat ->
  comment2_loop fuel (curj t0 j) acc = Ok (curj t0 (j + length body + 2), acc ++ body ++ [x2a; x2f], true).
Proof.
  induction body as [|c b' IH]; intros fuel j acc rest Hnc Hsk Hf.
  - destruct fuel as [|f]; [cbn in Hf; lia|]. cbn [comment2_loop app length] in *.
    destruct (curj_last_cons t0 j _ _ Hsk) as [E1 Hsk1]. rewrite E1. change (b2n x2a =? 42)%N with true. cbv iota.
    rewrite (consume_next_curj t0 j _ _ acc Hsk). cbn [bind].
    destruct (curj_last_cons t0 (S j) _ _ Hsk1) as [E2 _]. rewrite E2. change (b2n x2f =? 47)%N with true. cbv iota.
    rewrite (consume_next_curj t0 (S j) _ _ _ Hsk1). cbn [bind].
    rewrite <- app_assoc. cbn [app]. replace (j + 0 + 2)%nat with (S (S j)) by lia. reflexivity.
  - destruct fuel as [|f]; [cbn in Hf; lia|]. cbn [comment2_loop]. cbn [app] in Hsk.
    destruct (curj_last_cons t0 j _ _ Hsk) as [E1 Hsk1]. rewrite E1.
    cbn [no_close] in Hnc. destruct Hnc as [Hhd Hnc'].
    assert (Hrec : comment2_loop f (curj t0 (S j)) (acc ++ [c]) =
                   Ok (curj t0 (j + length (c :: b') + 2), acc ++ (c :: b') ++ [x2a; x2f], true)).
    { rewrite (IH f (S j) (acc ++ [c]) rest Hnc' Hsk1) by (cbn [length] in Hf; lia).
      cbn [length]. rewrite <- app_assoc. cbn [app].
      replace (S j + length b' + 2)%nat with (j + S (length b') + 2)%nat by lia. reflexivity. }
    destruct (b2n c =? 42)%N eqn:Es.
    + rewrite (consume_next_curj t0 j _ _ acc Hsk). cbn [bind].
      assert (Hn47 : (t_last (curj t0 (S j)) =? 47)%N = false).
      { destruct b' as [|d0 b''].
        - cbn [app] in Hsk1. destruct (curj_last_cons t0 (S j) _ _ Hsk1) as [E2 _]. rewrite E2. reflexivity.
        - cbn [app] in Hsk1. destruct (curj_last_cons t0 (S j) _ _ Hsk1) as [E2 _]. rewrite E2.
          destruct (b2n d0 =? 47)%N eqn:Ed; [|reflexivity]. exfalso. apply Hhd.
          split; [apply (b2n_eq_iff c 42 x2a eq_refl); exact Es|apply (b2n_eq_iff d0 47 x2f eq_refl); exact Ed]. }
      rewrite Hn47. exact Hrec.
    + rewrite is_eof_b2n. rewrite (consume_next_curj t0 j _ _ acc Hsk). cbn [bind]. exact Hrec.
Qed.

Theorem Scan_block_comment_cursor j ws body rest :
  skipn j sql = ws ++ x2f :: x2a :: body ++ x2a :: x2f :: rest -> blanks ws -> no_close body ->
  match body with c :: _ => c <> x21 | [] => True end ->
  Scan (curj t0 j) =
  Ok (curj t0 (j + length ws + 2 + length body + 2), TK_COMMENT, x2f :: x2a :: body ++ [x2a; x2f]).
Proof.
  intros Hsk Hws Hnc Hbang.
  destruct (scan_body_skip j ws x2f _ Hsk Hws eq_refl eq_refl) as (El & Hs & Eb). cbv zeta in *.
  set (k := (j + length ws)%nat) in *.
  destruct (curj_last_cons t0 (S k) _ _ Hs) as [El1 Hs2]. change (t_buf t0) with sql in Hs2.
  assert (El2 : (t_last (curj t0 (S (S k))) =? 33)%N = false).
  { destruct body as [|c b'].
    - cbn [app] in Hs2. destruct (curj_last_cons t0 _ _ _ Hs2) as [E _]. rewrite E. reflexivity.
    - cbn [app] in Hs2. destruct (curj_last_cons t0 _ _ _ Hs2) as [E _]. rewrite E.
      destruct (b2n c =? 33)%N eqn:Ec; [|reflexivity]. exfalso. apply Hbang. apply (b2n_eq_iff c 33 x21 eq_refl). exact Ec. }
  destruct (curj_frame j) as (Hsp & _).
  apply Scan_no_special; [exact Hsp| |tokne].
  rewrite Eb. cbn [bind]. rewrite El. change (b2n x2f) with 47%N. red_ifs.
  rewrite next_curj. cbn [bind]. cbv zeta. rewrite El1. change (b2n x2a) with 42%N. red_ifs.
  rewrite next_curj. cbn [bind]. rewrite El2.
  unfold scan_comment_type2.
  rewrite (comment2_loop_curj body _ (S (S k)) x_slash_star rest Hnc Hs2).
  - cbn [bind]. unfold x_slash_star. cbn [app]. f_equal. f_equal. f_equal. f_equal. lia.
  - unfold loop_fuel. rewrite curj_buf. change (t_buf t0) with sql.
    assert (E : length (skipn (S (S k)) sql) = length (body ++ x2a :: x2f :: rest)) by (rewrite Hs2; reflexivity).
    rewrite skipn_length, app_length in E. cbn [length] in E. lia.
Qed.

(** the first call on a fresh tokenizer only reads the first byte *)
Lemma Scan_fresh_curj c s : sql = c :: s -> (b2n c =? 0)%N = false -> Scan t0 = Scan (curj t0 0).
Proof.
  intros E Hc.
  assert (Hl : t_last (curj t0 0) = b2n c).
  { destruct (curj_last_cons t0 0 c s) as [A _]; [cbn [skipn]; exact E|exact A]. }
  assert (Hb : scan_body (loop_fuel t0) t0 = scan_body (loop_fuel (curj t0 0)) (curj t0 0)).
  { unfold scan_body. rewrite Hl, Hc. change (t_last t0) with 0%N. change (0 =? 0)%N with true. cbv iota.
    rewrite (next_fresh d dd sql : next t0 = Ok (curj t0 0)). cbn [bind].
    replace (loop_fuel (curj t0 0)) with (loop_fuel t0) by (unfold loop_fuel; rewrite curj_buf; reflexivity).
    reflexivity. }
  unfold Scan.
  replace (scan_fuel (curj t0 0)) with (scan_fuel t0).
  2:{ unfold scan_fuel, curj. destruct (0 <? length (t_buf t0))%nat; reflexivity. }
  unfold scan_fuel. cbn [scan]. destruct (curj_frame 0) as (Hsp & _). rewrite Hsp.
  change (t_special t0) with (@None tkn). cbn [bind]. rewrite Hb. reflexivity.
Qed.
End FromCursor.

(** * the list-level scanner is the one of the C13 model (Model/SqlExpr.v) for the single quote *)
Lemma assoc_b_eq m c : assoc_b m c = assoc_byte m c.
Proof. induction m as [|[a b] m IH]; cbn; [reflexivity|]. destruct (byte_eqb a c); [reflexivity|exact IH]. Qed.

Lemma is_bslash_eq c : (b2n c =? 92)%N = byte_eqb c x_bslash.
Proof. destruct c; reflexivity. Qed.
Lemma is_quote_eq c : (b2n c =? 39)%N = byte_eqb c x_quote.
Proof. destruct c; reflexivity. Qed.
Lemma is_x_eq c : ((b2n c =? 120) || (b2n c =? 88))%N = is_x c.
Proof. destruct c; reflexivity. Qed.
Lemma decode_eq d : byte_of (sql_decode (b2n d)) = match assoc_byte SQL_DECODE_MAP d with Some o => o | None => d end.
Proof.
  unfold sql_decode, byte_of. rewrite n2b_b2n, assoc_b_eq.
  destruct (assoc_byte SQL_DECODE_MAP d); apply n2b_b2n.
Qed.

Lemma sspec_quote_eq : forall n s first acc, (length s <= n)%nat -> sspec 39 first acc s = SqlExpr.scan_string first acc s.
Proof.
  induction n as [|n IH]; intros s first acc Hn.
  - destruct s; [reflexivity|cbn in Hn; lia].
  - destruct s as [|c s1]; [reflexivity|]. cbn [sspec SqlExpr.scan_string]. cbn [length] in Hn.
    rewrite is_bslash_eq, is_quote_eq. destruct (byte_eqb c x_bslash) eqn:Eb.
    + destruct s1 as [|d0 s2]; [reflexivity|]. cbn [length] in Hn. rewrite is_x_eq, decode_eq.
      apply byte_eqb_eq in Eb. subst c.
      destruct (first && is_x d0); apply IH; lia.
    + destruct (byte_eqb c x_quote) eqn:Eq.
      * destruct s1 as [|d0 s2]; [reflexivity|]. cbn [length] in Hn. rewrite is_quote_eq.
        apply byte_eqb_eq in Eq. subst c.
        destruct (byte_eqb d0 x_quote); [apply IH; lia|reflexivity].
      * apply IH; lia.
Qed.

Lemma blanks_first_nonzero ws c s : blanks ws -> (b2n c =? 0)%N = false ->
  exists c0 s0, ws ++ c :: s = c0 :: s0 /\ (b2n c0 =? 0)%N = false.
Proof.
  intros Hws Hc. destruct ws as [|w ws'].
  - exists c, s. split; [reflexivity|exact Hc].
  - exists w, (ws' ++ c :: s). split; [reflexivity|]. apply blank_not_zero. inversion Hws; assumption.
Qed.

(** ** (4a) a literal written by the encoder is scanned back to its value, wherever it stands after blanks;
    the cursor ends exactly behind the closing quote *)
Theorem Scan_encoded_literal d dd ws v rest :
  blanks ws -> not_quote_head rest ->
  let sql := ws ++ encode_sql v ++ rest in
  Scan (fresh d dd sql) = Ok (curj (fresh d dd sql) (length sql - length rest), TK_SINGLE_QUOTE_STRING, v).
Proof.
  intros Hws Hrest sql.
  pose proof (escape_roundtrip v rest Hrest) as R. unfold decode_sql in R.
  assert (Esql : sql = ws ++ x27 :: (enc_body v ++ [x_quote]) ++ rest) by reflexivity.
  change (encode_sql v ++ rest) with (x_quote :: (enc_body v ++ [x_quote]) ++ rest) in R.
  cbv iota in R. change (byte_eqb x_quote x_quote) with true in R. cbv iota in R.
  destruct (blanks_first_nonzero ws x27 ((enc_body v ++ [x_quote]) ++ rest) Hws eq_refl) as (c0 & s0 & E0 & Hc0).
  rewrite (Scan_fresh_curj d dd sql c0 s0) by (try exact Hc0; rewrite Esql; exact E0).
  pose proof (Scan_literal_cursor d dd sql 0 ws ((enc_body v ++ [x_quote]) ++ rest)) as L.
  cbn [skipn] in L. specialize (L Esql Hws).
  rewrite (sspec_quote_eq _ _ true [] (le_n _)), R in L. exact L.
Qed.

(** the literal theorem from any cursor state *)
Theorem Scan_encoded_literal_cursor d dd sql j ws v rest :
  skipn j sql = ws ++ encode_sql v ++ rest -> blanks ws -> not_quote_head rest ->
  Scan (curj (fresh d dd sql) j) = Ok (curj (fresh d dd sql) (length sql - length rest), TK_SINGLE_QUOTE_STRING, v).
Proof.
  intros Hsk Hws Hrest.
  pose proof (escape_roundtrip v rest Hrest) as R. unfold decode_sql in R.
  change (encode_sql v ++ rest) with (x_quote :: (enc_body v ++ [x_quote]) ++ rest) in R, Hsk.
  cbv iota in R. change (byte_eqb x_quote x_quote) with true in R. cbv iota in R.
  pose proof (Scan_literal_cursor d dd sql j ws ((enc_body v ++ [x_quote]) ++ rest) Hsk Hws) as L.
  rewrite (sspec_quote_eq _ _ true [] (le_n _)), R in L. exact L.
Qed.

(** ** (4b) blanks and a comment in front of a literal: the comment is returned verbatim (quote characters in it
    open nothing), the next call returns the literal's value, and the cursor stands behind its closing quote *)
Theorem Scan_comment_then_literal d dd ws1 body ws2 v rest :
  blanks ws1 -> blanks ws2 -> no_close body -> match body with c :: _ => c <> x21 | [] => True end ->
  not_quote_head rest ->
  let comment := x2f :: x2a :: body ++ [x2a; x2f] in
  let sql := ws1 ++ comment ++ ws2 ++ encode_sql v ++ rest in
  exists t1,
    Scan (fresh d dd sql) = Ok (t1, TK_COMMENT, comment) /\
    Scan t1 = Ok (curj (fresh d dd sql) (length sql - length rest), TK_SINGLE_QUOTE_STRING, v).
Proof.
  intros Hw1 Hw2 Hnc Hbang Hrest comment sql.
  set (tail := ws2 ++ encode_sql v ++ rest).
  assert (Esql : sql = ws1 ++ x2f :: x2a :: body ++ x2a :: x2f :: tail).
  { unfold sql, comment, tail. cbn [app]. rewrite <- !app_assoc. reflexivity. }
  destruct (blanks_first_nonzero ws1 x2f (x2a :: body ++ x2a :: x2f :: tail) Hw1 eq_refl) as (c0 & s0 & E0 & Hc0).
  exists (curj (fresh d dd sql) (0 + length ws1 + 2 + length body + 2)). split.
  - rewrite (Scan_fresh_curj d dd sql c0 s0) by (try exact Hc0; rewrite Esql; exact E0).
    apply (Scan_block_comment_cursor d dd sql 0 ws1 body tail); [cbn [skipn]; exact Esql|assumption..].
  - apply (Scan_encoded_literal_cursor d dd sql _ ws2 v rest); [|assumption..].
    rewrite Esql. replace (0 + length ws1 + 2 + length body + 2)%nat with (length ws1 + (2 + (length body + 2)))%nat by lia.
    rewrite skipn_app, skipn_all2 by lia. cbn [app].
    replace (length ws1 + (2 + (length body + 2)) - length ws1)%nat with (2 + (length body + 2))%nat by lia.
    cbn [skipn plus]. replace (length body + 2)%nat with (length body + 2 - 0)%nat by lia.
    change (x2a :: x2f :: tail) with ([x2a; x2f] ++ tail). rewrite app_assoc.
    rewrite skipn_app, skipn_all2 by (rewrite app_length; cbn [length]; lia). cbn [app].
    rewrite app_length. cbn [length]. replace (length body + 2 - 0 - (length body + 2))%nat with 0%nat by lia. reflexivity.
Qed.

(** blanks alone: the literal is found behind them *)
Theorem skip_blank_stops d dd sql j ws c s :
  skipn j sql = ws ++ c :: s -> blanks ws -> is_blank (b2n c) = false ->
  skip_blank (loop_fuel (curj (fresh d dd sql) j)) (curj (fresh d dd sql) j) = Ok (curj (fresh d dd sql) (j + length ws)) /\
  t_last (curj (fresh d dd sql) (j + length ws)) = b2n c.
Proof.
  intros Hsk Hws Hc. split; [apply (skip_blank_curj d dd sql j ws c s Hsk Hws Hc)|].
  destruct (curj_last_cons (fresh d dd sql) (j + length ws) c s) as [E _]; [apply skipn_shift; exact Hsk|exact E].
Qed.

(** ** (4b) line comments ("--", "#"): consumed verbatim up to and including the first line feed *)
Section LineComment.
Variables (d dd : dialect) (sql : bytes).
Let t0 := fresh d dd sql.

Lemma comment1_loop_curj : forall line fuel j acc rest,
  Forall (fun c => c <> x0a) line -> skipn j sql = line ++ x0a :: rest -> (length line + 1 < fuel)%nat ->
  comment1_loop fuel (curj t0 j) acc = Ok (curj t0 (j + length line + 1), acc ++ line ++ [x0a]).
Proof.
  induction line as [|c line IH]; intros fuel j acc rest Hl Hsk Hf.
  - destruct fuel as [|f]; [lia|]. cbn [comment1_loop app length] in *.
    destruct (curj_last_cons t0 j _ _ Hsk) as [E _]. rewrite E, is_eof_b2n. change (b2n x0a =? 10)%N with true. cbv iota.
    rewrite (consume_next_curj t0 j _ _ acc Hsk). replace (j + 0 + 1)%nat with (S j) by lia. reflexivity.
  - destruct fuel as [|f]; [cbn in Hf; lia|]. cbn [comment1_loop]. cbn [app] in Hsk.
    destruct (curj_last_cons t0 j _ _ Hsk) as [E Hsk1]. rewrite E, is_eof_b2n.
    inversion Hl as [|? ? Hc Hl']; subst.
    assert (En : (b2n c =? 10)%N = false).
    { destruct (b2n c =? 10)%N eqn:X; [|reflexivity]. exfalso. apply Hc. apply (b2n_eq_iff c 10 x0a eq_refl). exact X. }
    rewrite En. rewrite (consume_next_curj t0 j _ _ acc Hsk). cbn [bind].
    rewrite (IH f (S j) (acc ++ [c]) rest Hl' Hsk1) by (cbn [length] in Hf; lia).
    cbn [length]. rewrite <- app_assoc. cbn [app].
    replace (S j + length line + 1)%nat with (j + S (length line) + 1)%nat by lia. reflexivity.
Qed.

Theorem Scan_line_comment_cursor j ws line rest :
  skipn j sql = ws ++ x2d :: x2d :: line ++ x0a :: rest -> blanks ws -> Forall (fun c => c <> x0a) line ->
  Scan (curj t0 j) =
  Ok (curj t0 (j + length ws + 2 + length line + 1), TK_COMMENT, x2d :: x2d :: line ++ [x0a]).
Proof.
  intros Hsk Hws Hl. unfold t0 in *.
  destruct (scan_body_skip d dd sql j ws x2d _ Hsk Hws eq_refl eq_refl) as (El & Hs & Eb). cbv zeta in *.
  set (k := (j + length ws)%nat) in *.
  destruct (curj_last_cons (fresh d dd sql) (S k) _ _ Hs) as [El1 Hs2]. change (t_buf (fresh d dd sql)) with sql in Hs2.
  destruct (curj_frame d dd sql j) as (Hsp & _).
  apply Scan_no_special; [exact Hsp| |tokne].
  rewrite Eb. cbn [bind]. rewrite El. change (b2n x2d) with 45%N. red_ifs.
  rewrite next_curj. cbn [bind]. cbv zeta. rewrite El1. change (b2n x2d) with 45%N. red_ifs.
  rewrite next_curj. cbn [bind]. unfold scan_comment_type1.
  rewrite (comment1_loop_curj line _ (S (S k)) [x2d; x2d] rest Hl Hs2).
  - cbn [bind app]. f_equal. f_equal. f_equal. f_equal. lia.
  - unfold loop_fuel. rewrite curj_buf. change (t_buf (fresh d dd sql)) with sql.
    assert (E : length (skipn (S (S k)) sql) = length (line ++ x0a :: rest)) by (rewrite Hs2; reflexivity).
    rewrite skipn_length, app_length in E. cbn [length] in E. lia.
Qed.
End LineComment.

(** a "--" comment holding quote characters, then a literal on the next line *)
Theorem Scan_line_comment_then_literal d dd ws1 line ws2 v rest :
  blanks ws1 -> blanks ws2 -> Forall (fun c => c <> x0a) line -> not_quote_head rest ->
  let comment := x2d :: x2d :: line ++ [x0a] in
  let sql := ws1 ++ comment ++ ws2 ++ encode_sql v ++ rest in
  exists t1,
    Scan (fresh d dd sql) = Ok (t1, TK_COMMENT, comment) /\
    Scan t1 = Ok (curj (fresh d dd sql) (length sql - length rest), TK_SINGLE_QUOTE_STRING, v).
Proof.
  intros Hw1 Hw2 Hl Hrest comment sql.
  set (tail := ws2 ++ encode_sql v ++ rest).
  assert (Esql : sql = ws1 ++ x2d :: x2d :: line ++ x0a :: tail).
  { unfold sql, comment, tail. cbn [app]. rewrite <- !app_assoc. reflexivity. }
  destruct (blanks_first_nonzero ws1 x2d (x2d :: line ++ x0a :: tail) Hw1 eq_refl) as (c0 & s0 & E0 & Hc0).
  exists (curj (fresh d dd sql) (0 + length ws1 + 2 + length line + 1)). split.
  - rewrite (Scan_fresh_curj d dd sql c0 s0) by (try exact Hc0; rewrite Esql; exact E0).
    apply (Scan_line_comment_cursor d dd sql 0 ws1 line tail); [cbn [skipn]; exact Esql|assumption..].
  - apply (Scan_encoded_literal_cursor d dd sql _ ws2 v rest); [|assumption..].
    rewrite Esql.
    replace (0 + length ws1 + 2 + length line + 1)%nat with (0 + length (ws1 ++ x2d :: x2d :: line ++ [x0a]))%nat
      by (rewrite app_length; cbn [length]; rewrite app_length; cbn [length]; lia).
    apply skipn_shift. cbn [skipn]. rewrite <- app_assoc. cbn [app]. rewrite <- app_assoc. reflexivity.
Qed.

