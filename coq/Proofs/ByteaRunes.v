(** Proofs about the CHECKED rune-level twin of utils.DecodeOctal (Model/ByteaRunes.v): it equals the
    structural model (Model/Bytea.v decode_octal) on EVERY byte string, hence never panics; the variant whose
    guards use the byte length agrees when rune count = byte count and panics otherwise (witness). *)
From Acra Require Import Lib.Bytes Lib.Outcome Lib.GoSlice Model.Bytea Model.ByteaRunes Model.RunByteaRunes Proofs.Bytea.
From Coq Require Import ZArith Lia ZifyN ZifyNat ZifyBool.
Local Open Scope Z_scope.

Lemma rlen_app a b : rlen (a ++ b) = rlen a + rlen b.
Proof. unfold rlen. rewrite app_length. lia. Qed.
Lemma rlen_cons x r : rlen (x :: r) = 1 + rlen r.
Proof. unfold rlen. cbn [length]. lia. Qed.
Lemma rlen_nonneg t : 0 <= rlen t.
Proof. unfold rlen. lia. Qed.

Lemma rindex_ok k t : 0 <= k -> k < rlen t -> rindex k t = Ok (nth (Z.to_nat k) t 0%N).
Proof.
  intros H0 H1. unfold rindex.
  destruct (Z.leb_spec 0 k); [|lia]. destruct (Z.ltb_spec k (rlen t)); [|lia]. reflexivity.
Qed.

Lemma rindex_app pre suf k : 0 <= k -> rindex (rlen pre + k) (pre ++ suf) = rindex k suf.
Proof.
  intros Hk. unfold rindex. rewrite rlen_app.
  pose proof (rlen_nonneg pre) as Hp.
  replace (0 <=? rlen pre + k) with (0 <=? k)
    by (destruct (Z.leb_spec 0 k); destruct (Z.leb_spec 0 (rlen pre + k)); try reflexivity; lia).
  replace (rlen pre + k <? rlen pre + rlen suf) with (k <? rlen suf)
    by (destruct (Z.ltb_spec k (rlen suf)); destruct (Z.ltb_spec (rlen pre + k) (rlen pre + rlen suf)); try reflexivity; lia).
  destruct ((0 <=? k) && (k <? rlen suf)); [|reflexivity].
  f_equal. rewrite app_nth2 by (unfold rlen in *; lia).
  f_equal. unfold rlen. lia.
Qed.

Lemma rindex_0 a r : rindex 0 (a :: r) = Ok a.
Proof. rewrite rindex_ok; [reflexivity| lia| rewrite rlen_cons; pose proof (rlen_nonneg r); lia]. Qed.
Lemma rindex_1 a b r : rindex 1 (a :: b :: r) = Ok b.
Proof. rewrite rindex_ok; [reflexivity| lia| rewrite !rlen_cons; pose proof (rlen_nonneg r); lia]. Qed.
Lemma rindex_2 a b c r : rindex 2 (a :: b :: c :: r) = Ok c.
Proof. rewrite rindex_ok; [reflexivity| lia| rewrite !rlen_cons; pose proof (rlen_nonneg r); lia]. Qed.
Lemma rindex_3 a b c d r : rindex 3 (a :: b :: c :: d :: r) = Ok d.
Proof. rewrite rindex_ok; [reflexivity| lia| rewrite !rlen_cons; pose proof (rlen_nonneg r); lia]. Qed.

Lemma dor_loop_S f bound t i out :
  dor_loop (S f) bound t i out =
      if negb (i <? rlen t) then Ok out else
      do ch <- rindex i t;
      if is_control ch then Err E_OCTAL else
      if negb (ch =? BACKSLASH)%N then dor_loop f bound t (i + 1) (out ++ encode_rune ch) else
      if bound - 1 <=? i then Err E_OCTAL else
      do c1 <- rindex (i + 1) t;
      if (c1 =? BACKSLASH)%N then dor_loop f bound t (i + 2) (out ++ [n2b BACKSLASH]) else
      if bound <=? i + 3 then Err E_OCTAL else
      do d1 <- octal_digit_at t (i + 1);
      do d2 <- octal_digit_at t (i + 2);
      do d3 <- octal_digit_at t (i + 3);
      dor_loop f bound t (i + 4) (out ++ [n2b (d1 * 64 + d2 * 8 + d3)]).
Proof. reflexivity. Qed.

Definition lift (out : bytes) (r : res bytes) : res bytes :=
  match r with Ok o => Ok (out ++ o) | Err e => Err e | Panic => Panic end.

Lemma lift_bind out (r : res bytes) (p : bytes) :
  lift out (do o <- r; Ok (p ++ o)) = lift (out ++ p) r.
Proof. destruct r as [o|e|]; cbn [bind lift]; [rewrite app_assoc|..]; reflexivity. Qed.

(** the index loop at position [len pre] of [pre ++ suf] computes the structural decoder of [suf] *)
Lemma dor_loop_struct n : forall suf, (length suf <= n)%nat -> forall pre out fuel, (length suf < fuel)%nat ->
  dor_loop fuel (rlen (pre ++ suf)) (pre ++ suf) (rlen pre) out = lift out (decode_octal_runes suf).
Proof.
  induction n as [|n IH]; intros suf Hn pre out fuel Hf.
  - destruct suf as [|ch r]; [|cbn [length] in Hn; lia].
    destruct fuel as [|f]; [cbn [length] in Hf; lia|]. rewrite dor_loop_S, app_nil_r.
    destruct (Z.ltb_spec (rlen pre) (rlen pre)); [lia|]. cbn. rewrite app_nil_r. reflexivity.
  - destruct suf as [|ch r].
    { destruct fuel as [|f]; [cbn [length] in Hf; lia|]. rewrite dor_loop_S, app_nil_r.
      destruct (Z.ltb_spec (rlen pre) (rlen pre)); [lia|]. cbn. rewrite app_nil_r. reflexivity. }
    cbn [length] in Hn, Hf. destruct fuel as [|f]; [lia|].
    rewrite dor_loop_S.
    pose proof (rlen_nonneg pre) as Hp. pose proof (rlen_nonneg r) as Hr.
    assert (Ht : rlen (pre ++ ch :: r) = rlen pre + 1 + rlen r) by (rewrite rlen_app, rlen_cons; lia).
    destruct (Z.ltb_spec (rlen pre) (rlen (pre ++ ch :: r))) as [_|Hbad]; [|lia]. cbn [negb].
    replace (rindex (rlen pre) (pre ++ ch :: r)) with (Ok ch : res N)
      by (rewrite <- (Z.add_0_r (rlen pre)) at 1; rewrite rindex_app by lia; rewrite rindex_0; reflexivity).
    cbn [bind]. rewrite dor_cons.
    destruct (is_control ch); [reflexivity|].
    assert (Hstep1 : forall o', dor_loop f (rlen (pre ++ ch :: r)) (pre ++ ch :: r) (rlen pre + 1) o' =
                                lift o' (decode_octal_runes r)).
    { intros o'. replace (pre ++ ch :: r) with ((pre ++ [ch]) ++ r) by (rewrite <- app_assoc; reflexivity).
      replace (rlen pre + 1) with (rlen (pre ++ [ch])) by (rewrite rlen_app, rlen_cons; cbn; lia).
      apply IH; lia. }
    destruct (negb (ch =? BACKSLASH)%N).
    { rewrite Hstep1, lift_bind. reflexivity. }
    destruct r as [|c1 r1].
    { destruct (Z.leb_spec (rlen (pre ++ [ch]) - 1) (rlen pre)) as [_|Hbad]; [reflexivity|].
      rewrite rlen_app, rlen_cons in Hbad. cbn in Hbad. lia. }
    cbn [length] in Hn, Hf. pose proof (rlen_nonneg r1) as Hr1. rewrite rlen_cons in Ht, Hr.
    destruct (Z.leb_spec (rlen (pre ++ ch :: c1 :: r1) - 1) (rlen pre)) as [Hbad|_]; [lia|].
    replace (rindex (rlen pre + 1) (pre ++ ch :: c1 :: r1)) with (Ok c1 : res N)
      by (rewrite rindex_app by lia; rewrite rindex_1; reflexivity).
    cbn [bind].
    destruct (c1 =? BACKSLASH)%N.
    { replace (pre ++ ch :: c1 :: r1) with ((pre ++ [ch; c1]) ++ r1) by (rewrite <- app_assoc; reflexivity).
      replace (rlen pre + 2) with (rlen (pre ++ [ch; c1])) by (rewrite rlen_app, !rlen_cons; cbn; lia).
      rewrite IH by lia.
      change (n2b BACKSLASH :: ?x) with ([n2b BACKSLASH] ++ x).
      destruct (decode_octal_runes r1) as [o|e|]; cbn [bind lift]; [rewrite <- app_assoc|..]; reflexivity. }
    destruct r1 as [|c2 [|c3 r3]].
    { destruct (Z.leb_spec (rlen (pre ++ [ch; c1])) (rlen pre + 3)) as [_|Hbad]; [reflexivity|].
      rewrite rlen_app, !rlen_cons in Hbad. cbn in Hbad. lia. }
    { destruct (Z.leb_spec (rlen (pre ++ [ch; c1; c2])) (rlen pre + 3)) as [_|Hbad]; [reflexivity|].
      rewrite rlen_app, !rlen_cons in Hbad. cbn in Hbad. lia. }
    cbn [length] in Hn, Hf. pose proof (rlen_nonneg r3) as Hr3. rewrite !rlen_cons in Ht.
    destruct (Z.leb_spec (rlen (pre ++ ch :: c1 :: c2 :: c3 :: r3)) (rlen pre + 3)) as [Hbad|_]; [lia|].
    unfold octal_digit_at.
    rewrite !rindex_app by lia. rewrite rindex_1, rindex_2, rindex_3. cbn [bind].
    destruct (is_octal_digit c1); cbn [andb bind]; [|reflexivity].
    destruct (is_octal_digit c2); cbn [andb bind]; [|reflexivity].
    destruct (is_octal_digit c3); cbn [andb bind]; [|reflexivity].
    replace (pre ++ ch :: c1 :: c2 :: c3 :: r3) with ((pre ++ [ch; c1; c2; c3]) ++ r3) by (rewrite <- app_assoc; reflexivity).
    replace (rlen pre + 4) with (rlen (pre ++ [ch; c1; c2; c3])) by (rewrite rlen_app, !rlen_cons; cbn; lia).
    rewrite IH by lia.
    match goal with |- context [n2b ?v :: _] => change (n2b v :: ?x) with ([n2b v] ++ x) end.
    destruct (decode_octal_runes r3) as [o|e|]; cbn [bind lift]; [rewrite <- app_assoc|..]; reflexivity.
Qed.

(** * the checked twin equals the structural model on every input *)
Theorem decode_octal_checked_eq (d : bytes) : decode_octal_checked d = decode_octal d.
Proof.
  unfold decode_octal_checked, decode_octal.
  pose proof (dor_loop_struct (length (to_runes d)) (to_runes d) (le_n _) [] [] (S (length (to_runes d)))) as H.
  cbn [app] in H. change (rlen []) with 0 in H. rewrite H by lia.
  destruct (decode_octal_runes (to_runes d)); reflexivity.
Qed.

Theorem decode_octal_checked_total (d : bytes) : decode_octal_checked d <> Panic.
Proof. rewrite decode_octal_checked_eq. apply wire_decode_octal_total. Qed.

Theorem decode_escaped_checked_eq (d : bytes) : decode_escaped_checked d = decode_escaped d.
Proof.
  unfold decode_escaped_checked, decode_escaped. rewrite decode_octal_checked_eq.
  pose proof (wire_decode_octal_total d) as Ht.
  destruct d as [|a [|b r]]; try (destruct (decode_octal _); [reflexivity|reflexivity|exfalso; apply Ht; reflexivity]).
Qed.

Theorem decode_escaped_checked_total (d : bytes) : decode_escaped_checked d <> Panic.
Proof. rewrite decode_escaped_checked_eq. apply wire_decode_escaped_total. Qed.

(** every replayed entry point (decoder and consumers) is panic-free *)
Theorem run_never_panics (o : op) : run o <> XPanic.
Proof.
  destruct o as [d|d|d|d|d|d]; cbn [run]; unfold keep_on_octal, canon;
    try (pose proof (decode_octal_checked_total d) as H; destruct (decode_octal_checked d); [discriminate|discriminate|exfalso; apply H; reflexivity]);
    pose proof (decode_escaped_checked_total d) as H; destruct (decode_escaped_checked d) as [x|e|];
    try discriminate; try (exfalso; apply H; reflexivity); destruct (e =? E_OCTAL)%N; discriminate.
Qed.

(** * guards written with the BYTE length *)
Theorem bytelen_agrees (d : bytes) : length (to_runes d) = length d -> decode_octal_bytelen d = decode_octal_checked d.
Proof. intros H. unfold decode_octal_bytelen, decode_octal_checked, len, rlen. rewrite H. reflexivity. Qed.

Theorem bytelen_agrees_ascii (d : bytes) : Forall (fun b => (b2n b < 128)%N) d -> decode_octal_bytelen d = decode_octal_checked d.
Proof. intros H. apply bytelen_agrees. rewrite to_runes_ascii by exact H. apply map_length. Qed.
