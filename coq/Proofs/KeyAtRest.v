(** C07: encrypt-before-write / owner binding of keystore v1 (model: Model/KeyAtRest.v). *)
From Acra Require Import Lib.Bytes Lib.Outcome Crypto.Interface Crypto.Stub Gen.KsConsts Model.Path Model.KeyAtRest.

Definition sink_key (g : cfg) (s : sink) : bytes :=
  match s with SFile _ => master g | SCache _ => cache_key g end.

Definition secret_kind (k : v1kind) : bool := match k with KStoragePub => false | _ => true end.

(** the sink is the storage place of key ([k], [id]): its file, or its cache entry *)
Definition names (g : cfg) (s : sink) (k : v1kind) (id : bytes) : Prop :=
  match s with
  | SFile p => p = priv_path g k id
  | SCache n => n = v1_fname k id \/ n = priv_path g k id
  end.

(** what may be handed to storage: a seal under the sink's key whose associated data is the
    (validated) owner id, stored under a name of that owner; clear bytes only under a
    public-key name *)
Definition event_ok (g : cfg) (e : event) : Prop :=
  match snd e with
  | Sealed key ctx _ _ =>
      exists k id, secret_kind k = true /\ validate_id id = true /\ names g (fst e) k id /\
                   key = sink_key g (fst e) /\ ctx = id
  | Plain _ => exists id, validate_id id = true /\ names g (fst e) KStoragePub id
  end.

Lemma key_encrypt_some m kc n k t :
  key_encrypt m kc n k = Some t -> t = Sealed m (kctx_bytes kc) n k.
Proof. unfold key_encrypt. destruct (is_nil m || is_nil k); [discriminate| intros [= <-]; reflexivity]. Qed.

Lemma load_secret_events_ok C g s tape k id e :
  secret_kind k = true -> In e (o_events (load_secret C g s tape k id)) -> event_ok g e.
Proof.
  intros Hk. unfold load_secret.
  destruct (validate_id id) eqn:Hv; cbn [negb]; [|intros []].
  destruct (lookup (v1_fname k id) (cache s)) as [enc|].
  - destruct (key_decrypt C (cache_key g) (v1_kctx k id) enc); intros [].
  - destruct (lookup (priv_path g k id) (files s)) as [enc|]; [|intros []].
    destruct (key_decrypt C (master g) (v1_kctx k id) enc) as [key|]; [|intros []].
    destruct tape as [|n tape']; [intros []|].
    destruct (key_encrypt (cache_key g) (v1_kctx k id) n key) as [t|] eqn:Ht; [|intros []].
    apply key_encrypt_some in Ht. subst t. cbn [o_events In].
    intros [<-|[]]. cbn. exists k, id. repeat split; auto.
Qed.

Lemma step_events_ok C g s tape o e :
  In e (o_events (step C g s tape o)) -> event_ok g e.
Proof.
  destruct o as [id|id|id|id|id|id|id|k1 id1 k2 id2|]; cbn [step].
  - (* GenSym *)
    destruct (validate_id id) eqn:Hv; cbn [negb]; [|intros []].
    destruct tape as [|key [|n tape']]; try (intros []).
    destruct (key_encrypt (master g) (v1_kctx KStorageSym id) n key) as [t|] eqn:Ht; [|intros []].
    apply key_encrypt_some in Ht. subst t. cbn [o_events In]. intros [<-|[]].
    cbn. exists KStorageSym, id. repeat split; auto.
  - (* GenHmac *)
    destruct (validate_id id) eqn:Hv; cbn [negb]; [|intros []].
    destruct tape as [|key [|n1 [|n2 tape']]]; try (intros []).
    destruct (key_encrypt (master g) (v1_kctx KHmac id) n1 key) as [t1|] eqn:Ht1; [|intros []].
    destruct (key_encrypt (cache_key g) (v1_kctx KHmac id) n2 key) as [t2|] eqn:Ht2; [|intros []].
    apply key_encrypt_some in Ht1, Ht2. subst t1 t2. cbn [o_events In].
    intros [<-|[<-|[]]]; cbn; exists KHmac, id; repeat split; auto.
  - (* GenPair *)
    destruct (validate_id id) eqn:Hv; cbn [negb]; [|intros []].
    destruct tape as [|seed [|n1 [|n2 tape']]]; try (intros []).
    destruct (keypair C seed) as [priv pub].
    destruct (key_encrypt (master g) (v1_kctx KStoragePriv id) n1 priv) as [t1|] eqn:Ht1; [|intros []].
    destruct (key_encrypt (cache_key g) (v1_kctx KStoragePriv id) n2 priv) as [t2|] eqn:Ht2; [|intros []].
    apply key_encrypt_some in Ht1, Ht2. subst t1 t2. cbn [o_events In].
    intros [<-|[<-|[<-|[<-|[]]]]]; cbn.
    + exists KStoragePriv, id; repeat split; auto.
    + exists id; split; auto.
    + exists KStoragePriv, id; repeat split; auto.
    + exists id; split; auto.
  - apply load_secret_events_ok; reflexivity.
  - apply load_secret_events_ok; reflexivity.
  - apply load_secret_events_ok; reflexivity.
  - (* GetPub *)
    destruct (validate_id id) eqn:Hv; cbn [negb]; [|intros []].
    destruct (lookup (priv_path g KStoragePub id) (cache s)); [intros []|].
    destruct (lookup (priv_path g KStoragePub id) (files s)); [|intros []].
    cbn [o_events In]. intros [<-|[]]. cbn. exists id. split; auto.
  - destruct (lookup (priv_path g k1 id1) (files s)); intros [].
  - intros [].
Qed.

(** INVARIANT over all histories, all tapes, all starting states, any crypto instance:
    every byte string handed to Storage.WriteFile or cache.Add is well-formed as above. *)
Theorem stored_secrets_sealed C g s tape ops e :
  In e (trace C g s tape ops) -> event_ok g e.
Proof.
  unfold trace. revert s tape.
  induction ops as [|o ops IH]; intros s tape; cbn [run_hist flat_map]; [intros []|].
  intros Hin. apply in_app_or in Hin as [Hin|Hin].
  - eapply step_events_ok; exact Hin.
  - eapply IH; exact Hin.
Qed.

(** consequence in the words of the property: nothing goes in clear to a private sink *)
Corollary private_sinks_never_plain C g s tape ops snk b k id :
  In (snk, Plain b) (trace C g s tape ops) -> names g snk k id -> secret_kind k = true ->
  exists id', validate_id id' = true /\ names g snk KStoragePub id'.
Proof. intros Hin _ _. apply stored_secrets_sealed in Hin. exact Hin. Qed.

(** ---------- owner binding ---------- *)
(** an AEAD forgery witness: a seal made under one associated-data string opens under another *)
Definition forgery (C : crypto) : Prop :=
  exists k c c' n m m', c <> c' /\ seal_dec C k c' (seal_enc C k c n m) = Some m'.

(** loading (cold cache) a file whose content was sealed for context [c1] under the name of
    ([k2],[id2]) succeeds only if the binding contexts are equal — or the AEAD was forged *)
Theorem load_after_swap_fails C g s tape k2 id2 c1 n key v :
  lookup (priv_path g k2 id2) (files s) = Some (encode C (Sealed (master g) c1 n key)) ->
  lookup (v1_fname k2 id2) (cache s) = None ->
  o_res (load_secret C g s tape k2 id2) = Ok v ->
  c1 = kctx_bytes (v1_kctx k2 id2) \/ forgery C.
Proof.
  intros Hf Hc. unfold load_secret. rewrite Hc, Hf.
  destruct (validate_id id2); cbn [negb]; [|discriminate].
  destruct (key_decrypt C (master g) (v1_kctx k2 id2) (encode C (Sealed (master g) c1 n key))) as [x|] eqn:Hd;
    [|discriminate].
  intros _. cbn [encode] in Hd. unfold key_decrypt, cell_decrypt in Hd.
  destruct (is_nil (master g) || is_nil (seal_enc C (master g) c1 n key)); [discriminate|].
  destruct (bytes_eqb c1 (kctx_bytes (v1_kctx k2 id2))) eqn:E.
  - left. apply bytes_eqb_eq. exact E.
  - right. apply bytes_eqb_neq in E.
    exists (master g), c1, (kctx_bytes (v1_kctx k2 id2)), n, key, x. split; assumption.
Qed.

(** the same on a history: a key file honestly written for ([k1],[id1]) is copied over the
    name of ([k2],[id2]), the cache is reset, the key of ([k2],[id2]) is loaded *)
Theorem copy_then_load_fails C g s tape k1 id1 k2 id2 n key v :
  lookup (priv_path g k1 id1) (files s) = Some (encode C (Sealed (master g) (kctx_bytes (v1_kctx k1 id1)) n key)) ->
  let s1 := o_st (step C g s tape (CopyFile k1 id1 k2 id2)) in
  let s2 := o_st (step C g s1 tape ResetCache) in
  o_res (load_secret C g s2 tape k2 id2) = Ok v ->
  id1 = id2 \/ forgery C.
Proof.
  intros Hf s1 s2 Hl. subst s1 s2. cbn [step] in Hl. rewrite Hf in Hl. cbn [o_st files cache] in Hl.
  eapply (load_after_swap_fails C g _ tape k2 id2 _ n key v) in Hl.
  - exact Hl.
  - cbn [files put lookup]. rewrite bytes_eqb_refl. reflexivity.
  - reflexivity.
Qed.

(** REFUTED half of "bound to owner AND purpose": v1's associated data is the owner id alone, so a
    key file copied to another PURPOSE of the same owner loads.  Witness on the stand-in:
    the HMAC key of "client" copied to "client_storage_sym" is returned as its storage key. *)
Definition w_cfg : cfg := {| master := repeat_bytes x07 32; cache_key := repeat_bytes x09 32;
                             key_dir := [x2f; x6b; x73] |}.
Definition w_id : bytes := [x63; x6c; x69; x65; x6e; x74].
Definition w_tape : list bytes := [repeat_bytes x41 32; repeat_bytes x01 12; repeat_bytes x02 12; repeat_bytes x03 12].
Definition w_ops : list kop := [GenHmac w_id; CopyFile KHmac w_id KStorageSym w_id; ResetCache; GetSym w_id].
Definition w_last := Eval vm_compute in option_map o_res (nth_error (run_hist Stub w_cfg st0 w_tape w_ops) 3).

Theorem v1_purpose_not_bound_refuted :
  exists g tape id hmac_key,
    KHmac <> KStorageSym /\
    option_map o_res (nth_error (run_hist Stub g st0 tape
        [GenHmac id; CopyFile KHmac id KStorageSym id; ResetCache; GetSym id]) 3) = Some (Ok hmac_key) /\
    nth_error tape 0 = Some hmac_key.
Proof.
  exists w_cfg, w_tape, w_id, (repeat_bytes x41 32). split; [discriminate|]. split; vm_compute; reflexivity.
Qed.

(** … while the copy to another OWNER is refused (stand-in instance; in general: [copy_then_load_fails]) *)
Definition w_id2 : bytes := [x63; x6c; x69; x65; x6e; x75].
Example other_owner_refused :
  option_map o_res (nth_error (run_hist Stub w_cfg st0 w_tape
      [GenHmac w_id; CopyFile KHmac w_id KHmac w_id2; ResetCache; GetHmac w_id2]) 3) = Some (Err E_DECRYPTION).
Proof. vm_compute. reflexivity. Qed.

(** non-vacuity of [stored_secrets_sealed]: the witness history produces events *)
Example trace_nonempty : length (trace Stub w_cfg st0 w_tape w_ops) = 3.
Proof. vm_compute. reflexivity. Qed.
(** non-vacuity of [load_after_swap_fails]: an honest load satisfies the premises *)
Example honest_load_ok :
  option_map o_res (nth_error (run_hist Stub w_cfg st0 w_tape [GenHmac w_id; ResetCache; GetHmac w_id]) 2)
  = Some (Ok (repeat_bytes x41 32)).
Proof. vm_compute. reflexivity. Qed.
