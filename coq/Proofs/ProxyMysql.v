(** C04 (MySQL path) proofs: the MySQL VALUES handling agrees with the session model on every statement MySQL
    executes and is pointwise protective on the others; the literal coding steps between statement text and
    stored value are loss-free in both directions. *)
From Acra Require Import Lib.Bytes Lib.Outcome Crypto.Interface Gen.Prec Model.SqlExpr Model.Bytea Model.Envelope
  Model.Proxy Model.ProxyMysql Proofs.SqlEscape Proofs.Bytea Proofs.Proxy.
From Coq Require Import ZifyN ZifyNat ZifyBool.
Local Open Scope N_scope.

(** * 1. VALUES tuples *)
Section Rows.
Variable C : crypto.
Variable cfg : config.
Variable kr : keyring.
Variable conn : bytes.

Lemma protect_rows_my_fit : forall (rows : list (list bytes)) ccs tapes,
  rows_fit ccs rows ->
  protect_rows_my C kr conn ccs tapes rows = protect_rows C kr conn ccs tapes rows.
Proof.
  induction rows as [|r rows IH]; intros ccs tapes H; [reflexivity|].
  cbn [protect_rows_my protect_rows].
  assert (Hr : (length r <= length ccs)%nat) by (apply H; left; reflexivity).
  destruct (Nat.ltb (length ccs) (length r)) eqn:E; [apply Nat.ltb_lt in E; lia|].
  rewrite IH; [reflexivity|]. intros r' Hr'. apply H. right. exact Hr'.
Qed.

Lemma proxy_write_my_fit (st : stmt) tapes :
  (forall tbl cols rows ret ccs, st = Insert tbl cols rows ret ->
     insert_columns cfg tbl cols = Some ccs -> rows_fit ccs rows) ->
  proxy_write_my C cfg kr conn st tapes = proxy_write C cfg kr conn st tapes.
Proof.
  intros H. destruct st as [tbl cols rows ret| | |]; try reflexivity.
  cbn [proxy_write_my proxy_write]. destruct (insert_columns cfg tbl cols) as [ccs|] eqn:E; [|reflexivity].
  rewrite (protect_rows_my_fit rows ccs tapes); [reflexivity|].
  exact (H tbl cols rows ret ccs eq_refl E).
Qed.

Lemma protect_rows_my_pointwise : forall (rows : list (list bytes)) ccs tapes out,
  protect_rows_my C kr conn ccs tapes rows = Ok out ->
  length out = length rows /\
  forall i, (i < length rows)%nat ->
    let r := nth i rows [] in
    let off := length (concat (firstn i rows)) in
    protect_list C kr conn ccs (firstn (length r) (skipn off tapes)) r = Ok (nth i out []).
Proof.
  induction rows as [|r rows IH]; intros ccs tapes out H; cbn [protect_rows_my] in H.
  - inversion H. split; [reflexivity|]. intros i Hi. cbn in Hi. lia.
  - destruct (protect_list C kr conn ccs (firstn (length r) tapes) r) as [r'| |] eqn:Er; cbn [bind] in H; try discriminate.
    destruct (protect_rows_my C kr conn ccs (skipn (length r) tapes) rows) as [rest| |] eqn:Es; cbn [bind] in H; try discriminate.
    inversion H; subst out. destruct (IH _ _ _ Es) as [Hl Hp].
    split; [cbn [length]; lia|]. intros i Hi. destruct i as [|i].
    + cbn [nth firstn concat length skipn]. exact Er.
    + cbn [length] in Hi. specialize (Hp i ltac:(lia)). cbn [nth firstn concat].
      rewrite app_length, skipn_add. exact Hp.
Qed.
End Rows.

(** * 2. hex / bits *)
Lemma upper_hex_digit k : k < 16 -> from_hex_char (b2n (upper_byte (hex_digit k))) = Some k.
Proof.
  intros Hk. unfold hex_digit, upper_byte.
  destruct (k <? 10) eqn:E.
  - apply N.ltb_lt in E. rewrite b2n_n2b. replace ((48 + k) mod 256) with (48 + k) by (symmetry; apply N.mod_small; lia).
    destruct ((97 <=? 48 + k) && (48 + k <=? 122)) eqn:E2; [lia|].
    rewrite b2n_n2b. replace ((48 + k) mod 256) with (48 + k) by (symmetry; apply N.mod_small; lia).
    unfold from_hex_char.
    destruct ((48 <=? 48 + k) && (48 + k <=? 57)) eqn:E3; [f_equal; lia|lia].
  - apply N.ltb_ge in E. rewrite b2n_n2b. replace ((87 + k) mod 256) with (87 + k) by (symmetry; apply N.mod_small; lia).
    destruct ((97 <=? 87 + k) && (87 + k <=? 122)) eqn:E2; [|lia].
    rewrite b2n_n2b. replace ((87 + k - 32) mod 256) with (55 + k) by (rewrite N.mod_small; lia).
    unfold from_hex_char.
    destruct ((48 <=? 55 + k) && (55 + k <=? 57)) eqn:E3; [lia|].
    destruct ((97 <=? 55 + k) && (55 + k <=? 102)) eqn:E4; [lia|].
    destruct ((65 <=? 55 + k) && (55 + k <=? 70)) eqn:E5; [f_equal; lia|lia].
Qed.

Lemma hex_upper_roundtrip d : hex_decode (to_upper (hex_encode d)) = Ok d.
Proof.
  induction d as [|b r IH]; [reflexivity|].
  cbn [hex_encode to_upper map hex_decode].
  pose proof (b2n_lt b) as Hb.
  rewrite (upper_hex_digit (b2n b / 16)) by (apply N.div_lt_upper_bound; lia).
  rewrite (upper_hex_digit (b2n b mod 16)) by (apply N.mod_lt; lia).
  fold (to_upper (hex_encode r)). rewrite IH. cbn [bind].
  f_equal. f_equal. rewrite <- (n2b_b2n b) at 3. f_equal.
  rewrite N.mul_comm. symmetry. apply N.div_mod. lia.
Qed.

Lemma hex_encode_length d : length (hex_encode d) = (2 * length d)%nat.
Proof. induction d as [|b r IH]; [reflexivity|]. cbn [hex_encode length]. lia. Qed.

Lemma odd_double n : Nat.odd (2 * n) = false.
Proof. rewrite Nat.odd_mul. reflexivity. Qed.

Lemma pad_even_hex d : pad_even (hex_encode d) = hex_encode d.
Proof. unfold pad_even. rewrite hex_encode_length, odd_double. reflexivity. Qed.

Lemma pad_even_upper_hex d : pad_even (to_upper (hex_encode d)) = to_upper (hex_encode d).
Proof. unfold pad_even, to_upper. rewrite map_length, hex_encode_length, odd_double. reflexivity. Qed.

(* the first digit of a byte below 16 is '0': dropping it is what 0x<odd> spells *)
Lemma hex_encode_small_head b r : b2n b < 16 -> hex_encode (b :: r) = x30 :: tl (hex_encode (b :: r)).
Proof.
  intros Hb. cbn [hex_encode tl]. f_equal.
  rewrite N.div_small by exact Hb. reflexivity.
Qed.

Lemma pad_even_odd_tail b r : pad_even (tl (hex_encode (b :: r))) = x30 :: tl (hex_encode (b :: r)).
Proof.
  unfold pad_even. cbn [hex_encode tl length]. rewrite hex_encode_length.
  replace (S (2 * length r)) with (1 + 2 * length r)%nat by lia.
  rewrite Nat.odd_add, odd_double. reflexivity.
Qed.

(** bits *)
Lemma testbit_split n k : N.testbit n k = true -> n mod 2 ^ N.succ k = 2 ^ k + n mod 2 ^ k.
Proof.
  intros H. pose proof (N.testbit_spec' n k) as S. rewrite H in S. cbn [N.b2n] in S.
  rewrite N.pow_succ_r', (N.mul_comm 2).
  rewrite N.mod_mul_r by (try apply N.pow_nonzero; lia).
  rewrite <- S. lia.
Qed.
Lemma testbit_split0 n k : N.testbit n k = false -> n mod 2 ^ N.succ k = n mod 2 ^ k.
Proof.
  intros H. pose proof (N.testbit_spec' n k) as S. rewrite H in S. cbn [N.b2n] in S.
  rewrite N.pow_succ_r', (N.mul_comm 2).
  rewrite N.mod_mul_r by (try apply N.pow_nonzero; lia).
  rewrite <- S. lia.
Qed.

Lemma bits_acc_byte_from : forall k n acc rest,
  bits_acc (byte_bits_from k n ++ rest) acc = bits_acc rest (acc * 2 ^ N.of_nat k + n mod 2 ^ N.of_nat k).
Proof.
  induction k as [|k IH]; intros n acc rest.
  - cbn [byte_bits_from app]. change (N.of_nat 0) with 0. rewrite N.pow_0_r, N.mod_1_r. f_equal. lia.
  - cbn [byte_bits_from app bits_acc].
    assert (P : 2 ^ N.of_nat (S k) = 2 * 2 ^ N.of_nat k) by (rewrite Nat2N.inj_succ, N.pow_succ_r'; reflexivity).
    destruct (N.testbit n (N.of_nat k)) eqn:T.
    + change (byte_eqb x31 x30) with false. change (byte_eqb x31 x31) with true. cbv iota.
      rewrite IH. f_equal. rewrite Nat2N.inj_succ, (testbit_split _ _ T), N.pow_succ_r'. lia.
    + change (byte_eqb x30 x30) with true. cbv iota.
      rewrite IH. f_equal. rewrite Nat2N.inj_succ, (testbit_split0 _ _ T), N.pow_succ_r'. lia.
Qed.

Lemma le_dec_snoc l b : le_dec (l ++ [b]) = le_dec l + b2n b * 256 ^ N.of_nat (length l).
Proof.
  induction l as [|a l IH].
  - cbn [app le_dec length]. change (N.of_nat 0) with 0. rewrite N.pow_0_r. lia.
  - cbn [app le_dec length]. rewrite IH, Nat2N.inj_succ, N.pow_succ_r'. lia.
Qed.

Lemma be_dec_cons b r : be_dec (b :: r) = b2n b * 256 ^ N.of_nat (length r) + be_dec r.
Proof.
  unfold be_dec. cbn [rev]. rewrite le_dec_snoc, rev_length. lia.
Qed.

Lemma bits_acc_bits_of : forall x acc,
  bits_acc (bits_of x) acc = Ok (acc * 256 ^ N.of_nat (length x) + be_dec x).
Proof.
  induction x as [|b r IH]; intros acc.
  - cbn. f_equal. lia.
  - unfold bits_of. cbn [flat_map]. unfold byte_bits. rewrite bits_acc_byte_from. fold (bits_of r).
    rewrite IH. f_equal. rewrite be_dec_cons. cbn [length].
    replace (2 ^ N.of_nat 8) with 256 by reflexivity.
    pose proof (b2n_lt b) as Hb. rewrite (N.mod_small (b2n b) 256 Hb).
    rewrite (Nat2N.inj_succ (length r)), N.pow_succ_r'. lia.
Qed.

Lemma bits_of_length x : length (bits_of x) = (8 * length x)%nat.
Proof. induction x as [|b r IH]; [reflexivity|]. unfold bits_of in *. cbn [flat_map]. rewrite app_length, IH. cbn. lia. Qed.

Lemma decode_bits_roundtrip x : decode_bits (bits_of x) = Ok x.
Proof.
  unfold decode_bits. rewrite bits_acc_bits_of. cbn [bind]. rewrite bits_of_length.
  replace (Nat.div (8 * length x + 7) 8) with (length x).
  - rewrite N.mul_0_l, N.add_0_l, be_enc_dec. reflexivity.
  - apply Nat.div_unique with (r := 7%nat); lia.
Qed.

(** * 3. client spelling -> plaintext (Tokenizer + DBDataCoder.Decode) *)
Lemma decode_str v : coder_decode VT_StrVal v = Ok v.
Proof. reflexivity. Qed.
Lemma decode_hexval x : coder_decode VT_HexVal (hex_encode x) = Ok x.
Proof. unfold coder_decode. cbn. apply hex_roundtrip. Qed.
Lemma decode_hexval_upper x : coder_decode VT_HexVal (to_upper (hex_encode x)) = Ok x.
Proof. unfold coder_decode. cbn. apply hex_upper_roundtrip. Qed.
Lemma decode_hexnum x : coder_decode VT_HexNum (hexnum_prefix ++ hex_encode x) = Ok x.
Proof. unfold coder_decode. cbn -[hex_decode pad_even hex_encode]. rewrite pad_even_hex. apply hex_roundtrip. Qed.
Lemma decode_hexnum_upper x : coder_decode VT_HexNum (hexnum_prefix ++ to_upper (hex_encode x)) = Ok x.
Proof. unfold coder_decode. cbn -[hex_decode pad_even hex_encode to_upper]. rewrite pad_even_upper_hex. apply hex_upper_roundtrip. Qed.
Lemma decode_hexnum_odd b r : b2n b < 16 ->
  coder_decode VT_HexNum (hexnum_prefix ++ tl (hex_encode (b :: r))) = Ok (b :: r).
Proof.
  intros Hb. unfold coder_decode. cbn -[hex_decode pad_even hex_encode].
  rewrite pad_even_odd_tail, <- (hex_encode_small_head b r Hb). apply hex_roundtrip.
Qed.
Lemma decode_bitval x : coder_decode VT_BitVal (bits_of x) = Ok x.
Proof. unfold coder_decode. cbn -[decode_bits]. apply decode_bits_roundtrip. Qed.

(** * 4. stored literal -> what the server stores *)
Definition my_esc_check (c : byte) : bool :=
  match assoc_byte SQL_ENCODE_MAP c with
  | Some e => negb (byte_eqb e x25) && negb (byte_eqb e x5f) &&
              match assoc_byte MYSQL_ESCAPES e with Some c' => byte_eqb c' c | None => false end
  | None => negb (byte_eqb c x5c) && negb (byte_eqb c x27)
  end.
Lemma my_esc_check_all c : my_esc_check c = true.
Proof. destruct c; vm_compute; reflexivity. Qed.

Lemma my_enc_some c e :
  assoc_byte SQL_ENCODE_MAP c = Some e ->
  (byte_eqb e x25 || byte_eqb e x5f) = false /\ assoc_byte MYSQL_ESCAPES e = Some c.
Proof.
  intros H. pose proof (my_esc_check_all c) as K. unfold my_esc_check in K. rewrite H in K.
  apply Bool.andb_true_iff in K. destruct K as [K1 K2]. apply Bool.andb_true_iff in K1. destruct K1 as [K0 K1].
  apply Bool.negb_true_iff in K0. apply Bool.negb_true_iff in K1.
  split; [rewrite K0, K1; reflexivity|].
  destruct (assoc_byte MYSQL_ESCAPES e) as [c'|]; [|discriminate K2].
  apply byte_eqb_eq in K2. subst c'. reflexivity.
Qed.

Lemma my_enc_none c :
  assoc_byte SQL_ENCODE_MAP c = None -> byte_eqb c x5c = false /\ byte_eqb c x27 = false.
Proof.
  intros H. pose proof (my_esc_check_all c) as K. unfold my_esc_check in K. rewrite H in K.
  apply Bool.andb_true_iff in K. destruct K as [K1 K2].
  split; apply Bool.negb_true_iff; assumption.
Qed.

Lemma my_scan_escape_body (v : bytes) : forall (acc : bytes),
  my_scan x27 acc (escape_body v ++ [x27]) = Some (acc ++ v, []).
Proof.
  induction v as [|c v IH]; intros acc.
  - cbn [escape_body app my_scan]. change (byte_eqb x27 x5c) with false. change (byte_eqb x27 x27) with true.
    cbv iota. rewrite app_nil_r. reflexivity.
  - cbn [escape_body]. destruct (assoc_byte SQL_ENCODE_MAP c) as [e|] eqn:E.
    + destruct (my_enc_some _ _ E) as [Hx Hd].
      cbn [app my_scan]. change (byte_eqb x_bslash x5c) with true. cbv iota. rewrite Hx, Hd.
      rewrite IH. rewrite <- app_assoc. reflexivity.
    + destruct (my_enc_none _ E) as [Hb Hq].
      cbn [app my_scan]. rewrite Hb, Hq.
      rewrite IH. rewrite <- app_assoc. reflexivity.
Qed.

Lemma enc_body_plain v : starts_with bslash_x v = false -> enc_body v = escape_body v.
Proof.
  intros H. unfold enc_body. destruct v as [|c [|d v']]; try reflexivity.
  destruct (byte_eqb c x_bslash && byte_eqb d x78) eqn:E; [|reflexivity].
  apply Bool.andb_true_iff in E. destruct E as [Ec Ed].
  apply byte_eqb_eq in Ec. apply byte_eqb_eq in Ed. subst c d.
  cbn in H. discriminate H.
Qed.

Lemma read_strval v : starts_with bslash_x v = false -> my_read_literal (format_lit VT_StrVal v) = Ok v.
Proof.
  intros H. unfold format_lit. cbn -[encode_sql my_read_literal]. unfold encode_sql. rewrite (enc_body_plain v H).
  unfold x_quote. cbn [app]. unfold my_read_literal.
  change (byte_eqb x27 x27 || byte_eqb x27 x22) with true. cbv iota.
  rewrite (my_scan_escape_body v []). reflexivity.
Qed.

Lemma strip_quote_app h : strip_quote (h ++ [x27]) = Some h.
Proof.
  unfold strip_quote. destruct (h ++ [x27]) as [|a l] eqn:E; [destruct h; discriminate E|].
  rewrite <- E. rewrite last_last, removelast_last. reflexivity.
Qed.

Lemma read_hexval d : my_read_literal (format_lit VT_HexVal (hex_encode d)) = Ok d.
Proof.
  unfold format_lit. cbn -[hex_encode my_read_literal]. unfold my_read_literal.
  change ((byte_eqb x58 x27 || byte_eqb x58 x22)) with false. cbv iota.
  change ((byte_eqb x58 x58 || byte_eqb x58 x78) && byte_eqb x27 x27) with true. cbv iota.
  rewrite strip_quote_app, hex_roundtrip. reflexivity.
Qed.

Lemma read_hexnum d : d <> [] -> my_read_literal (format_lit VT_HexNum (hexnum_prefix ++ to_upper (hex_encode d))) = Ok d.
Proof.
  intros Hd. unfold format_lit. cbn -[hex_encode to_upper my_read_literal]. unfold hexnum_prefix.
  cbn [app]. unfold my_read_literal.
  change (byte_eqb x30 x27 || byte_eqb x30 x22) with false. cbv iota.
  change ((byte_eqb x30 x58 || byte_eqb x30 x78) && byte_eqb x78 x27) with false. cbv iota.
  change ((byte_eqb x30 x42 || byte_eqb x30 x62) && byte_eqb x78 x27) with false. cbv iota.
  change (byte_eqb x30 x30 && byte_eqb x78 x78) with true. cbv iota.
  destruct d as [|b r]; [congruence|].
  rewrite pad_even_upper_hex, hex_upper_roundtrip.
  cbn [hex_encode to_upper map]. reflexivity.
Qed.

(** * 5. one literal end to end: client spelling -> UpdateExpressionValue -> text -> server *)
Section EndToEnd.
Variable utf8_valid : bytes -> bool.
Variable is_atoi : bytes -> bool.

Lemma stored_value k data k' v' :
  data <> [] ->
  coder_encode utf8_valid is_atoi k data = Ok (k', v') ->
  (k' = VT_StrVal -> starts_with bslash_x data = false) ->
  k' <> VT_IntVal ->
  my_read_literal (format_lit k' v') = Ok data.
Proof.
  intros Hne H Hs Hi. unfold coder_encode in H.
  destruct (k =? VT_IntVal).
  { destruct (is_atoi data); inversion H; subst; [congruence|apply read_hexval]. }
  destruct (k =? VT_StrVal).
  { destruct (utf8_valid data); inversion H; subst; [apply read_strval; apply Hs; reflexivity|apply read_hexval]. }
  destruct ((k =? VT_HexVal) || (k =? VT_BitVal)).
  { inversion H; subst. apply read_hexval. }
  destruct (k =? VT_HexNum); [|discriminate H].
  inversion H; subst. apply read_hexnum. exact Hne.
Qed.

Lemma update_value_changed f k v x c :
  coded_kind k = true -> coder_decode k v = Ok x -> f x = Ok c -> c <> x ->
  update_value utf8_valid is_atoi f k v = coder_encode utf8_valid is_atoi k c.
Proof.
  intros Hk Hd Hf Hc. unfold update_value. rewrite Hk, Hd. rewrite Hf. cbn [bind].
  destruct (bytes_eqb c x) eqn:E; [apply bytes_eqb_eq in E; congruence|reflexivity].
Qed.

Lemma update_value_same f k v x :
  coder_decode k v = Ok x -> f x = Ok x -> update_value utf8_valid is_atoi f k v = Ok (k, v).
Proof.
  intros Hd Hf. unfold update_value. destruct (coded_kind k); [|reflexivity].
  rewrite Hd. rewrite Hf. cbn [bind]. rewrite bytes_eqb_refl. reflexivity.
Qed.

Lemma coder_encode_total k c : coded_kind k = true -> exists k' v', coder_encode utf8_valid is_atoi k c = Ok (k', v').
Proof.
  intros Hk. unfold coder_encode.
  destruct (k =? VT_IntVal) eqn:E1; [destruct (is_atoi c); eauto|].
  destruct (k =? VT_StrVal) eqn:E2; [destruct (utf8_valid c); eauto|].
  destruct (k =? VT_HexVal) eqn:E3; [cbn; eauto|]. destruct (k =? VT_BitVal) eqn:E4; [cbn; eauto|].
  destruct (k =? VT_HexNum) eqn:E5; [cbn; eauto|].
  unfold coded_kind in Hk. rewrite E1, E2, E3, E4, E5 in Hk. discriminate Hk.
Qed.
End EndToEnd.
